(* C09 - Interval, Boolean, Decimal, Enum, Uuid, JSON / Pickle, and TypeDecorator steps under nesting *)
From Coq Require Import List NArith ZArith Bool Lia Zify.
Import ListNotations.
From SAV.sql Require Import Types TypesStrProofs TypesDateProofs.

Ltac Zify.zify_post_hook ::= Z.div_mod_to_equations.

(* ---------- Interval ---------- *)
Open Scope Z_scope.
Lemma time_of_us_ok : forall r, 0 <= r < us_per_day ->
  valid_time (time_of_us r) = true /\ us_of_time (time_of_us r) = r.
Proof.
  intros r Hr. unfold us_per_day in Hr. split.
  - unfold valid_time, time_of_us. cbn [th tmi ts tus].
    repeat (apply andb_true_iff; split); apply N.ltb_lt; lia.
  - unfold us_of_time, time_of_us. cbn [th tmi ts tus].
    rewrite !Z2N.id by lia. lia.
Qed.

Theorem interval_roundtrip : ordinal_law -> forall td,
  1 <= epoch_ord + td / us_per_day <= max_ord ->
  exists w, bind_interval (Some td) = Ok (Some w) /\ result_interval (Some w) = POk (Some td).
Proof.
  intros Hlaw td Hr. unfold bind_interval, epoch_plus.
  replace ((1 <=? epoch_ord + td / us_per_day) && (epoch_ord + td / us_per_day <=? max_ord)) with true
    by (symmetry; apply andb_true_iff; split; apply Z.leb_le; lia).
  cbn [bind_datetime]. eexists. split; [reflexivity|].
  destruct (Hlaw _ Hr) as [Hv Ho].
  assert (Hm : 0 <= td mod us_per_day < us_per_day) by (apply Z.mod_pos_bound; reflexivity).
  destruct (time_of_us_ok _ Hm) as [Ht Hu].
  unfold result_interval, result_iso. rewrite iso_datetime_roundtrip by assumption.
  unfold minus_epoch. rewrite Ho, Hu. do 2 f_equal.
  pose proof (Z.div_mod td us_per_day). unfold us_per_day in *. lia.
Qed.

Theorem interval_out_of_range : forall td,
  ~ (1 <= epoch_ord + td / us_per_day <= max_ord) -> bind_interval (Some td) = Raise OverflowError.
Proof.
  intros td H. unfold bind_interval, epoch_plus.
  destruct ((1 <=? epoch_ord + td / us_per_day) && (epoch_ord + td / us_per_day <=? max_ord)) eqn:E; [|reflexivity].
  exfalso. apply H. apply andb_true_iff in E as [E1 E2]. apply Z.leb_le in E1, E2. lia.
Qed.

(* ---------- Boolean ---------- *)
Theorem boolean_roundtrip : forall b : bool,
  exists w, bind_boolean (Some (if b then BTrue else BFalse)) = Ok (Some w) /\ int_to_boolean (Some w) = Some b.
Proof. intros [|]; eexists; split; reflexivity. Qed.
Theorem boolean_none : bind_boolean None = Ok None /\ int_to_boolean None = None.
Proof. split; reflexivity. Qed.

(* ---------- Numeric / Float ---------- *)
Theorem decimal_roundtrip_scale : forall s v, (d_e v <= s)%N -> dec_eqb (to_decimal s v) v = true.
Proof.
  intros s [k e] H. cbn [d_e] in H. unfold to_decimal, dec_eqb. cbn [d_k d_e].
  apply N.leb_le in H. rewrite H. cbn [d_k d_e]. apply N.leb_le in H. apply Z.eqb_eq.
  rewrite <- Z.mul_assoc. f_equal. rewrite <- Z.pow_add_r by lia. f_equal. lia.
Qed.

Theorem to_decimal_scale : forall s v, d_e (to_decimal s v) = s.
Proof. intros s v. unfold to_decimal. destruct (d_e v <=? s)%N; reflexivity. Qed.

(* on a dialect without native decimals (SQLite): floats go out, Decimals at the effective scale come back *)
Theorem numeric_processors_non_native : forall t,
  num_bind_proc false t = ToFloat /\
  num_result_proc false t = if n_asdecimal t then ToDecimal (effective_scale t) else NoProc.
Proof. intros [fl ad sc drs]. unfold num_bind_proc, num_result_proc. cbn. destruct fl, ad; auto. Qed.

Theorem effective_scale_precedence : forall t,
  effective_scale t = match n_drs t, n_scale t with Some r, _ => r | None, Some s => s | None, None => 10%N end.
Proof. intros [fl ad [s|] [r|]]; reflexivity. Qed.

(* ---------- Uuid ---------- *)
Open Scope N_scope.
Lemma hexval_hexchar : forall d, d < 16 -> hexval (hexchar d) = Some d.
Proof.
  intros d H. unfold hexval, hexchar. destruct (d <? 10) eqn:E.
  - apply N.ltb_lt in E. replace ((48 <=? 48 + d) && (48 + d <=? 57)) with true
      by (symmetry; apply andb_true_iff; split; apply N.leb_le; lia). f_equal. lia.
  - apply N.ltb_ge in E. replace ((48 <=? 87 + d) && (87 + d <=? 57)) with false
      by (symmetry; apply andb_false_iff; right; apply N.leb_gt; lia).
    replace ((97 <=? 87 + d) && (87 + d <=? 102)) with true
      by (symmetry; apply andb_true_iff; split; apply N.leb_le; lia). f_equal. lia.
Qed.

Lemma hexnum_app : forall a b acc,
  hexnum (a ++ b) acc = match hexnum a acc with Some v => hexnum b v | None => None end.
Proof.
  induction a as [|c r IH]; intros b acc; cbn [app hexnum]; [reflexivity|].
  destruct (hexval c); [apply IH|reflexivity].
Qed.

Lemma hexdigs_length : forall w n, length (hexdigs w n) = w.
Proof. induction w as [|w IH]; intros n; cbn [hexdigs]; [reflexivity|]. rewrite app_length, IH. cbn. lia. Qed.

Lemma hexnum_hexdigs : forall w n acc, n < 16 ^ N.of_nat w ->
  hexnum (hexdigs w n) acc = Some (acc * 16 ^ N.of_nat w + n).
Proof.
  induction w as [|w IH]; intros n acc H.
  - cbn in *. f_equal. lia.
  - cbn [hexdigs]. rewrite hexnum_app. rewrite Nat2N.inj_succ, N.pow_succ_r' in *.
    rewrite IH by (apply N.div_lt_upper_bound; lia).
    cbn [hexnum]. rewrite hexval_hexchar by (apply N.mod_lt; lia). f_equal.
    pose proof (N.div_mod n 16). pose proof (N.mod_lt n 16). nia.
Qed.

Theorem uuid_roundtrip : forall u, u < 2 ^ 128 -> result_uuid (bind_uuid (Some u)) = Ok (Some u).
Proof.
  intros u H. unfold bind_uuid, result_uuid. rewrite hexdigs_length. cbn [Nat.eqb].
  rewrite hexnum_hexdigs.
  - do 2 f_equal.
  - change (16 ^ N.of_nat 32) with (2 ^ 128). exact H.
Qed.
Theorem uuid_none : result_uuid (bind_uuid None) = Ok None.
Proof. reflexivity. Qed.

(* ---------- Enum ---------- *)
Lemma ekey_eqb_eq : forall a b, ekey_eqb a b = true <-> a = b.
Proof.
  destruct a, b; cbn; split; intro H; try discriminate.
  - apply N.eqb_eq in H. now subst.
  - injection H as ->. apply N.eqb_refl.
  - apply N.eqb_eq in H. now subst.
  - injection H as ->. apply N.eqb_refl.
Qed.

Lemma eget_app : forall {V} (a b : list (ekey * V)) k,
  eget (a ++ b) k = match eget b k with Some x => Some x | None => eget a k end.
Proof.
  intros V. induction a as [|[k0 v0] r IH]; intros b k; cbn [app eget].
  - destruct (eget b k); reflexivity.
  - rewrite IH. destruct (eget b k); reflexivity.
Qed.

Lemma eget_In : forall {V} (l : list (ekey * V)) k v, eget l k = Some v -> In (k, v) l.
Proof.
  intros V. induction l as [|[k0 v0] r IH]; intros k v H; cbn [eget] in H; [discriminate|].
  destruct (eget r k) eqn:E.
  - injection H as ->. right. now apply IH.
  - destruct (ekey_eqb k k0) eqn:E0; [|discriminate]. injection H as ->. apply ekey_eqb_eq in E0. subst. now left.
Qed.

Lemma In_eget : forall {V} (l : list (ekey * V)) k v, In (k, v) l -> exists v', eget l k = Some v'.
Proof.
  intros V. induction l as [|[k0 v0] r IH]; intros k v H; [destruct H|]. cbn [eget].
  destruct (eget r k) eqn:E; [eauto|]. destruct H as [H|H].
  - injection H as -> ->. replace (ekey_eqb k k) with true by (symmetry; now apply ekey_eqb_eq). eauto.
  - destruct (IH _ _ H) as [v' Hv']. congruence.
Qed.

Lemma eget_unique : forall {V} (l : list (ekey * V)) k v,
  (forall x, In (k, x) l -> x = v) -> (exists x, In (k, x) l) -> eget l k = Some v.
Proof.
  intros V l k v Hall [x Hx]. destruct (In_eget l k x Hx) as [v' Hv']. rewrite Hv'. f_equal.
  apply Hall. now apply eget_In.
Qed.

Lemma combine_app_eq : forall {A B} (a a' : list A) (b b' : list B), length a = length b ->
  combine (a ++ a') (b ++ b') = combine a b ++ combine a' b'.
Proof.
  intros A B. induction a as [|x a IH]; intros a' [|y b] b' H; try discriminate; [reflexivity|].
  cbn. injection H as H. now rewrite IH.
Qed.

Lemma combine_rev : forall {A B} (a : list A) (b : list B), length a = length b ->
  combine (rev a) (rev b) = rev (combine a b).
Proof.
  intros A B. induction a as [|x a IH]; intros [|y b] H; try discriminate; [reflexivity|].
  cbn [rev combine]. injection H as H. rewrite <- IH by assumption.
  rewrite combine_app_eq by (rewrite !rev_length; assumption). reflexivity.
Qed.

Lemma in_combine_swap : forall {A B} (a : list A) (b : list B) x y, In (x, y) (combine a b) -> In (y, x) (combine b a).
Proof.
  intros A B. induction a as [|x0 a IH]; intros [|y0 b] x y H; cbn [combine] in *; try (now destruct H).
  destruct H as [H|H].
  - injection H as -> ->. now left.
  - right. now apply IH.
Qed.

Lemma map_fst_combine : forall {A B} (a : list A) (b : list B), length a = length b -> map fst (combine a b) = a.
Proof.
  intros A B. induction a as [|x a IH]; intros [|y b] H; try discriminate; [reflexivity|].
  cbn. injection H as H. now rewrite IH.
Qed.

(* the last binding of a value string in _object_lookup, when the db values are pairwise distinct *)
Lemma object_lookup_get : forall (l : list (N * ekey)) v o, NoDup (map fst l) -> In (v, o) l ->
  eget (map (fun vo => (EStr (fst vo), snd vo)) l) (EStr v) = Some o.
Proof.
  induction l as [|[v0 o0] r IH]; intros v o Hn Hin; [destruct Hin|].
  cbn [map fst] in Hn. inversion Hn as [|? ? Hnot Hr]; subst. cbn [map eget fst snd].
  destruct Hin as [Hin|Hin].
  - injection Hin as -> ->.
    destruct (eget (map (fun vo => (EStr (fst vo), snd vo)) r) (EStr v)) eqn:E.
    + exfalso. apply eget_In, in_map_iff in E as ([v1 o1] & E1 & Hin1). cbn in E1. injection E1 as -> ->.
      apply Hnot. apply in_map_iff. exists (v, e). auto.
    + cbn [ekey_eqb]. now rewrite N.eqb_refl.
  - now rewrite (IH v o Hr Hin).
Qed.

Lemma extras_no_obj : forall t o,
  eget (flat_map (fun v => match eget (object_lookup t) (EStr v) with
                           | Some o' => match eget (valid_lookup0 t) o' with Some x => [(EStr v, x)] | None => [] end
                           | None => []
                           end) (e_values t)) (EObj o) = None.
Proof.
  intros t o. induction (e_values t) as [|v r IH]; [reflexivity|]. cbn [flat_map]. rewrite eget_app, IH.
  destruct (eget (object_lookup t) (EStr v)) as [o'|]; [|reflexivity].
  destruct (eget (valid_lookup0 t) o'); reflexivity.
Qed.

(* enum class members: every member survives the round trip when the db values are pairwise distinct *)
Theorem enum_roundtrip_members : forall t o,
  NoDup (e_values t) -> length (e_values t) = length (e_objects t) ->
  In (EObj o) (e_objects t) ->
  exists v, bind_enum t (Some (EObj o)) = Ok (Some v) /\ result_enum t (Some v) = Ok (Some (EObj o)).
Proof.
  intros t o Hnd Hlen Hin. unfold bind_enum, valid_lookup. rewrite eget_app, extras_no_obj.
  unfold valid_lookup0. rewrite combine_rev by (symmetry; exact Hlen).
  assert (Hex : exists v, In (EObj o, v) (combine (e_objects t) (e_values t))).
  { clear Hnd. revert Hlen Hin. generalize (e_values t). induction (e_objects t) as [|x objs IH]; intros [|v vals] Hlen Hin;
      try discriminate; [destruct Hin|]. destruct Hin as [->|Hin].
    - exists v. now left.
    - injection Hlen as Hlen. destruct (IH vals Hlen Hin) as [v' Hv']. exists v'. now right. }
  destruct Hex as [v0 Hv0].
  destruct (In_eget (rev (combine (e_objects t) (e_values t))) (EObj o) v0) as [v Hv]; [now apply -> in_rev|].
  rewrite Hv. exists v. split; [reflexivity|].
  apply eget_In, in_rev, in_combine_swap in Hv.
  unfold result_enum, object_lookup. rewrite (object_lookup_get _ v (EObj o)); [reflexivity| |assumption].
  now rewrite map_fst_combine.
Qed.

(* refuted without the guard: two members given the same db value by values_callable *)
Theorem enum_roundtrip_duplicate_values_refuted :
  exists t o v, In (EObj o) (e_objects t) /\ length (e_values t) = length (e_objects t) /\
    bind_enum t (Some (EObj o)) = Ok (Some v) /\ result_enum t (Some v) <> Ok (Some (EObj o)).
Proof.
  exists {| e_values := [7; 7]; e_objects := [EObj 0; EObj 1]; e_validate_strings := false |}, 0, 7.
  repeat split; try (cbn; tauto). cbn. discriminate.
Qed.

Lemma in_combine_map : forall {A B} (f : B -> A) (l : list B) a b, In (a, b) (combine (map f l) l) -> a = f b.
Proof.
  intros A B f. induction l as [|x l IH]; intros a b H; [destruct H|]. cbn in H. destruct H as [H|H].
  - now injection H as <- <-.
  - now apply IH.
Qed.

(* plain string enums: Enum("a", "b", ...) *)
Theorem enum_roundtrip_strings : forall vals vs s, NoDup vals -> In s vals ->
  let t := {| e_values := vals; e_objects := map EStr vals; e_validate_strings := vs |} in
  bind_enum t (Some (EStr s)) = Ok (Some s) /\ result_enum t (Some s) = Ok (Some (EStr s)).
Proof.
  intros vals vs s Hnd Hin t.
  assert (Hvl0 : forall k x, In (k, x) (valid_lookup0 t) -> k = EStr x).
  { intros k x H. unfold valid_lookup0, t in H. cbn [e_objects e_values] in H.
    rewrite combine_rev in H by (now rewrite map_length). apply in_rev in H. now apply in_combine_map in H. }
  assert (Hol : forall k o, In (k, o) (object_lookup t) -> k = o).
  { intros k o H. unfold object_lookup, t in H. cbn [e_objects e_values] in H.
    apply in_map_iff in H as ([v o'] & E & H). cbn in E. injection E as <- <-.
    apply in_combine_swap, in_combine_map in H. now subst. }
  assert (Hin0 : In (EStr s, s) (valid_lookup0 t)).
  { unfold valid_lookup0, t. cbn [e_objects e_values]. rewrite combine_rev by (now rewrite map_length).
    apply -> in_rev. clear - Hin. induction vals as [|v vals IH]; [destruct Hin|]. cbn. destruct Hin as [->|Hin]; auto. }
  split.
  - unfold bind_enum. rewrite (eget_unique (valid_lookup t) (EStr s) s); [reflexivity| |].
    + intros x Hx. unfold valid_lookup in Hx. apply in_app_or in Hx as [Hx|Hx].
      * apply Hvl0 in Hx. now injection Hx as ->.
      * apply in_flat_map in Hx as (v & _ & Hx).
        destruct (eget (object_lookup t) (EStr v)) as [o|] eqn:Eo; [|destruct Hx].
        destruct (eget (valid_lookup0 t) o) as [y|] eqn:Ey; [|destruct Hx].
        destruct Hx as [Hx|[]]. injection Hx as -> ->.
        apply eget_In, Hol in Eo. subst o. apply eget_In, Hvl0 in Ey. now injection Ey as ->.
    + exists s. unfold valid_lookup. apply in_or_app. now left.
  - unfold result_enum. rewrite (eget_unique (object_lookup t) (EStr s) (EStr s)); [reflexivity| |].
    + intros x Hx. now apply Hol in Hx.
    + exists (EStr s). unfold object_lookup, t. cbn [e_objects e_values]. apply in_map_iff. exists (s, EStr s).
      split; [reflexivity|]. clear - Hin. induction vals as [|v vals IH]; [destruct Hin|]. cbn. destruct Hin as [->|Hin]; auto.
Qed.

(* ---------- JSON / PickleType ---------- *)
Section SerializedProofs.
  Context {J W : Type} (dumps : J -> W) (loads : W -> J) (jnone : J).
  Hypothesis loads_dumps : forall x, loads (dumps x) = x.

  (* what Python sees after the round trip: [Some jnone] is the JSON document null, read as None *)
  Theorem json_roundtrip : forall nan v,
    result_json loads (bind_json dumps jnone nan v) =
    match v with
    | JDoc d => Some d
    | JSqlNull => None
    | JJsonNull => Some jnone
    | JPyNone => if nan then None else Some jnone
    end.
  Proof. intros nan [| | |d]; cbn; try destruct nan; cbn; now rewrite ?loads_dumps. Qed.

  Theorem pickle_roundtrip : forall v, result_pickle loads (bind_pickle dumps v) = v.
  Proof. intros [x|]; cbn; now rewrite ?loads_dumps. Qed.
End SerializedProofs.

(* ---------- TypeDecorator steps ---------- *)
Lemma count_result_app : forall id a b, count_result id (a ++ b) = (count_result id a + count_result id b)%nat.
Proof. intros. unfold count_result. now rewrite filter_app, app_length. Qed.
Lemma count_bind_app : forall id a b, count_bind id (a ++ b) = (count_bind id a + count_bind id b)%nat.
Proof. intros. unfold count_bind. now rewrite filter_app, app_length. Qed.

Lemma result_proc_count_notin : forall t id p, ~ In id (dec_ids t) -> result_proc t = Some p -> count_result id p = 0%nat.
Proof.
  induction t as [hp|id0 hb hr impl IH]; intros id p Hn H; cbn [result_proc] in H.
  - destruct hp; [injection H as <-; reflexivity|discriminate].
  - cbn [dec_ids] in Hn. assert (id0 <> id /\ ~ In id (dec_ids impl)) as [Hne Hn'] by (cbn in Hn; tauto).
    assert (Hs : count_result id [SResultValue id0] = 0%nat).
    { unfold count_result. cbn. replace (id0 =? id) with false by (symmetry; now apply N.eqb_neq). reflexivity. }
    destruct hr.
    + destruct (result_proc impl) as [q|] eqn:E; injection H as <-.
      * rewrite count_result_app, (IH id q Hn' eq_refl), Hs. reflexivity.
      * exact Hs.
    + now apply IH.
Qed.

Lemma bind_proc_count_notin : forall t id p, ~ In id (dec_ids t) -> bind_proc t = Some p -> count_bind id p = 0%nat.
Proof.
  induction t as [hp|id0 hb hr impl IH]; intros id p Hn H; cbn [bind_proc] in H.
  - destruct hp; [injection H as <-; reflexivity|discriminate].
  - cbn [dec_ids] in Hn. assert (id0 <> id /\ ~ In id (dec_ids impl)) as [Hne Hn'] by (cbn in Hn; tauto).
    assert (Hs : count_bind id [SBindParam id0] = 0%nat).
    { unfold count_bind. cbn. replace (id0 =? id) with false by (symmetry; now apply N.eqb_neq). reflexivity. }
    destruct hb.
    + destruct (bind_proc impl) as [q|] eqn:E; injection H as <-.
      * change (SBindParam id0 :: q) with ([SBindParam id0] ++ q).
        rewrite count_bind_app, (IH id q Hn' eq_refl), Hs. reflexivity.
      * exact Hs.
    + now apply IH.
Qed.

Lemma res_ids_incl : forall t id, In id (res_ids t) -> In id (dec_ids t).
Proof.
  induction t as [hp|id0 hb hr impl IH]; intros id H; cbn [res_ids dec_ids] in *; [destruct H|].
  destruct hr; [destruct H as [->|H]; [now left|right; now apply IH]|right; now apply IH].
Qed.
Lemma bind_ids_incl : forall t id, In id (bind_ids t) -> In id (dec_ids t).
Proof.
  induction t as [hp|id0 hb hr impl IH]; intros id H; cbn [bind_ids dec_ids] in *; [destruct H|].
  destruct hb; [destruct H as [->|H]; [now left|right; now apply IH]|right; now apply IH].
Qed.

Theorem result_step_once : forall t id, NoDup (dec_ids t) -> In id (res_ids t) ->
  exists p, result_proc t = Some p /\ count_result id p = 1%nat.
Proof.
  induction t as [hp|id0 hb hr impl IH]; intros id Hnd Hin; cbn [res_ids] in Hin; [destruct Hin|].
  cbn [dec_ids] in Hnd. inversion Hnd as [|? ? Hnot Hnd']; subst. cbn [result_proc].
  assert (Hself : count_result id0 [SResultValue id0] = 1%nat) by (unfold count_result; cbn; now rewrite N.eqb_refl).
  destruct hr.
  - destruct Hin as [->|Hin].
    + destruct (result_proc impl) as [q|] eqn:E; eexists; split; try reflexivity.
      * rewrite count_result_app, (result_proc_count_notin impl id q Hnot E), Hself. reflexivity.
      * exact Hself.
    + destruct (IH id Hnd' Hin) as (q & Eq & Hc). rewrite Eq. eexists. split; [reflexivity|].
      rewrite count_result_app, Hc. unfold count_result. cbn.
      assert (id0 <> id) by (intros ->; apply Hnot; now apply res_ids_incl).
      replace (id0 =? id) with false by (symmetry; now apply N.eqb_neq). reflexivity.
  - now apply IH.
Qed.

Theorem bind_step_once : forall t id, NoDup (dec_ids t) -> In id (bind_ids t) ->
  exists p, bind_proc t = Some p /\ count_bind id p = 1%nat.
Proof.
  induction t as [hp|id0 hb hr impl IH]; intros id Hnd Hin; cbn [bind_ids] in Hin; [destruct Hin|].
  cbn [dec_ids] in Hnd. inversion Hnd as [|? ? Hnot Hnd']; subst. cbn [bind_proc].
  assert (Hself : count_bind id0 [SBindParam id0] = 1%nat) by (unfold count_bind; cbn; now rewrite N.eqb_refl).
  destruct hb.
  - destruct Hin as [->|Hin].
    + destruct (bind_proc impl) as [q|] eqn:E; eexists; split; try reflexivity.
      * change (SBindParam id :: q) with ([SBindParam id] ++ q).
        rewrite count_bind_app, (bind_proc_count_notin impl id q Hnot E), Hself. reflexivity.
      * exact Hself.
    + destruct (IH id Hnd' Hin) as (q & Eq & Hc). rewrite Eq. eexists. split; [reflexivity|].
      change (SBindParam id0 :: q) with ([SBindParam id0] ++ q). rewrite count_bind_app, Hc.
      unfold count_bind at 1. cbn.
      assert (id0 <> id) by (intros ->; apply Hnot; now apply bind_ids_incl).
      replace (id0 =? id) with false by (symmetry; now apply N.eqb_neq). reflexivity.
  - now apply IH.
Qed.

(* nesting never changes the type the result processor is taken from *)
Lemma type_of_nest : forall ws e, type_of (nest ws e) = type_of e.
Proof. induction ws as [|w ws IH]; intros e; [reflexivity|]. cbn [nest fold_right]. destruct w; cbn [apply_wrapper type_of]; apply IH. Qed.

Theorem decorator_exactly_once : forall ws t id, NoDup (dec_ids t) -> In id (res_ids t) ->
  count_result id (column_processor (nest ws (CCol t))) = 1%nat.
Proof.
  intros ws t id Hnd Hin. unfold column_processor. rewrite type_of_nest. cbn [type_of].
  destruct (result_step_once t id Hnd Hin) as (p & Ep & Hc). now rewrite Ep.
Qed.

(* type_coerce / cast anywhere in the nesting: the coerced type alone decides *)
Theorem decorator_exactly_once_coerced : forall ws t e id, NoDup (dec_ids t) -> In id (res_ids t) ->
  count_result id (column_processor (nest ws (CCoerce t e))) = 1%nat.
Proof.
  intros ws t e id Hnd Hin. unfold column_processor. rewrite type_of_nest. cbn [type_of].
  destruct (result_step_once t id Hnd Hin) as (p & Ep & Hc). now rewrite Ep.
Qed.

Theorem decorator_not_applied_when_absent : forall ws t id, ~ In id (dec_ids t) ->
  count_result id (column_processor (nest ws (CCol t))) = 0%nat.
Proof.
  intros ws t id Hn. unfold column_processor. rewrite type_of_nest. cbn [type_of].
  destruct (result_proc t) as [p|] eqn:E; [now apply (result_proc_count_notin t id p)|reflexivity].
Qed.
