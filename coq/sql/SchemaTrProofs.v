(* C16 - rendering the symbolic compilation with a map = compiling the translated construct. *)
From Coq Require Import List ZArith Bool Lia.
Import ListNotations.
From SAV.sql Require Import SchemaTr SchemaTrScanProofs.
Open Scope Z_scope.

Lemma str_eqb_refl : forall a, str_eqb a a = true.
Proof. induction a as [|x a IH]; [reflexivity|]. cbn [str_eqb]. rewrite Z.eqb_refl. exact IH. Qed.
Lemma str_eqb_eq : forall a b, str_eqb a b = true -> a = b.
Proof.
  induction a as [|x a IH]; intros [|y b] H; try discriminate H; [reflexivity|].
  cbn [str_eqb] in H. apply andb_prop in H. destruct H as [H1 H2].
  apply Z.eqb_eq in H1. subst. f_equal. apply IH, H2.
Qed.

Section P.
Variable quote : option bool -> str -> str.
Variable dflt : str.

Notation prefix_plain := (prefix_plain quote).
Notation compile_plain := (compile_plain quote).
Notation compile_sym := (compile_sym quote).
Notation segs_of := (segs_of quote).
Notation replace := (replace quote dflt).
Notation render_translates := (render_translates quote dflt).
Notation target := (target dflt).
Notation direct_inc := (direct_inc dflt).
Notation direct := (direct quote dflt).
Notation subst_schemas := (subst_schemas dflt).

(* what one piece of the statement contributes to the text of the translated statement *)
Definition none_removed (inc : bool) (m : smap) (x : sref) : bool :=
  r_map x && inc && negb (has_none m) && match r_name x with None => true | _ => false end.
Definition item_out (inc : bool) (m : smap) (i : item) : result str :=
  match i with
  | Txt t => Ok t
  | Sch x => bind (if none_removed inc m x then Err ENoneRemoved else target m x)
                  (fun x' => Ok (prefix_plain x'))
  end.
Fixpoint cat (l : list (result str)) : result str :=
  match l with
  | [] => Ok []
  | r :: l' => bind r (fun a => bind (cat l') (fun b => Ok (a ++ b)))
  end.

Lemma direct_inc_cat : forall inc m s,
  bind (direct_inc inc m s) (fun s' => Ok (compile_plain s')) = cat (map (item_out inc m) s).
Proof.
  intros inc m. induction s as [|i s IH]; [reflexivity|].
  destruct i as [t|x]; cbn [SchemaTr.direct_inc map cat item_out].
  - rewrite <- IH. destruct (direct_inc inc m s); reflexivity.
  - fold (none_removed inc m x).
    destruct (if none_removed inc m x then Err ENoneRemoved else target m x) as [x'|e]; cbn [bind]; [|reflexivity].
    rewrite <- IH. destruct (direct_inc inc m s); reflexivity.
Qed.

Lemma or_default_truthy : forall o n, or_default dflt o = Ok n -> truthy (Some n) = Some n.
Proof.
  intros o n H. unfold or_default in H. destruct (truthy o) as [k|] eqn:E.
  - inversion H; subst. destruct o as [[|c s]|]; cbn in E; try discriminate E. inversion E. reflexivity.
  - destruct dflt as [|c s] eqn:D; [discriminate H|]. inversion H. reflexivity.
Qed.

Lemma has_key_assoc : forall k m, has_key k m = true -> exists v, assoc k m = Some v.
Proof. intros k m H. unfold has_key in H. destruct (assoc k m) as [v|]; [eauto|discriminate H]. Qed.
Lemma has_key_false : forall k m, has_key k m = false -> assoc k m = None.
Proof. intros k m H. unfold has_key in H. destruct (assoc k m); [discriminate H|reflexivity]. Qed.

(* per reference: the token's replacement followed by "." is the prefix of the translated table *)
Lemma piece_trans : forall inc m x g,
  piece_sym quote inc (Sch x) = Ok g ->
  names_ok [Sch x] = true -> force_ok m [Sch x] = true -> map_ok m = true ->
  has_none m && negb inc = false ->
  trans (replace m) g = item_out inc m (Sch x).
Proof.
  intros inc m x g Hp Hn Hf Hm Hc.
  unfold names_ok, force_ok in Hn, Hf. cbn [forallb] in Hn, Hf. rewrite andb_true_r in Hn, Hf.
  unfold map_ok in Hm. apply negb_true_iff in Hm.
  cbn [piece_sym] in Hp. cbn [item_out]. unfold none_removed, symbolic in *.
  destruct x as [mp nm fc]. cbn [r_map r_name r_force] in *.
  destruct mp; cbn [andb negb orb] in *.
  2:{ (* table() clause: rendered literally on both sides *)
      inversion Hp; subst. cbn [trans bind]. unfold SchemaTr.target. cbn [r_map bind].
      rewrite app_nil_r. reflexivity. }
  destruct nm as [n|].
  - (* a named schema *)
    destruct (has_bracket n); [discriminate Hp|]. inversion Hp; subst; clear Hp.
    apply andb_prop in Hn. destruct Hn as [Hn1 Hn2].
    apply negb_true_iff in Hn1. apply negb_true_iff in Hn2.
    destruct n as [|c n]; [discriminate Hn2|]. cbn [or_none].
    rewrite andb_false_r. cbn [trans]. unfold SchemaTr.replace, effective, d_has, d_get. rewrite Hn1.
    rewrite !andb_false_r. cbn [orb]. unfold SchemaTr.target. cbn [r_map r_name].
    cbn [orb] in Hf. unfold has_key in *.
    match goal with |- context [assoc ?k m] => destruct (assoc k m) as [v|] eqn:Ha end.
    + cbn [bind].
      destruct (or_default dflt v) as [k|e] eqn:Ed; cbn [bind]; [|reflexivity].
      unfold SchemaTr.prefix_plain. cbn [r_name r_force]. rewrite (or_default_truthy _ _ Ed). reflexivity.
    + rewrite ?Hn1. cbn [bind or_default truthy].
      unfold SchemaTr.prefix_plain. cbn [r_name r_force truthy].
      cbn [orb] in Hf. destruct fc; [discriminate Hf|reflexivity].
  - (* schema None *)
    destruct inc; cbn [andb negb] in *.
    + inversion Hp; subst; clear Hp. cbn [trans]. unfold SchemaTr.replace, effective, d_has, d_get.
      rewrite str_eqb_refl. rewrite Hm. rewrite !andb_true_r, orb_false_r.
      unfold SchemaTr.target. cbn [r_map r_name]. fold (has_none m).
      destruct (has_none m) eqn:Hh; cbn [negb bind].
      * destruct (has_key_assoc _ _ Hh) as [v Hv]. rewrite Hv. cbn [bind].
        destruct (or_default dflt v) as [k|e] eqn:Ed; cbn [bind]; [|reflexivity].
        unfold SchemaTr.prefix_plain. cbn [r_name r_force]. rewrite (or_default_truthy _ _ Ed). reflexivity.
      * reflexivity.
    + inversion Hp; subst; clear Hp. cbn [trans bind]. rewrite andb_true_r in Hc.
      unfold SchemaTr.target. cbn [r_map r_name]. unfold has_none in Hc.
      rewrite (has_key_false _ _ Hc). cbn [bind]. rewrite app_nil_r. reflexivity.
Qed.

Lemma names_ok_cons : forall i s, names_ok (i :: s) = names_ok [i] && names_ok s.
Proof. intros. unfold names_ok. cbn [forallb]. rewrite andb_true_r. reflexivity. Qed.
Lemma force_ok_cons : forall m i s, force_ok m (i :: s) = force_ok m [i] && force_ok m s.
Proof. intros. unfold force_ok. cbn [forallb]. rewrite andb_true_r. reflexivity. Qed.

Lemma segs_trans : forall inc m s g,
  segs_of inc s = Ok g ->
  names_ok s = true -> force_ok m s = true -> map_ok m = true -> has_none m && negb inc = false ->
  trans (replace m) g = cat (map (item_out inc m) s).
Proof.
  intros inc m. induction s as [|i s IH]; intros g Hs Hn Hf Hm Hc.
  - inversion Hs. reflexivity.
  - cbn [SchemaTr.segs_of] in Hs. destruct (piece_sym quote inc i) as [a|e] eqn:Ea; [|discriminate Hs].
    cbn [bind] in Hs. destruct (segs_of inc s) as [b|e] eqn:Eb; [|discriminate Hs].
    inversion Hs; subst; clear Hs.
    rewrite names_ok_cons in Hn. rewrite force_ok_cons in Hf.
    apply andb_prop in Hn. apply andb_prop in Hf. destruct Hn as [Hn1 Hn2]. destruct Hf as [Hf1 Hf2].
    rewrite trans_app. rewrite (IH b eq_refl Hn2 Hf2 Hm Hc). cbn [map cat].
    destruct i as [t|x].
    + inversion Ea; subst. cbn [trans item_out bind].
      destruct (cat (map (item_out inc m) s)); cbn [bind]; [|reflexivity]. rewrite app_nil_r. reflexivity.
    + rewrite (piece_trans inc m x a Ea Hn1 Hf1 Hm Hc). reflexivity.
Qed.

(* tokens produced by the compiler are well formed: non-empty names without "]" *)
Lemma has_bracket_no_rb : forall n, has_bracket n = false -> no_rb n = true.
Proof.
  unfold has_bracket, no_rb. induction n as [|c n IH]; intros H; [reflexivity|].
  cbn [existsb] in *. apply orb_false_iff in H. destruct H as [H1 H2].
  apply orb_false_iff in H1. destruct H1 as [_ H1]. rewrite H1. cbn [orb]. apply IH, H2.
Qed.
Lemma segs_tok_ok : forall inc s g, segs_of inc s = Ok g -> forallb tok_ok g = true.
Proof.
  intros inc. induction s as [|i s IH]; intros g Hs.
  - inversion Hs. reflexivity.
  - cbn [SchemaTr.segs_of] in Hs. destruct (piece_sym quote inc i) as [a|e] eqn:Ea; [|discriminate Hs].
    cbn [bind] in Hs. destruct (segs_of inc s) as [b|e] eqn:Eb; [|discriminate Hs].
    inversion Hs; subst; clear Hs. rewrite forallb_app. rewrite (IH b eq_refl). rewrite andb_true_r.
    destruct i as [t|x]; cbn [piece_sym] in Ea.
    + inversion Ea. reflexivity.
    + destruct (symbolic inc x); [|inversion Ea; reflexivity].
      destruct (r_name x) as [n|].
      * destruct (has_bracket n) eqn:Hb; [discriminate Ea|]. inversion Ea; subst.
        cbn [forallb tok_ok]. rewrite andb_true_r.
        destruct n as [|c n]; [reflexivity|]. cbn [or_none negb andb]. apply has_bracket_no_rb, Hb.
      * inversion Ea; subst. reflexivity.
Qed.

(* ---- the general rendering theorem ---- *)
Theorem render_sym_general : forall inc m s text,
  marker_free quote inc s = true -> names_ok s = true -> force_ok m s = true -> map_ok m = true ->
  compile_sym inc s = Ok text ->
  render_translates inc m text =
    if has_none m && negb inc then Err ENoneAdded
    else bind (direct_inc inc m s) (fun s' => Ok (compile_plain s')).
Proof.
  intros inc m s text Hmf Hn Hf Hm Hc. unfold SchemaTr.render_translates.
  destruct (has_none m && negb inc) eqn:Hcons; [reflexivity|].
  unfold SchemaTr.compile_sym in Hc. unfold marker_free in Hmf.
  destruct (segs_of inc s) as [g|e] eqn:Eg; [|discriminate Hc]. cbn [bind] in Hc. inversion Hc; subst.
  apply negb_true_iff in Hmf.
  pose proof (scan_flat (replace m) g [] Hmf (segs_tok_ok _ _ _ Eg)) as Hsc. cbn [app] in Hsc.
  rewrite Hsc. rewrite bind_ok_r. rewrite (segs_trans inc m s g Eg Hn Hf Hm Hcons).
  symmetry. apply direct_inc_cat.
Qed.

Lemma direct_inc_consistent : forall m s, direct_inc (has_none m) m s = subst_schemas m s.
Proof.
  intros m. induction s as [|i s IH]; [reflexivity|].
  destruct i as [t|x]; cbn [SchemaTr.direct_inc SchemaTr.subst_schemas]; rewrite IH; [reflexivity|].
  destruct (has_none m); rewrite ?andb_false_r; reflexivity.
Qed.

(* translate_eq_direct *)
Theorem render_sym_direct : forall m s text,
  marker_free quote (has_none m) s = true -> names_ok s = true -> force_ok m s = true -> map_ok m = true ->
  compile_sym (has_none m) s = Ok text ->
  render_translates (has_none m) m text = direct m s.
Proof.
  intros m s text Hmf Hn Hf Hm Hc.
  rewrite (render_sym_general _ m s text Hmf Hn Hf Hm Hc).
  rewrite andb_negb_r. rewrite direct_inc_consistent. reflexivity.
Qed.

(* compile_sym fails exactly on bracketed names *)
Lemma piece_sym_err : forall inc i e, piece_sym quote inc i = Err e -> e = EBracket.
Proof.
  intros inc [t|x] e H; cbn [piece_sym] in H; [discriminate H|].
  destruct (symbolic inc x); [|discriminate H]. destruct (r_name x) as [n|]; [|discriminate H].
  destruct (has_bracket n); inversion H. reflexivity.
Qed.
Lemma segs_of_bracket : forall inc s, bracketed s = true -> segs_of inc s = Err EBracket.
Proof.
  intros inc. induction s as [|i s IH]; intros Hb; [discriminate Hb|].
  unfold bracketed in *. cbn [existsb] in Hb. cbn [SchemaTr.segs_of].
  apply orb_true_iff in Hb. destruct Hb as [Hb|Hb].
  - destruct i as [t|x]; [discriminate Hb|]. apply andb_prop in Hb. destruct Hb as [Hm Hb].
    cbn [piece_sym]. unfold symbolic. rewrite Hm. destruct (r_name x) as [n|]; [|discriminate Hb].
    cbn [andb]. rewrite Hb. reflexivity.
  - rewrite (IH Hb). destruct (piece_sym quote inc i) as [a|e] eqn:Ea; cbn [bind]; [reflexivity|].
    rewrite (piece_sym_err _ _ _ Ea). reflexivity.
Qed.

Lemma segs_of_ok : forall inc s, bracketed s = false -> exists g, segs_of inc s = Ok g.
Proof.
  intros inc. induction s as [|i s IH]; intros Hb; [eexists; reflexivity|].
  unfold bracketed in *. cbn [existsb] in Hb. apply orb_false_iff in Hb. destruct Hb as [H1 H2].
  destruct (IH H2) as [g Hg]. cbn [SchemaTr.segs_of]. rewrite Hg.
  destruct i as [t|x]; cbn [piece_sym bind]; [eexists; reflexivity|].
  destruct (symbolic inc x) eqn:Es; [|eexists; reflexivity].
  destruct (r_name x) as [n|] eqn:En; [|eexists; reflexivity].
  unfold symbolic in Es. apply andb_prop in Es. destruct Es as [Em _]. rewrite Em in H1. cbn [andb] in H1.
  rewrite H1. eexists; reflexivity.
Qed.

Lemma compile_sym_err : forall inc s e, compile_sym inc s = Err e -> e = EBracket /\ bracketed s = true.
Proof.
  intros inc s e H. unfold SchemaTr.compile_sym in H. destruct (bracketed s) eqn:Hb.
  - rewrite (segs_of_bracket inc s Hb) in H. inversion H. auto.
  - destruct (segs_of_ok inc s Hb) as [g Hg]. rewrite Hg in H. discriminate H.
Qed.
Lemma compile_sym_ok : forall inc s, bracketed s = false -> exists t, compile_sym inc s = Ok t.
Proof.
  intros inc s Hb. unfold SchemaTr.compile_sym. destruct (segs_of_ok inc s Hb) as [g Hg]. rewrite Hg.
  eexists; reflexivity.
Qed.

(* bracket_names_rejected *)
Theorem bracket_rejected : forall inc s, bracketed s = true <-> compile_sym inc s = Err EBracket.
Proof.
  intros inc s. split; intros H.
  - unfold SchemaTr.compile_sym. rewrite (segs_of_bracket inc s H). reflexivity.
  - apply compile_sym_err in H. apply H.
Qed.

(* ---- documentation vs implementation for a None target ---- *)
Lemma targets_truthy_assoc : forall m k v, targets_truthy m = true -> assoc k m = Some v ->
  exists n, truthy v = Some n.
Proof.
  unfold targets_truthy. induction m as [|[k' v'] m IH]; intros k v Ht Ha; [discriminate Ha|].
  cbn [forallb snd] in Ht. apply andb_prop in Ht. destruct Ht as [H1 H2]. cbn [assoc] in Ha.
  destruct (ostr_eqb k k').
  - inversion Ha; subst. destruct (truthy v); [eauto|discriminate H1].
  - eapply IH; eauto.
Qed.
Theorem direct_eq_doc : forall m s, targets_truthy m = true ->
  direct m s = Ok (compile_plain (subst_doc m s)).
Proof.
  intros m s Ht. unfold SchemaTr.direct.
  assert (subst_schemas m s = Ok (subst_doc m s)) as ->; [|reflexivity].
  induction s as [|i s IH]; [reflexivity|].
  destruct i as [t|x]; cbn [SchemaTr.subst_schemas subst_doc map]; fold (subst_doc m s); rewrite IH; [reflexivity|].
  unfold SchemaTr.target, target_doc. destruct (r_map x); [|reflexivity].
  destruct (assoc (r_name x) m) as [v|] eqn:Ea; [|reflexivity].
  destruct (targets_truthy_assoc m _ v Ht Ea) as [n Hn]. unfold or_default. rewrite Hn. reflexivity.
Qed.

(* ---- the alias written into the caller's dict ---- *)
(* _render_schema_translates executes  d["_none"] = d[None]  on the dict object it was given, so a dict that
   is reused (copied and edited, or edited in place) carries an entry "_none" from an earlier execution.
   While the dict still has a None key that stale entry is never consulted: the current None entry wins. *)
Theorem stale_alias_ignored : forall d v name, has_none d = true ->
  replace ((Some none_name, v) :: d) name = replace d name.
Proof.
  intros d v name Hn. unfold SchemaTr.replace, effective, d_has, d_get, has_none, has_key in *.
  cbn [assoc ostr_eqb]. destruct (assoc None d) as [tn|] eqn:En; [|discriminate Hn].
  cbn [andb]. destruct (str_eqb name none_name) eqn:E; [reflexivity|]. cbn [orb]. reflexivity.
Qed.

(* ---- a statement without translatable references / an empty map ---- *)
Theorem direct_untranslated : forall m s, untranslated m s = true -> direct m s = Ok (compile_plain s).
Proof.
  intros m s Hu. unfold SchemaTr.direct.
  assert (subst_schemas m s = Ok s) as ->; [|reflexivity].
  induction s as [|i s IH]; [reflexivity|].
  unfold untranslated in *. cbn [forallb] in Hu. apply andb_prop in Hu. destruct Hu as [H1 H2].
  destruct i as [t|x]; cbn [SchemaTr.subst_schemas]; rewrite (IH H2); [reflexivity|].
  unfold SchemaTr.target. destruct (r_map x); [|reflexivity]. cbn [negb orb] in H1.
  apply negb_true_iff in H1. unfold has_key in H1. destruct (assoc (r_name x) m); [discriminate H1|reflexivity].
Qed.

Lemma scan_plain : forall repl t, occurs marker t = false -> scan repl t = Ok t.
Proof.
  intros repl t H. pose proof (scan_lit repl t [] H (or_introl eq_refl)) as E.
  rewrite app_nil_r in E. rewrite E. cbn. rewrite app_nil_r. reflexivity.
Qed.

End P.
