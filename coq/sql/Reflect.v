(* C15 - reflection reproduces the schema that was created (PARTIAL: SQLite).

   MODEL.  What SQLAlchemy itself does to round-trip a table through SQLite:
   * rendering of the constraint clauses of CREATE TABLE (DDLCompiler.visit_unique_constraint /
     visit_check_constraint / define_constraint_name, names through IdentifierPreparer.quote - the C06 model);
   * the REGEX PARSERS over the text SQLite stores in sqlite_master.sql, as hand-written matchers with
     Python `re` semantics (leftmost, the optional CONSTRAINT group tried first, lazy `.+?` that extends one
     character at a time and retries the continuation, `.` never matches a newline, re.I):
       UNIQUE_PATTERN  (?:CONSTRAINT\s+(?:"(.+?)"|([\w$]+))\s+)?UNIQUE\s*\((.+?)\)       (get_unique_constraints)
       _find_cols_in_sig  (?:"(.+?)")|([a-z0-9_]+)
     (the same CONSTRAINT-name group opens FK_PATTERN of get_foreign_keys);
   * the join of get_unique_constraints with the sqlite_autoindex_* signatures (PRAGMA index_list/index_info -
     SQLite's answers are an input here, specified by the catalog and validated on live SQLite every run);
   * _resolve_type_affinity over a table of type names regenerated from the dialect on every run.
   Strings are lists of code points (Ident.str). *)
From Coq Require Import List NArith Bool.
Import ListNotations.
From SAV.sql Require Import Ident.
Open Scope N_scope.

Definition dq : N := 34.
Definition lpar : N := 40.
Definition rpar : N := 41.

(* ------------------------------------------------------------------ character classes of Python re on str *)
(* \s : ASCII whitespace plus the Unicode spaces str.isspace() knows *)
Definition is_space (c : N) : bool :=
  in_ranges [(9, 13); (28, 32); (133, 133); (160, 160); (5760, 5760); (8192, 8202); (8232, 8233); (8239, 8239);
             (8287, 8287); (12288, 12288)] c.
Definition ascii_word (c : N) : bool := in_ranges [(48, 57); (65, 90); (95, 95); (97, 122)] c.
(* \w above ASCII is str.isalnum(): the Unicode database is external - a parameter of the matchers *)
Definition wordc (uni : N -> bool) (c : N) : bool := if c <? 128 then ascii_word c else uni c.
(* `.` without DOTALL *)
Definition dotc (c : N) : bool := negb (c =? 10).
(* re.I on one upper-case ASCII letter k of a literal: k, its lower case, and the characters whose simple
   case folding is that letter (U+017F, U+212A for S and K; U+0130/U+0131 for I) *)
Definition ci_eq (k c : N) : bool :=
  (c =? k) || (c =? k + 32) ||
  ((k =? 83) && (c =? 383)) || ((k =? 75) && (c =? 8490)) || ((k =? 73) && ((c =? 304) || (c =? 305))).
(* [a-z0-9_] with re.I *)
Definition sigc (c : N) : bool := ascii_word c || memN c [304; 305; 383; 8490].

Fixpoint ci_prefix (kw t : str) : option str :=
  match kw with
  | [] => Some t
  | k :: kw' => match t with
                | c :: t' => if ci_eq k c then ci_prefix kw' t' else None
                | [] => None
                end
  end.
Definition kwCONSTRAINT : str := [67; 79; 78; 83; 84; 82; 65; 73; 78; 84].
Definition kwUNIQUE : str := [85; 78; 73; 81; 85; 69].

(* \s* and \s+ (greedy; every continuation in these patterns starts with a non-space, so giving spaces
   back can never help) *)
Fixpoint drop_spaces (t : str) : str :=
  match t with
  | c :: r => if is_space c then drop_spaces r else t
  | [] => []
  end.
Definition spaces1 (t : str) : option str :=
  match t with
  | c :: r => if is_space c then Some (drop_spaces r) else None
  | [] => None
  end.
Fixpoint span (f : N -> bool) (t : str) : str * str :=
  match t with
  | c :: r => if f c then let '(a, b) := span f r in (c :: a, b) else ([], t)
  | [] => ([], [])
  end.

(* (.+?)X where nothing can fail after X: the first X at offset >= 1 with no newline before it *)
Fixpoint lazy_go (stop : N) (acc : str) (t : str) : option (str * str) :=
  match t with
  | [] => None
  | d :: r => if d =? stop then Some (rev acc, r)
              else if dotc d then lazy_go stop (d :: acc) r else None
  end.
Definition lazy_dot_until (stop : N) (t : str) : option (str * str) :=
  match t with
  | c :: r => if dotc c then lazy_go stop [c] r else None
  | [] => None
  end.

(* "(.+?)" K  - the closing quote is accepted only where the continuation K succeeds *)
Fixpoint lazy_quoted {R} (K : str -> option R) (acc : str) (t : str) : option (str * R) :=
  match t with
  | [] => None
  | c :: r =>
      let here :=
        match acc with
        | [] => None
        | _ => if c =? dq then match K r with Some x => Some (rev acc, x) | None => None end else None
        end in
      match here with
      | Some x => Some x
      | None => if dotc c then lazy_quoted K (c :: acc) r else None
      end
  end.

Section Matchers.
Variable uni : N -> bool.

(* UNIQUE\s*\((.+?)\)  ->  (raw column list, rest) *)
Definition uq_tail (t : str) : option (str * str) :=
  match ci_prefix kwUNIQUE t with
  | Some t1 => match drop_spaces t1 with
               | c :: t2 => if c =? lpar then lazy_dot_until rpar t2 else None
               | [] => None
               end
  | None => None
  end.
(* CONSTRAINT\s+(?:"(.+?)"|([\w$]+))\s+ <tail>   ->  (name, what the tail returns); the name goes through
   _constraint_name(): a quoted capture has its doubled double-quotes collapsed (str.replace) *)
Definition barec (c : N) : bool := wordc uni c || (c =? 36).
Definition named {R} (tail : str -> option R) (t : str) : option (str * R) :=
  match ci_prefix kwCONSTRAINT t with
  | Some t1 =>
      match spaces1 t1 with
      | Some t2 =>
          let K := fun r => match spaces1 r with Some r' => tail r' | None => None end in
          let alt1 := match t2 with
                      | c :: t3 => if c =? dq then lazy_quoted K [] t3 else None
                      | [] => None
                      end in
          match alt1 with
          | Some (nm, x) => Some (undouble dq nm, x)
          | None => let '(w, t3) := span barec t2 in
                    match w with
                    | [] => None
                    | _ => match K t3 with Some x => Some (w, x) | None => None end
                    end
          end
      | None => None
      end
  | None => None
  end.
(* one attempt of UNIQUE_PATTERN at the start of t *)
Definition uq_at (t : str) : option (option str * str * str) :=
  match named uq_tail t with
  | Some (nm, (cols, rest)) => Some (Some nm, cols, rest)
  | None => match uq_tail t with
            | Some (cols, rest) => Some (None, cols, rest)
            | None => None
            end
  end.
(* re.finditer: leftmost matches, scanning resumes after each match *)
Fixpoint scan_uq (fuel : nat) (t : str) : list (option str * str) :=
  match fuel with
  | O => []
  | S f => match t with
           | [] => []
           | _ :: r => match uq_at t with
                       | Some (nm, cols, rest) => (nm, cols) :: scan_uq f rest
                       | None => scan_uq f r
                       end
           end
  end.

(* _find_cols_in_sig: finditer of (?:"(.+?)")|([a-z0-9_]+) *)
Fixpoint find_cols (fuel : nat) (t : str) : list str :=
  match fuel with
  | O => []
  | S f => match t with
           | [] => []
           | c :: r =>
               let quoted := if c =? dq then lazy_dot_until dq r else None in
               match quoted with
               | Some (body, rest) => body :: find_cols f rest
               | None => if sigc c then let '(w, rest) := span sigc t in w :: find_cols f rest
                         else find_cols f r
               end
           end
  end.
Definition cols_in_sig (t : str) : list str := find_cols (length t) t.

(* parse_uqs(), first loop *)
Definition parse_uqs (text : str) : list (option str * list str) :=
  map (fun nc : option str * str => (fst nc, cols_in_sig (snd nc))) (scan_uq (length text) text).

(* get_unique_constraints: a parsed constraint is reported iff its column signature is (still) among the
   sqlite_autoindex signatures; [inline] = what INLINE_UNIQUE_PATTERN yields (column lists, name None) *)
Fixpoint sig_eqb (a b : list str) : bool :=
  match a, b with
  | [], [] => true
  | x :: a', y :: b' => str_eqb x y && sig_eqb a' b'
  | _, _ => false
  end.
Fixpoint remove_sig (s : list str) (auto : list (list str)) : option (list (list str)) :=
  match auto with
  | [] => None
  | a :: r => if sig_eqb s a then Some r
              else match remove_sig s r with Some r' => Some (a :: r') | None => None end
  end.
Fixpoint join_auto (auto : list (list str)) (parsed : list (option str * list str)) : list (option str * list str) :=
  match parsed with
  | [] => []
  | (nm, cols) :: r => match remove_sig cols auto with
                       | Some auto' => (nm, cols) :: join_auto auto' r
                       | None => join_auto auto r
                       end
  end.
Definition reflect_uniques (auto : list (list str)) (inline : list (list str)) (text : str) :=
  join_auto auto (parse_uqs text ++ map (fun s => (None, s)) inline).

End Matchers.

(* ------------------------------------------------------------------ rendering (DDLCompiler) *)
Section Render.
Variable p : prep.                                  (* the SQLite identifier preparer (C06) *)

Definition sp : N := 32.
Definition lit_constraint : str := kwCONSTRAINT ++ [sp].
Definition lit_unique_open : str := kwUNIQUE ++ [sp; lpar].
(* ", ".join(quote(c.name) for c in constraint) *)
Fixpoint join_cols (l : list str) : str :=
  match l with
  | [] => []
  | [a] => a
  | a :: r => a ++ [44; sp] ++ join_cols r
  end.
(* visit_unique_constraint: "CONSTRAINT %s " % formatted_name (if named) + "UNIQUE (%s)" *)
Definition render_unique (qname : option str) (qcols : list str) : str :=
  (match qname with Some q => lit_constraint ++ q ++ [sp] | None => [] end) ++ lit_unique_open ++ join_cols qcols ++ [rpar].

(* a CREATE TABLE text as a sequence of parts: opaque text (header, column specifications, separators, other
   clauses) and UNIQUE clauses *)
Inductive part := Seg (s : str) | Uq (name : option str) (cols : list str).
Definition quote_opt (n : option str) : res (option str) :=
  match n with
  | None => Ok None
  | Some v => match quote p v with Ok q => Ok (Some q) | RaiseIndexError => RaiseIndexError end
  end.
Fixpoint render_parts (ps : list part) : res str :=
  match ps with
  | [] => Ok []
  | Seg s :: r => match render_parts r with Ok t => Ok (s ++ t) | RaiseIndexError => RaiseIndexError end
  | Uq n cols :: r =>
      match quote_opt n, quote_all p cols, render_parts r with
      | Ok qn, Ok qc, Ok t => Ok (render_unique qn qc ++ t)
      | _, _, _ => RaiseIndexError
      end
  end.
Fixpoint uniques_of (ps : list part) : list (option str * list str) :=
  match ps with
  | [] => []
  | Seg _ :: r => uniques_of r
  | Uq n cols :: r => (n, cols) :: uniques_of r
  end.
End Render.

(* ------------------------------------------------------------------ type affinity (_resolve_type_affinity) *)
(* a reflected type: class (index into the generated class table) and constructor arguments *)
Definition digits := list N.                        (* a non-negative int as its decimal digits, no leading zero *)
Record rtype := { rt_class : N; rt_args : list digits }.
Record afftab := {
  a_ischema : list (str * N);                       (* ischema_names: exact upper-case name -> class *)
  a_integer : N; a_text : N; a_null : N; a_real : N; a_numeric : N;      (* the affinity fallbacks *)
  a_accepts : list (N * nat);                       (* (class, n): the class accepts n positional ints (else TypeError -> no arguments) *)
  a_render : list (N * nat * (str * nat))           (* type compiler: (class, number of arguments) -> (NAME, k): renders NAME(a1, .., ak) *)
}.
Definition is_digit (c : N) : bool := (48 <=? c) && (c <=? 57).
Fixpoint strip_zeros (d : digits) : digits :=
  match d with
  | c :: ((_ :: _) as r) => if c =? 48 then strip_zeros r else d
  | _ => d
  end.
(* re.findall(r"(\d+)", args) then int(a) *)
Fixpoint find_ints (fuel : nat) (t : str) : list digits :=
  match fuel with
  | O => []
  | S f => match t with
           | [] => []
           | c :: r => if is_digit c then let '(w, rest) := span is_digit t in strip_zeros w :: find_ints f rest
                       else find_ints f r
           end
  end.
(* ([\w ]+)(\(.*?\))?  at the start of the (upper-cased) type string: ASCII here - see [aff_ok] *)
Definition tnamec (c : N) : bool := ascii_word c || (c =? 32).
Fixpoint prefix_eq (k t : str) : bool :=
  match k with
  | [] => true
  | a :: k' => match t with b :: t' => (a =? b) && prefix_eq k' t' | [] => false end
  end.
Fixpoint has_sub (needle t : str) : bool :=
  prefix_eq needle t || match t with [] => false | _ :: r => has_sub needle r end.
Fixpoint assoc_str (d : list (str * N)) (k : str) : option N :=
  match d with [] => None | (k', v) :: r => if str_eqb k k' then Some v else assoc_str r k end.
Definition sINT : str := [73; 78; 84].
Definition sCHAR : str := [67; 72; 65; 82].
Definition sCLOB : str := [67; 76; 79; 66].
Definition sTEXT : str := [84; 69; 88; 84].
Definition sBLOB : str := [66; 76; 79; 66].
Definition sREAL : str := [82; 69; 65; 76].
Definition sFLOA : str := [70; 76; 79; 65].
Definition sDOUB : str := [68; 79; 85; 66].
Definition classify (tab : afftab) (g : str) : N :=
  match assoc_str (a_ischema tab) g with
  | Some c => c
  | None =>
      if has_sub sINT g then a_integer tab
      else if has_sub sCHAR g || has_sub sCLOB g || has_sub sTEXT g then a_text tab
      else if has_sub sBLOB g || match g with [] => true | _ => false end then a_null tab
      else if has_sub sREAL g || has_sub sFLOA g || has_sub sDOUB g then a_real tab
      else a_numeric tab
  end.
(* \(.*?\) after the name: the first ")" with no newline before it (the body may be empty) *)
Definition lazy0_until (stop : N) (t : str) : option (str * str) := lazy_go stop [] t.
Definition accepts (tab : afftab) (c : N) (n : nat) : bool :=
  existsb (fun e : N * nat => (fst e =? c) && Nat.eqb (snd e) n) (a_accepts tab).
Definition affinity (tab : afftab) (s : str) : rtype :=
  let '(g1, rest) := span tnamec s in
  match g1 with
  | [] => {| rt_class := a_null tab; rt_args := [] |}
  | _ =>
      let cls := classify tab g1 in
      let args := match rest with
                  | c :: r => if c =? lpar then match lazy0_until rpar r with Some (a, _) => Some a | None => None end else None
                  | [] => None
                  end in
      match args with
      | None => {| rt_class := cls; rt_args := [] |}
      | Some a => let ints := find_ints (length a) a in
                  if accepts tab cls (length ints) then {| rt_class := cls; rt_args := ints |}
                  else {| rt_class := cls; rt_args := [] |}
      end
  end.
(* the SQLite type compiler on the reflected instance: NAME or NAME(a1, .., ak) with the first k arguments *)
Fixpoint lookup_render (d : list (N * nat * (str * nat))) (c : N) (n : nat) : option (str * nat) :=
  match d with
  | [] => None
  | (c', n', v) :: r => if (c =? c') && Nat.eqb n n' then Some v else lookup_render r c n
  end.
Fixpoint join_args (l : list digits) : str :=
  match l with
  | [] => []
  | [a] => a
  | a :: r => a ++ [44; 32] ++ join_args r
  end.
(* a zero argument is falsy and several type compilers then leave it out (VARCHAR(0) renders VARCHAR): not
   modelled - such a type has no rendering here (the fixed point is still checked on the implementation) *)
Definition is_zero (d : digits) : bool := match d with [c] => c =? 48 | _ => false end.
Definition render_type (tab : afftab) (t : rtype) : option str :=
  if existsb is_zero (rt_args t) then None else
  match lookup_render (a_render tab) (rt_class t) (length (rt_args t)) with
  | Some (name, k) =>
      Some (match k with O => name | _ => name ++ [lpar] ++ join_args (firstn k (rt_args t)) ++ [rpar] end)
  | None => None
  end.
