From Coq Require Import List Arith Bool Lia.
Import ListNotations.
From SAV.sql Require Import Generative.

Lemma updh_length h : forall c v, length (updh h c v) = length h.
Proof. induction h as [|x r IH]; intros [|c] v; cbn; auto. Qed.
Lemma updh_other h : forall c v k, k <> c -> nth k (updh h c v) 0 = nth k h 0.
Proof.
  induction h as [|x r IH]; intros [|c] v [|k] Hk; cbn; auto; try congruence; try (apply IH; congruence).
Qed.
Lemma nth_app_old (h : heap) x k : k < length h -> nth k (h ++ x) 0 = nth k h 0.
Proof. intros H. apply app_nth1. exact H. Qed.

Lemma lookup_in f o c : lookup f o = Some c -> In (f, c) o.
Proof.
  induction o as [|[a d] r IH]; cbn; [discriminate|]. destruct (Nat.eqb_spec a f) as [->|].
  - intros H; inversion H; subst. left; reflexivity.
  - intros H. right. apply IH. exact H.
Qed.
Lemma in_setf f c o p : In p (setf f c o) -> p = (f, c) \/ In p o.
Proof.
  induction o as [|[a d] r IH]; cbn.
  - intros [<-|[]]. left; reflexivity.
  - destruct (Nat.eqb a f); cbn.
    + intros [<-|H]; [left; reflexivity|right; right; exact H].
    + intros [<-|H]; [right; left; reflexivity|]. destruct (IH H) as [->|H']; [left; reflexivity|right; right; exact H'].
Qed.

Lemma lookup_setf f c o g : lookup g (setf f c o) = if Nat.eqb f g then Some c else lookup g o.
Proof.
  induction o as [|[a d] r IH]; cbn.
  - destruct (Nat.eqb f g); reflexivity.
  - destruct (Nat.eqb_spec a f) as [->|Hn]; cbn.
    + destruct (Nat.eqb f g); reflexivity.
    + rewrite IH. destruct (Nat.eqb_spec a g) as [->|]; [|reflexivity].
      destruct (Nat.eqb_spec f g); [congruence|reflexivity].
Qed.

(* invariant of one call, starting from a heap of length n: old cells (< n) keep their content, the
   heap only grows, the object stays well-formed, and every freshly rebound field points at a cell >= n *)
Definition call_inv (n : nat) (h0 : heap) (fresh : list field) (st : heap * obj) : Prop :=
  let (h, o) := st in
  n <= length h /\ (forall k, k < n -> nth k h 0 = nth k h0 0) /\ wf h o /\
  (forall f, In f fresh -> exists c, lookup f o = Some c /\ n <= c).

Lemma run_effs_inv n h0 : forall m fresh st, rebind_only_from fresh m = true ->
  call_inv n h0 fresh st -> exists fresh', call_inv n h0 fresh' (fold_left run_eff m st).
Proof.
  induction m as [|e m IH]; intros fresh st Hr Hi; cbn [fold_left]; [exists fresh; exact Hi|].
  destruct st as [h o]. destruct Hi as [Hn [Hold [Hwf Hfr]]]. destruct e as [f v|f v]; cbn [rebind_only_from] in Hr.
  - apply (IH (f :: fresh)); [exact Hr|]. cbn [run_eff call_inv]. rewrite app_length. cbn [length]. split; [lia|]. split.
    + intros k Hk. rewrite nth_app_old by lia. apply Hold. exact Hk.
    + split.
      * intros p Hp. rewrite app_length. cbn [length]. destruct (in_setf _ _ _ _ Hp) as [->|Hp']; [cbn; lia|]. specialize (Hwf p Hp'). lia.
      * intros g [<-|Hg].
        -- exists (length h). rewrite lookup_setf, Nat.eqb_refl. split; [reflexivity|lia].
        -- destruct (Hfr g Hg) as [c [Hc Hle]]. rewrite lookup_setf. destruct (Nat.eqb_spec f g) as [->|].
           ++ exists (length h). split; [reflexivity|lia].
           ++ exists c. split; assumption.
  - apply andb_true_iff in Hr. destruct Hr as [Hin Hr]. apply (IH fresh); [exact Hr|].
    apply existsb_exists in Hin. destruct Hin as [g [Hg Hfg]]. apply Nat.eqb_eq in Hfg. subst g.
    destruct (Hfr f Hg) as [c [Hc Hle]]. cbn [run_eff]. rewrite Hc. cbn [call_inv]. rewrite updh_length.
    split; [exact Hn|]. split.
    + intros k Hk. rewrite updh_other by lia. apply Hold. exact Hk.
    + split; [intros p Hp; rewrite updh_length; apply (Hwf p Hp)|exact Hfr].
Qed.

(* one generative call leaves every cell that existed before the call untouched *)
Theorem method_frame h o m : rebind_only m = true -> wf h o ->
  let (h', o') := run_method h o m in
  length h <= length h' /\ (forall k, k < length h -> nth k h' 0 = nth k h 0) /\ wf h' o'.
Proof.
  intros Hr Hwf. unfold run_method.
  destruct (run_effs_inv (length h) h m [] (h, o) Hr) as [fresh' Hi].
  - cbn. split; [lia|]. split; [auto|]. split; [exact Hwf|intros f []].
  - destruct (fold_left run_eff m (h, o)) as [h' o']. destruct Hi as [H1 [H2 [H3 _]]]. auto.
Qed.

Lemma observe_stable h h' o : wf h o -> (forall k, k < length h -> nth k h' 0 = nth k h 0) ->
  observe h' o = observe h o.
Proof.
  intros Hwf Hold. unfold observe. apply map_ext_in. intros p Hp. f_equal. apply Hold. apply Hwf. exact Hp.
Qed.

Lemma wf_grow h h' o : wf h o -> length h <= length h' -> wf h' o.
Proof. intros Hwf Hl p Hp. specialize (Hwf p Hp). lia. Qed.

(* the whole chain: every object, observed in the final heap, looks exactly as it did in the heap in
   which it was created - however many generative calls were made from it or from its descendants *)
Theorem chain_frame : forall ms h o, Forall (fun m => rebind_only m = true) ms -> wf h o ->
  let (hn, os) := chain h o ms in
  let hs := chain_heaps h o ms in
  (length os = length hs) /\
  (forall i oi hi, nth_error os i = Some oi -> nth_error hs i = Some hi -> observe hn oi = observe hi oi).
Proof.
  induction ms as [|m ms IH]; intros h o Hall Hwf; cbn [chain chain_heaps].
  - split; [reflexivity|]. intros [|i] oi hi H1 H2; cbn in *; [inversion H1; inversion H2; subst; reflexivity|destruct i; discriminate].
  - inversion Hall as [|? ? Hm Hms]; subst.
    pose proof (method_frame h o m Hm Hwf) as MF. destruct (run_method h o m) as [h1 o1] eqn:E1.
    destruct MF as [Hlen [Hold Hwf1]].
    specialize (IH h1 o1 Hms Hwf1). destruct (chain h1 o1 ms) as [hn os] eqn:E2.
    cbn zeta in IH. destruct IH as [Hl IH]. cbn [length]. split; [rewrite Hl; reflexivity|].
    intros [|i] oi hi H1 H2; cbn [nth_error] in H1, H2.
    + inversion H1; inversion H2; subst oi hi.
      (* the first object: untouched by the whole rest of the chain *)
      assert (G : forall ms h1 o1 hn os, Forall (fun m => rebind_only m = true) ms -> wf h1 o1 ->
                 chain h1 o1 ms = (hn, os) -> (length h1 <= length hn) /\ (forall k, k < length h1 -> nth k hn 0 = nth k h1 0)).
      { clear. induction ms as [|m ms IHm]; intros h1 o1 hn os Hall Hwf Hc; cbn [chain] in Hc.
        - inversion Hc; subst. split; [lia|auto].
        - inversion Hall as [|? ? Hm Hms]; subst. pose proof (method_frame h1 o1 m Hm Hwf) as MF.
          destruct (run_method h1 o1 m) as [h2 o2]. destruct MF as [Hlen [Hold Hwf2]].
          destruct (chain h2 o2 ms) as [hn' os'] eqn:E. inversion Hc; subst.
          destruct (IHm h2 o2 hn os' Hms Hwf2 E) as [Hl2 Ho2]. split; [lia|].
          intros k Hk. rewrite Ho2 by lia. apply Hold. exact Hk. }
      destruct (G ms h1 o1 hn os Hms Hwf1 E2) as [Hl1 Ho1].
      apply observe_stable; [exact Hwf|]. intros k Hk. rewrite Ho1 by lia. apply Hold. exact Hk.
    + exact (IH i oi hi H1 H2).
Qed.
