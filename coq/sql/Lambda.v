(* C17 - lambda statements: executable model of sql/lambdas.py (definitions only).

   What the code does.  A lambda handed to lambda_stmt() / "stmt += lambda s: ..." is analysed ONCE per code
   object (AnalyzedCode.get, keyed by fn.__code__), using the closure cell values of the FIRST call:

     _init_closure:  for every closure cell, v = _roll_down_to_literal(cell):
         coercions._deep_is_literal(v)  ->  the cell is wrapped in a PyWrapper (build_py_wrappers) and a
                                            bound-value extractor is registered (bindparam_trackers)
         otherwise                      ->  _cache_key_getter_closure_variable(v): HasCacheKey -> its cache key,
                                            Sequence -> tuple of element keys, else InvalidRequestError
     _setup_additional_closure_trackers: the lambda is RUN once with the wrappers in place; a wrapper that was
         never coerced into a BindParameter (_has_param False: it was called, tested for truth, iterated ...)
         is "some Python object we have to track": _cache_key_getter_tracked_literal ->
         FunctionType -> key is its __code__ ONLY;  list/str -> element cache keys (AttributeError ->
         InvalidRequestError);  anything else -> InvalidRequestError.

   Every later construction with the same code object computes closure_cache_key from the key getters, looks
   the AnalyzedFunction (the SQL skeleton, built by running the lambda with wrappers) up in the cache under
   tracker_key + cache_key (tracker_key = the code objects of the whole "+=" chain), creates it on a miss, and
   then EXTRACTS the bound values of the current closure into the skeleton's BindParameters
   (PyWrapper._extract_bound_parameters / _setup_binds_for_tracked_expr).

   The model: a closure is a list of values; the body of a lambda is a list of [use]s (the shapes the
   correspondence generator emits); [direct] is the statement the same Python expressions build without
   lambda_stmt; [invoke] is the machinery above.  Statements are flat lists of items (criteria in order, FROM
   marker, LIMIT), which is what the executed SQL of these shapes determines. *)
From Coq Require Import List NArith ZArith Bool.
Import ListNotations.

Inductive val :=
| VNone
| VInt (z : Z)
| VStr (s : list Z)
| VList (l : list val)
| VCol (t c : N)                      (* a Column *)
| VTab (t : N)                        (* a Table *)
| VFun (code : N) (cap : list val).   (* a Python function object: its code object and ITS OWN closure values *)

Inductive cmpop := Eq | Ne | Lt | Gt.

(* how the body of a lambda uses its closure cells (cells are numbered in co_freevars order) *)
Inductive use :=
| UFrom (i : nat)                                  (* select(cell_i.c.id)                      cell_i : Table   *)
| UCmp (t c : N) (op : cmpop) (i : nat)            (* .where(T.c <op> cell_i)                                   *)
| UIn (t c : N) (i : nat)                          (* .where(T.c.in_(cell_i))                                   *)
| UColCmp (i : nat) (op : cmpop) (k : Z)           (* .where(cell_i <op> k)                    cell_i : Column  *)
| UTabCmp (i : nat) (c : N) (op : cmpop) (j : nat) (* .where(cell_i.c.<c> <op> cell_j)         cell_i : Table   *)
| UCall (i : nat)                                  (* .where(cell_i())          the function uses ITS closure   *)
| UCallArg (i j : nat)                             (* .where(cell_i(cell_j))                                    *)
| ULimit (i : nat)                                 (* .limit(cell_i)                                            *)
| UIf (t c : N) (i : nat) (k1 k2 : Z)              (* .where(T.c == (k1 if cell_i else k2))                     *)
| UIndex (t c : N) (op : cmpop) (i : nat) (k : nat). (* .where(T.c <op> cell_i[k])                              *)

(* what a helper function does: returns  T.c <op> X  where X is its argument, its own closure value, or a constant *)
Record fdesc := { f_t : N; f_c : N; f_op : cmpop; f_const : Z }.

Inductive crit :=
| CCmp (t c : N) (op : cmpop) (v : val)   (* T.c <op> ?   with the bound value v *)
| CIsNull (t c : N)
| CIsNotNull (t c : N)
| CIn (t c : N) (vs : list val).          (* T.c IN (expanding parameter vs) *)

Inductive item := IFrom (t : N) | ICrit (k : crit) | ILimit (v : val).

Inductive res (A : Type) : Type :=
| Ok (a : A)
| Rejected        (* InvalidRequestError: the documented refusal of a closure variable *)
| TypeErr         (* TypeError out of the analysis run (not produced any more: the list-index defect is repaired, 3d569da) *)
| DomErr.         (* outside the modelled fragment / the direct construction itself raises ArgumentError *)
Arguments Ok {A} a.
Arguments Rejected {A}.
Arguments TypeErr {A}.
Arguments DomErr {A}.

Definition cell (e : list val) (i : nat) : val := nth i e VNone.

(* ------------------------------------------------------------------------------------------ direct semantics *)
(* column <op> python value, as default_comparator builds it *)
Definition cmp_direct (t c : N) (op : cmpop) (v : val) : res (list item) :=
  match v with
  | VNone => match op with
             | Eq => Ok [ICrit (CIsNull t c)]
             | Ne => Ok [ICrit (CIsNotNull t c)]
             | _ => DomErr      (* ArgumentError: Only '=', '!=', ... can be used with None *)
             end
  | VInt _ | VStr _ => Ok [ICrit (CCmp t c op v)]
  | _ => DomErr
  end.

Definition truthy (v : val) : bool :=
  match v with
  | VNone => false
  | VInt z => negb (Z.eqb z 0)
  | VStr s => match s with [] => false | _ => true end
  | VList l => match l with [] => false | _ => true end
  | _ => true
  end.

Definition is_scalar (v : val) : bool := match v with VNone | VInt _ | VStr _ => true | _ => false end.

Section Sem.
  Variable F : N -> fdesc.            (* what the helper function with a given code object does *)

  Definition direct_use (e : list val) (u : use) : res (list item) :=
    match u with
    | UFrom i => match cell e i with VTab t => Ok [IFrom t] | _ => DomErr end
    | UCmp t c op i => cmp_direct t c op (cell e i)
    | UIn t c i => match cell e i with
                   | VList l => if forallb is_scalar l then Ok [ICrit (CIn t c l)] else DomErr
                   | _ => DomErr
                   end
    | UColCmp i op k => match cell e i with VCol t c => cmp_direct t c op (VInt k) | _ => DomErr end
    | UTabCmp i c op j => match cell e i with VTab t => cmp_direct t c op (cell e j) | _ => DomErr end
    | UCall i => match cell e i with
                 | VFun code cap =>
                     let d := F code in
                     cmp_direct (f_t d) (f_c d) (f_op d) (match cap with [] => VInt (f_const d) | v :: _ => v end)
                 | _ => DomErr
                 end
    | UCallArg i j => match cell e i with
                      | VFun code _ => let d := F code in cmp_direct (f_t d) (f_c d) (f_op d) (cell e j)
                      | _ => DomErr
                      end
    | ULimit i => match cell e i with
                  | VNone => Ok []                 (* .limit(None): no LIMIT *)
                  | VInt n => Ok [ILimit (VInt n)]
                  | _ => DomErr
                  end
    | UIf t c i k1 k2 => cmp_direct t c Eq (VInt (if truthy (cell e i) then k1 else k2))
    | UIndex t c op i k => match cell e i with
                           | VList l => match nth_error l k with Some v => cmp_direct t c op v | None => DomErr end
                           | _ => DomErr
                           end
    end.

  Fixpoint direct_uses (e : list val) (us : list use) : res (list item) :=
    match us with
    | [] => Ok []
    | u :: r => match direct_use e u with
                | Ok a => match direct_uses e r with Ok b => Ok (a ++ b) | x => x end
                | Rejected => Rejected | TypeErr => TypeErr | DomErr => DomErr
                end
    end.

  (* ---------------------------------------------------------------------------------------- the analysis *)
  (* coercions._deep_is_literal on the model's values: columns/tables are not literals, FUNCTIONS ARE *)
  Fixpoint deep_is_literal (v : val) : bool :=
    match v with
    | VCol _ _ | VTab _ => false
    | VList l => (fix all (l : list val) : bool := match l with [] => true | x :: r => deep_is_literal x && all r end) l
    | _ => true
    end.

  (* does the analysis run coerce the wrapper of cell i into a BindParameter (PyWrapper._has_param) *)
  (* note: cell_i[k] coerces the SUB-wrapper of the item, not the wrapper of cell_i itself *)
  Definition slots (u : use) (i : nat) : bool :=
    match u with
    | UCmp _ _ _ j | UIn _ _ j | ULimit j => Nat.eqb i j
    | UTabCmp _ _ _ j | UCallArg _ j => Nat.eqb i j
    | _ => false
    end.
  Definition has_param (us : list use) (i : nat) : bool := existsb (fun u => slots u i) us.

  Inductive cls :=
  | Bound        (* wrapped, made a parameter: value re-extracted on every call, not part of the key *)
  | KeyElem      (* not a literal: its cache key (here: the value itself) is part of the key *)
  | KeyCode      (* wrapped, never a parameter, a function: only its __code__ is part of the key *)
  | KeySeqBad    (* wrapped, never a parameter, a list / str: a Sequence getter is registered (the analysis succeeds and
                    is stored) that raises InvalidRequestError whenever the key is computed: elements have no cache key *)
  | Reject.      (* InvalidRequestError during the analysis *)

  Definition classify (us : list use) (i : nat) (v : val) : cls :=
    if deep_is_literal v then
      if has_param us i then Bound
      else match v with                                                (* _cache_key_getter_tracked_literal *)
           | VFun _ _ => KeyCode
           | VList _ | VStr _ => KeySeqBad
           | _ => Reject
           end
    else match v with
         | VCol _ _ | VTab _ => KeyElem                                (* HasCacheKey *)
         | VList _ => KeyElem                                          (* Sequence of HasCacheKey elements *)
         | _ => Reject
         end.

  Definition is_index (u : use) : bool := match u with UIndex _ _ _ _ _ => true | _ => false end.

  (* one record per closure cell: was it wrapped, and its class *)
  Definition cinfo := (bool * cls)%type.

  Fixpoint classify_cells (us : list use) (i : nat) (e : list val) : list cinfo :=
    match e with
    | [] => []
    | v :: r => (deep_is_literal v, classify us i v) :: classify_cells us (S i) r
    end.

  Definition rejects (a : list cinfo) (nonliteral : bool) : bool :=
    existsb (fun ci => match snd ci with Reject => Bool.eqb (fst ci) (negb nonliteral) | _ => false end) a.

  (* AnalyzedCode.__init__: _init_closure (uncacheable non-literal cells raise first), then the instrumented
     run, then the tracked literals that did not become parameters.  (Before 3d569da a list index raised
     TypeError in the run: PyWrapper(name=<int>) -> BindParameter(<int>); the item wrapper is now named
     "<cell>_item_<k>".) *)
  Definition analyze (us : list use) (e : list val) : res (list cinfo) :=
    let a := classify_cells us 0 e in
    if rejects a true then Rejected
    else if rejects a false then Rejected
    else Ok a.

  (* the closure part of the cache key *)
  Definition keypart (ci : cinfo) (v : val) : option val :=
    match snd ci with
    | KeyElem => Some v
    | KeyCode => match v with VFun code _ => Some (VFun code []) | _ => Some v end
    | _ => None
    end.
  Fixpoint keyparts (a : list cinfo) (e : list val) : list (option val) :=
    match a, e with
    | ci :: a', v :: e' => keypart ci v :: keyparts a' e'
    | _, _ => []
    end.

  (* ---------------------------------------------------------------------------------------- the skeleton *)
  Inductive sitem :=
  | SFix (it : item)                              (* built from the values of the creating call *)
  | SCmpSlot (t c : N) (op : cmpop) (i : nat)     (* T.c <op> :cell_i     bound parameter, filled on every call *)
  | SInSlot (t c : N) (i : nat)                   (* T.c IN :cell_i       expanding parameter *)
  | SLimitSlot (i : nat)                          (* LIMIT :cell_i *)
  | SIdxSlot (t c : N) (op : cmpop) (i k : nat).  (* T.c <op> :cell_i_item_k   bind path: item k of the current cell_i *)

  Definition wrapped (a : list cinfo) (i : nat) : bool := fst (nth i a (false, Reject)).

  Definition fixed (r : res (list item)) : res (list sitem) :=
    match r with Ok l => Ok (map SFix l) | Rejected => Rejected | TypeErr => TypeErr | DomErr => DomErr end.

  (* running the lambda with PyWrappers in the literal cells (AnalyzedFunction._instrument_and_run_function) *)
  Definition build_use (a : list cinfo) (e : list val) (u : use) : res (list sitem) :=
    match u with
    | UFrom _ | UColCmp _ _ _ => fixed (direct_use e u)
    | UCmp t c op i => if wrapped a i then Ok [SCmpSlot t c op i] else fixed (direct_use e u)
    | UIn t c i => if wrapped a i then Ok [SInSlot t c i] else fixed (direct_use e u)
    | UTabCmp i c op j =>
        match cell e i with
        | VTab t => if wrapped a j then Ok [SCmpSlot t c op j] else fixed (direct_use e u)
        | _ => DomErr
        end
    | UCall _ => fixed (direct_use e u)            (* the helper runs for real: its closure value is baked in *)
    | UCallArg i j =>
        match cell e i with
        | VFun code _ => let d := F code in
                         if wrapped a j then Ok [SCmpSlot (f_t d) (f_c d) (f_op d) j] else fixed (direct_use e u)
        | _ => DomErr
        end
    | ULimit i => if wrapped a i then Ok [SLimitSlot i] else fixed (direct_use e u)
    | UIf _ _ _ _ _ => fixed (direct_use e u)       (* PyWrapper.__bool__: the current truth value is baked in *)
    | UIndex t c op i k =>
        if wrapped a i then
          match cell e i with
          | VList l => match nth_error l k with Some _ => Ok [SIdxSlot t c op i k] | None => DomErr end  (* IndexError *)
          | _ => DomErr
          end
        else fixed (direct_use e u)
    end.

  Fixpoint build_uses (a : list cinfo) (e : list val) (us : list use) : res (list sitem) :=
    match us with
    | [] => Ok []
    | u :: r => match build_use a e u with
                | Ok x => match build_uses a e r with Ok y => Ok (x ++ y) | z => z end
                | z => z
                end
    end.

  (* extracting the current bound values into the skeleton *)
  Definition fill_item (e : list val) (s : sitem) : list item :=
    match s with
    | SFix it => [it]
    | SCmpSlot t c op i => [ICrit (CCmp t c op (cell e i))]
    | SInSlot t c i => [ICrit (CIn t c (match cell e i with VList l => l | v => [v] end))]
    | SLimitSlot i => [ILimit (cell e i)]
    | SIdxSlot t c op i k => [ICrit (CCmp t c op (match cell e i with VList l => nth k l VNone | _ => VNone end))]
    end.
  Definition fill (e : list val) (p : list sitem) : list item := flat_map (fill_item e) p.
End Sem.

(* ------------------------------------------------------------------------------------------ the machinery *)
Definition ckey := list (N * list (option val)).   (* tracker_key + closure_cache_key of a "+=" chain prefix *)

Fixpoint val_eqb (a b : val) {struct a} : bool :=
  let fix list_eqb (xs ys : list val) {struct xs} : bool :=
    match xs, ys with
    | [], [] => true
    | x :: xs', y :: ys' => val_eqb x y && list_eqb xs' ys'
    | _, _ => false
    end in
  match a, b with
  | VNone, VNone => true
  | VInt x, VInt y => Z.eqb x y
  | VStr x, VStr y => (fix seqb (x y : list Z) : bool :=
                         match x, y with [], [] => true | p :: x', q :: y' => Z.eqb p q && seqb x' y' | _, _ => false end) x y
  | VList x, VList y => list_eqb x y
  | VCol t c, VCol t' c' => N.eqb t t' && N.eqb c c'
  | VTab t, VTab t' => N.eqb t t'
  | VFun k cap, VFun k' cap' => N.eqb k k' && list_eqb cap cap'
  | _, _ => false
  end.

Definition optval_eqb (a b : option val) : bool :=
  match a, b with Some x, Some y => val_eqb x y | None, None => true | _, _ => false end.
Fixpoint list_eqb {A} (eqb : A -> A -> bool) (xs ys : list A) : bool :=
  match xs, ys with
  | [], [] => true
  | x :: xs', y :: ys' => eqb x y && list_eqb eqb xs' ys'
  | _, _ => false
  end.
Definition ckey_eqb (a b : ckey) : bool :=
  list_eqb (fun p q => N.eqb (fst p) (fst q) && list_eqb optval_eqb (snd p) (snd q)) a b.

Record state := {
  analyses : list (N * list (bool * cls));     (* AnalyzedCode._fns *)
  cache : list (ckey * list sitem)             (* the lambda cache: chain key -> skeleton part of the last link *)
}.
Definition empty_state : state := {| analyses := []; cache := [] |}.

Fixpoint assoc_code (k : N) (l : list (N * list (bool * cls))) : option (list (bool * cls)) :=
  match l with [] => None | (k', v) :: r => if N.eqb k k' then Some v else assoc_code k r end.
Fixpoint assoc_key (k : ckey) (l : list (ckey * list sitem)) : option (list sitem) :=
  match l with [] => None | (k', v) :: r => if ckey_eqb k k' then Some v else assoc_key k r end.

Section Machine.
  Variable F : N -> fdesc.
  Variable U : N -> list use.         (* the body of the lambda with a given code object *)

  (* one link of a chain: LambdaElement.__init__ / LinkedLambdaElement.__init__ -> _retrieve_tracker_rec *)
  Definition invoke_link (st : state) (pkey : ckey) (code : N) (e : list val)
    : state * res (ckey * list sitem) :=
    match (match assoc_code code (analyses st) with
           | Some a => Ok (a, st)
           | None => match analyze (U code) e with
                     | Ok a => Ok (a, {| analyses := (code, a) :: analyses st; cache := cache st |})
                     | Rejected => Rejected | TypeErr => TypeErr | DomErr => DomErr
                     end
           end) with
    | Ok (a, st1) =>
        if existsb (fun ci => match snd ci with KeySeqBad => true | _ => false end) a then (st1, Rejected) else
        let key := pkey ++ [(code, keyparts a e)] in
        match assoc_key key (cache st1) with
        | Some p => (st1, Ok (key, p))
        | None =>
            match build_uses F a e (U code) with
            | Ok p => ({| analyses := analyses st1; cache := (key, p) :: cache st1 |}, Ok (key, p))
            | Rejected => (st1, Rejected) | TypeErr => (st1, TypeErr) | DomErr => (st1, DomErr)
            end
        end
    | Rejected => (st, Rejected) | TypeErr => (st, TypeErr) | DomErr => (st, DomErr)
    end.

  (* a whole "lambda_stmt(l0) + l1 + ..." construction; the statement is the concatenation of the filled parts *)
  Fixpoint invoke_chain (st : state) (pkey : ckey) (ch : list (N * list val)) : state * res (list item) :=
    match ch with
    | [] => (st, Ok [])
    | (code, e) :: r =>
        match invoke_link st pkey code e with
        | (st1, Ok (key, p)) =>
            match invoke_chain st1 key r with
            | (st2, Ok rest) => (st2, Ok (fill e p ++ rest))
            | (st2, x) => (st2, x)
            end
        | (st1, Rejected) => (st1, Rejected)
        | (st1, TypeErr) => (st1, TypeErr)
        | (st1, DomErr) => (st1, DomErr)
        end
    end.

  Definition invoke (st : state) (ch : list (N * list val)) : state * res (list item) := invoke_chain st [] ch.

  (* the same chain built without lambda_stmt *)
  Fixpoint direct_chain (ch : list (N * list val)) : res (list item) :=
    match ch with
    | [] => Ok []
    | (code, e) :: r =>
        match direct_uses F e (U code) with
        | Ok a => match direct_chain r with Ok b => Ok (a ++ b) | x => x end
        | x => x
        end
    end.

  (* a history of constructions against one process-wide state *)
  Fixpoint run (st : state) (h : list (list (N * list val))) : list (res (list item)) :=
    match h with
    | [] => []
    | ch :: r => let (st', o) := invoke st ch in o :: run st' r
    end.
End Machine.
