(* executable entry point for the correspondence check of C14 *)
From Coq Require Import List NArith ZArith Bool.
Import ListNotations.
From SAV.base Require Import Tree.
From SAV.util Require Import Topo.
From SAV.sql Require Import DDLOrder.

(* fk = L [I id; I ref; I use_alter; I named]   table = L [I name; L fks; L extra] *)
Definition as_fk (t : tree) : option fk :=
  match t with
  | L [i; r; a; n] =>
    match as_N i, as_N r, as_bool a, as_bool n with
    | Some i', Some r', Some a', Some n' => Some (mkfk i' r' a' n')
    | _, _, _, _ => None
    end
  | _ => None
  end.
Definition as_table (t : tree) : option table :=
  match t with
  | L [n; fks; ex] =>
    match as_N n, as_list_of as_fk fks, as_list_of as_N ex with
    | Some n', Some f', Some e' => Some (mktable n' f' e')
    | _, _, _ => None
    end
  | _ => None
  end.

Definition of_stmt (s : stmt) : tree :=
  match s with
  | CreateT t fks => L [I 0; of_N t; of_list (fun f => of_N (fk_id f)) fks]
  | AddFK t f => L [I 1; of_N t; of_N (fk_id f)]
  | DropT t => L [I 2; of_N t]
  | DropFK t f => L [I 3; of_N t; of_N (fk_id f)]
  end.

(* canonical plan: L [I 0; L ordered; L unordered] ; errors: L [I 1] circular, L [I 2] compile error,
   L [I 3] out of fuel (never) *)
Definition of_outcome (p : outcome) : tree :=
  match p with
  | Plan o u => L [I 0; of_list of_stmt o; of_list of_stmt u]
  | ErrCircular => L [I 1]
  | ErrCompile => L [I 2]
  | ErrFuel => L [I 3]
  end.

(* step = L [I kind; table]   kind 0 = Table(...), 1 = MetaData.remove, 2 = Table(..., extend_existing=True) *)
Definition as_step (t : tree) : option step :=
  match t with
  | L [I k; tr] =>
    match as_table tr with
    | Some tb => if Z.eqb k 0 then Some (Define tb) else if Z.eqb k 1 then Some (Remove (t_name tb))
                 else if Z.eqb k 2 then Some (Extend tb) else None
    | None => None
    end
  | _ => None
  end.

Definition run_op (op : Z) (ex : list N) (cf : bool) (md : metadata) : tree :=
  if Z.eqb op 0 then of_outcome (create_plan ex cf md)
  else if Z.eqb op 1 then of_outcome (drop_plan ex cf md)
  else
    match sorted_tables md with
    | Ok (o, w) => L [I 0; of_list of_N o; of_bool w]
    | Circular => L [I 1]
    | OutOfFuel => L [I 3]
    end.

(* input  L [I op; L existing; I checkfirst; L tables]   op 0 = create_all, 1 = drop_all,
   2 = sorted_tables; op 10/11/12: the same on the metadata left by a history (L steps instead of
   L tables); L [I 6] = the history itself is rejected (table defined twice) *)
Definition run_case (t : tree) : tree :=
  match t with
  | L [I op; tex; tcf; tmd] =>
    match as_list_of as_N tex, as_bool tcf with
    | Some ex, Some cf =>
      if Z.ltb op 10 then
        match as_list_of as_table tmd with
        | Some md => run_op op ex cf md
        | None => bad_input
        end
      else
        match as_list_of as_step tmd with
        | Some h => match current h with
                    | Some md => run_op (op - 10) ex cf md
                    | None => L [I 6]
                    end
        | None => bad_input
        end
    | _, _ => bad_input
    end
  | _ => bad_input
  end.
