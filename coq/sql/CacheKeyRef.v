(* C02 - a small reference table (an excerpt of the real per-class tables: BinaryExpression,
   ColumnClause, BindParameter, Table, Select, Alias, Label) with witnesses: hypotheses are satisfiable, and the
   two places where the code still violates the property (Label.type, the callable of a cached bind).
   bindparam.expanding was a third one until f7c5c02 put it into BindParameter._gen_cache_key. *)
From Coq Require Import List NArith ZArith Bool.
Import ListNotations.
From SAV.sql Require Import CacheKey CacheExec CacheKeyMain.
Open Scope N_scope.

(* attributes *)
Definition a_left := 10. Definition a_right := 11. Definition a_operator := 12. Definition a_name := 13.
Definition a_table := 14. Definition a_type := 15. Definition a_key := 16. Definition a_litexec := 17.
Definition a_expanding := 18. Definition a_columns := 20. Definition a_where := 21. Definition a_element := 22.
(* classes *)
Definition c_binary := 1. Definition c_column := 2. Definition c_bind := 3. Definition c_table := 4.
Definition c_select := 5. Definition c_alias := 6. Definition c_values := 7. Definition c_ddl := 8.
Definition c_label := 9.
Definition a_data := 23.

Definition T_ref : ttab := [
  (c_binary, mkC KNormal false [(a_left, HKids); (a_right, HKids); (a_operator, HTruthy); (a_type, HNotNone)]);
  (c_column, mkC KNormal false [(a_name, HNotNone); (a_type, HNotNone); (a_table, HKids)]);
  (c_bind,   mkC KNormal true  [(a_type, HNotNone); (a_key, HNotNone); (a_litexec, HNotNone); (a_expanding, HNotNone)]);
  (c_label,  mkC KNormal false [(a_name, HNotNone); (a_element, HKids)]);            (* Label._cache_key_traversal: no type *)
  (c_table,  mkC KIdentity false []);
  (c_select, mkC KNormal false [(a_columns, HKids); (a_where, HKids)]);
  (c_alias,  mkC KNormal false [(a_element, HKids); (a_name, HNotNone)]);
  (c_values, mkC KNormal false [(a_columns, HKids); (a_data, HNoCache); (a_name, HTruthy)]);   (* Values: not cacheable once it has data *)
  (c_ddl,    mkC KNoCache false []) ].                                                          (* a class without a cache key *)
(* what the compiler reads: visit_label reads label.type (result processors), which is not in the key *)
Definition V_ref : vtab := [
  (c_binary, [a_left; a_right; a_operator]);
  (c_column, [a_name; a_table; a_type]);
  (c_bind,   [a_type; a_key; a_litexec; a_expanding]);
  (c_label,  [a_name; a_element; a_type]);
  (c_select, [a_columns; a_where]);
  (c_alias,  [a_element; a_name]) ].
Definition G_ref : list (N * N) := [(c_label, a_type)].

Definition A (z : Z) : atom := mkA z true.
Definition AFalse : atom := mkA 7 false.
Definition tbl : node := Node 1 c_table [(a_self, A 50)] [].
Definition colx : node := Node 2 c_column [(a_name, A 100); (a_type, A 200)] [(a_table, [tbl])].
(* bindparam("p", value, type_=Integer, expanding=..., callable_=...) *)
Definition bp (lbl : N) (value : atom) (callable : atom) (effective : atom) (expanding : atom) : node :=
  Node lbl c_bind [(a_type, A 200); (a_key, A 300); (a_litexec, AFalse); (a_expanding, expanding);
                   (a_value, value); (a_callable, callable); (a_effective, effective)] [].
(* select(t.c.x).where(t.c.x == <bind>)  - the column object occurs twice *)
Definition sel (b : node) : node :=
  Node 0 c_select [] [(a_columns, [colx]);
                      (a_where, [Node 3 c_binary [(a_operator, A 400)] [(a_left, [colx]); (a_right, [b])]])].

Definition s_3 : node := sel (bp 4 (A 3) ANone (A 3) AFalse).
Definition s_9 : node := sel (bp 4 (A 9) ANone (A 9) AFalse).
Definition s_expanding : node := sel (bp 4 (A 9) ANone (A 9) (A 1)).
(* select(label("lx", t.c.x, type_=...)): the type atom is present only when it differs from the element's *)
Definition sel_label (ty : atom) : node :=
  Node 0 c_select [] [(a_columns, [Node 5 c_label [(a_name, A 500); (a_type, ty)] [(a_element, [colx])]])].
Definition s_label_default : node := sel_label ANone.
Definition s_label_boolean : node := sel_label (A 201).
Definition s_callable : node := sel (bp 4 ANone (A 77) (A 4) AFalse).      (* callable_=lambda: 4 *)
(* not cacheable: a VALUES construct with data; a statement containing an element without a cache key *)
Definition s_values : node :=
  Node 0 c_select [] [(a_columns, [colx]);
                      (a_where, [Node 3 c_binary [(a_operator, A 400)]
                                   [(a_left, [Node 5 c_values [(a_data, A 900); (a_name, A 901)] [(a_columns, [colx])]]);
                                    (a_right, [bp 4 (A 5) ANone (A 5) AFalse])]])].
Definition s_nokey : node := Node 0 c_select [] [(a_columns, [colx; Node 6 c_ddl [] []])].

(* the simplest compiler: the text is everything it sees, the parameters are the bind parameters it sees *)
Definition render_ref (ctx : atom) (v : ktree) : ktree * list N := (v, kbl T_ref v).
Definition ctx0 : atom := A 1.
Definition step_of (s : node) : step := mkStep ctx0 s true (fun _ => false) [[]].        (* a plain execution *)
(* an executemany with three parameter sets; the second names the bind parameter (label 4) itself *)
Definition many_of (s : node) : step := mkStep ctx0 s true (fun _ => false) [[]; [(4, A 55)]; []].
