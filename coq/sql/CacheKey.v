(* C02 - the compiled-statement cache is transparent: executable model (definitions only).

   Transcribes  sql/cache_key.py  HasCacheKey._gen_cache_key + the per-class dispatcher emitted by
   _CacheKeyTraversal._generate_dispatcher,  elements.py BindParameter._gen_cache_key,
   schema.py Table._gen_cache_key,  elements.py ClauseElement._compile_w_cache  and
   compiler.py SQLCompiler.construct_params(extracted_parameters=...).

   A statement is a tree of OBJECTS.  [lbl] is the object's identity (the harness uses the index that
   anon_map.get_anon gave it, so equal labels across statements mean "same position in the key
   numbering"); the same object occurring twice is written twice with the same label.
   Attributes are split by the shape of their value: [atoms] (strings, booleans, operators, types,
   plain objects: compared with ==, with Python truthiness) and [kids] (an element, or any
   sequence/tuple/dict structure of elements; a single element is a one-element list, None is []).
   An attribute holds one or the other; a keyed attribute contributes its plain value (by the rule
   of its handler) and its element structure (when not empty).
   Tuples / dict entries inside such structures are pseudo objects of class 0. *)
From Coq Require Import List NArith ZArith Bool.
Import ListNotations.

Record atom := mkA { aid : Z; atruthy : bool }.       (* interned value, bool(value) *)
Definition ANone : atom := mkA 0 false.               (* None is the atom 0 *)
Definition atom_eqb (a b : atom) : bool := Z.eqb (aid a) (aid b) && Bool.eqb (atruthy a) (atruthy b).
Definition is_none (a : atom) : bool := Z.eqb (aid a) 0 && negb (atruthy a).

Inductive node := Node (lbl cls : N) (atoms : list (N * atom)) (kids : list (N * list node)).

(* reserved attribute ids (the generated attribute table starts with these) *)
Definition a_self : N := 0.        (* the object itself (identity-keyed classes: Table) *)
Definition a_value : N := 1.       (* BindParameter.value *)
Definition a_callable : N := 2.    (* BindParameter.callable *)
Definition a_effective : N := 3.   (* BindParameter.effective_value *)

(* what the generated dispatcher does with one (attrname, dp_symbol) entry *)
Inductive shape :=
| HSkip                     (* dispatch(sym) is None, or visit_params: contributes nothing *)
| HTruthy                   (* "if obj: result += (attrname, obj)"  (CACHE_IN_PLACE, plain dict, ...) *)
| HNotNone                  (* "if obj is not None" on a plain value (type static key, anon name, custom keys) *)
| HKids                     (* element / sequence of elements: skipped when None or empty *)
| HNoCache.                 (* visit_unknown_structure / visit_dml_multi_values: NO_CACHE when set *)
Inductive ckind := KNormal | KIdentity | KNoCache.
Record cinfo := mkC { ck : ckind; cbind : bool; cfields : list (N * shape) }.
Definition ttab := list (N * cinfo).
Definition vtab := list (N * list N).      (* class -> attributes the compiler's output depends on *)

Fixpoint alookup {A} (k : N) (l : list (N * A)) : option A :=
  match l with [] => None | (k', v) :: r => if N.eqb k' k then Some v else alookup k r end.
Definition memN (k : N) (l : list N) : bool := existsb (N.eqb k) l.
Definition tget (T : ttab) (c : N) : cinfo :=
  match alookup c T with Some i => i | None => mkC KNoCache false [] end.
Definition vget (V : vtab) (c : N) : list N := match alookup c V with Some l => l | None => [] end.
Definition aget (a : N) (atoms : list (N * atom)) : atom :=
  match alookup a atoms with Some x => x | None => ANone end.
Definition kget {A} (a : N) (kids : list (N * list A)) : list A :=
  match alookup a kids with Some l => l | None => [] end.
Definition nonempty {A} (l : list A) : bool := match l with [] => false | _ => true end.

(* ---------------------------------------------------------------- the cache key *)
Inductive ktree :=
| KN (lbl cls : N) (ka : list (N * atom)) (kk : list (N * list ktree))  (* (id_, cls, attr, value, ...) *)
| KR (lbl cls : N)                                                       (* (id_, cls): seen before *)
| KI (a : atom).                                                         (* (self,): Table *)

Record bind := mkB { blbl : N; bval : atom; bcall : bool; beff : atom }.
Definition mkbind (lbl : N) (atoms : list (N * atom)) : bind :=
  mkB lbl (aget a_value atoms) (atruthy (aget a_callable atoms)) (aget a_effective atoms).
Record kstate := mkS { seen : list N; binds : list bind }.   (* anon_map, bindparams *)
Definition kres := option (ktree * kstate).                   (* None: NO_CACHE *)
Definition kfun := kstate -> kres.

(* the plain-valued entries of the key, in _traverse_internals order *)
Definition sel_atoms (fs : list (N * shape)) (atoms : list (N * atom)) : list (N * atom) :=
  flat_map (fun f => let x := aget (fst f) atoms in
              match snd f with
              | HTruthy | HKids => if atruthy x then [(fst f, x)] else []   (* HKids: a plain object in a "multi" slot *)
              | HNotNone => if is_none x then [] else [(fst f, x)]
              | _ => []
              end) fs.
Definition nocache_hit {A} (fs : list (N * shape)) (atoms : list (N * atom)) (kids : list (N * list A)) : bool :=
  existsb (fun f => match snd f with
                    | HNoCache => atruthy (aget (fst f) atoms) || nonempty (kget (fst f) kids)
                    | _ => false end) fs.

(* tuple([elem._gen_cache_key(anon_map, bindparams) for elem in obj]) *)
Fixpoint run_list (fs : list kfun) (st : kstate) : option (list ktree * kstate) :=
  match fs with
  | [] => Some ([], st)
  | f :: r => match f st with
              | None => None
              | Some (k, st1) => match run_list r st1 with
                                 | None => None
                                 | Some (ks, st2) => Some (k :: ks, st2)
                                 end
              end
  end.
(* the element-valued entries, in _traverse_internals order *)
Fixpoint run_kids (fs : list (N * shape)) (kf : list (N * list kfun)) (st : kstate)
  : option (list (N * list ktree) * kstate) :=
  match fs with
  | [] => Some ([], st)
  | (a, (HKids | HTruthy | HNotNone)) :: r =>
      match kget a kf with
      | [] => run_kids r kf st
      | l => match run_list l st with
             | None => None
             | Some (ks, st1) => match run_kids r kf st1 with
                                 | None => None
                                 | Some (rest, st2) => Some ((a, ks) :: rest, st2)
                                 end
             end
      end
  | _ :: r => run_kids r kf st
  end.

Definition key_body (T : ttab) (lbl cls : N) (atoms : list (N * atom)) (kf : list (N * list kfun)) : kfun :=
  fun st =>
  let ci := tget T cls in
  match ck ci with
  | KNoCache => None
  | KIdentity => Some (KI (aget a_self atoms), st)
  | KNormal =>
      if memN lbl (seen st) then Some (KR lbl cls, st)          (* id_, found = anon_map.get_anon(self) *)
      else if nocache_hit (cfields ci) atoms kf then None
      else
        let st1 := mkS (lbl :: seen st)
                       (if cbind ci then binds st ++ [mkbind lbl atoms] else binds st) in
        match run_kids (cfields ci) kf st1 with
        | None => None
        | Some (kk, st2) => Some (KN lbl cls (sel_atoms (cfields ci) atoms) kk, st2)
        end
  end.

Fixpoint key (T : ttab) (n : node) : kfun :=
  match n with
  | Node lbl cls atoms kids =>
      key_body T lbl cls atoms (map (fun p => (fst p, map (key T) (snd p))) kids)
  end.

Definition st0 : kstate := mkS [] [].
(* HasCacheKey._generate_cache_key: CacheKey(key, bindparams) or None *)
Definition gen_key (T : ttab) (s : node) : option (ktree * list bind) :=
  match key T s st0 with Some (k, st) => Some (k, binds st) | None => None end.

(* ---------------------------------------------------------------- unpruned projections *)
Definition sel_kids {A} (fs : list (N * shape)) (pk : list (N * list A)) : list (N * list A) :=
  flat_map (fun f => match snd f with
                     | HKids | HTruthy | HNotNone => match kget (fst f) pk with [] => [] | l => [(fst f, l)] end
                     | _ => [] end) fs.
(* everything the key says about an object, with repeated objects written out again *)
Definition proj_body (T : ttab) (lbl cls : N) (atoms : list (N * atom)) (pk : list (N * list ktree)) : ktree :=
  let ci := tget T cls in
  match ck ci with
  | KIdentity => KI (aget a_self atoms)
  | _ => KN lbl cls (sel_atoms (cfields ci) atoms) (sel_kids (cfields ci) pk)
  end.
Fixpoint proj (T : ttab) (n : node) : ktree :=
  match n with
  | Node lbl cls atoms kids =>
      proj_body T lbl cls atoms (map (fun p => (fst p, map (proj T) (snd p))) kids)
  end.

(* what the compiler can see: for each object the attributes in V (falsy plain values and empty
   structures are indistinguishable from absent ones: ASSUMPTION, the key itself skips them) *)
Definition view_body (T : ttab) (V : vtab) (lbl cls : N) (atoms : list (N * atom)) (pk : list (N * list ktree)) : ktree :=
  match ck (tget T cls) with
  | KIdentity => KI (aget a_self atoms)
  | _ => KN lbl cls
           (flat_map (fun a => let x := aget a atoms in if atruthy x then [(a, x)] else []) (vget V cls))
           (flat_map (fun a => match kget a pk with [] => [] | l => [(a, l)] end) (vget V cls))
  end.
Fixpoint view (T : ttab) (V : vtab) (n : node) : ktree :=
  match n with
  | Node lbl cls atoms kids =>
      view_body T V lbl cls atoms (map (fun p => (fst p, map (view T V) (snd p))) kids)
  end.

(* the part of an (unpruned) key that V mentions *)
Fixpoint restrict (V : vtab) (k : ktree) : ktree :=
  match k with
  | KN lbl cls ka kk =>
      KN lbl cls
         (flat_map (fun a => match alookup a ka with
                             | Some x => if atruthy x then [(a, x)] else []
                             | None => [] end) (vget V cls))
         (flat_map (fun a => match kget a (map (fun p => (fst p, map (restrict V) (snd p))) kk) with
                             | [] => [] | l => [(a, l)] end) (vget V cls))
  | KR l c => KR l c
  | KI a => KI a
  end.

(* ---------------------------------------------------------------- the T1 side condition *)
Definition keyed (ci : cinfo) (a : N) : bool :=
  match ck ci with
  | KIdentity => true
  | KNoCache => false
  | KNormal => existsb (fun f => N.eqb (fst f) a &&
                          match snd f with HTruthy | HNotNone | HKids => true | _ => false end) (cfields ci)
  end.
Fixpoint nodupN (l : list N) : bool :=
  match l with [] => true | x :: r => negb (memN x r) && nodupN r end.
(* every attribute the compiler reads for a class is part of that class's key *)
Definition covers (T : ttab) (V : vtab) : bool :=
  forallb (fun e => forallb (keyed (tget T (fst e))) (snd e)) V &&
  forallb (fun e => nodupN (map fst (cfields (snd e)))) T &&
  nodupN (map fst T) && nodupN (map fst V).
(* V without the known gaps G (class, attribute) *)
Definition vminus (V : vtab) (G : list (N * N)) : vtab :=
  map (fun e => (fst e, filter (fun a => negb (existsb (fun g => N.eqb (fst g) (fst e) && N.eqb (snd g) a) G)) (snd e))) V.

(* ---------------------------------------------------------------- un-pruning a key *)
Fixpoint ktree_eqb (a b : ktree) {struct a} : bool :=
  match a, b with
  | KN l c ka kk, KN l' c' ka' kk' =>
      N.eqb l l' && N.eqb c c' &&
      (fix ga (x y : list (N * atom)) : bool :=
         match x, y with
         | [], [] => true
         | (i, p) :: x', (j, q) :: y' => N.eqb i j && atom_eqb p q && ga x' y'
         | _, _ => false end) ka ka' &&
      (fix gk (x y : list (N * list ktree)) {struct x} : bool :=
         match x, y with
         | [], [] => true
         | (i, p) :: x', (j, q) :: y' =>
             N.eqb i j &&
             (fix gl (u v : list ktree) {struct u} : bool :=
                match u, v with
                | [], [] => true
                | s :: u', t :: v' => ktree_eqb s t && gl u' v'
                | _, _ => false end) p q && gk x' y'
         | _, _ => false end) kk kk'
  | KR l c, KR l' c' => N.eqb l l' && N.eqb c c'
  | KI x, KI y => atom_eqb x y
  | _, _ => false
  end.

(* replace every back reference (id_, cls) by the key that was generated at the first occurrence *)
Definition uenv := list (N * ktree).
Fixpoint unprune (k : ktree) : uenv -> ktree * uenv :=
  match k with
  | KN l c ka kk => fun env =>
      let r := (fix gk (x : list (N * list ktree)) (env : uenv) : list (N * list ktree) * uenv :=
                  match x with
                  | [] => ([], env)
                  | (a, ks) :: x' =>
                      let r1 := (fix gl (u : list ktree) (env : uenv) : list ktree * uenv :=
                                   match u with
                                   | [] => ([], env)
                                   | s :: u' => let r := unprune s env in
                                                let r' := gl u' (snd r) in (fst r :: fst r', snd r')
                                   end) ks env in
                      let r2 := gk x' (snd r1) in ((a, fst r1) :: fst r2, snd r2)
                  end) kk env in
      let full := KN l c ka (fst r) in (full, (l, full) :: snd r)
  | KR l c => fun env => (match alookup l env with Some f => f | None => KR l c end, env)
  | KI a => fun env => (KI a, env)
  end.

(* labels of the bind-parameter objects in a key / projection, in key order *)
Fixpoint kbl (T : ttab) (k : ktree) : list N :=
  match k with
  | KN l c _ kk => (if cbind (tget T c) then [l] else []) ++
                   flat_map (fun p => flat_map (kbl T) (snd p)) kk
  | _ => []
  end.

(* all bind parameter objects of a statement (any attribute), first occurrence of each label *)
Fixpoint allbinds (T : ttab) (n : node) : list bind :=
  match n with
  | Node lbl cls atoms kids =>
      (if cbind (tget T cls) then [mkbind lbl atoms] else []) ++
      flat_map (fun p => flat_map (allbinds T) (snd p)) kids
  end.
Fixpoint bfind (l : N) (bs : list bind) : option bind :=
  match bs with [] => None | b :: r => if N.eqb (blbl b) l then Some b else bfind l r end.
Fixpoint bindex (l : N) (bs : list bind) : option nat :=
  match bs with
  | [] => None
  | b :: r => if N.eqb (blbl b) l then Some O else match bindex l r with Some i => Some (S i) | None => None end
  end.
Definition bind_eqb (x y : bind) : bool :=
  N.eqb (blbl x) (blbl y) && atom_eqb (bval x) (bval y) && Bool.eqb (bcall x) (bcall y) && atom_eqb (beff x) (beff y).

(* "the statement is an object graph": equal labels denote one object.  Stated through its three
   consequences that the theorems use, each a decidable check that the runner evaluates on every
   encoded statement:  (1) un-pruning the key gives the full projection, (2) a bind parameter found
   by the key traversal is the bind parameter found under that label anywhere in the statement,
   (3) every bind parameter the projection mentions was extracted *)
Definition wf (T : ttab) (s : node) : bool :=
  match gen_key T s with
  | None => true
  | Some (k, bs) =>
      ktree_eqb (fst (unprune k [])) (proj T s) &&
      forallb (fun b => match bfind (blbl b) (allbinds T s) with Some b' => bind_eqb b b' | None => false end) bs &&
      forallb (fun l => memN l (map blbl bs)) (kbl T (proj T s))
  end.

(* statements in which the gap attributes (class, attribute) are falsy / empty everywhere *)
Fixpoint gapfree (G : list (N * N)) (n : node) : bool :=
  match n with
  | Node lbl cls atoms kids =>
      forallb (fun g => negb (N.eqb (fst g) cls) ||
                        (negb (atruthy (aget (snd g) atoms)) && negb (nonempty (kget (snd g) kids)))) G &&
      forallb (fun p => forallb (gapfree G) (snd p)) kids
  end.
