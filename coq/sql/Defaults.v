(* C13 - column defaults and onupdate.  Executable model of
     sql/crud.py        _get_crud_params (the compiled column-key set comes from the FIRST parameter set),
                        _scan_cols, _append_param_parameter, _append_param_insert_hasdefault,
                        _append_param_update  (which column becomes a bind / a prefetch bind / inline SQL /
                        is left to the server),
     sql/compiler.py    SQLCompiler.construct_params ("A value is required for bind parameter")
     engine/default.py  DefaultExecutionContext._process_execute_defaults (scalar / callable /
                        context-sensitive callable per parameter set, in table column order),
     orm/persistence.py _collect_insert_commands (None is dropped unless the column has no default;
                        columns without any default get an explicit None), _collect_update_commands (changed
                        attributes only), _emit_insert_statements / _emit_update_statements (consecutive
                        records with the same key set form one executemany)
   and the SPEC side: the reference database (absent column = server default or NULL on INSERT, the old
   value on UPDATE; NULL primary key = autoincrement) and what the property demands of a stored row.
   Python callables are Section variables: [cval f n] is what callable [f] returns on its n-th call,
   [ctxval f params n] what the context-sensitive callable returns when get_current_parameters() is
   [params]; [sqlval e] / [srvval e] are the values of SQL-expression / server defaults.
   Definitions only; proofs are in Defaults*Proofs.v. *)
From Coq Require Import List ZArith Bool.
Import ListNotations.
Open Scope Z_scope.

Definition val := option Z.                  (* None = NULL / Python None *)
Definition pset := list (nat * val).         (* a parameter dictionary: column key -> value *)

Fixpoint get (k : nat) (p : pset) : option val :=
  match p with
  | [] => None
  | (k', v) :: r => if Nat.eqb k k' then Some v else get k r
  end.
Definition has (k : nat) (p : pset) : bool := match get k p with Some _ => true | None => false end.
(* dict[k] = v on an existing key (the compiled parameter dictionaries have all their keys from the start) *)
Fixpoint set (k : nat) (v : val) (p : pset) : pset :=
  match p with
  | [] => []
  | (k', v') :: r => if Nat.eqb k k' then (k', v) :: r else (k', v') :: set k v r
  end.

Inductive dkind : Type :=
| NoDefault
| Scalar (v : Z)            (* default=5 *)
| Callable (f : nat)        (* default=fn         (no argument) *)
| CtxCallable (f : nat)     (* default=fn(context) *)
| SqlExpr (e : nat)         (* default=text("...") / func...: rendered inline *)
| ServerSide (e : nat).     (* server_default / server_onupdate: the statement does not mention it *)

(* key 0 is the integer primary key (no Python default: autoincrement) *)
Record col : Type := { ckey : nat; cdef : dkind }.

Inductive slot : Type := SBind | SPrefetch | SInline (e : nat) | SAbsent.

(* _scan_cols for one column, [p0] = the parameter set that decided the compiled column keys *)
Definition plan_col (p0 : pset) (c : col) : slot :=
  if has (ckey c) p0 then SBind
  else match cdef c with
       | Scalar _ | Callable _ | CtxCallable _ => SPrefetch
       | SqlExpr e => SInline e
       | ServerSide _ | NoDefault => SAbsent
       end.

Inductive err : Type := ERequired (group : nat) (key : nat).
Inductive result (A : Type) : Type := Ok (a : A) | Err (e : err).
Arguments Ok {A} a.
Arguments Err {A} e.
Definition bind {A B} (r : result A) (f : A -> result B) : result B :=
  match r with Ok a => f a | Err e => Err e end.

(* construct_params for parameter set number [g]: keys that are not binds of the statement are ignored,
   a bind without value raises; a prefetch bind carries the column's name, so it starts as the value the
   set happens to supply under that name, else None (_process_execute_defaults overwrites it anyway) *)
Fixpoint construct (p0 : pset) (g : nat) (cols : list col) (p : pset) : result pset :=
  match cols with
  | [] => Ok []
  | c :: r =>
      match plan_col p0 c with
      | SBind =>
          match get (ckey c) p with
          | Some v => bind (construct p0 g r p) (fun t => Ok ((ckey c, v) :: t))
          | None => Err (ERequired g (ckey c))
          end
      | SPrefetch =>
          bind (construct p0 g r p)
               (fun t => Ok ((ckey c, match get (ckey c) p with Some v => v | None => None end) :: t))
      | _ => construct p0 g r p
      end
  end.
Fixpoint construct_all (p0 : pset) (g : nat) (cols : list col) (ps : list pset) : result (list pset) :=
  match ps with
  | [] => Ok []
  | p :: r => bind (construct p0 g cols p) (fun a => bind (construct_all p0 (S g) cols r) (fun b => Ok (a :: b)))
  end.

(* how many times each callable has been called *)
Definition calls := list (nat * nat).
Fixpoint count (f : nat) (cs : calls) : nat :=
  match cs with
  | [] => O
  | (f', n) :: r => if Nat.eqb f f' then n else count f r
  end.
Fixpoint bump (f : nat) (cs : calls) : calls :=
  match cs with
  | [] => [(f, 1%nat)]
  | (f', n) :: r => if Nat.eqb f f' then (f', S n) :: r else (f', n) :: bump f r
  end.

Section D.
Variable cval : nat -> nat -> Z.
Variable ctxval : nat -> pset -> nat -> Z.
Variable sqlval : nat -> Z.
Variable srvval : nat -> Z.

(* _process_execute_defaults for one parameter dictionary: prefetch columns in table order *)
Fixpoint fire (p0 : pset) (cols : list col) (params : pset) (cs : calls) : pset * calls :=
  match cols with
  | [] => (params, cs)
  | c :: r =>
      match plan_col p0 c, cdef c with
      | SPrefetch, Scalar z => fire p0 r (set (ckey c) (Some z) params) cs
      | SPrefetch, Callable f =>
          fire p0 r (set (ckey c) (Some (cval f (count f cs))) params) (bump f cs)
      | SPrefetch, CtxCallable f =>
          fire p0 r (set (ckey c) (Some (ctxval f params (count f cs))) params) (bump f cs)
      | _, _ => fire p0 r params cs
      end
  end.
Fixpoint fire_all (p0 : pset) (cols : list col) (ps : list pset) (cs : calls) : list pset * calls :=
  match ps with
  | [] => ([], cs)
  | p :: r => let '(p', cs1) := fire p0 cols p cs in
              let '(r', cs2) := fire_all p0 cols r cs1 in (p' :: r', cs2)
  end.

(* the reference database: what a row holds after the statement ran with [params].
   [old] = None for INSERT (absent column: server default or NULL), Some row for UPDATE (absent: unchanged) *)
Definition stored (p0 : pset) (old : option pset) (params : pset) (c : col) : val :=
  match plan_col p0 c with
  | SBind | SPrefetch => match get (ckey c) params with Some v => v | None => None end
  | SInline e => Some (sqlval e)
  | SAbsent =>
      match old with
      | Some row => match get (ckey c) row with Some v => v | None => None end
      | None => match cdef c with ServerSide e => Some (srvval e) | _ => None end
      end
  end.
Definition row_of (p0 : pset) (old : option pset) (cols : list col) (params : pset) : pset :=
  map (fun c => (ckey c, stored p0 old params c)) cols.

(* Connection.execute(stmt, [p0; ...]) up to the rows handed to the database: all parameter sets are
   constructed first (an error aborts before any default fires), then the defaults fire set by set.
   [olds] = the rows an UPDATE finds (None for INSERT), one per parameter set *)
Definition core_exec (cols : list col) (ps : list pset) (olds : list (option pset)) (cs : calls)
  : result (list pset * calls) :=
  match ps with
  | [] => Ok ([], cs)
  | p0 :: _ =>
      bind (construct_all p0 O cols ps)
           (fun cps => let '(fps, cs') := fire_all p0 cols cps cs in
                       Ok (map (fun po => row_of p0 (snd po) cols (fst po)) (combine fps olds), cs'))
  end.

(* what return_defaults() hands back for one row: RETURNING of every column that is neither a bind nor a
   prefetch bind, read from the row just written *)
Definition returned_defaults (p0 : pset) (cols : list col) (row : pset) : pset :=
  filter (fun kv => match find (fun c => Nat.eqb (ckey c) (fst kv)) cols with
                    | Some c => match plan_col p0 c with SBind | SPrefetch => false | _ => true end
                    | None => false end) row.

(* ---- ORM unit of work ---- *)
Definition no_default (c : col) : bool := match cdef c with NoDefault => true | _ => false end.
(* _collect_insert_commands: a None attribute is skipped; columns without default, server default and
   not part of the primary key get an explicit None *)
Definition orm_insert_params (cols : list col) (attrs : pset) : pset :=
  flat_map (fun c => match get (ckey c) attrs with
                     | Some (Some z) => [(ckey c, Some z)]
                     | _ => if no_default c && negb (Nat.eqb (ckey c) O) then [(ckey c, None)] else []
                     end) cols.
(* _collect_update_commands: attributes whose value changed (key 0 = the row's primary key, always there) *)
Definition val_eqb (a b : val) : bool :=
  match a, b with
  | None, None => true
  | Some x, Some y => Z.eqb x y
  | _, _ => false
  end.
Definition orm_update_params (cols : list col) (old attrs : pset) : pset :=
  flat_map (fun c => if Nat.eqb (ckey c) O then [(O, match get O old with Some v => v | None => None end)]
                     else match get (ckey c) attrs with
                          | Some v => if val_eqb v (match get (ckey c) old with Some o => o | None => None end)
                                      then [] else [(ckey c, v)]
                          | None => []
                          end) cols.
(* _collect_update_commands(bulk=True) - session.execute(update(Entity), [mappings]) / bulk_update_mappings:
   every key of the mapping is a parameter, None included (no comparison with a loaded value) *)
Definition orm_bulk_update_params (cols : list col) (m : pset) : pset :=
  flat_map (fun c => match get (ckey c) m with Some v => [(ckey c, v)] | None => [] end) cols.
(* an object none of whose column attributes changed emits no UPDATE at all *)
Definition has_change (params : pset) : bool := existsb (fun kv => negb (Nat.eqb (fst kv) O)) params.
(* records are executed in consecutive groups of equal key sets (itertools.groupby) *)
Definition same_keys (cols : list col) (a b : pset) : bool :=
  forallb (fun c => Bool.eqb (has (ckey c) a) (has (ckey c) b)) cols.
Fixpoint take_group (cols : list col) (p0 : pset) (ps : list (pset * option pset))
  : list (pset * option pset) * list (pset * option pset) :=
  match ps with
  | [] => ([], [])
  | x :: r => if same_keys cols p0 (fst x)
              then let '(g, t) := take_group cols p0 r in (x :: g, t) else ([], ps)
  end.
Fixpoint orm_exec (fuel : nat) (cols : list col) (ps : list (pset * option pset)) (cs : calls)
  : result (list pset * calls) :=
  match fuel with
  | O => Ok ([], cs)
  | S fuel' =>
      match ps with
      | [] => Ok ([], cs)
      | x :: r =>
          let '(g, t) := take_group cols (fst x) r in
          bind (core_exec cols (map fst (x :: g)) (map snd (x :: g)) cs)
               (fun a => bind (orm_exec fuel' cols t (snd a)) (fun b => Ok (fst a ++ fst b, snd b)))
      end
  end.

(* =========================================================================================== *)
(* SPEC: what the property demands of the stored value of column [c] for a row whose parameter set is [p] *)
Definition default_ok (old : option pset) (c : col) (p params : pset) (n : nat) (v : val) : Prop :=
  match cdef c with
  | NoDefault => v = match old with
                     | Some row => match get (ckey c) row with Some o => o | None => None end
                     | None => None end
  | Scalar z => v = Some z
  | Callable f => v = Some (cval f n)
  | CtxCallable f => v = Some (ctxval f params n)
  | SqlExpr e => v = Some (sqlval e)
  | ServerSide e => v = match old with
                        | Some row => match get (ckey c) row with Some o => o | None => None end
                        | None => Some (srvval e) end
  end.

(* every parameter set has the key set of the first (the documented precondition of executemany) *)
Definition homogeneous (cols : list col) (ps : list pset) : bool :=
  match ps with [] => true | p0 :: r => forallb (same_keys cols p0) r end.
(* no two columns share a callable, so "n-th call" is per column *)
Definition fn_of (c : col) : option nat :=
  match cdef c with Callable f | CtxCallable f => Some f | _ => None end.
Fixpoint distinct_fns (cols : list col) : bool :=
  match cols with
  | [] => true
  | c :: r => match fn_of c with
              | Some f => negb (existsb (fun c' => match fn_of c' with Some f' => Nat.eqb f f' | None => false end) r)
              | None => true end && distinct_fns r
  end.
Fixpoint distinct_keys (cols : list col) : bool :=
  match cols with
  | [] => true
  | c :: r => negb (existsb (fun c' => Nat.eqb (ckey c) (ckey c')) r) && distinct_keys r
  end.

(* ---- insert(t).values([row0, row1, ...]) : crud._extend_values_for_multiparams ---- *)
(* the VALUES column list is decided by row 0 (_scan_cols): its keys plus every column with a Python or SQL
   default; per later row and per such column: "if col.key in row" -> that row's value (None included),
   else _process_multiparam_default_bind: the default again (a fresh prefetch bind per row, or the inline
   SQL), or CompileError for a column without such a default.  Columns outside the list (server default /
   no default, not in row 0) are not part of the statement whatever a later row supplies. *)
Definition in_values0 (p0 : pset) (c : col) : bool :=
  match plan_col p0 c with SAbsent => false | _ => true end.
Inductive merr : Type := EMultiDefault (row : nat) (key : nat).
Fixpoint multi_check_row (p0 : pset) (i : nat) (cols : list col) (row : pset) : option merr :=
  match cols with
  | [] => None
  | c :: r =>
      if in_values0 p0 c && negb (has (ckey c) row) &&
         match cdef c with NoDefault | ServerSide _ => true | _ => false end
      then Some (EMultiDefault i (ckey c)) else multi_check_row p0 i r row
  end.
Fixpoint multi_check (p0 : pset) (i : nat) (cols : list col) (rows : list pset) : option merr :=
  match rows with
  | [] => None
  | row :: t => match multi_check_row p0 i cols row with
                | Some e => Some e
                | None => multi_check p0 (S i) cols t
                end
  end.
(* one row of the executed statement: the stored values and the calls made (all rows share ONE parameter
   dictionary; the prefetch binds fire row by row, in column order) *)
Fixpoint multi_row (p0 : pset) (cols : list col) (row : pset) (cs : calls) : pset * calls :=
  match cols with
  | [] => ([], cs)
  | c :: r =>
      if in_values0 p0 c then
        match get (ckey c) row with
        | Some v => let '(t, cs') := multi_row p0 r row cs in ((ckey c, v) :: t, cs')
        | None =>
            match cdef c with
            | Scalar z => let '(t, cs') := multi_row p0 r row cs in ((ckey c, Some z) :: t, cs')
            | Callable f =>
                let '(t, cs') := multi_row p0 r row (bump f cs) in ((ckey c, Some (cval f (count f cs))) :: t, cs')
            | CtxCallable f =>
                let '(t, cs') := multi_row p0 r row (bump f cs) in
                ((ckey c, Some (ctxval f row (count f cs))) :: t, cs')
            | SqlExpr e => let '(t, cs') := multi_row p0 r row cs in ((ckey c, Some (sqlval e)) :: t, cs')
            | _ => let '(t, cs') := multi_row p0 r row cs in ((ckey c, None) :: t, cs')   (* excluded by multi_check *)
            end
        end
      else
        let '(t, cs') := multi_row p0 r row cs in
        ((ckey c, match cdef c with ServerSide e => Some (srvval e) | _ => None end) :: t, cs')
  end.
Fixpoint multi_rows (p0 : pset) (cols : list col) (rows : list pset) (cs : calls) : list pset * calls :=
  match rows with
  | [] => ([], cs)
  | row :: t => let '(a, cs1) := multi_row p0 cols row cs in
                let '(b, cs2) := multi_rows p0 cols t cs1 in (a :: b, cs2)
  end.
Definition multi_exec (cols : list col) (rows : list pset) (cs : calls) : list pset * calls + merr :=
  match rows with
  | [] => inl ([], cs)
  | p0 :: _ =>
      if forallb (fun c => negb (in_values0 p0 c)) cols then
        (* row 0 names no column and no column has a Python / SQL default: the VALUES list is empty and the
           compiler emits a single-row INSERT ... DEFAULT VALUES - the later rows are not part of it *)
        inl ([fst (multi_row p0 cols p0 cs)], cs)
      else
      match multi_check p0 O cols rows with
      | Some e => inr e
      | None => inl (multi_rows p0 cols rows cs)
      end
  end.
(* how often the callable of column [c] must be called: once per row that omits the column *)
Definition omitting (c : col) (rows : list pset) : nat := length (filter (fun row => negb (has (ckey c) row)) rows).

(* ---- Update.ordered_values((col, value), ...) : the "_maintain_values_ordering" branch of _scan_cols ---- *)
(* the columns are scanned in the order given, FOLLOWED BY every other column of the table (whose onupdate
   defaults therefore still fire) *)
Definition ordered_cols (order : list nat) (cols : list col) : list col :=
  flat_map (fun k => filter (fun c => Nat.eqb (ckey c) k) cols) order ++
  filter (fun c => negb (existsb (Nat.eqb (ckey c)) order)) cols.
(* back to table column order, for comparing rows *)
Definition table_order (cols : list col) (row : pset) : pset :=
  map (fun c => (ckey c, match get (ckey c) row with Some v => v | None => None end)) cols.

(* ---- a pre-executed default (fallback(c) in _process_execute_defaults: SQL expression / sequence for a
   primary key when RETURNING is not used): "val = fallback(c); if val is not None: param[key] = val" ---- *)
Definition preexec_param (current : val) (fetched : val) : val :=
  match fetched with Some z => Some z | None => current end.

End D.
