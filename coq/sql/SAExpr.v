(* C01: model of how SQLAlchemy builds and renders operator expressions.

   sql/operators.py  : _PRECEDENCE, is_precedent, is_associative, is_natural_self_precedent, is_boolean
   sql/elements.py   : OperatorExpression.self_group / UnaryExpression.self_group / ColumnElement.self_group,
                       OperatorExpression._construct_for_op (associative flattening),
                       ExpressionClauseList._construct_for_list, BooleanClauseList._construct (2 clauses,
                       no True_/False_ constants), BinaryExpression._negate / ColumnElement._negate /
                       ExpressionClauseList._negate / UnaryExpression._negate, UnaryExpression.__init__
   sql/compiler.py   : visit_binary, visit_unary, visit_grouping, visit_expression_clauselist

   Modelling assumptions (stated in DESIGN.md): atoms are non-Boolean-typed columns/literals; the
   type-affinity test of the flattening always succeeds (homogeneously typed operands). *)
From Coq Require Import List Arith ZArith Bool.
Import ListNotations.
From SAV.sql Require Import Prec.

(* the operator table regenerated from sql/operators.py on every run *)
Record satab := {
  prec : nat -> Z;            (* _PRECEDENCE *)
  assoc : nat -> bool;        (* is_associative *)
  nsp : nat -> bool;          (* is_natural_self_precedent *)
  isbool : nat -> bool;       (* is_boolean *)
  negate : nat -> option nat  (* negation partner registered for the comparison operator *)
}.

(* fixed operator identifiers (the translator assigns the same numbers) *)
Definition INV : nat := 0.   (* operators.inv  : NOT *)
Definition NEG : nat := 1.   (* operators.neg  : unary minus *)
Definition AND : nat := 2.   (* operators.and_ *)
Definition OR  : nat := 3.   (* operators.or_  *)

(* constructed expression: BinaryExpression / ExpressionClauseList (head + tail, never empty) /
   UnaryExpression / Grouping / anything atomic *)
Inductive sx := SA (n : nat) | SB (o : nat) (l r : sx) | SL (o : nat) (e1 : sx) (es : list sx)
              | SU (u : nat) (e : sx) | SG (e : sx).

(* what the user writes *)
Inductive uex := UA (n : nat) | UB (o : nat) (l r : uex) | UAnd (l r : uex) | UOr (l r : uex)
               | UNot (e : uex) | UNeg (e : uex).

Section SA.
Variable T : satab.

Definition is_precedent (op against : nat) : bool :=
  if Nat.eqb op against && nsp T op then false else Z.leb (prec T op) (prec T against).

(* x.self_group(against=ag) *)
Definition self_group (x : sx) (ag : nat) : sx :=
  match x with
  | SA _ => x
  | SG _ => x
  | SB o _ _ | SL o _ _ =>
      if is_precedent o ag || (Nat.eqb ag INV && negb (isbool T o)) then SG x else x
  | SU u _ => if is_precedent u ag then SG x else x
  end.

(* getattr(x, "operator", None) *)
Definition op_of (x : sx) : option nat :=
  match x with SB o _ _ | SL o _ _ => Some o | SU u _ => Some u | _ => None end.
Definition has_op (x : sx) (o : nat) : bool :=
  match op_of x with Some o' => Nat.eqb o' o | None => false end.

(* x._flattened_operator_clauses *)
Definition flat_clauses (x : sx) : list sx :=
  match x with SB _ l r => [l; r] | SL _ e1 es => e1 :: es | _ => [x] end.

Definition mk_list (o : nat) (cs : list sx) : sx :=
  match cs with [] => SA 0 | c :: r => SL o c r end.

(* OperatorExpression._construct_for_op(left, right, op) *)
Definition construct_for_op (o : nat) (l r : sx) : sx :=
  if assoc T o && (has_op l o || has_op r o) then
    let lf := if has_op l o then flat_clauses l else [l] in
    let rf := if has_op r o then flat_clauses r else [r] in
    mk_list o (map (fun c => self_group c o) (lf ++ rf))
  else SB o (self_group l o) (self_group r o).

(* and_(l, r) / or_(l, r) : BooleanClauseList._construct with two non-constant clauses *)
Definition bool_list (o : nat) (l r : sx) : sx :=
  let gl := self_group l o in
  let gr := self_group r o in
  mk_list o ((if has_op gl o then flat_clauses gl else [gl]) ++
             (if has_op gr o then flat_clauses gr else [gr])).

(* x._negate() *)
Definition negate_sx (x : sx) : sx :=
  match x with
  | SB o l r =>
      match negate T o with
      | Some no => SB no (self_group l no) (self_group r no)
      | None => SU INV (SG x)
      end
  | SL _ _ _ | SU _ _ => SU INV (self_group x INV)
  | SA _ | SG _ => SU INV x
  end.

Fixpoint construct (t : uex) : sx :=
  match t with
  | UA n => SA n
  | UB o l r => construct_for_op o (construct l) (construct r)
  | UAnd l r => bool_list AND (construct l) (construct r)
  | UOr l r => bool_list OR (construct l) (construct r)
  | UNot e => negate_sx (construct e)
  | UNeg e => SU NEG (self_group (construct e) NEG)
  end.
End SA.

(* compiler: visit_binary / visit_expression_clauselist / visit_unary / visit_grouping *)
Fixpoint render (x : sx) : list tok :=
  match x with
  | SA n => [TA n]
  | SB o l r => render l ++ TO o :: render r
  | SL o e1 es => render e1 ++ flat_map (fun e => TO o :: render e) es
  | SU u e => TP u :: render e
  | SG e => TL :: render e ++ [TR]
  end.

(* the reading a left-associative grammar gives to "e1 o e2 o ... en" *)
Fixpoint lower (x : sx) : ex :=
  match x with
  | SA n => A n
  | SB o l r => B o (lower l) (lower r)
  | SL o e1 es => fold_left (fun acc e => B o acc (lower e)) es (lower e1)
  | SU u e => U u (lower e)
  | SG e => G (lower e)
  end.

(* fully parenthesised rendering of the user's tree: the reference meaning *)
Fixpoint full (t : uex) : pt :=
  match t with
  | UA n => PA n
  | UB o l r => PB o (full l) (full r)
  | UAnd l r => PB AND (full l) (full r)
  | UOr l r => PB OR (full l) (full r)
  | UNot e => PU INV (full e)
  | UNeg e => PU NEG (full e)
  end.
