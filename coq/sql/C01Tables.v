(* C01: backend grammar tables, the finite compatibility check between SQLAlchemy's operator table
   and a backend grammar, and the semantic side conditions (which operators may be flattened /
   which negation partners are sound). *)
From Coq Require Import List Arith ZArith Bool.
Import ListNotations.
From SAV.sql Require Import Prec SAExpr.

(* operator identifiers: must agree with specs/c01.py OPS *)
Definition ADD := 4. Definition SUB := 5. Definition MUL := 6. Definition MOD := 7.
Definition FLOORDIV := 8. Definition CONCAT := 9.
Definition EQ := 10. Definition NE := 11. Definition LT := 12. Definition LE := 13.
Definition GT := 14. Definition GE := 15. Definition LIKE := 16. Definition NOTLIKE := 17.
Definition IS := 18. Definition ISNOT := 19.
Definition BAND := 20. Definition BOR := 21. Definition SHL := 22. Definition SHR := 23.

Definition binops : list nat :=
  [AND; OR; ADD; SUB; MUL; MOD; FLOORDIV; CONCAT; EQ; NE; LT; LE; GT; GE; LIKE; NOTLIKE; IS; ISNOT;
   BAND; BOR; SHL; SHR].
Definition unops : list nat := [INV; NEG].

(* backend grammar: level of each binary operator, level of each prefix operator, and which binary
   operators are non-associative in the backend (a chain "a o b o c" is a syntax error there) *)
Record btab := { b_lbp : nat -> nat; b_pbp : nat -> nat; b_nonassoc : nat -> bool }.

Section Levels.
Variable Bk : btab.
Definition g_lbp := b_lbp Bk.
Definition g_rbp (o : nat) := S (b_lbp Bk o).
Definition g_pbp := b_pbp Bk.
Definition g_lctx (o : nat) := if b_nonassoc Bk o then S (b_lbp Bk o) else b_lbp Bk o.
Definition g_rctx (o : nat) := S (b_lbp Bk o).
Definition g_uctx := b_pbp Bk.
Definition g_ulev := b_pbp Bk.

(* no binary operator shares its level with a prefix operator *)
Definition btab_ok : bool :=
  forallb (fun o => forallb (fun u => negb (Nat.eqb (b_lbp Bk o) (b_pbp Bk u))) unops) binops.
End Levels.

(* SQLite, from the precedence declarations of parse.y (lowest first):
   OR < AND < NOT < {IS MATCH LIKE BETWEEN IN ISNULL NOTNULL NE EQ} < {GT LE LT GE} < ESCAPE
      < {BITAND BITOR LSHIFT RSHIFT} < {PLUS MINUS} < {STAR SLASH REM} < CONCAT < COLLATE < {BITNOT, unary minus} *)
Definition B_sqlite : btab := {|
  b_lbp := fun o =>
    if Nat.eqb o OR then 1 else if Nat.eqb o AND then 2
    else if existsb (Nat.eqb o) [EQ; NE; LIKE; NOTLIKE; IS; ISNOT] then 4
    else if existsb (Nat.eqb o) [LT; LE; GT; GE] then 5
    else if existsb (Nat.eqb o) [BAND; BOR; SHL; SHR] then 7
    else if existsb (Nat.eqb o) [ADD; SUB] then 8
    else if existsb (Nat.eqb o) [MUL; MOD; FLOORDIV] then 9
    else if Nat.eqb o CONCAT then 10 else 0;
  b_pbp := fun u => if Nat.eqb u INV then 3 else 12;
  b_nonassoc := fun _ => false
|}.

(* PostgreSQL, from the documented operator precedence table (highest first):
   . :: [] unary+- COLLATE AT ^ {* / %} {+ -} (any other operator, incl. || & | << >>) {BETWEEN IN LIKE ILIKE SIMILAR}
   {< > = <= >= <>} (nonassoc) {IS ISNULL NOTNULL} NOT AND OR *)
Definition B_pg : btab := {|
  b_lbp := fun o =>
    if Nat.eqb o OR then 1 else if Nat.eqb o AND then 2
    else if existsb (Nat.eqb o) [IS; ISNOT] then 4
    else if existsb (Nat.eqb o) [EQ; NE; LT; LE; GT; GE] then 5
    else if existsb (Nat.eqb o) [LIKE; NOTLIKE] then 6
    else if existsb (Nat.eqb o) [CONCAT; BAND; BOR; SHL; SHR] then 7
    else if existsb (Nat.eqb o) [ADD; SUB] then 8
    else if existsb (Nat.eqb o) [MUL; MOD; FLOORDIV] then 9 else 0;
  b_pbp := fun u => if Nat.eqb u INV then 3 else 11;
  b_nonassoc := fun o => existsb (Nat.eqb o) [EQ; NE; LT; LE; GT; GE; IS; ISNOT; LIKE; NOTLIKE]
|}.

Section Compat.
Variable T : satab.
Variable Bk : btab.
Variable allowed : nat -> nat -> bool.     (* allowed child parent *)

Definition is_un (o : nat) : bool := existsb (Nat.eqb o) unops.

(* does x.self_group(against=p) wrap a node whose top operator is c? *)
Definition sg_dec (c p : nat) : bool :=
  if is_un c then is_precedent T c p
  else is_precedent T c p || (Nat.eqb p INV && negb (isbool T c)).

Definition clevel (c : nat) : nat := if is_un c then b_pbp Bk c else b_lbp Bk c.
Definition plevel (p : nat) : nat := if is_un p then b_pbp Bk p else S (b_lbp Bk p).

(* pairs that [construct] never produces ungrouped: same operator under a flattening parent *)
Definition flattens (p : nat) : bool := assoc T p || Nat.eqb p AND || Nat.eqb p OR.
Definition exempt (c p : nat) : bool := Nat.eqb c p && negb (is_un p) && flattens p.

Definition pair_ok (c p : nat) : bool := sg_dec c p || (plevel p <=? clevel c).

Definition allops := binops ++ unops.

Definition compat : bool :=
  forallb (fun c => forallb (fun p => implb (allowed c p && negb (exempt c p)) (pair_ok c p)) allops) allops
  && forallb (fun o => implb (flattens o) (negb (b_nonassoc Bk o))) binops
  && btab_ok Bk.
End Compat.

Definition allowed_all (c p : nat) : bool := true.
(* SQLite binds || tighter than arithmetic and bitwise operators, _PRECEDENCE puts concat_op below them *)
Definition allowed_sqlite (c p : nat) : bool :=
  negb (Nat.eqb p CONCAT && existsb (Nat.eqb c) [ADD; SUB; MUL; MOD; FLOORDIV; BAND; BOR; SHL; SHR]).
(* PostgreSQL (documented table): ||, &, |, <<, >> are all "any other operator": one level, left
   associative.  SQLAlchemy ranks the bitwise operators (7) above concat_op (5) and leaves them ungrouped
   under it, so  s || a & b  is read  (s || a) & b  by the documented grammar.  Model-only discrepancy
   (no server to confirm; DESIGN 1.4): excluded from the PostgreSQL claim and listed in the evidence. *)
Definition allowed_pg (c p : nat) : bool :=
  negb (Nat.eqb p CONCAT && existsb (Nat.eqb c) [BAND; BOR; SHL; SHR]).

(* semantic side conditions on the regenerated table: only semantically associative operators are
   flattened, and every registered negation partner is a true complement under 3-valued logic *)
Definition assoc_sem (o : nat) : bool := existsb (Nat.eqb o) [ADD; MUL; CONCAT; AND; OR; BAND; BOR].
Definition neg_sem (o n : nat) : bool :=
  existsb (fun pr => Nat.eqb (fst pr) o && Nat.eqb (snd pr) n)
    [(EQ, NE); (NE, EQ); (LT, GE); (GE, LT); (GT, LE); (LE, GT); (LIKE, NOTLIKE); (NOTLIKE, LIKE);
     (IS, ISNOT); (ISNOT, IS)].
Definition sem_side (T : satab) : bool :=
  forallb (fun o => implb (assoc T o) (assoc_sem o) &&
                    match negate T o with Some n => neg_sem o n | None => true end) binops.
