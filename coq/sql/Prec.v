(* Generic operator-precedence round trip (C01 core).

   Printed trees carry their parentheses explicitly ([G]); [flat] is the trivial renderer; the parser
   is a fuelled Pratt (precedence-climbing) parser over a backend table (lbp/rbp/pbp).  [ok q e]
   says: every operator occurrence that is NOT wrapped in parentheses binds tightly enough for the
   syntactic position it is printed in.  Main theorem: [ok 0 e -> parse (flat e) = erase e]. *)
From Coq Require Import List Arith Lia Bool.
Import ListNotations.

Inductive tok := TA (n : nat) | TO (o : nat) | TP (u : nat) | TL | TR.
Inductive ex := A (n : nat) | B (o : nat) (l r : ex) | U (u : nat) (e : ex) | G (e : ex).
Inductive pt := PA (n : nat) | PB (o : nat) (l r : pt) | PU (u : nat) (e : pt).

Fixpoint erase (e : ex) : pt :=
  match e with
  | A n => PA n
  | B o l r => PB o (erase l) (erase r)
  | U u e1 => PU u (erase e1)
  | G e1 => erase e1
  end.

Fixpoint flat (e : ex) : list tok :=
  match e with
  | A n => [TA n]
  | B o l r => flat l ++ TO o :: flat r
  | U u e1 => TP u :: flat e1
  | G e1 => TL :: flat e1 ++ [TR]
  end.

Section Grammar.
(* backend grammar: the operator loop at minimum level p takes binary o when p <= lbp o and parses
   its right operand at minimum level rbp o; a prefix operator u parses its operand at pbp u *)
Variable lbp rbp : nat -> nat.
Variable pbp : nat -> nat.

Fixpoint parse (fuel : nat) (p : nat) (ts : list tok) {struct fuel} : option (pt * list tok) :=
  match fuel with
  | 0 => None
  | S f =>
    match ts with
    | TA n :: r => loop f p (PA n) r
    | TP u :: r =>
        match parse f (pbp u) r with Some (e, r') => loop f p (PU u e) r' | None => None end
    | TL :: r =>
        match parse f 0 r with Some (e, TR :: r') => loop f p e r' | _ => None end
    | _ => None
    end
  end
with loop (fuel : nat) (p : nat) (lhs : pt) (ts : list tok) {struct fuel} : option (pt * list tok) :=
  match fuel with
  | 0 => None
  | S f =>
    match ts with
    | TO o :: r =>
        if p <=? lbp o
        then match parse f (rbp o) r with
             | Some (rhs, r') => loop f p (PB o lhs rhs) r'
             | None => None
             end
        else Some (lhs, ts)
    | _ => Some (lhs, ts)
    end
  end.

(* printing side: the level at which the left / right operand of o and the operand of u are
   printed, and the level of a prefix expression as a whole; [binops]/[unops] is the finite
   operator vocabulary over which the table conditions are checked *)
Variable binops unops : list nat.
Variable lctx rctx : nat -> nat.
Variable uctx ulev : nat -> nat.

Definition stops (q o' : nat) : Prop :=
  (forall o, In o binops -> q <= lbp o -> lbp o' < rbp o) /\
  (forall u, In u unops -> q <= ulev u -> lbp o' < pbp u).

Hypothesis T_rbp : forall o, In o binops -> rbp o <= rctx o.
Hypothesis T_rmono : forall o, In o binops -> lbp o <= rctx o.
Hypothesis T_lmono : forall o, In o binops -> lbp o <= lctx o.
Hypothesis T_pbp : forall u, In u unops -> pbp u <= uctx u.
Hypothesis T_umono : forall u, In u unops -> ulev u <= uctx u.
Hypothesis T_left : forall o, In o binops -> stops (lctx o) o.

Fixpoint ok (q : nat) (e : ex) : Prop :=
  match e with
  | A _ => True
  | G e1 => ok 0 e1
  | B o l r => In o binops /\ q <= lbp o /\ ok (lctx o) l /\ ok (rctx o) r
  | U u e1 => In u unops /\ q <= ulev u /\ ok (uctx u) e1
  end.

Definition follow (q : nat) (rest : list tok) : Prop :=
  match rest with
  | TO o :: _ => stops q o
  | TA _ :: _ | TL :: _ | TP _ :: _ => False
  | _ => True
  end.

Lemma mono : forall f,
  (forall p ts r, parse f p ts = Some r -> forall f', f <= f' -> parse f' p ts = Some r) /\
  (forall p e ts r, loop f p e ts = Some r -> forall f', f <= f' -> loop f' p e ts = Some r).
Proof.
  induction f as [|f [IHp IHl]]; split; intros; try discriminate.
  - destruct f' as [|f']; [lia|]. cbn [parse] in *.
    destruct ts as [|[n|o|u| |] ts']; try discriminate.
    + eapply IHl; [eassumption|lia].
    + destruct (parse f (pbp u) ts') as [[e0 r0]|] eqn:E; [|discriminate].
      rewrite (IHp _ _ _ E f') by lia. eapply IHl; [eassumption|lia].
    + destruct (parse f 0 ts') as [[e0 [|[ | | | | ] r0]]|] eqn:E; try discriminate.
      rewrite (IHp _ _ _ E f') by lia. eapply IHl; [eassumption|lia].
  - destruct f' as [|f']; [lia|]. cbn [loop] in *.
    destruct ts as [|[n|o|u| |] ts']; try assumption.
    destruct (p <=? lbp o); [|assumption].
    destruct (parse f (rbp o) ts') as [[rhs r']|] eqn:E; [|discriminate].
    rewrite (IHp _ _ _ E f') by lia. eapply IHl; [eassumption|lia].
Qed.

Lemma follow_weaken q q' rest : q <= q' -> follow q rest -> follow q' rest.
Proof.
  intros Hq. destruct rest as [|[n|o|u| |] r]; simpl; auto.
  intros [H1 H2]. split; intros; [apply H1|apply H2]; auto; lia.
Qed.

Lemma loop_stopB o q rest e :
  In o binops -> follow q rest -> q <= lbp o -> loop 1 (rbp o) e rest = Some (e, rest).
Proof.
  intros Hin Hf Hq. cbn [loop]. destruct rest as [|[n|o'|u| |] r]; try reflexivity; simpl in Hf.
  destruct Hf as [H1 _]. specialize (H1 o Hin Hq).
  destruct (rbp o <=? lbp o') eqn:E; [apply Nat.leb_le in E; lia|reflexivity].
Qed.

Lemma loop_stopU u q rest e :
  In u unops -> follow q rest -> q <= ulev u -> loop 1 (pbp u) e rest = Some (e, rest).
Proof.
  intros Hin Hf Hq. cbn [loop]. destruct rest as [|[n|o'|u'| |] r]; try reflexivity; simpl in Hf.
  destruct Hf as [_ H2]. specialize (H2 u Hin Hq).
  destruct (pbp u <=? lbp o') eqn:E; [apply Nat.leb_le in E; lia|reflexivity].
Qed.

(* continuation form: parsing the printed [e] (followed by [rest]) is resuming the operator loop
   with lhs = erase e *)
Lemma parse_flat : forall e p q rest,
  ok q e -> p <= q -> follow q rest ->
  forall f res, loop f p (erase e) rest = Some res ->
  exists f', parse f' p (flat e ++ rest) = Some res.
Proof.
  induction e as [n | o l IHl r IHr | u e1 IHe | e1 IHg]; intros p q rest Hok Hpq Hfo f res Hloop.
  - exists (S f). simpl. exact Hloop.
  - cbn [ok] in Hok. destruct Hok as [Hin [Hq [Hokl Hokr]]]. cbn [erase] in Hloop. cbn [flat].
    destruct (IHr (rbp o) (rctx o) rest Hokr (T_rbp o Hin)) with (f:=1) (res:=(erase r, rest)) as [f2 Hf2].
    + eapply follow_weaken; [|exact Hfo]. pose proof (T_rmono o Hin). lia.
    + eapply loop_stopB; eassumption.
    + set (fX := Nat.max f2 f).
      assert (HL : loop (S fX) p (erase l) (TO o :: flat r ++ rest) = Some res).
      { cbn [loop]. assert (Hle : p <=? lbp o = true) by (apply Nat.leb_le; lia). rewrite Hle.
        rewrite (proj1 (mono f2) _ _ _ Hf2 fX) by (unfold fX; lia).
        apply (proj2 (mono f) _ _ _ _ Hloop). unfold fX; lia. }
      destruct (IHl p (lctx o) (TO o :: flat r ++ rest) Hokl) with (f:=S fX) (res:=res) as [f' Hf'].
      * pose proof (T_lmono o Hin). lia.
      * simpl. apply T_left. exact Hin.
      * exact HL.
      * exists f'. rewrite <- app_assoc. simpl. exact Hf'.
  - cbn [ok] in Hok. destruct Hok as [Hin [Hq Hoke]]. cbn [erase] in Hloop. cbn [flat].
    destruct (IHe (pbp u) (uctx u) rest Hoke (T_pbp u Hin)) with (f:=1) (res:=(erase e1, rest)) as [f2 Hf2].
    + eapply follow_weaken; [|exact Hfo]. pose proof (T_umono u Hin). lia.
    + eapply loop_stopU; eassumption.
    + exists (S (Nat.max f2 f)). cbn [parse app].
      rewrite (proj1 (mono f2) _ _ _ Hf2) by lia.
      apply (proj2 (mono f) _ _ _ _ Hloop). lia.
  - cbn [ok] in Hok. cbn [erase] in Hloop. cbn [flat].
    destruct (IHg 0 0 (TR :: rest) Hok (le_n 0) I) with (f:=1) (res:=(erase e1, TR :: rest)) as [f1 Hf1];
      [reflexivity|].
    exists (S (Nat.max f1 f)). cbn [parse app]. rewrite <- app_assoc. cbn [app].
    rewrite (proj1 (mono f1) _ _ _ Hf1) by lia.
    apply (proj2 (mono f) _ _ _ _ Hloop). lia.
Qed.

Theorem parse_flat_top : forall e, ok 0 e -> exists f, parse f 0 (flat e) = Some (erase e, []).
Proof.
  intros e Hok. destruct (parse_flat e 0 0 [] Hok (le_n _) I 1 (erase e, [])) as [f Hf]; [reflexivity|].
  exists f. rewrite app_nil_r in Hf. exact Hf.
Qed.

(* with a fuel that succeeds, every larger fuel gives the same answer: the parser's answer is unique *)
Corollary parse_flat_unique : forall e, ok 0 e ->
  forall f r, parse f 0 (flat e) = Some r -> r = (erase e, []).
Proof.
  intros e Hok f r Hr. destruct (parse_flat_top e Hok) as [f0 H0].
  pose proof (proj1 (mono f) _ _ _ Hr (Nat.max f f0) (Nat.le_max_l _ _)) as H1.
  pose proof (proj1 (mono f0) _ _ _ H0 (Nat.max f f0) (Nat.le_max_r _ _)) as H2.
  congruence.
Qed.
End Grammar.
