(* C01 proofs: SQLAlchemy's construct-time grouping yields a tree that the backend grammar reads back
   as the intended tree, whenever the finite table check [compat] holds. *)
From Coq Require Import List Arith ZArith Bool Lia.
Import ListNotations.
From SAV.sql Require Import Prec SAExpr C01Tables.

(* ---------- induction principle for the nested type sx ---------- *)
Section SxInd.
Variable P : sx -> Prop.
Hypothesis HA : forall n, P (SA n).
Hypothesis HB : forall o l r, P l -> P r -> P (SB o l r).
Hypothesis HL : forall o e1 es, P e1 -> Forall P es -> P (SL o e1 es).
Hypothesis HU : forall u e, P e -> P (SU u e).
Hypothesis HG : forall e, P e -> P (SG e).
Fixpoint sx_ind' (x : sx) : P x :=
  match x with
  | SA n => HA n
  | SB o l r => HB o l r (sx_ind' l) (sx_ind' r)
  | SL o e1 es =>
      HL o e1 es (sx_ind' e1)
        ((fix go (l : list sx) : Forall P l :=
            match l with [] => Forall_nil P | y :: r => Forall_cons y (sx_ind' y) (go r) end) es)
  | SU u e => HU u e (sx_ind' e)
  | SG e => HG e (sx_ind' e)
  end.
End SxInd.

(* ---------- rendering = flat rendering of the left-nested reading ---------- *)
Lemma flat_fold o : forall es acc,
  flat (fold_left (fun a e => B o a (lower e)) es acc) =
  flat acc ++ flat_map (fun e => TO o :: flat (lower e)) es.
Proof.
  induction es as [|e es IH]; intros acc; cbn [fold_left flat_map].
  - rewrite app_nil_r. reflexivity.
  - rewrite IH. cbn [flat]. rewrite <- app_assoc. reflexivity.
Qed.

Lemma flat_map_ext_Forall (f g : sx -> list tok) es :
  Forall (fun e => f e = g e) es -> flat_map f es = flat_map g es.
Proof. induction 1 as [|e es He _ IH]; cbn [flat_map]; [reflexivity|]. rewrite He, IH. reflexivity. Qed.

Theorem render_lower : forall x, flat (lower x) = render x.
Proof.
  induction x as [n|o l r IHl IHr|o e1 es IH1 IHes|u e IHe|e IHe] using sx_ind'; cbn [lower render flat].
  - reflexivity.
  - rewrite IHl, IHr. reflexivity.
  - rewrite flat_fold, IH1. f_equal. apply flat_map_ext_Forall.
    eapply Forall_impl; [|exact IHes]. intros a Ha. cbn beta. rewrite Ha. reflexivity.
  - rewrite IHe. reflexivity.
  - rewrite IHe. reflexivity.
Qed.

(* ---------- the structural invariant established by [construct] ---------- *)
Section Inv.
Variable T : satab.

(* y sits under parent p ungrouped only if self_group decided not to group it, and never with the
   parent's own operator when the parent flattens *)
Definition sgc (p : nat) (y : sx) : Prop :=
  match op_of y with
  | None => True
  | Some c => sg_dec T c p = false /\ (flattens T p = true -> is_un p = false -> c <> p)
  end.

Fixpoint inv (x : sx) : Prop :=
  match x with
  | SA _ => True
  | SG e => inv e
  | SB o l r => In o binops /\ inv l /\ inv r /\ sgc o l /\ sgc o r
  | SL o e1 es =>
      In o binops /\ flattens T o = true /\ inv e1 /\ sgc o e1 /\
      (fix all (l : list sx) : Prop :=
         match l with [] => True | y :: r => inv y /\ sgc o y /\ all r end) es
  | SU u e => In u unops /\ inv e /\ sgc u e
  end.

Definition invs (o : nat) (l : list sx) : Prop :=
  (fix all (l : list sx) : Prop := match l with [] => True | y :: r => inv y /\ sgc o y /\ all r end) l.

Lemma invs_app o l1 l2 : invs o l1 -> invs o l2 -> invs o (l1 ++ l2).
Proof.
  induction l1 as [|a l1 IH]; intros H1 H2; [exact H2|].
  destruct H1 as [Ha [Hs Hr]]. change (inv a /\ sgc o a /\ invs o (l1 ++ l2)).
  split; [exact Ha|split; [exact Hs|apply IH; assumption]].
Qed.

Lemma binop_not_un o : In o binops -> is_un o = false.
Proof.
  intros H. unfold binops in H. cbn in H.
  repeat (destruct H as [<-|H]; [vm_compute; reflexivity|]). destruct H.
Qed.
Lemma unop_is_un u : In u unops -> is_un u = true.
Proof. intros H. cbn in H. repeat (destruct H as [<-|H]; [vm_compute; reflexivity|]). destruct H. Qed.

(* table-side well-formedness needed by the invariant (part of [compat]) *)
Definition neg_wf : bool :=
  forallb (fun o => match negate T o with
                    | Some n => existsb (Nat.eqb n) binops && negb (flattens T n)
                    | None => true end) binops.

Lemma sg_inv x p : inv x -> inv (self_group T x p).
Proof.
  destruct x as [n|o l r|o e1 es|u e|e]; cbn [self_group]; intros H; try exact H.
  - destruct (_ || _); [cbn [inv]|]; exact H.
  - destruct (_ || _); [cbn [inv]|]; exact H.
  - destruct (is_precedent T u p); [cbn [inv]|]; exact H.
Qed.

(* after self_group against p the node satisfies sgc p, provided a same-operator child is impossible
   (hne) when p flattens *)
Lemma sg_sgc x p : inv x ->
  (flattens T p = true -> is_un p = false -> has_op x p = false) ->
  sgc p (self_group T x p).
Proof.
  intros Hi Hne. unfold sgc.
  destruct x as [n|o l r|o e1 es|u e|e]; cbn [self_group op_of]; try exact I.
  - cbn [inv] in Hi. destruct Hi as [Ho _].
    destruct (is_precedent T o p || (Nat.eqb p INV && negb (isbool T o))) eqn:E; cbn [op_of]; [exact I|].
    split.
    + unfold sg_dec. rewrite (binop_not_un o Ho). exact E.
    + intros Hf Hu ->. specialize (Hne Hf Hu). unfold has_op in Hne. cbn in Hne.
      rewrite Nat.eqb_refl in Hne. discriminate.
  - cbn [inv] in Hi. destruct Hi as [Ho _].
    destruct (is_precedent T o p || (Nat.eqb p INV && negb (isbool T o))) eqn:E; cbn [op_of]; [exact I|].
    split.
    + unfold sg_dec. rewrite (binop_not_un o Ho). exact E.
    + intros Hf Hu ->. specialize (Hne Hf Hu). unfold has_op in Hne. cbn in Hne.
      rewrite Nat.eqb_refl in Hne. discriminate.
  - cbn [inv] in Hi. destruct Hi as [Hu _].
    destruct (is_precedent T u p) eqn:E; cbn [op_of]; [exact I|].
    split.
    + unfold sg_dec. rewrite (unop_is_un u Hu). exact E.
    + intros Hf Hup ->. rewrite (unop_is_un p Hu) in Hup. discriminate.
Qed.

Lemma has_op_sg_false x p o : has_op x o = false -> has_op (self_group T x p) o = false.
Proof.
  destruct x as [n|o' l r|o' e1 es|u e|e]; cbn [self_group]; intros H; try exact H.
  - destruct (_ || _); [reflexivity|exact H].
  - destruct (_ || _); [reflexivity|exact H].
  - destruct (is_precedent T u p); [reflexivity|exact H].
Qed.

(* children of a node with operator o (o flattening) never carry o themselves *)
Lemma sgc_no_same o y : flattens T o = true -> In o binops -> sgc o y -> has_op y o = false.
Proof.
  intros Hf Ho Hs. unfold sgc in Hs. unfold has_op. destruct (op_of y) as [c|]; [|reflexivity].
  destruct Hs as [_ Hne]. specialize (Hne Hf (binop_not_un o Ho)).
  destruct (Nat.eqb c o) eqn:E; [apply Nat.eqb_eq in E; contradiction|reflexivity].
Qed.

(* the clauses contributed by an operand x of a flattening operator o *)
Definition contrib (o : nat) (x : sx) : list sx := if has_op x o then flat_clauses x else [x].

Lemma sg_idem_invs o : flattens T o = true -> In o binops ->
  forall l, invs o l -> invs o (map (fun c => self_group T c o) l).
Proof.
  intros Hf Ho. induction l as [|a l IH]; cbn; [auto|]. intros [Ha [Hs Hr]].
  repeat split; [apply sg_inv; exact Ha| |apply IH; exact Hr].
  apply sg_sgc; [exact Ha|]. intros _ _. apply sgc_no_same; assumption.
Qed.

(* contributions of an operand, after self_group against o, satisfy the list invariant *)
Lemma contrib_invs o x : flattens T o = true -> In o binops -> inv x ->
  invs o (map (fun c => self_group T c o) (contrib o x)).
Proof.
  intros Hf Ho Hi. unfold contrib. destruct (has_op x o) eqn:E.
  - (* x has operator o: its clauses were already grouped against o *)
    apply sg_idem_invs; [assumption|assumption|].
    destruct x as [n|o' l r|o' e1 es|u e|e]; unfold has_op in E; cbn in E; try discriminate.
    + apply Nat.eqb_eq in E; subst o'. cbn [inv] in Hi. destruct Hi as [_ [Hl [Hr [Sl Sr]]]].
      cbn. repeat split; assumption.
    + apply Nat.eqb_eq in E; subst o'. cbn [inv] in Hi. destruct Hi as [_ [_ [H1 [S1 Hes]]]].
      cbn. repeat split; assumption.
    + apply Nat.eqb_eq in E; subst u. cbn [inv] in Hi. destruct Hi as [Hu _].
      pose proof (unop_is_un o Hu). rewrite (binop_not_un o Ho) in H. discriminate.
  - cbn. repeat split; [apply sg_inv; exact Hi| ].
    apply sg_sgc; [exact Hi|]. intros _ _. exact E.
Qed.

Lemma mk_list_inv o cs : flattens T o = true -> In o binops -> cs <> [] -> invs o cs -> inv (mk_list o cs).
Proof.
  intros Hf Ho Hne H. destruct cs as [|c r]; [contradiction|]. cbn [mk_list inv].
  cbn in H. destruct H as [Hc [Sc Hr]]. repeat split; assumption.
Qed.

Lemma contrib_nonempty o x : contrib o x <> [].
Proof.
  unfold contrib. destruct (has_op x o); [|discriminate].
  destruct x; cbn; discriminate.
Qed.

Lemma construct_for_op_inv o l r :
  In o binops -> o <> AND -> o <> OR -> inv l -> inv r -> inv (construct_for_op T o l r).
Proof.
  intros Ho Ha Hor Hl Hr. unfold construct_for_op.
  destruct (assoc T o && (has_op l o || has_op r o)) eqn:E.
  - apply andb_true_iff in E. destruct E as [Has _].
    assert (Hf : flattens T o = true) by (unfold flattens; rewrite Has; reflexivity).
    fold (contrib o l). fold (contrib o r). rewrite map_app.
    apply mk_list_inv; [assumption|assumption| |].
    + intros Hnil. apply app_eq_nil in Hnil. destruct Hnil as [H1 _].
      apply map_eq_nil in H1. exact (contrib_nonempty o l H1).
    + apply invs_app; apply contrib_invs; assumption.
  - cbn [inv]. repeat split; try assumption; try (apply sg_inv; assumption).
    + apply sg_sgc; [exact Hl|]. intros Hf _. unfold flattens in Hf.
      apply andb_false_iff in E.
      destruct (Nat.eqb_spec o AND); [contradiction|]. destruct (Nat.eqb_spec o OR); [contradiction|].
      rewrite !orb_false_r in Hf. rewrite Hf in E. destruct E as [E|E]; [discriminate|].
      apply orb_false_iff in E. apply E.
    + apply sg_sgc; [exact Hr|]. intros Hf _. unfold flattens in Hf.
      apply andb_false_iff in E.
      destruct (Nat.eqb_spec o AND); [contradiction|]. destruct (Nat.eqb_spec o OR); [contradiction|].
      rewrite !orb_false_r in Hf. rewrite Hf in E. destruct E as [E|E]; [discriminate|].
      apply orb_false_iff in E. apply E.
Qed.

(* and_/or_: the operand is grouped first, then flattened if it still shows the operator *)
Lemma bool_contrib_invs o x : flattens T o = true -> In o binops -> inv x ->
  invs o (contrib o (self_group T x o)).
Proof.
  intros Hf Ho Hi. unfold contrib. destruct (has_op (self_group T x o) o) eqn:E.
  - (* still shows o: self_group returned x itself, x has operator o *)
    assert (Hx : self_group T x o = x /\ has_op x o = true).
    { destruct x as [n|o' l r|o' e1 es|u e|e]; cbn [self_group] in *; try (split; [reflexivity|exact E]).
      - destruct (_ || _); [unfold has_op in E; cbn in E; discriminate|split; [reflexivity|exact E]].
      - destruct (_ || _); [unfold has_op in E; cbn in E; discriminate|split; [reflexivity|exact E]].
      - destruct (is_precedent T u o); [unfold has_op in E; cbn in E; discriminate|split; [reflexivity|exact E]]. }
    destruct Hx as [-> Hx].
    destruct x as [n|o' l r|o' e1 es|u e|e]; unfold has_op in Hx; cbn in Hx; try discriminate.
    + apply Nat.eqb_eq in Hx; subst o'. cbn [inv] in Hi. destruct Hi as [_ [Hl [Hr [Sl Sr]]]].
      cbn. repeat split; assumption.
    + apply Nat.eqb_eq in Hx; subst o'. cbn [inv] in Hi. destruct Hi as [_ [_ [H1 [S1 Hes]]]].
      cbn. repeat split; assumption.
    + apply Nat.eqb_eq in Hx; subst u. cbn [inv] in Hi. destruct Hi as [Hu _].
      pose proof (unop_is_un o Hu) as H. rewrite (binop_not_un o Ho) in H. discriminate.
  - cbn. repeat split; [apply sg_inv; exact Hi|].
    unfold sgc. destruct (op_of (self_group T x o)) as [c|] eqn:Eo; [|exact I].
    (* ungrouped: self_group returned x itself *)
    assert (Hs : sgc o (self_group T x o)).
    { apply sg_sgc; [exact Hi|]. intros _ _.
      destruct x as [n|o' l r|o' e1 es|u e|e]; cbn [self_group] in *; try exact E.
      - destruct (_ || _); [cbn in Eo; discriminate|exact E].
      - destruct (_ || _); [cbn in Eo; discriminate|exact E].
      - destruct (is_precedent T u o); [cbn in Eo; discriminate|exact E]. }
    unfold sgc in Hs. rewrite Eo in Hs. exact Hs.
Qed.

Lemma bool_list_inv o l r : flattens T o = true -> In o binops -> inv l -> inv r -> inv (bool_list T o l r).
Proof.
  intros Hf Ho Hl Hr. unfold bool_list. fold (contrib o (self_group T l o)). fold (contrib o (self_group T r o)).
  apply mk_list_inv; [assumption|assumption| |].
  - intros Hnil. apply app_eq_nil in Hnil. destruct Hnil as [H1 _]. exact (contrib_nonempty _ _ H1).
  - apply invs_app; apply bool_contrib_invs; assumption.
Qed.

Lemma negate_inv x : neg_wf = true -> inv x -> inv (negate_sx T x).
Proof.
  intros Hn Hi. destruct x as [n|o l r|o e1 es|u e|e]; cbn [negate_sx].
  - cbn [inv]. split; [left; reflexivity|]. split; exact I.
  - destruct (negate T o) as [no|] eqn:En.
    + cbn [inv] in Hi. destruct Hi as [Ho [Hl [Hr _]]].
      unfold neg_wf in Hn. rewrite forallb_forall in Hn. specialize (Hn o Ho). rewrite En in Hn.
      apply andb_true_iff in Hn. destruct Hn as [Hin Hnf]. apply negb_true_iff in Hnf.
      apply existsb_exists in Hin. destruct Hin as [y [Hy Hey]]. apply Nat.eqb_eq in Hey. subst y.
      cbn [inv]. repeat split; try assumption; try (apply sg_inv; assumption).
      * apply sg_sgc; [exact Hl|]. intros Hf. rewrite Hf in Hnf. discriminate.
      * apply sg_sgc; [exact Hr|]. intros Hf. rewrite Hf in Hnf. discriminate.
    + change (In INV unops /\ inv (SB o l r) /\ True). split; [left; reflexivity|]. split; [exact Hi|exact I].
  - change (In INV unops /\ inv (self_group T (SL o e1 es) INV) /\ sgc INV (self_group T (SL o e1 es) INV)).
    split; [left; reflexivity|]. split; [apply sg_inv; exact Hi|].
    apply sg_sgc; [exact Hi|]. intros _ Hu. vm_compute in Hu. discriminate.
  - change (In INV unops /\ inv (self_group T (SU u e) INV) /\ sgc INV (self_group T (SU u e) INV)).
    split; [left; reflexivity|]. split; [apply sg_inv; exact Hi|].
    apply sg_sgc; [exact Hi|]. intros _ Hu. vm_compute in Hu. discriminate.
  - change (In INV unops /\ inv e /\ True). split; [left; reflexivity|]. split; [exact Hi|exact I].
Qed.

(* user trees: binary operators come from the vocabulary; and_/or_ are written with UAnd/UOr *)
Fixpoint wf_u (t : uex) : Prop :=
  match t with
  | UA _ => True
  | UB o l r => In o binops /\ o <> AND /\ o <> OR /\ wf_u l /\ wf_u r
  | UAnd l r | UOr l r => wf_u l /\ wf_u r
  | UNot e | UNeg e => wf_u e
  end.

Theorem construct_inv : neg_wf = true -> forall t, wf_u t -> inv (construct T t).
Proof.
  intros Hn. induction t as [n|o l IHl r IHr|l IHl r IHr|l IHl r IHr|e IHe|e IHe]; cbn [construct wf_u]; intros Hw.
  - exact I.
  - destruct Hw as [Ho [Ha [Hor [Hl Hr]]]]. apply construct_for_op_inv; auto.
  - destruct Hw as [Hl Hr]. apply bool_list_inv; auto.
    + unfold flattens. rewrite Nat.eqb_refl. rewrite orb_true_r. reflexivity.
    + left; reflexivity.
  - destruct Hw as [Hl Hr]. apply bool_list_inv; auto.
    + unfold flattens. rewrite Nat.eqb_refl. rewrite !orb_true_r. reflexivity.
    + right; left; reflexivity.
  - apply negate_inv; auto.
  - change (In NEG unops /\ inv (self_group T (construct T e) NEG) /\ sgc NEG (self_group T (construct T e) NEG)).
    split; [right; left; reflexivity|]. split; [apply sg_inv; auto|].
    apply sg_sgc; [auto|]. intros _ Hu. vm_compute in Hu. discriminate.
Qed.
End Inv.
