(* C17 - structural changes change the key; refutations outside the guard; the rejected shapes *)
From Coq Require Import List NArith ZArith Bool Lia.
Import ListNotations.
From SAV.sql Require Import Lambda LambdaBase LambdaProofs LambdaMain.

(* a closure value that is not a literal (column, table, list of columns) is part of the cache key: two
   constructions that differ in such a cell never share a cached skeleton *)
Theorem structural_change_changes_key : forall us e0 e e' i,
  map kind e = map kind e0 -> map kind e' = map kind e0 ->
  wrapped (classify_cells us 0 e0) i = false -> cell e i <> cell e' i ->
  keyparts (classify_cells us 0 e0) e <> keyparts (classify_cells us 0 e0) e'.
Proof. intros us e0 e e' i K K' W Hne HK. apply Hne. exact (unwrapped_same us e0 e e' K K' HK i W). Qed.

(* a helper function that is only ever called contributes its code object: a different function, a different key *)
Theorem function_change_changes_key : forall us e0 e e' i code cap code' cap',
  map kind e = map kind e0 -> map kind e' = map kind e0 -> has_param us i = false ->
  cell e i = VFun code cap -> cell e' i = VFun code' cap' -> code <> code' ->
  keyparts (classify_cells us 0 e0) e <> keyparts (classify_cells us 0 e0) e'.
Proof.
  intros us e0 e e' i code cap code' cap' K K' Hp E E' Hne HK.
  destruct (fun_code_same us e0 e e' K K' HK i code cap Hp E) as [cap'' E'']. congruence.
Qed.

(* ... but NOT its closure: the key of VFun code cap forgets cap *)
Lemma function_closure_not_in_key : forall us i code cap cap',
  keypart (true, classify us i (VFun code cap)) (VFun code cap) = keypart (true, classify us i (VFun code cap)) (VFun code cap').
Proof. intros. unfold keypart, classify. cbn. destruct (has_param us i); reflexivity. Qed.

(* a literal cell whose truth value the lambda tests, and which is not used as a bound value anywhere in the
   body, is refused: the analysis never succeeds *)
Lemma rejects_at : forall us e i, i < length e -> deep_is_literal (cell e i) = true -> classify us i (cell e i) = Reject ->
  rejects (classify_cells us 0 e) false = true.
Proof.
  intros us e i Hi Hl Hc. unfold rejects. apply existsb_exists. exists (nth i (classify_cells us 0 e) (false, Reject)). split.
  - apply nth_In. rewrite classify_cells_length. exact Hi.
  - rewrite classify_cells_nth by exact Hi. cbn [Nat.add fst snd]. rewrite Hc, Hl. reflexivity.
Qed.

Theorem truth_test_unshared_rejected : forall us e t c i k1 k2,
  In (UIf t c i k1 k2) us -> has_param us i = false -> i < length e ->
  (match cell e i with VNone | VInt _ => true | _ => false end) = true ->
  forall a, analyze us e <> Ok a.
Proof.
  intros us e t c i k1 k2 _ Hp Hi Hs a. unfold analyze.
  assert (R : rejects (classify_cells us 0 e) false = true).
  { apply (rejects_at us e i Hi).
    - destruct (cell e i); try discriminate; reflexivity.
    - unfold classify. destruct (cell e i); try discriminate; cbn; rewrite Hp; reflexivity. }
  rewrite R. destruct (rejects _ true); discriminate.
Qed.

(* ---------------- concrete refutations (tables: 0 = t, 1 = u; columns: 0 id, 1 x, 2 y) ---------------- *)
Definition F0 (code : N) : fdesc := {| f_t := 0; f_c := 1; f_op := Gt; f_const := 1 |}.

(* v = None in  t.c.x != v *)
Definition U_none (code : N) : list use := [UCmp 0 1 Ne 0].
Lemma none_operand_refuted :
  run F0 U_none empty_state [[(1%N, [VInt 1])]; [(1%N, [VNone])]] =
    [Ok [ICrit (CCmp 0 1 Ne (VInt 1))]; Ok [ICrit (CCmp 0 1 Ne VNone)]] /\
  direct_chain F0 U_none [(1%N, [VNone])] = Ok [ICrit (CIsNotNull 0 1)].
Proof. split; vm_compute; reflexivity. Qed.

(* .limit(n) with n = None *)
Definition U_limit (code : N) : list use := [ULimit 0].
Lemma none_limit_refuted :
  run F0 U_limit empty_state [[(1%N, [VNone])]] = [Ok [ILimit VNone]] /\ direct_chain F0 U_limit [(1%N, [VNone])] = Ok [].
Proof. split; vm_compute; reflexivity. Qed.

(* helper() with its own closure value n: the first n is reused for ever *)
Definition U_call (code : N) : list use := [UCall 0].
Lemma nested_function_stale_refuted :
  run F0 U_call empty_state [[(1%N, [VFun 7 [VInt 0]])]; [(1%N, [VFun 7 [VInt 2]])]] =
    [Ok [ICrit (CCmp 0 1 Gt (VInt 0))]; Ok [ICrit (CCmp 0 1 Gt (VInt 0))]] /\
  direct_chain F0 U_call [(1%N, [VFun 7 [VInt 2]])] = Ok [ICrit (CCmp 0 1 Gt (VInt 2))].
Proof. split; vm_compute; reflexivity. Qed.

(* t.c.x > v  and  t.c.y == (1 if v else 2): v is a bound value, its truth value is baked in *)
Definition U_shared (code : N) : list use := [UCmp 0 1 Gt 0; UIf 0 2 0 1 2].
Lemma shared_truth_test_stale_refuted :
  run F0 U_shared empty_state [[(1%N, [VInt 1])]; [(1%N, [VInt 0])]] =
    [Ok [ICrit (CCmp 0 1 Gt (VInt 1)); ICrit (CCmp 0 2 Eq (VInt 1))];
     Ok [ICrit (CCmp 0 1 Gt (VInt 0)); ICrit (CCmp 0 2 Eq (VInt 1))]] /\
  direct_chain F0 U_shared [(1%N, [VInt 0])] = Ok [ICrit (CCmp 0 1 Gt (VInt 0)); ICrit (CCmp 0 2 Eq (VInt 2))].
Proof. split; vm_compute; reflexivity. Qed.

(* t.c.x > l[0]: repaired (3d569da).  A list that is only indexed is refused like dct["k"] / obj.attr (documented
   InvalidRequestError); a list that is also a bound value (IN) has its item re-extracted on every construction *)
Definition U_index (code : N) : list use := [UIndex 0 1 Gt 0 0].
Lemma list_index_alone_rejected :
  run F0 U_index empty_state [[(1%N, [VList [VInt 1; VInt 2]])]] = [Rejected].
Proof. vm_compute; reflexivity. Qed.
Definition U_index_in (code : N) : list use := [UIn 0 2 0; UIndex 0 1 Gt 0 1].
Lemma list_index_with_in_fresh :
  run F0 U_index_in empty_state [[(1%N, [VList [VInt 1; VInt 2]])]; [(1%N, [VList [VInt 0; VInt 5; VInt 3]])]] =
    [Ok [ICrit (CIn 0 2 [VInt 1; VInt 2]); ICrit (CCmp 0 1 Gt (VInt 2))];
     Ok [ICrit (CIn 0 2 [VInt 0; VInt 5; VInt 3]); ICrit (CCmp 0 1 Gt (VInt 5))]] /\
  map (direct_chain F0 U_index_in) [[(1%N, [VList [VInt 1; VInt 2]])]; [(1%N, [VList [VInt 0; VInt 5; VInt 3]])]] =
    run F0 U_index_in empty_state [[(1%N, [VList [VInt 1; VInt 2]])]; [(1%N, [VList [VInt 0; VInt 5; VInt 3]])]].
Proof. split; vm_compute; reflexivity. Qed.

(* ---------------- a non-trivial history inside the guard ---------------- *)
(* lambda 1: select(tbl.c.id).where(tbl.c.x > v)   lambda 2: s.where(col < 5).where(t.c.y.in_(lst)).limit(n)
   lambda 3: s.where(h(w))  with h = code 9 *)
Definition U_ex (code : N) : list use :=
  if N.eqb code 1 then [UFrom 0; UTabCmp 0 1 Gt 1]
  else if N.eqb code 2 then [UColCmp 0 Lt 5; UIn 0 2 1; ULimit 2; UIndex 0 1 Ne 1 0]
  else [UCallArg 0 1].
Definition K_ex (code : N) : list N :=
  (if N.eqb code 1 then [3; 0] else if N.eqb code 2 then [2; 1; 0] else [4; 0])%N.
Definition h_ex : list (list (N * list val)) :=
  [ [(1, [VTab 0; VInt 1]); (2, [VCol 0 1; VList [VInt 1; VInt 2]; VInt 3])];
    [(1, [VTab 1; VInt 0]); (2, [VCol 1 1; VList [VInt 4]; VInt 1])];
    [(1, [VTab 0; VInt 7]); (3, [VFun 9 []; VInt 4])];
    [(1, [VTab 0; VInt 2]); (2, [VCol 0 1; VList [VInt 7; VNone]; VInt 9]); (3, [VFun 9 [VInt 5]; VInt 8])] ]%N.
Lemma ex_guard : forall ch, In ch h_ex -> chain_good U_ex K_ex ch /\ exists its, direct_chain F0 U_ex ch = Ok its.
Proof.
  intros ch H. cbn in H. repeat (destruct H as [<-|H]; [split; [|eexists; vm_compute; reflexivity]|]); try contradiction;
    intros code e Hin; cbn in Hin; repeat (destruct Hin as [Hin|Hin]; [inversion Hin; subst; repeat split; vm_compute; reflexivity|]);
    contradiction.
Qed.
Lemma ex_runs : run F0 U_ex empty_state h_ex = map (direct_chain F0 U_ex) h_ex.
Proof. vm_compute; reflexivity. Qed.
