(* C08 - LIKE-based string operators with autoescape: executable model (definitions only).

   Implementation side (transcribes the code as written, defects included):
     sql/operators.py   _escaped_like_impl              -> [escaped_like_impl], [autoescape], [model_replaces]
     sql/operators.py   contains_op ... iendswith_op    -> [op]
     sql/compiler.py    visit_*_op_binary, visit_like_op_binary, visit_ilike_op_binary
                                                        -> [model_render], [build_pattern], [op_match]
   Spec side:
     [like]     SQL LIKE with an ESCAPE character (validated against SQLite 3.40 on every run by the
                correspondence check, PRAGMA case_sensitive_like=ON)
     [py_test]  Python's  x in s / s.startswith(x) / s.endswith(x), ASCII case folding for the i-variants *)
From Coq Require Import List NArith Bool.
Import ListNotations.
Open Scope N_scope.

Definition chr := N.           (* a code point *)
Definition pct : chr := 37.    (* % *)
Definition und : chr := 95.    (* _ *)
Definition slash : chr := 47.  (* / *)

(* ------------------------------------------------------------------ spec side: SQL LIKE *)

Definition is_esc (esc : option chr) (c : chr) : bool :=
  match esc with Some e => N.eqb c e | None => false end.

(* [star_of k s]: some suffix of [s] satisfies [k] *)
Fixpoint star_of (k : list chr -> bool) (s : list chr) : bool :=
  k s || match s with [] => false | _ :: s' => star_of k s' end.

(* pattern [p] against text [s].  The escape character is examined first (SQLite disables the
   wildcard that is chosen as escape character; standard SQL gives the same reading); an escape
   character at the very end of the pattern matches nothing. *)
Fixpoint like (esc : option chr) (p : list chr) (s : list chr) {struct p} : bool :=
  match p with
  | [] => match s with [] => true | _ => false end
  | c :: p' =>
    if is_esc esc c then
      match p' with
      | c2 :: p'' => match s with x :: s' => N.eqb x c2 && like esc p'' s' | [] => false end
      | [] => false
      end
    else if N.eqb c pct then star_of (like esc p') s
    else if N.eqb c und then match s with _ :: s' => like esc p' s' | [] => false end
    else match s with x :: s' => N.eqb x c && like esc p' s' | [] => false end
  end.

(* ------------------------------------------------------------------ spec side: Python *)

Fixpoint is_prefix (x s : list chr) : bool :=
  match x, s with [], _ => true | a :: x', b :: s' => N.eqb a b && is_prefix x' s' | _, _ => false end.
Fixpoint list_eqb (x s : list chr) : bool :=
  match x, s with [], [] => true | a :: x', b :: s' => N.eqb a b && list_eqb x' s' | _, _ => false end.
Fixpoint is_suffix (x s : list chr) : bool :=
  list_eqb x s || match s with [] => false | _ :: s' => is_suffix x s' end.
Fixpoint is_infix (x s : list chr) : bool :=
  is_prefix x s || match s with [] => false | _ :: s' => is_infix x s' end.

Definition is_upper (c : chr) : bool := (65 <=? c) && (c <=? 90).
Definition is_lower (c : chr) : bool := (97 <=? c) && (c <=? 122).
Definition is_letter (c : chr) : bool := is_upper c || is_lower c.
(* ASCII case folding: SQL lower() on SQLite, str.lower() on ASCII text *)
Definition lower_chr (c : chr) : chr := if is_upper c then c + 32 else c.
Definition upper_chr (c : chr) : chr := if is_lower c then c - 32 else c.
Definition lower (s : list chr) : list chr := map lower_chr s.

(* ------------------------------------------------------------------ implementation side *)

(* Python str.replace(c, by) for a one-character [c] *)
Definition replace1 (c : chr) (by_ : list chr) (s : list chr) : list chr :=
  flat_map (fun x => if N.eqb x c then by_ else [x]) s.

(* the .replace(a, b) calls of _escaped_like_impl in evaluation order; [TEsc] stands for the variable
   `escape`; [r_unless] is the tuple of the enclosing `if escape not in (...)` ([] = unconditional).
   The translator regenerates this list from the source AST ([gen_replaces = model_replaces]). *)
Inductive tok := TEsc | TChr (c : chr).
Record repl := mkRepl { r_unless : list chr; r_from : tok; r_to : list tok }.

Definition model_replaces : list repl :=
  [ mkRepl [pct; und] TEsc [TEsc; TEsc];
    mkRepl [] (TChr pct) [TEsc; TChr pct];
    mkRepl [] (TChr und) [TEsc; TChr und] ].

Definition default_escape : chr := slash.      (* if escape is None: escape = "/" *)

Definition tok_val (e : chr) (t : tok) : chr := match t with TEsc => e | TChr c => c end.

Definition apply_repl (e : chr) (s : list chr) (r : repl) : list chr :=
  if existsb (N.eqb e) (r_unless r) then s
  else replace1 (tok_val e (r_from r)) (map (tok_val e) (r_to r)) s.

Definition autoescape (e : chr) (other : list chr) : list chr :=
  fold_left (apply_repl e) model_replaces other.

Definition eff_escape (escape : option chr) : chr :=
  match escape with None => default_escape | Some e => e end.

(* _escaped_like_impl: (escape modifier of the expression, value of the bind parameter) *)
Definition escaped_like_impl (auto : bool) (escape : option chr) (other : list chr)
  : option chr * list chr :=
  if auto then (Some (eff_escape escape), autoescape (eff_escape escape) other)
  else (escape, other).

Inductive op := Contains | Startswith | Endswith | IContains | IStartswith | IEndswith.

(* the right-hand side built by visit_<op>_binary: concatenation of '%' literals and the bind
   parameter; [w_lower]: both sides wrapped in lower() (ilike_case_insensitive) *)
Inductive piece := PPct | PRight.
Record render := mkRender { w_pieces : list piece; w_lower : bool }.

Definition model_render (o : op) : render :=
  match o with
  | Contains    => mkRender [PPct; PRight; PPct] false
  | Startswith  => mkRender [PRight; PPct] false
  | Endswith    => mkRender [PPct; PRight] false
  | IContains   => mkRender [PPct; PRight; PPct] true
  | IStartswith => mkRender [PRight; PPct] true
  | IEndswith   => mkRender [PPct; PRight] true
  end.

Definition build_pattern (ps : list piece) (r : list chr) : list chr :=
  flat_map (fun p => match p with PPct => [pct] | PRight => r end) ps.

Definition fold_case (o : op) (s : list chr) : list chr :=
  if w_lower (model_render o) then lower s else s.

(* the complete right-hand side of the LIKE as sent to the backend *)
Definition op_pattern (o : op) (auto : bool) (escape : option chr) (x : list chr) : list chr :=
  build_pattern (w_pieces (model_render o)) (fold_case o (snd (escaped_like_impl auto escape x))).

(* does the row holding [s] satisfy  col.<op>(x, autoescape=auto, escape=escape)  *)
Definition op_match (o : op) (auto : bool) (escape : option chr) (x s : list chr) : bool :=
  like (fst (escaped_like_impl auto escape x)) (op_pattern o auto escape x) (fold_case o s).

(* the property's right-hand side *)
Definition py_test (o : op) (x s : list chr) : bool :=
  match o with
  | Contains | IContains => is_infix (fold_case o x) (fold_case o s)
  | Startswith | IStartswith => is_prefix (fold_case o x) (fold_case o s)
  | Endswith | IEndswith => is_suffix (fold_case o x) (fold_case o s)
  end.

(* ------------------------------------------------------------------ guards *)

(* the escape character is not itself a wildcard *)
Definition esc_ok (e : chr) : bool := negb (N.eqb e pct || N.eqb e und).
(* for the case-insensitive operators lower() is applied to the escaped pattern, escape characters
   included, while the ESCAPE clause keeps the original character: letters are excluded *)
Definition guard (o : op) (e : chr) : bool :=
  esc_ok e && (if w_lower (model_render o) then negb (is_letter e) else true).

(* without autoescape: the operand contains nothing LIKE would interpret *)
Definition plain_ok (escape : option chr) (x : list chr) : bool :=
  forallb (fun c => negb (N.eqb c pct || N.eqb c und || is_esc escape c)) x.

(* ------------------------------------------------------------------ well-formed escape sequences *)

(* every escape character in the pattern is followed by the escape character, % or _ (backends differ
   on anything else: some raise an error, some take the next character literally) *)
Fixpoint wf_pattern (e : chr) (p : list chr) : bool :=
  match p with
  | [] => true
  | c :: p' =>
    if N.eqb c e then
      match p' with
      | c2 :: p'' => (N.eqb c2 e || N.eqb c2 pct || N.eqb c2 und) && wf_pattern e p''
      | [] => false
      end
    else wf_pattern e p'
  end.
