(* C56 - the execution strategies of an upsert executemany refine the insert-or-update fold. *)
From Coq Require Import List ZArith Bool Lia Permutation.
Import ListNotations.
From SAV.sql Require Import Upsert UpsertAsm UpsertParse UpsertSpec UpsertSynProofs UpsertAsmProofs.

(* ---- SET items commute when they assign different columns ---- *)
Lemma set_nth_comm : forall i j a b r, i <> j -> set_nth i a (set_nth j b r) = set_nth j b (set_nth i a r).
Proof.
  induction i as [|i IH]; intros j a b r Hne; destruct j as [|j]; destruct r as [|x r]; try reflexivity; try congruence.
  cbn [set_nth]. f_equal. apply IH. congruence.
Qed.

Lemma fold_set_perm : forall (g : nat * expr -> option Z) s s',
  Permutation s s' -> NoDup (map fst s) ->
  forall r, fold_left (fun acc ce => set_nth (fst ce) (g ce) acc) s r =
            fold_left (fun acc ce => set_nth (fst ce) (g ce) acc) s' r.
Proof.
  intros g s s' HP. induction HP; intros Hnd r.
  - reflexivity.
  - cbn [fold_left]. apply IHHP. inversion Hnd; assumption.
  - cbn [fold_left]. f_equal. apply set_nth_comm. cbn [map] in Hnd.
    inversion Hnd as [|? ? Hnin _]; subst. intros E. apply Hnin. left. congruence.
  - rewrite IHHP1 by assumption. apply IHHP2.
    eapply Permutation_NoDup; [apply Permutation_map; exact HP1|exact Hnd].
Qed.

Lemma assign_simul_perm : forall s s' old exc bp,
  Permutation s s' -> NoDup (map fst s) -> assign_simul s old exc bp = assign_simul s' old exc bp.
Proof.
  intros. unfold assign_simul.
  apply (fold_set_perm (fun ce => ev_expr (mkenv old exc bp) (snd ce))); assumption.
Qed.

Lemma do_action_perm : forall ixs tg a tg' a' t h newr bp,
  clause_perm (tg, a) (tg', a') -> sets_nodup (tg, a) ->
  do_action ixs a t h newr bp = do_action ixs a' t h newr bp.
Proof.
  intros ixs tg a tg' a' t h newr bp [_ H] Hnd. cbn [snd] in H. unfold sets_nodup in Hnd. cbn [snd] in Hnd.
  destruct a as [|s w]; destruct a' as [|s' w']; try contradiction; [reflexivity|].
  destruct H as [HP ->]. cbn [do_action]. unfold do_update.
  rewrite (assign_simul_perm s s' _ _ _ HP Hnd). reflexivity.
Qed.

Lemma run_clauses_perm : forall ixs cls cls' t newr bp,
  Forall2 clause_perm cls cls' -> Forall sets_nodup cls ->
  run_clauses ixs cls t newr bp = run_clauses ixs cls' t newr bp.
Proof.
  intros ixs cls cls' t newr bp H. induction H as [|[tg a] [tg' a'] l l' Hc Hl IH]; intros Hnd; [reflexivity|].
  inversion Hnd as [|? ? Hn1 Hn2]; subst. cbn [run_clauses].
  assert (tg = tg') as <- by (destruct Hc as [E _]; exact E).
  destruct (clause_hit ixs tg newr t); [|apply IH; assumption].
  f_equal. eapply do_action_perm; eassumption.
Qed.

Lemma upsert_one_perm : forall ixs cls cls' t newr bp,
  Forall2 clause_perm cls cls' -> Forall sets_nodup cls ->
  upsert_one ixs cls t newr bp = upsert_one ixs cls' t newr bp.
Proof. intros. unfold upsert_one. rewrite (run_clauses_perm ixs cls cls') by assumption. reflexivity. Qed.

Lemma targets_ok_perm : forall ixs cls cls', Forall2 clause_perm cls cls' -> targets_ok ixs cls = targets_ok ixs cls'.
Proof.
  intros ixs cls cls' H. induction H as [|[tg a] [tg' a'] l l' Hc Hl IH]; [reflexivity|].
  unfold targets_ok in *. cbn [forallb fst]. destruct Hc as [E _]. cbn [fst] in E. subst tg'. rewrite IH. reflexivity.
Qed.

Lemma clause_perm_nodup : forall cls cls', Forall2 clause_perm cls cls' -> Forall sets_nodup cls' -> Forall sets_nodup cls.
Proof.
  intros cls cls' H. induction H as [|[tg a] [tg' a'] l l' Hc Hl IH]; intros Hnd; [constructor|].
  inversion Hnd as [|? ? Hn1 Hn2]; subst. constructor; [|auto].
  destruct Hc as [_ Hc]. cbn [snd] in Hc. unfold sets_nodup in *. cbn [snd] in *.
  destruct a as [|s w]; destruct a' as [|s' w']; try contradiction; [exact I|].
  destruct Hc as [HP _]. eapply Permutation_NoDup; [apply Permutation_map; apply Permutation_sym; exact HP|exact Hn1].
Qed.

(* ---- independence of the per-row bound parameters ---- *)
Definition atom_nopar (a : atom) : bool := negb (atom_is_par a).
Definition expr_nopar (e : expr) : bool := negb (expr_has_par e).
Definition pred_nopar (p : pred) : bool := negb (pred_has_par p).
Definition clause_nopar (c : clause) : bool :=
  match snd c with
  | DoNothing => true
  | DoUpdate s w => forallb (fun ce => expr_nopar (snd ce)) s && match w with Some p => pred_nopar p | None => true end
  end.

Lemma ev_atom_nopar : forall a o e bp bp', atom_is_par a = false -> ev_atom (mkenv o e bp) a = ev_atom (mkenv o e bp') a.
Proof. intros [] o e bp bp' H; try reflexivity. discriminate. Qed.

Lemma ev_expr_nopar : forall x o e bp bp', expr_has_par x = false -> ev_expr (mkenv o e bp) x = ev_expr (mkenv o e bp') x.
Proof.
  intros [a|a b] o e bp bp' H; cbn [expr_has_par ev_expr] in *.
  - apply ev_atom_nopar; assumption.
  - apply orb_false_elim in H. destruct H as [Ha Hb].
    rewrite (ev_atom_nopar a o e bp bp' Ha), (ev_atom_nopar b o e bp bp' Hb). reflexivity.
Qed.

Lemma ev_pred_nopar : forall p o e bp bp', pred_has_par p = false -> ev_pred (mkenv o e bp) p = ev_pred (mkenv o e bp') p.
Proof.
  intros [c l r] o e bp bp' H. cbn [pred_has_par ev_pred] in *. apply orb_false_elim in H. destruct H as [Hl Hr].
  rewrite (ev_expr_nopar l o e bp bp' Hl), (ev_expr_nopar r o e bp bp' Hr). reflexivity.
Qed.

Lemma assign_simul_nopar : forall s o e bp bp',
  forallb (fun ce => expr_nopar (snd ce)) s = true -> assign_simul s o e bp = assign_simul s o e bp'.
Proof.
  intros s o e bp bp'. unfold assign_simul. generalize o at 2 4 as acc.
  induction s as [|ce s IH]; intros acc H; [reflexivity|].
  cbn [forallb] in H. apply andb_prop in H. destruct H as [H1 H2]. cbn [fold_left].
  unfold expr_nopar in H1. apply negb_true_iff in H1.
  rewrite (ev_expr_nopar (snd ce) o e bp bp' H1). apply IH. exact H2.
Qed.

Lemma run_clauses_nopar : forall ixs cls t r bp bp',
  forallb clause_nopar cls = true -> run_clauses ixs cls t r bp = run_clauses ixs cls t r bp'.
Proof.
  intros ixs cls t r bp bp'. induction cls as [|[tg a] cls IH]; intros H; [reflexivity|].
  cbn [forallb] in H. apply andb_prop in H. destruct H as [H1 H2]. cbn [run_clauses].
  destruct (clause_hit ixs tg r t) as [h|]; [|apply IH; exact H2]. f_equal.
  destruct a as [|s w]; [reflexivity|]. unfold clause_nopar in H1. cbn [snd] in H1.
  apply andb_prop in H1. destruct H1 as [Hs Hw]. cbn [do_action]. unfold do_update.
  assert (Ho : opt_holds w (mkenv (nth h t []) r bp) = opt_holds w (mkenv (nth h t []) r bp')).
  { destruct w as [p|]; [|reflexivity]. cbn [opt_holds]. unfold pred_nopar in Hw. apply negb_true_iff in Hw.
    apply ev_pred_nopar; exact Hw. }
  rewrite Ho, (assign_simul_nopar s _ _ bp bp' Hs). reflexivity.
Qed.

Lemma upsert_one_nopar : forall ixs cls t r bp bp',
  forallb clause_nopar cls = true -> upsert_one ixs cls t r bp = upsert_one ixs cls t r bp'.
Proof. intros. unfold upsert_one. rewrite (run_clauses_nopar ixs cls t r bp bp') by assumption. reflexivity. Qed.

(* a construct without bindparam() in SET values / WHERE denotes bindparam-free clauses *)
Lemma norm_expr_par : forall e, expr_has_par (norm_expr e) = expr_has_par e.
Proof. intros [[]|[] []]; reflexivity. Qed.
Lemma norm_pred_par : forall p, pred_has_par (norm_pred p) = pred_has_par p.
Proof. intros [c l r]. cbn [norm_pred pred_has_par]. rewrite !norm_expr_par. reflexivity. Qed.

Lemma spec_sets_nopar : forall cols s l,
  spec_sets cols s = Some l -> existsb (fun kv => expr_has_par (snd kv)) s = false ->
  forallb (fun ce => expr_nopar (snd ce)) l = true.
Proof.
  unfold spec_sets. induction s as [|[k v] s IH]; intros l H Hp; cbn [map sequence] in H.
  - injection H as <-. reflexivity.
  - cbn [existsb snd] in Hp. apply orb_false_elim in Hp. destruct Hp as [Hp1 Hp2].
    cbn [fst snd] in H. destruct (set_item (length cols) (key_col cols k) v) as [[i e]|] eqn:Ei; [|discriminate].
    destruct (sequence _) as [l'|] eqn:El; [|discriminate]. injection H as <-.
    cbn [forallb snd]. rewrite (IH l' eq_refl Hp2), andb_true_r.
    unfold set_item in Ei. destruct (key_col cols k); [|discriminate].
    destruct (expr_ok (length cols) v); [|discriminate]. injection Ei as _ <-.
    unfold expr_nopar. rewrite norm_expr_par, Hp1. reflexivity.
Qed.

Lemma spec_of_nopar : forall cols sa cls,
  spec_of cols sa = Some cls -> existsb has_set_par sa = false -> existsb has_where_par sa = false ->
  forallb clause_nopar cls = true.
Proof.
  unfold spec_of. induction sa as [|c sa IH]; intros cls H Hs Hw; cbn [map sequence] in H.
  - injection H as <-. reflexivity.
  - cbn [existsb] in Hs, Hw. apply orb_false_elim in Hs. apply orb_false_elim in Hw.
    destruct Hs as [Hs1 Hs2]. destruct Hw as [Hw1 Hw2].
    destruct (spec_clause cols c) as [cl|] eqn:Ec; [|discriminate].
    destruct (sequence _) as [cls'|] eqn:El; [|discriminate]. injection H as <-.
    cbn [forallb]. rewrite (IH cls' eq_refl Hs2 Hw2), andb_true_r.
    destruct c as [t|t s w]; cbn [spec_clause] in Ec.
    + destruct (spec_target cols t); [|discriminate]. injection Ec as <-. reflexivity.
    + apply mk_update_some in Ec. destruct Ec as (tg & l & _ & Es & _ & _ & ->).
      unfold clause_nopar. cbn [snd]. cbn [has_set_par] in Hs1.
      rewrite (spec_sets_nopar cols s l Es Hs1). cbn [andb].
      destruct w as [p|]; [|reflexivity]. cbn [option_map has_where_par] in *.
      unfold pred_nopar. rewrite norm_pred_par, Hw1. reflexivity.
Qed.

(* ---- plans ---- *)
Section Plans.
  Variable shuffle : list row -> list row.
  Hypothesis Hsh : forall l, Permutation (shuffle l) l.
  Variable step : table -> row -> list (option Z) -> res (table * option row).

  Lemma shuffle_small : forall l, length l <= 1 -> shuffle l = l.
  Proof.
    intros [|x [|y l]] H; [| |simpl in H; lia].
    - apply Permutation_nil. apply Permutation_sym. apply Hsh.
    - apply Permutation_length_1_inv. apply Permutation_sym. apply Hsh.
  Qed.

  (* one statement per parameter set: exactly the fold, rows in parameter order *)
  Lemma exec_rows_eq_fold : forall ps t,
    exec_plan shuffle step t (map (fun p => (snd p, [fst p])) ps) = fold_rows step t ps.
  Proof.
    induction ps as [|[r bp] ps IH]; intros t; [reflexivity|].
    cbn [map exec_plan fst snd]. unfold db_stmt. cbn [map fold_rows].
    destruct (step t r bp) as [[t' o]|e]; [|reflexivity].
    rewrite shuffle_small by (destruct o; simpl; lia).
    rewrite IH. destruct (fold_rows step t' ps) as [[t'' rs]|e]; [|reflexivity].
    destruct o; reflexivity.
  Qed.

  Hypothesis Hstep : forall t r bp bp', step t r bp = step t r bp'.

  Lemma fold_rows_bp : forall ch bp t, fold_rows step t (map (fun r => (r, bp)) (map fst ch)) = fold_rows step t ch.
  Proof.
    induction ch as [|[r bp0] ch IH]; intros bp t; [reflexivity|].
    cbn [map fst fold_rows]. rewrite (Hstep t r bp bp0).
    destruct (step t r bp0) as [[t' o]|e]; [|reflexivity]. rewrite IH. reflexivity.
  Qed.

  Lemma fold_rows_app : forall a b t,
    fold_rows step t (a ++ b) =
    match fold_rows step t a with
    | Err e => Err e
    | Ok (t', ra) => match fold_rows step t' b with Err e => Err e | Ok (t'', rb) => Ok (t'', ra ++ rb) end
    end.
  Proof.
    induction a as [|[r bp] a IH]; intros b t; cbn [app fold_rows].
    - destruct (fold_rows step t b) as [[t' rs]|e]; reflexivity.
    - destruct (step t r bp) as [[t' o]|e]; [|reflexivity]. rewrite IH.
      destruct (fold_rows step t' a) as [[t1 ra]|e]; [|reflexivity].
      destruct (fold_rows step t1 b) as [[t2 rb]|e]; [|reflexivity].
      destruct o; reflexivity.
  Qed.

  Lemma exec_chunks_equiv : forall (f : list prow -> list (option Z)) chs t,
    res_equiv (exec_plan shuffle step t (map (fun ch => (f ch, map fst ch)) chs))
              (fold_rows step t (concat chs)).
  Proof.
    induction chs as [|ch chs IH]; intros t; cbn [map exec_plan concat].
    - split; [reflexivity|apply Permutation_refl].
    - rewrite fold_rows_app. unfold db_stmt. rewrite fold_rows_bp.
      destruct (fold_rows step t ch) as [[t' ra]|e]; [|reflexivity].
      specialize (IH t').
      destruct (exec_plan shuffle step t' _) as [[t1 r1]|e1]; destruct (fold_rows step t' (concat chs)) as [[t2 r2]|e2];
        cbn [res_equiv] in *; try contradiction; try assumption.
      destruct IH as [-> HP]. split; [reflexivity|]. apply Permutation_app; [apply Hsh|exact HP].
  Qed.
End Plans.

Lemma concat_chunks : forall {A} n (l : list A) fuel, 1 <= n -> length l <= fuel -> concat (chunks fuel n l) = l.
Proof.
  intros A n l fuel Hn. revert l. induction fuel as [|fuel IH]; intros l Hl.
  - destruct l; [reflexivity|simpl in Hl; lia].
  - cbn [chunks]. destruct l as [|x l]; [reflexivity|]. cbn [concat].
    rewrite IH; [apply firstn_skipn|].
    rewrite skipn_length. cbn [length] in *. lia.
Qed.

Lemma res_equiv_refl : forall r, res_equiv r r.
Proof. intros [[t rs]|e]; cbn; auto. Qed.

(* ---- the whole path: construct -> text -> parse -> strategy  vs  the fold over the user's clauses ---- *)
Section Main.
  Variable shuffle : list row -> list row.
  Hypothesis Hsh : forall l, Permutation (shuffle l) l.

  Lemma exec_impl_unfold : forall sqlite embed cols ixs sa returning sorted page t ps cls,
    wf_cols cols -> chain_ok sa = true -> spec_of cols sa = Some cls -> Forall sets_nodup cls ->
    sqlite && existsb uses_literal_execute sa && Nat.ltb 1 (length ps) = false ->
    exists cls', Forall2 clause_perm cls' cls /\
      exec_impl shuffle sqlite embed cols ixs sa returning sorted page t ps =
      if negb (targets_ok ixs cls) then Err EOperational
      else exec_plan shuffle (upsert_one ixs cls') t
             (plan sqlite (batched embed returning sorted (length ps) sa) page ps).
  Proof.
    intros sqlite embed cols ixs sa returning sorted page t ps cls Hwf Hch Hspec Hnd Hlit.
    destruct (asm_clauses_perm cols Hwf sa cls Hspec Hnd) as (cls' & Habs & HP).
    exists cls'. split; [exact HP|]. unfold exec_impl. rewrite Hch, Hlit. cbn [negb].
    rewrite (parse_render_clauses cols (proj1 Hwf) _ cls' Habs).
    rewrite (targets_ok_perm ixs cls' cls HP). reflexivity.
  Qed.

  Theorem exec_impl_exact : forall sqlite embed cols ixs sa returning sorted page t ps cls,
    wf_cols cols -> chain_ok sa = true -> spec_of cols sa = Some cls -> Forall sets_nodup cls ->
    sqlite && existsb uses_literal_execute sa && Nat.ltb 1 (length ps) = false ->
    batched embed returning sorted (length ps) sa = false ->
    exec_impl shuffle sqlite embed cols ixs sa returning sorted page t ps = upsert_spec ixs cls t ps.
  Proof.
    intros sqlite embed cols ixs sa returning sorted page t ps cls Hwf Hch Hspec Hnd Hlit Hb.
    destruct (exec_impl_unfold sqlite embed cols ixs sa returning sorted page t ps cls Hwf Hch Hspec Hnd Hlit)
      as (cls' & HP & ->).
    unfold upsert_spec. destruct (targets_ok ixs cls); [|reflexivity]. cbn [negb].
    rewrite Hb. unfold plan. rewrite (exec_rows_eq_fold shuffle Hsh).
    clear - HP Hnd. revert t. induction ps as [|[r bp] ps IH]; intros t; [reflexivity|].
    cbn [fold_rows]. rewrite (upsert_one_perm ixs cls' cls t r bp HP (clause_perm_nodup _ _ HP Hnd)).
    destruct (upsert_one ixs cls t r bp) as [[t' o]|e]; [|reflexivity]. rewrite IH. reflexivity.
  Qed.

  Lemma fold_rows_ext : forall s1 s2, (forall t r bp, s1 t r bp = s2 t r bp) ->
    forall ps t, fold_rows s1 t ps = fold_rows s2 t ps.
  Proof.
    intros s1 s2 H. induction ps as [|[r bp] ps IH]; intros t; [reflexivity|].
    cbn [fold_rows]. rewrite H. destruct (s2 t r bp) as [[t' o]|e]; [|reflexivity]. rewrite IH. reflexivity.
  Qed.

  Theorem exec_impl_equiv : forall sqlite embed cols ixs sa returning sorted page t ps cls,
    wf_cols cols -> chain_ok sa = true -> spec_of cols sa = Some cls -> Forall sets_nodup cls ->
    sqlite && existsb uses_literal_execute sa && Nat.ltb 1 (length ps) = false ->
    (batched embed returning sorted (length ps) sa = true -> batch_safe sa = true) ->
    res_equiv (exec_impl shuffle sqlite embed cols ixs sa returning sorted page t ps) (upsert_spec ixs cls t ps).
  Proof.
    intros sqlite embed cols ixs sa returning sorted page t ps cls Hwf Hch Hspec Hnd Hlit Hsafe.
    destruct (batched embed returning sorted (length ps) sa) eqn:Hb.
    - destruct (exec_impl_unfold sqlite embed cols ixs sa returning sorted page t ps cls Hwf Hch Hspec Hnd Hlit)
        as (cls' & HP & ->).
      unfold upsert_spec. destruct (targets_ok ixs cls); [|reflexivity]. cbn [negb].
      rewrite Hb. unfold plan.
      specialize (Hsafe eq_refl). unfold batch_safe in Hsafe.
      apply andb_prop in Hsafe. destruct Hsafe as [Hsafe _]. apply andb_prop in Hsafe.
      destruct Hsafe as [H1 H2]. apply negb_true_iff in H1, H2.
      pose proof (spec_of_nopar cols sa cls Hspec H1 H2) as Hnp.
      assert (Hstep : forall t r bp bp', upsert_one ixs cls' t r bp = upsert_one ixs cls' t r bp').
      { intros t0 r bp bp'. rewrite !(upsert_one_perm ixs cls' cls) by (try exact HP; eapply clause_perm_nodup; eassumption).
        apply upsert_one_nopar. exact Hnp. }
      pose proof (exec_chunks_equiv shuffle Hsh (upsert_one ixs cls') Hstep
                    (fun ch => if sqlite then first_bp ch else first_bp ps)
                    (chunks (length ps) (Nat.max 1 page) ps) t) as HE.
      rewrite concat_chunks in HE by lia.
      rewrite (fold_rows_ext (upsert_one ixs cls') (upsert_one ixs cls)) in HE
        by (intros; apply upsert_one_perm; [exact HP|eapply clause_perm_nodup; eassumption]).
      exact HE.
    - rewrite (exec_impl_exact sqlite embed cols ixs sa returning sorted page t ps cls) by assumption.
      apply res_equiv_refl.
  Qed.

  (* sort_by_parameter_order without an embedded counter: never batched *)
  Lemma sorted_not_batched : forall returning n sa, batched false returning true n sa = false.
  Proof.
    intros returning n sa. unfold batched, use_row_at_a_time. destruct returning; [|reflexivity].
    cbn. apply andb_false_r.
  Qed.

  Lemma no_returning_not_batched : forall embed sorted n sa, batched embed false sorted n sa = false.
  Proof. reflexivity. Qed.

  Theorem returning_in_param_order : forall sqlite cols ixs sa returning page t ps cls,
    wf_cols cols -> chain_ok sa = true -> spec_of cols sa = Some cls -> Forall sets_nodup cls ->
    sqlite && existsb uses_literal_execute sa && Nat.ltb 1 (length ps) = false ->
    exec_impl shuffle sqlite false cols ixs sa returning true page t ps = upsert_spec ixs cls t ps.
  Proof. intros. apply exec_impl_exact; auto. apply sorted_not_batched. Qed.

  Theorem no_returning_exact : forall sqlite embed cols ixs sa sorted page t ps cls,
    wf_cols cols -> chain_ok sa = true -> spec_of cols sa = Some cls -> Forall sets_nodup cls ->
    sqlite && existsb uses_literal_execute sa && Nat.ltb 1 (length ps) = false ->
    exec_impl shuffle sqlite embed cols ixs sa false sorted page t ps = upsert_spec ixs cls t ps.
  Proof. intros. apply exec_impl_exact; auto. Qed.

  Theorem chain_error : forall sqlite embed cols ixs sa returning sorted page t ps,
    chain_ok sa = false ->
    exec_impl shuffle sqlite embed cols ixs sa returning sorted page t ps = Err EInvalidRequest.
  Proof. intros. unfold exec_impl. rewrite H. reflexivity. Qed.

  (* without an embedded counter a batched execution has no per-row bindparam in SET / WHERE at all *)
  Lemma batched_no_row_par : forall returning sorted n sa,
    batched false returning sorted n sa = true ->
    existsb has_set_par sa = false /\ existsb has_where_par sa = false.
  Proof.
    intros returning sorted n sa H. unfold batched, use_row_at_a_time in H.
    assert (E : existsb has_row_par sa = false).
    { destruct returning, sorted, (Nat.ltb 1 n), (existsb has_row_par sa); cbn in H; try discriminate; reflexivity. }
    clear H. induction sa as [|c sa IH]; [auto|].
    cbn [existsb] in *. apply orb_false_elim in E. destruct E as [E1 E2].
    unfold has_row_par in E1. apply orb_false_elim in E1. destruct E1 as [A B].
    destruct (IH E2) as [IH1 IH2]. rewrite A, B, IH1, IH2. auto.
  Qed.

  (* MAIN for SQLite and for PostgreSQL without embedded counter: the only guard left on a batched execution is
     "no bindparam() inside index_where" (outside the validated region of the model) *)
  Theorem exec_impl_equiv_no_embed : forall sqlite cols ixs sa returning sorted page t ps cls,
    wf_cols cols -> chain_ok sa = true -> spec_of cols sa = Some cls -> Forall sets_nodup cls ->
    sqlite && existsb uses_literal_execute sa && Nat.ltb 1 (length ps) = false ->
    existsb has_iw_par sa = false ->
    res_equiv (exec_impl shuffle sqlite false cols ixs sa returning sorted page t ps) (upsert_spec ixs cls t ps).
  Proof.
    intros sqlite cols ixs sa returning sorted page t ps cls Hwf Hch Hspec Hnd Hlit Hiw.
    apply exec_impl_equiv; auto. intros Hb.
    destruct (batched_no_row_par _ _ _ _ Hb) as [A B]. unfold batch_safe. rewrite A, B, Hiw. reflexivity.
  Qed.

  (* MySQL *)
  Theorem exec_mysql_eq : forall cols ixs alias ordered upd sets t ps,
    NoDup (map cname cols) -> my_asm cols ordered upd <> [] ->
    abs_sets cols (my_asm cols ordered upd) = Some sets ->
    exec_mysql shuffle cols ixs alias ordered upd t ps = my_upsert_spec ixs sets t ps.
  Proof.
    intros cols ixs alias ordered upd sets t ps Hnd Hne Habs. unfold exec_mysql.
    rewrite (parse_render_mysql cols Hnd alias _ sets Hne Habs).
    unfold plan, my_upsert_spec. apply (exec_rows_eq_fold shuffle Hsh).
  Qed.
End Main.
