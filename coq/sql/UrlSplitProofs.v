(* C20 - the regex splitter inverts the assembly of well-formed literal components
   ("no text moves between components") *)
From Coq Require Import List NArith ZArith Bool Lia ZifyBool.
Import ListNotations.
From SAV.sql Require Import UrlCodec Url UrlListProofs.
Open Scope N_scope.

Definition opt_pre (c : N) (o : option str) : str := match o with Some s => c :: s | None => [] end.
Definition opt_id (o : option str) : str := match o with Some s => s | None => [] end.

Definition asm_userinfo (us pw : option str) : str :=
  match us with
  | None => []
  | Some u => u ++ opt_pre 58 pw ++ [64]
  end.

(* the string made of the literal components, laid out as render_as_string lays them out *)
Definition assemble (c : comps) : str :=
  c_drv c ++ [58; 47; 47] ++ asm_userinfo (c_user c) (c_pass c) ++ opt_id (c_host c)
  ++ opt_pre 58 (c_port c) ++ opt_pre 47 (c_db c) ++ opt_pre 63 (c_query c).

(* literal host text: "[...]" with a non-empty inside, or a bare text without ':' not starting with '[' *)
Definition host_lit_ok (o : option str) : bool :=
  match o with
  | None => true
  | Some t =>
    forallb (fun c => negb (c =? 47) && negb (c =? 63) && negb (c =? 64)) t &&
    match t with
    | [] => false
    | c :: r =>
      if c =? 91 then match rsplit 93 r with Some (a, []) => negb (is_nil a) | _ => false end
      else forallb (nb 58) t
    end
  end.

Definition user_ch (x : N) : bool := negb (x =? 58) && negb (x =? 47).
Definition port_ch (x : N) : bool := negb (x =? 47) && negb (x =? 63) && negb (x =? 64) && negb (x =? 93).
Definition db_ch (x : N) : bool := negb (x =? 63) && negb (x =? 64).
Definition query_ch (x : N) : bool := negb (x =? 10) && negb (x =? 64).

(* side conditions on each literal component, each about that component alone *)
Definition comp_ok (uw : N -> bool) (c : comps) : bool :=
  negb (is_nil (c_drv c)) && forallb (wordch uw) (c_drv c)
  && opt_all user_ch (c_user c)
  && opt_all (nb 64) (c_pass c)
  && (negb (has_some (c_pass c)) || has_some (c_user c))
  && host_lit_ok (c_host c)
  && opt_all port_ch (c_port c)
  && opt_all db_ch (c_db c)
  && opt_all query_ch (c_query c).

Definition strip_host (c : comps) : comps :=
  mkComps (c_drv c) (c_user c) (c_pass c) (dec_host (c_host c)) (c_port c) (c_db c) (c_query c).

(* "empty or starting with one of the delimiters" *)
Definition starts_in (ds : list N) (l : str) : Prop :=
  match l with [] => True | x :: _ => In x ds end.

Lemma starts_pre : forall c o ds, In c ds -> starts_in ds (opt_pre c o).
Proof. intros c [s|] ds H; cbn; [exact H | exact I]. Qed.

Lemma starts_app : forall ds a b, starts_in ds a -> starts_in ds b -> starts_in ds (a ++ b).
Proof. intros ds [|x a] b Ha Hb; cbn; [exact Hb | exact Ha]. Qed.

Lemma starts_weaken : forall ds ds' l, incl ds ds' -> starts_in ds l -> starts_in ds' l.
Proof. intros ds ds' [|x l] Hi H; cbn in *; [exact I | apply Hi; exact H]. Qed.

Lemma starts_stops : forall ds p l, (forall x, In x ds -> p x = false) -> starts_in ds l -> stops p l.
Proof. intros ds p [|x l] Hp H; cbn in *; [exact I | apply Hp; exact H]. Qed.

Lemma forallb_cons_N : forall (p : N -> bool) x l, forallb p (x :: l) = p x && forallb p l.
Proof. reflexivity. Qed.

(* ---------- query, database, port ---------- *)
Lemma split_query_ok : forall q, opt_all query_ch q = true -> split_query (opt_pre 63 q) = q.
Proof.
  intros [q|] H; [|reflexivity]. cbn [opt_pre split_query]. rewrite N.eqb_refl.
  rewrite span_all_id; [reflexivity|]. cbn in H. apply (forallb_impl query_ch); [|exact H].
  intros x Hx. unfold query_ch, nb in *. lia.
Qed.

Lemma split_db_ok : forall d Q, opt_all db_ch d = true -> starts_in [63] Q ->
  split_db (opt_pre 47 d ++ Q) = (d, Q).
Proof.
  intros [d|] Q H HQ.
  - cbn [opt_pre List.app split_db]. rewrite N.eqb_refl. rewrite span_here; [reflexivity | |].
    + cbn in H. apply (forallb_impl db_ch); [|exact H]. intros x Hx. unfold db_ch, nb in *. lia.
    + apply (starts_stops [63]); [|exact HQ]. intros x [<-|[]]. reflexivity.
  - cbn [opt_pre List.app]. destruct Q as [|x Q]; [reflexivity|]. cbn in HQ. destruct HQ as [<-|[]]. reflexivity.
Qed.

Lemma split_port_ok : forall p R, opt_all port_ch p = true -> starts_in [47; 63] R ->
  split_port (opt_pre 58 p ++ R) = (p, R).
Proof.
  intros [p|] R H HR.
  - cbn [opt_pre List.app split_port]. rewrite N.eqb_refl. rewrite span_here; [reflexivity | |].
    + cbn in H. apply (forallb_impl port_ch); [|exact H]. intros x Hx. unfold port_ch in *. lia.
    + apply (starts_stops [47; 63]); [|exact HR]. intros x [<-|[<-|[]]]; reflexivity.
  - cbn [opt_pre List.app]. destruct R as [|x R]; [reflexivity|]. cbn in HR.
    destruct HR as [<-|[<-|[]]]; reflexivity.
Qed.

(* ---------- host ---------- *)
Lemma dec_host_bare : forall c r, c <> 91 -> dec_host (@Some str (c :: r)) = @Some str (c :: r).
Proof.
  intros c r Hne. cbn [dec_host]. destruct c as [|pc]; [reflexivity|].
  repeat (destruct pc as [pc|pc|]; try reflexivity); contradiction Hne; reflexivity.
Qed.

Lemma split_host_ok : forall h p R, host_lit_ok h = true -> opt_all port_ch p = true ->
  starts_in [47; 63] R ->
  split_host (opt_id h ++ opt_pre 58 p ++ R) = (dec_host h, opt_pre 58 p ++ R).
Proof.
  intros h p R Hh Hp HR.
  assert (HT : starts_in [58; 47; 63] (opt_pre 58 p ++ R)).
  { apply starts_app; [apply starts_pre; left; reflexivity |].
    apply (starts_weaken [47; 63]); [|exact HR]. intros x Hx; right; exact Hx. }
  set (T := opt_pre 58 p ++ R) in *.
  assert (Hipv4stop : stops (fun c => negb (c =? 47) && negb (c =? 58) && negb (c =? 63)) T).
  { apply (starts_stops [58; 47; 63]); [|exact HT]. intros x [<-|[<-|[<-|[]]]]; reflexivity. }
  destruct h as [t|].
  2:{ cbn [opt_id List.app dec_host]. unfold split_host. rewrite (span_stops_nil _ T Hipv4stop). cbn [is_nil].
      destruct T as [|x T']; [reflexivity|]. cbn in HT.
      destruct HT as [<-|[<-|[<-|[]]]]; reflexivity. }
  cbn [host_lit_ok] in Hh. apply andb_true_iff in Hh as [Hch Hh].
  destruct t as [|c r]; [discriminate|]. cbn [opt_id].
  destruct (N.eqb_spec c 91) as [->|Hne].
  - (* bracketed literal *)
    destruct (rsplit 93 r) as [[a b]|] eqn:E; [|discriminate]. destruct b; [|discriminate].
    destruct (rsplit_spec _ _ _ _ E) as [-> _].
    cbn [dec_host]. rewrite E. unfold split_host. cbn [List.app]. rewrite N.eqb_refl.
    (* the run of non-'/' non-'?' characters after '[' : inside ++ "]" ++ (":" port)? *)
    rewrite forallb_cons_N in Hch. apply andb_true_iff in Hch as [_ Hch].
    assert (Hrun : span (fun c => negb (c =? 47) && negb (c =? 63)) ((a ++ [93]) ++ T)
                   = ((a ++ [93]) ++ opt_pre 58 p, R)).
    { unfold T. rewrite app_assoc. apply span_here.
      - rewrite forallb_app. apply andb_true_iff; split.
        + apply (forallb_impl (fun c => negb (c =? 47) && negb (c =? 63) && negb (c =? 64))); [|exact Hch].
          intros x Hx. lia.
        + destruct p as [p|]; [|reflexivity]. cbn [opt_pre forallb]. cbn in Hp.
          apply andb_true_iff; split; [reflexivity|].
          apply (forallb_impl port_ch); [|exact Hp]. intros x Hx. unfold port_ch in Hx. lia.
      - apply (starts_stops [47; 63]); [|exact HR]. intros x [<-|[<-|[]]]; reflexivity. }
    rewrite Hrun. rewrite <- app_assoc. cbn [List.app].
    rewrite rsplit_app.
    + destruct a; [discriminate | reflexivity].
    + destruct p as [p|]; [|reflexivity]. cbn [opt_pre forallb]. cbn in Hp.
      apply andb_true_iff; split; [reflexivity|].
      apply (forallb_impl port_ch); [|exact Hp]. intros x Hx. unfold port_ch, nb in *. lia.
  - (* bare literal *)
    rewrite (dec_host_bare c r Hne). unfold split_host.
    assert (Hsp : span (fun c => negb (c =? 47) && negb (c =? 58) && negb (c =? 63)) ((c :: r) ++ T) = (c :: r, T)).
    { apply span_here; [|exact Hipv4stop].
      assert (H58 : forallb (nb 58) (c :: r) = true).
      { destruct (c =? 91) eqn:E; [apply N.eqb_eq in E; contradiction | exact Hh]. }
      clear - Hch H58. induction (c :: r) as [|x l IH]; [reflexivity|]. cbn in *.
      apply andb_true_iff in Hch as [Hx Hl]. apply andb_true_iff in H58 as [Hy Hl'].
      rewrite (IH Hl Hl'), andb_true_r. unfold nb in Hy. lia. }
    cbn [List.app] in *. destruct (N.eqb_spec c 91) as [E|_]; [contradiction|].
    rewrite Hsp. reflexivity.
Qed.

(* ---------- userinfo ---------- *)
Lemma after_no_password : forall (after run : str) (np : option str * option str * str),
  forallb (nb 64) after = true ->
  match after with
  | c :: after' =>
    if c =? 58 then
      let (p, rest) := span (nb 64) after' in
      match rest with
      | _ :: tail => (Some run, Some p, tail)
      | [] => np
      end
    else np
  | [] => np
  end = np.
Proof.
  intros [|c after'] run np H; [reflexivity|]. destruct (c =? 58); [|reflexivity].
  cbn in H. apply andb_true_iff in H as [_ H]. rewrite (span_all_id _ _ H). reflexivity.
Qed.

Lemma split_userinfo_ok : forall us pw T,
  opt_all user_ch us = true -> opt_all (nb 64) pw = true ->
  negb (has_some pw) || has_some us = true -> forallb (nb 64) T = true ->
  split_userinfo (asm_userinfo us pw ++ T) = (us, pw, T).
Proof.
  intros us pw T Hu Hp Hpu HT. unfold split_userinfo.
  destruct us as [u|].
  - cbn in Hu. destruct pw as [p|]; cbn [asm_userinfo opt_pre].
    + cbn in Hp.
      replace ((u ++ (58 :: p) ++ [64]) ++ T) with (u ++ 58 :: (p ++ 64 :: T))
        by (rewrite <- !app_assoc; reflexivity).
      change (fun c => negb (c =? 58) && negb (c =? 47)) with user_ch.
      rewrite (span_here user_ch u (58 :: p ++ 64 :: T) Hu eq_refl). rewrite N.eqb_refl.
      rewrite (span_here (nb 64) p (64 :: T) Hp eq_refl). reflexivity.
    + cbn [List.app]. change (fun c => negb (c =? 58) && negb (c =? 47)) with user_ch.
      rewrite (span_app user_ch (u ++ [64]) T)
        by (rewrite forallb_app, Hu; reflexivity).
      destruct (span user_ch T) as [t1 t2] eqn:E. cbn [fst snd].
      pose proof (span_eq _ _ _ _ E) as HTeq. subst T. rewrite forallb_app in HT.
      apply andb_true_iff in HT as [Ht1 Ht2].
      rewrite <- app_assoc. cbn [List.app]. rewrite (rsplit_app 64 u t1 Ht1).
      rewrite (after_no_password t2 _ _ Ht2). reflexivity.
  - destruct pw as [p|]; [discriminate|]. cbn [asm_userinfo List.app].
    change (fun c => negb (c =? 58) && negb (c =? 47)) with user_ch.
    destruct (span user_ch T) as [t1 t2] eqn:E.
    pose proof (span_eq _ _ _ _ E) as HTeq. rewrite HTeq in HT. rewrite forallb_app in HT.
    apply andb_true_iff in HT as [Ht1 Ht2].
    rewrite (rsplit_none 64 t1 Ht1). rewrite (after_no_password t2 _ _ Ht2). reflexivity.
Qed.

(* ---------- the whole pattern ---------- *)
Lemma noat_pre : forall c o (p : N -> bool), c <> 64 -> opt_all p o = true ->
  (forall x, p x = true -> nb 64 x = true) -> forallb (nb 64) (opt_pre c o) = true.
Proof.
  intros c [s|] p Hc Ho Hp; [|reflexivity]. cbn [opt_pre forallb]. cbn in Ho.
  apply andb_true_iff; split.
  - unfold nb. apply negb_true_iff, N.eqb_neq. exact Hc.
  - exact (forallb_impl p (nb 64) s Hp Ho).
Qed.

Theorem split_ok : forall uw c, comp_ok uw c = true -> split_url uw (assemble c) = Some (strip_host c).
Proof.
  intros uw [drv us pw ho po db qu] H. unfold comp_ok in H. cbn [c_drv c_user c_pass c_host c_port c_db c_query] in H.
  repeat (apply andb_true_iff in H as [H ?]).
  rename H0 into Hq, H1 into Hdb, H2 into Hpo, H3 into Hho, H4 into Hpu, H5 into Hpw, H6 into Hus, H7 into Hdrv.
  unfold assemble, split_url. cbn [c_drv c_user c_pass c_host c_port c_db c_query].
  rewrite (span_here (wordch uw) drv _ Hdrv)
    by (cbn; unfold wordch; cbn; reflexivity).
  destruct drv as [|d0 drv]; [discriminate|]. cbn [is_nil List.app].
  (* the tail has no '@' *)
  assert (Hhost_noat : forallb (nb 64) (opt_id ho) = true).
  { destruct ho as [t|]; [|reflexivity]. cbn [host_lit_ok] in Hho. apply andb_true_iff in Hho as [Hch _].
    cbn [opt_id]. apply (forallb_impl _ (nb 64) t) in Hch; [exact Hch|]. intros x Hx. unfold nb. lia. }
  assert (HT : forallb (nb 64) (opt_id ho ++ opt_pre 58 po ++ opt_pre 47 db ++ opt_pre 63 qu) = true).
  { rewrite !forallb_app, Hhost_noat.
    rewrite (noat_pre 58 po port_ch), (noat_pre 47 db db_ch), (noat_pre 63 qu query_ch); try reflexivity;
      try assumption; try discriminate; intros x Hx; unfold nb, port_ch, db_ch, query_ch in *; lia. }
  rewrite (split_userinfo_ok us pw _ Hus Hpw Hpu HT).
  assert (HQ : starts_in [63] (opt_pre 63 qu)) by (apply starts_pre; left; reflexivity).
  assert (HR : starts_in [47; 63] (opt_pre 47 db ++ opt_pre 63 qu)).
  { apply starts_app; [apply starts_pre; left; reflexivity|].
    apply (starts_weaken [63]); [|exact HQ]. intros x Hx; right; exact Hx. }
  rewrite (split_host_ok ho po _ Hho Hpo HR).
  rewrite (split_port_ok po _ Hpo HR).
  rewrite (split_db_ok db _ Hdb HQ).
  rewrite (split_query_ok qu Hq). reflexivity.
Qed.
