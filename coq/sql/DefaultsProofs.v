(* C13 - lemmas about one parameter set: construct_params, _process_execute_defaults, the stored row *)
From Coq Require Import List ZArith Bool Lia PeanoNat.
Import ListNotations.
From SAV.sql Require Import Defaults.
Open Scope Z_scope.

Lemma get_set_same : forall k v p, has k p = true -> get k (set k v p) = Some v.
Proof.
  induction p as [|[k' v'] p IH]; intros H; [discriminate H|].
  unfold has in *. cbn [get set] in *. destruct (Nat.eqb k k') eqn:E.
  - cbn [get]. rewrite E. reflexivity.
  - cbn [get]. rewrite E. apply IH, H.
Qed.
Lemma get_set_other : forall k k' v p, k <> k' -> get k (set k' v p) = get k p.
Proof.
  induction p as [|[k2 v2] p IH]; intros H; [reflexivity|].
  cbn [set]. destruct (Nat.eqb k' k2) eqn:E; cbn [get].
  - apply Nat.eqb_eq in E. subst k2. destruct (Nat.eqb k k') eqn:E2; [apply Nat.eqb_eq in E2; contradiction|reflexivity].
  - destruct (Nat.eqb k k2); [reflexivity|apply IH, H].
Qed.
Lemma has_set : forall k k' v p, has k (set k' v p) = has k p.
Proof.
  intros. unfold has. destruct (Nat.eq_dec k k') as [->|N].
  - destruct (get k' p) eqn:E.
    + rewrite get_set_same; [reflexivity|unfold has; rewrite E; reflexivity].
    + induction p as [|[k2 v2] p IH]; [reflexivity|]. cbn [get set] in *.
      destruct (Nat.eqb k' k2) eqn:E2; [discriminate E|]. cbn [get]. rewrite E2. apply IH, E.
  - rewrite get_set_other; auto.
Qed.

Lemma count_bump_same : forall f cs, count f (bump f cs) = S (count f cs).
Proof.
  induction cs as [|[f' n] cs IH]; cbn [bump count]; [rewrite Nat.eqb_refl; reflexivity|].
  destruct (Nat.eqb f f') eqn:E; cbn [count]; rewrite E; [reflexivity|exact IH].
Qed.
Lemma count_bump_other : forall f g cs, f <> g -> count f (bump g cs) = count f cs.
Proof.
  induction cs as [|[f' n] cs IH]; intros N; cbn [bump count].
  - destruct (Nat.eqb f g) eqn:E; [apply Nat.eqb_eq in E; contradiction|reflexivity].
  - destruct (Nat.eqb g f') eqn:E; cbn [count].
    + apply Nat.eqb_eq in E. subst f'. destruct (Nat.eqb f g) eqn:E2; [apply Nat.eqb_eq in E2; contradiction|reflexivity].
    + destruct (Nat.eqb f f'); [reflexivity|apply IH, N].
Qed.

Definition is_prefetch (s : slot) : bool := match s with SPrefetch => true | _ => false end.
Definition is_bind (s : slot) : bool := match s with SBind => true | _ => false end.
(* keys _process_execute_defaults writes *)
Definition touched (p0 : pset) (cols : list col) (k : nat) : bool :=
  existsb (fun c => Nat.eqb (ckey c) k && is_prefetch (plan_col p0 c)) cols.
Definition uses (p0 : pset) (f : nat) (c : col) : bool :=
  is_prefetch (plan_col p0 c) && match fn_of c with Some f' => Nat.eqb f f' | None => false end.

Lemma plan_bind : forall p0 c, plan_col p0 c = SBind <-> has (ckey c) p0 = true.
Proof.
  intros. unfold plan_col. destruct (has (ckey c) p0); split; intros H; try reflexivity; try discriminate H.
  destruct (cdef c); discriminate H.
Qed.
Lemma plan_prefetch_fn : forall p0 c, plan_col p0 c = SPrefetch ->
  has (ckey c) p0 = false /\ (exists z, cdef c = Scalar z) \/
  has (ckey c) p0 = false /\ (exists f, cdef c = Callable f) \/
  has (ckey c) p0 = false /\ (exists f, cdef c = CtxCallable f).
Proof.
  intros p0 c H. unfold plan_col in H. destruct (has (ckey c) p0); [discriminate H|].
  destruct (cdef c); try discriminate H; eauto 6.
Qed.

Section P.
Variable cval : nat -> nat -> Z.
Variable ctxval : nat -> pset -> nat -> Z.
Variable sqlval : nat -> Z.
Variable srvval : nat -> Z.
Notation fire := (fire cval ctxval).
Notation stored := (stored sqlval srvval).

Lemma fire_untouched : forall p0 cols params cs k,
  touched p0 cols k = false -> get k (fst (fire p0 cols params cs)) = get k params.
Proof.
  intros p0. induction cols as [|c r IH]; intros params cs k H; [reflexivity|].
  unfold touched in *. cbn [existsb] in H. apply orb_false_iff in H. destruct H as [H1 H2].
  cbn [Defaults.fire]. destruct (plan_col p0 c) eqn:Ep; try apply (IH _ _ _ H2).
  cbn [is_prefetch] in H1. rewrite andb_true_r in H1. apply Nat.eqb_neq in H1.
  destruct (cdef c); try apply (IH _ _ _ H2); rewrite (IH _ _ _ H2); apply get_set_other; auto.
Qed.
Lemma fire_has : forall p0 cols params cs k, has k (fst (fire p0 cols params cs)) = has k params.
Proof.
  intros p0. induction cols as [|c r IH]; intros params cs k; [reflexivity|].
  cbn [Defaults.fire]. destruct (plan_col p0 c); try apply IH.
  destruct (cdef c); try apply IH; rewrite IH; apply has_set.
Qed.
Lemma fire_count : forall p0 cols params cs f,
  count f (snd (fire p0 cols params cs)) = (count f cs + length (filter (uses p0 f) cols))%nat.
Proof.
  intros p0. induction cols as [|c r IH]; intros params cs f; [cbn; lia|].
  cbn [Defaults.fire filter]. unfold uses at 1. destruct (plan_col p0 c) eqn:Ep; cbn [is_prefetch andb]; try apply IH.
  unfold fn_of. destruct (cdef c) eqn:Ed; try apply IH.
  - rewrite IH. destruct (Nat.eqb f f0) eqn:E.
    + apply Nat.eqb_eq in E. subst. rewrite count_bump_same. cbn [length]. lia.
    + apply Nat.eqb_neq in E. rewrite count_bump_other; auto.
  - rewrite IH. destruct (Nat.eqb f f0) eqn:E.
    + apply Nat.eqb_eq in E. subst. rewrite count_bump_same. cbn [length]. lia.
    + apply Nat.eqb_neq in E. rewrite count_bump_other; auto.
Qed.

(* the value a prefetch column ends up with *)
Definition fired_value (c : col) (pr : pset) (n : nat) (v : val) : Prop :=
  match cdef c with
  | Scalar z => v = Some z
  | Callable f => v = Some (cval f n)
  | CtxCallable f => v = Some (ctxval f pr n)
  | _ => False
  end.
Definition fn_count (c : col) (cs : calls) : nat :=
  match fn_of c with Some f => count f cs | None => O end.

Lemma distinct_keys_notin : forall c r, distinct_keys (c :: r) = true ->
  forall c', In c' r -> ckey c <> ckey c'.
Proof.
  intros c r H c' Hin. cbn [distinct_keys] in H. apply andb_prop in H. destruct H as [H _].
  apply negb_true_iff in H. intros E. assert (existsb (fun c'0 => Nat.eqb (ckey c) (ckey c'0)) r = true) as X.
  { apply existsb_exists. exists c'. split; [exact Hin|apply Nat.eqb_eq, E]. }
  rewrite X in H. discriminate H.
Qed.
Lemma distinct_fns_notin : forall c r f, distinct_fns (c :: r) = true -> fn_of c = Some f ->
  forall c', In c' r -> fn_of c' <> Some f.
Proof.
  intros c r f H Hf c' Hin E. cbn [distinct_fns] in H. rewrite Hf in H. apply andb_prop in H. destruct H as [H _].
  apply negb_true_iff in H.
  assert (existsb (fun c'0 => match fn_of c'0 with Some f' => Nat.eqb f f' | None => false end) r = true) as X.
  { apply existsb_exists. exists c'. split; [exact Hin|]. rewrite E. apply Nat.eqb_refl. }
  rewrite X in H. discriminate H.
Qed.
Lemma touched_notin : forall p0 r k, (forall c', In c' r -> k <> ckey c') -> touched p0 r k = false.
Proof.
  intros p0 r k H. unfold touched. destruct (existsb _ r) eqn:E; [|reflexivity].
  apply existsb_exists in E. destruct E as [c' [Hin Hc]]. apply andb_prop in Hc. destruct Hc as [Hc _].
  apply Nat.eqb_eq in Hc. exfalso. apply (H c' Hin). auto.
Qed.

Lemma fire_value : forall p0 cols params cs c,
  distinct_keys cols = true -> distinct_fns cols = true ->
  In c cols -> plan_col p0 c = SPrefetch -> has (ckey c) params = true ->
  exists pr v, get (ckey c) (fst (fire p0 cols params cs)) = Some v /\
               fired_value c pr (fn_count c cs) v /\
               (forall k, touched p0 cols k = false -> get k pr = get k params).
Proof.
  intros p0. induction cols as [|c0 r IH]; intros params cs c Hk Hf Hin Hp Hh; [destruct Hin|].
  assert (Hk' : distinct_keys r = true) by (cbn [distinct_keys] in Hk; apply andb_prop in Hk; apply Hk).
  assert (Hf' : distinct_fns r = true) by (cbn [distinct_fns] in Hf; apply andb_prop in Hf; apply Hf).
  destruct Hin as [->|Hin].
  - (* the column itself: later columns do not touch its key *)
    assert (Hnt : touched p0 r (ckey c) = false).
    { apply touched_notin. intros c' Hc'. apply (distinct_keys_notin c r Hk c' Hc'). }
    cbn [Defaults.fire]. rewrite Hp. destruct (plan_prefetch_fn p0 c Hp) as [[_ [z Ez]]|[[_ [f Ez]]|[_ [f Ez]]]]; rewrite Ez.
    + exists params, (Some z). rewrite (fire_untouched _ _ _ _ _ Hnt). rewrite get_set_same by exact Hh.
      unfold fired_value. rewrite Ez. auto.
    + exists params, (Some (cval f (count f cs))). rewrite (fire_untouched _ _ _ _ _ Hnt).
      rewrite get_set_same by exact Hh. unfold fired_value, fn_count, fn_of. rewrite Ez. auto.
    + exists params, (Some (ctxval f params (count f cs))). rewrite (fire_untouched _ _ _ _ _ Hnt).
      rewrite get_set_same by exact Hh. unfold fired_value, fn_count, fn_of. rewrite Ez. auto.
  - (* a later column *)
    assert (Hne : ckey c0 <> ckey c) by (apply (distinct_keys_notin c0 r Hk c Hin)).
    cbn [Defaults.fire].
    assert (Hgen : forall params1 cs1,
               has (ckey c) params1 = true -> fn_count c cs1 = fn_count c cs ->
               (forall k, touched p0 (c0 :: r) k = false -> get k params1 = get k params) ->
               exists pr v, get (ckey c) (fst (fire p0 r params1 cs1)) = Some v /\
                            fired_value c pr (fn_count c cs) v /\
                            (forall k, touched p0 (c0 :: r) k = false -> get k pr = get k params)).
    { intros params1 cs1 Hh1 Hc1 Hag. destruct (IH params1 cs1 c Hk' Hf' Hin Hp Hh1) as [pr [v [G [F A]]]].
      exists pr, v. split; [exact G|]. split; [rewrite <- Hc1; exact F|].
      intros k Ht. rewrite A; [apply Hag, Ht|].
      unfold touched in *. cbn [existsb] in Ht. apply orb_false_iff in Ht. apply Ht. }
    destruct (plan_col p0 c0) eqn:Ep0; try solve [apply Hgen; auto].
    assert (Hset : forall v0, forall k, touched p0 (c0 :: r) k = false -> get k (set (ckey c0) v0 params) = get k params).
    { intros v0 k Ht. apply get_set_other. unfold touched in Ht. cbn [existsb] in Ht. apply orb_false_iff in Ht.
      destruct Ht as [Ht _]. rewrite Ep0 in Ht. cbn [is_prefetch] in Ht. rewrite andb_true_r in Ht.
      apply Nat.eqb_neq in Ht. auto. }
    destruct (cdef c0) eqn:Ed0; try solve [apply Hgen; auto].
    + apply Hgen; [rewrite has_set; exact Hh|reflexivity|apply Hset].
    + apply Hgen; [rewrite has_set; exact Hh| |apply Hset].
      unfold fn_count. destruct (fn_of c) as [f'|] eqn:Efc; [|reflexivity].
      apply count_bump_other. intros ->. apply (distinct_fns_notin c0 r f Hf) with (c' := c); auto.
      unfold fn_of. rewrite Ed0. reflexivity.
    + apply Hgen; [rewrite has_set; exact Hh| |apply Hset].
      unfold fn_count. destruct (fn_of c) as [f'|] eqn:Efc; [|reflexivity].
      apply count_bump_other. intros ->. apply (distinct_fns_notin c0 r f Hf) with (c' := c); auto.
      unfold fn_of. rewrite Ed0. reflexivity.
Qed.

(* ---- construct_params ---- *)
Lemma construct_spec : forall p0 g cols p t,
  distinct_keys cols = true -> construct p0 g cols p = Ok t ->
  forall c, In c cols ->
    (plan_col p0 c = SBind -> get (ckey c) t = get (ckey c) p /\ has (ckey c) p = true) /\
    (plan_col p0 c = SPrefetch -> has (ckey c) t = true).
Proof.
  intros p0 g. induction cols as [|c0 r IH]; intros p t Hk Hc c Hin; [destruct Hin|].
  assert (Hk' : distinct_keys r = true) by (cbn [distinct_keys] in Hk; apply andb_prop in Hk; apply Hk).
  cbn [construct] in Hc.
  assert (Hlater : forall t' v0, construct p0 g r p = Ok t' -> In c r ->
             (plan_col p0 c = SBind -> get (ckey c) ((ckey c0, v0) :: t') = get (ckey c) p /\ has (ckey c) p = true) /\
             (plan_col p0 c = SPrefetch -> has (ckey c) ((ckey c0, v0) :: t') = true)).
  { intros t' v0 Ht' Hin'. pose proof (distinct_keys_notin c0 r Hk c Hin') as Hne.
    destruct (IH p t' Hk' Ht' c Hin') as [A B]. unfold has. cbn [get].
    destruct (Nat.eqb (ckey c) (ckey c0)) eqn:E; [apply Nat.eqb_eq in E; exfalso; auto|]. split; auto. }
  destruct (plan_col p0 c0) eqn:Ep0.
  - destruct (get (ckey c0) p) as [v|] eqn:Eg; [|discriminate Hc].
    destruct (construct p0 g r p) as [t'|e] eqn:Et; [|discriminate Hc]. inversion Hc; subst; clear Hc.
    destruct Hin as [->|Hin]; [|apply Hlater; auto].
    split; intros Hp; [|rewrite Hp in Ep0; discriminate Ep0].
    unfold has. cbn [get]. rewrite Nat.eqb_refl, Eg. auto.
  - destruct (construct p0 g r p) as [t'|e] eqn:Et; [|discriminate Hc]. inversion Hc; subst; clear Hc.
    destruct Hin as [->|Hin]; [|apply Hlater; auto].
    split; intros Hp; [rewrite Hp in Ep0; discriminate Ep0|]. unfold has. cbn [get]. rewrite Nat.eqb_refl. reflexivity.
  - destruct Hin as [->|Hin]; [split; intros Hp; rewrite Hp in Ep0; discriminate Ep0|].
    apply (IH p t Hk' Hc c Hin).
  - destruct Hin as [->|Hin]; [split; intros Hp; rewrite Hp in Ep0; discriminate Ep0|].
    apply (IH p t Hk' Hc c Hin).
Qed.

(* a parameter set with (at least) the keys of the first constructs without error *)
Lemma construct_ok : forall p0 g cols p,
  (forall c, In c cols -> has (ckey c) p0 = true -> has (ckey c) p = true) ->
  exists t, construct p0 g cols p = Ok t.
Proof.
  intros p0 g. induction cols as [|c0 r IH]; intros p H; [eexists; reflexivity|].
  destruct (IH p (fun c Hin => H c (or_intror Hin))) as [t Ht]. cbn [construct]. rewrite Ht.
  destruct (plan_col p0 c0) eqn:Ep; cbn [bind]; try (eexists; reflexivity).
  apply plan_bind in Ep. pose proof (H c0 (or_introl eq_refl) Ep) as Hh. unfold has in Hh.
  destruct (get (ckey c0) p); [eexists; reflexivity|discriminate Hh].
Qed.

(* a bind column's key is not written by the defaults *)
Lemma bind_untouched : forall p0 cols c, distinct_keys cols = true -> In c cols -> plan_col p0 c = SBind ->
  touched p0 cols (ckey c) = false.
Proof.
  intros p0. induction cols as [|c0 r IH]; intros c Hk Hin Hp; [destruct Hin|].
  assert (Hk' : distinct_keys r = true) by (cbn [distinct_keys] in Hk; apply andb_prop in Hk; apply Hk).
  unfold touched. cbn [existsb]. apply orb_false_iff. destruct Hin as [->|Hin].
  - split; [rewrite Hp; apply andb_false_r|].
    apply touched_notin. intros c' Hc'. apply (distinct_keys_notin c r Hk c' Hc').
  - split; [|apply (IH c Hk' Hin Hp)].
    pose proof (distinct_keys_notin c0 r Hk c Hin) as Hne.
    destruct (Nat.eqb (ckey c0) (ckey c)) eqn:E; [apply Nat.eqb_eq in E; contradiction|reflexivity].
Qed.

(* ---- one row: supplied -> the supplied value, omitted -> the default of the column's kind ---- *)
(* [p0] decided the statement, [p] is this row's parameter set, with the same key set on the columns *)
Definition keys_agree (cols : list col) (p0 p : pset) : Prop :=
  forall c, In c cols -> has (ckey c) p = has (ckey c) p0.

Theorem row_spec : forall p0 g cols p t cs old c,
  distinct_keys cols = true -> distinct_fns cols = true -> keys_agree cols p0 p ->
  construct p0 g cols p = Ok t -> In c cols ->
  let params := fst (fire p0 cols t cs) in
  (forall v, get (ckey c) p = Some v -> stored p0 old params c = v) /\
  (get (ckey c) p = None ->
     exists pr, default_ok cval ctxval sqlval srvval old c p pr (fn_count c cs) (stored p0 old params c) /\
                (forall c' v, In c' cols -> get (ckey c') p = Some v -> get (ckey c') pr = Some v)).
Proof.
  intros p0 g cols p t cs old c Hk Hf Ha Hc Hin params.
  destruct (construct_spec p0 g cols p t Hk Hc c Hin) as [HB HP].
  pose proof (Ha c Hin) as Hac. split.
  - intros v Hv. assert (Hb : plan_col p0 c = SBind).
    { apply plan_bind. rewrite <- Hac. unfold has. rewrite Hv. reflexivity. }
    unfold Defaults.stored. rewrite Hb. unfold params.
    rewrite (fire_untouched _ _ _ _ _ (bind_untouched p0 cols c Hk Hin Hb)).
    destruct (HB Hb) as [-> _]. rewrite Hv. reflexivity.
  - intros Hn. assert (Hnb : has (ckey c) p0 = false) by (rewrite <- Hac; unfold has; rewrite Hn; reflexivity).
    assert (Hagree : forall pr, (forall k, touched p0 cols k = false -> get k pr = get k t) ->
                     forall c' v, In c' cols -> get (ckey c') p = Some v -> get (ckey c') pr = Some v).
    { intros pr Hpr c' v Hin' Hv. assert (Hb : plan_col p0 c' = SBind).
      { apply plan_bind. rewrite <- (Ha c' Hin'). unfold has. rewrite Hv. reflexivity. }
      rewrite (Hpr _ (bind_untouched p0 cols c' Hk Hin' Hb)).
      destruct (construct_spec p0 g cols p t Hk Hc c' Hin') as [HB' _]. destruct (HB' Hb) as [-> _]. exact Hv. }
    unfold Defaults.stored, default_ok, plan_col. rewrite Hnb.
    destruct (cdef c) eqn:Ed.
    + exists t. split; [destruct old; reflexivity|apply Hagree; auto].
    + assert (Hp : plan_col p0 c = SPrefetch) by (unfold plan_col; rewrite Hnb, Ed; reflexivity).
      destruct (fire_value p0 cols t cs c Hk Hf Hin Hp (HP Hp)) as [pr [v' [G [F A]]]].
      exists pr. unfold params. rewrite G. unfold fired_value in F. rewrite Ed in F. split; [exact F|apply Hagree, A].
    + assert (Hp : plan_col p0 c = SPrefetch) by (unfold plan_col; rewrite Hnb, Ed; reflexivity).
      destruct (fire_value p0 cols t cs c Hk Hf Hin Hp (HP Hp)) as [pr [v' [G [F A]]]].
      exists pr. unfold params. rewrite G. unfold fired_value in F. rewrite Ed in F.
      unfold fn_count, fn_of in *. rewrite Ed in *. split; [exact F|apply Hagree, A].
    + assert (Hp : plan_col p0 c = SPrefetch) by (unfold plan_col; rewrite Hnb, Ed; reflexivity).
      destruct (fire_value p0 cols t cs c Hk Hf Hin Hp (HP Hp)) as [pr [v' [G [F A]]]].
      exists pr. unfold params. rewrite G. unfold fired_value in F. rewrite Ed in F.
      unfold fn_count, fn_of in *. rewrite Ed in *. split; [exact F|apply Hagree, A].
    + exists t. split; [reflexivity|apply Hagree; auto].
    + exists t. split; [destruct old; reflexivity|apply Hagree; auto].
Qed.

End P.
