(* C18 - list lemmas: Z-indexed take/drop, numbering, ROWNUM filtering, DISTINCT *)
From Coq Require Import List ZArith Bool Lia Permutation.
Import ListNotations.
From SAV.sql Require Import Limit.
Open Scope Z_scope.

Section L.
Variable A : Type.
Implicit Types l : list A.

Lemma takeZ_firstn : forall l n, takeZ n l = firstn (Z.to_nat n) l.
Proof.
  induction l as [|x r IH]; intros n; cbn [takeZ].
  - now rewrite firstn_nil.
  - destruct (n <=? 0) eqn:E.
    + replace (Z.to_nat n) with 0%nat by lia. reflexivity.
    + replace (Z.to_nat n) with (S (Z.to_nat (n - 1))) by lia. cbn [firstn]. now rewrite IH.
Qed.

Lemma dropZ_skipn : forall l n, dropZ n l = skipn (Z.to_nat n) l.
Proof.
  induction l as [|x r IH]; intros n; cbn [dropZ].
  - now rewrite skipn_nil.
  - destruct (n <=? 0) eqn:E.
    + replace (Z.to_nat n) with 0%nat by lia. reflexivity.
    + replace (Z.to_nat n) with (S (Z.to_nat (n - 1))) by lia. cbn [skipn]. now rewrite IH.
Qed.

Lemma takeZ_nonpos : forall l n, n <= 0 -> takeZ n l = [].
Proof. intros [|x r] n H; cbn [takeZ]; [reflexivity|]. destruct (n <=? 0) eqn:E; [reflexivity|lia]. Qed.

Lemma dropZ_nonpos : forall l n, n <= 0 -> dropZ n l = l.
Proof. intros [|x r] n H; cbn [dropZ]; [reflexivity|]. destruct (n <=? 0) eqn:E; [reflexivity|lia]. Qed.

Lemma takeZ_all : forall l n, Z.of_nat (length l) <= n -> takeZ n l = l.
Proof.
  induction l as [|x r IH]; intros n H; cbn [takeZ]; [reflexivity|].
  cbn [length] in H. destruct (n <=? 0) eqn:E; [lia|]. f_equal. apply IH. lia.
Qed.

Lemma takeZ_length : forall l n, 0 <= n -> Z.of_nat (length (takeZ n l)) = Z.min n (Z.of_nat (length l)).
Proof.
  induction l as [|x r IH]; intros n H; cbn [takeZ length]; [lia|].
  destruct (n <=? 0) eqn:E; cbn [length]; [lia|]. specialize (IH (n - 1)). lia.
Qed.

Lemma dropZ_length : forall l n, 0 <= n ->
  Z.of_nat (length (dropZ n l)) = Z.max 0 (Z.of_nat (length l) - n).
Proof.
  induction l as [|x r IH]; intros n H; cbn [dropZ]; [cbn [length]; lia|].
  destruct (n <=? 0) eqn:E; [cbn [length]; lia|]. rewrite IH by lia. cbn [length]. lia.
Qed.

(* taking exactly the rows there are  <->  the count is not smaller than the length *)
Lemma takeZ_all_iff : forall l n, takeZ n l = l <-> Z.of_nat (length l) <= n \/ l = [].
Proof.
  intros l n; split.
  - intros H. destruct l as [|x r]; [now right|left].
    destruct (Z_le_gt_dec n 0) as [Hn|Hn].
    + rewrite takeZ_nonpos in H by assumption. discriminate.
    + assert (E := takeZ_length (x :: r) n ltac:(lia)). rewrite H in E. lia.
  - intros [H|H]; [now apply takeZ_all|subst; reflexivity].
Qed.

Lemma takeZ_dropZ : forall l n, takeZ n l ++ dropZ n l = l.
Proof. intros. rewrite takeZ_firstn, dropZ_skipn. apply firstn_skipn. Qed.

(* OFFSET then LIMIT  =  LIMIT (limit + offset) then OFFSET *)
Lemma take_drop_comm : forall l off lim, 0 <= off -> 0 <= lim ->
  dropZ off (takeZ (lim + off) l) = takeZ lim (dropZ off l).
Proof.
  induction l as [|x r IH]; intros off lim Ho Hl; [reflexivity|].
  destruct (off <=? 0) eqn:E.
  - assert (off = 0) by lia; subst off. rewrite Z.add_0_r, !dropZ_nonpos by lia. reflexivity.
  - cbn [takeZ dropZ]. rewrite E.
    destruct (lim + off <=? 0) eqn:E2; [lia|]. cbn [dropZ]. rewrite E.
    replace (lim + off - 1) with (lim + (off - 1)) by lia. apply IH; lia.
Qed.

(* ---- numbering ---- *)
Lemma map_fst_number : forall l k, map fst (number k l) = l.
Proof. induction l as [|x r IH]; intros k; cbn [number map fst]; [reflexivity|]. now rewrite IH. Qed.

Lemma number_snd_ge : forall l k xr, In xr (number k l) -> k <= snd xr.
Proof.
  induction l as [|x r IH]; intros k xr H; cbn [number] in H; [destruct H|].
  destruct H as [<-|H]; [cbn; lia|]. apply IH in H. lia.
Qed.

(* mssql_rn > lo *)
Lemma number_filter_gt_all : forall l k lo, lo < k ->
  filter (fun xr : A * Z => lo <? snd xr) (number k l) = number k l.
Proof.
  induction l as [|x r IH]; intros k lo H; [reflexivity|]. cbn [number filter snd].
  replace (lo <? k) with true by lia. f_equal. apply IH. lia.
Qed.

Lemma number_filter_gt : forall l k lo, k <= lo + 1 ->
  filter (fun xr : A * Z => lo <? snd xr) (number k l) = number (lo + 1) (dropZ (lo + 1 - k) l).
Proof.
  induction l as [|x r IH]; intros k lo H; [reflexivity|].
  cbn [number filter snd dropZ].
  destruct (lo <? k) eqn:E.
  - assert (k = lo + 1) by lia; subst k.
    replace (lo + 1 - (lo + 1) <=? 0) with true by lia. cbn [number]. f_equal.
    apply number_filter_gt_all. lia.
  - replace (lo + 1 - k <=? 0) with false by lia.
    rewrite IH by lia. f_equal. f_equal. lia.
Qed.

(* mssql_rn <= hi *)
Lemma number_filter_le : forall l k hi,
  filter (fun xr : A * Z => snd xr <=? hi) (number k l) = number k (takeZ (hi - k + 1) l).
Proof.
  induction l as [|x r IH]; intros k hi; [reflexivity|].
  cbn [number filter snd takeZ].
  destruct (k <=? hi) eqn:E.
  - replace (hi - k + 1 <=? 0) with false by lia. cbn [number]. f_equal.
    rewrite IH. f_equal. f_equal. lia.
  - replace (hi - k + 1 <=? 0) with true by lia. cbn [number].
    clear IH. assert (G : forall l' j, hi < j -> filter (fun xr : A * Z => snd xr <=? hi) (number j l') = []).
    { induction l' as [|y r' IH']; intros j Hj; [reflexivity|]. cbn [number filter snd].
      replace (j <=? hi) with false by lia. apply IH'. lia. }
    apply G. lia.
Qed.

Lemma filter_and : forall (B : Type) (f g : B -> bool) (l : list B),
  filter (fun x => f x && g x) l = filter g (filter f l).
Proof.
  induction l as [|x r IH]; [reflexivity|]. cbn [filter].
  destruct (f x); cbn [andb filter]; [destruct (g x); now rewrite IH|exact IH].
Qed.

(* ---- ROWNUM ---- *)
Lemma rownum_filter_le : forall l k m,
  rownum_filter (fun rn => rn <=? m) k l = number k (takeZ (m - k + 1) l).
Proof.
  induction l as [|x r IH]; intros k m; [reflexivity|].
  cbn [rownum_filter takeZ].
  destruct (k <=? m) eqn:E.
  - replace (m - k + 1 <=? 0) with false by lia. cbn [number]. f_equal.
    rewrite IH. f_equal. f_equal. lia.
  - replace (m - k + 1 <=? 0) with true by lia. cbn [number].
    (* the counter does not advance: every later row is rejected with the same number *)
    clear IH. induction r as [|y r' IH']; [reflexivity|]. cbn [rownum_filter]. rewrite E. exact IH'.
Qed.

Lemma rownum_filter_true : forall l k, rownum_filter (fun _ => true) k l = number k l.
Proof. induction l as [|x r IH]; intros k; [reflexivity|]. cbn [rownum_filter number]. now rewrite IH. Qed.

Lemma rownum_filter_ext : forall (p q : Z -> bool) l k, (forall z, p z = q z) ->
  rownum_filter p k l = rownum_filter q k l.
Proof.
  induction l as [|x r IH]; intros k H; [reflexivity|]. cbn [rownum_filter]. rewrite H.
  destruct (q k); now rewrite !(IH _ H).
Qed.

Lemma filter_all : forall (B : Type) (f : B -> bool) (l : list B),
  (forall x, In x l -> f x = true) -> filter f l = l.
Proof.
  induction l as [|x r IH]; intros H; [reflexivity|]. cbn [filter].
  rewrite (H x (or_introl eq_refl)). f_equal. apply IH. intros y Hy. apply H. now right.
Qed.

(* ---- DISTINCT over rows that carry a row number changes nothing ---- *)
Variable eqA : A -> A -> bool.

Lemma dedup_number : forall l k, dedup (eqP A eqA) (number k l) = number k l.
Proof.
  induction l as [|x r IH]; intros k; [reflexivity|].
  cbn [number dedup]. f_equal. rewrite IH.
  apply filter_all. intros xr Hin. apply number_snd_ge in Hin.
  unfold eqP. cbn [fst snd]. replace (k =? snd xr) with false by lia. now rewrite andb_false_r.
Qed.

End L.
