(* C56 - the SQLAlchemy side of an upsert: clause ASSEMBLY and rendering (model only, no proofs).

   Transcribes  dialects/sqlite/base.py  SQLiteCompiler._on_conflict_target /
   visit_on_conflict_do_nothing / visit_on_conflict_do_update  (postgresql/base.py has the same code
   plus ON CONSTRAINT),  dialects/sqlite/dml.py OnConflictClause._append_to_existing,
   dialects/mysql/base.py MySQLCompiler.visit_on_duplicate_key_update  and
   dialects/mysql/dml.py OnDuplicateClause.__init__.

   Identifiers are interned integers.  [ID_T] is the table name, [ID_EXCL] the "excluded" alias,
   [ID_NEW] MySQL 8's row alias. *)
From Coq Require Import List ZArith Bool.
Import ListNotations.
From SAV.sql Require Import Upsert.

Definition ID_T : Z := (-1)%Z.
Definition ID_EXCL : Z := (-2)%Z.
Definition ID_NEW : Z := (-3)%Z.

(* a Column of the target table: its .key (Python side) and its .name (database side) *)
Record coldesc : Type := mkcol { ckey : Z; cname : Z }.
Definition dflt_col : coldesc := mkcol 0 0.
Definition col_name (cols : list coldesc) (i : nat) : Z := cname (nth i cols dflt_col).

(* ---- what the user hands to on_conflict_do_update()/on_conflict_do_nothing() ---- *)
Inductive skey : Type := KStr (s : Z) | KCol (i : nat).          (* set_ key: a string or a Column object *)
Inductive telem : Type := TEStr (s : Z) | TECol (i : nat).        (* index_elements member *)
Inductive sa_target : Type :=
  | STNone | STElems (e : list telem) (w : option pred) | STConstraint (n : Z).
Inductive sa_clause : Type :=
  | SANothing (t : sa_target)
  | SAUpdate (t : sa_target) (set_ : list (skey * expr)) (w : option pred).

Definition sa_tgt (c : sa_clause) : sa_target :=
  match c with SANothing t => t | SAUpdate t _ _ => t end.

(* ---- the clause as rendered: names instead of column objects ---- *)
Inductive rtarget : Type := RNone | RCols (names : list Z) (w : option pred) | RConstraint (n : Z).
(* SET item: a matched table column (value parenthesised by self_group()); an unmatched string key and an
   unmatched Column object (value rendered as is, the latter table-qualified) *)
Inductive lhs : Type := LName (n : Z) | LAdd (n : Z) | LQual (n : Z).
Inductive rclause : Type :=
  | RNothing (t : rtarget)
  | RUpdate (t : rtarget) (sets : list (lhs * expr)) (w : option pred).

(* ---- tokens ---- *)
Inductive kw : Type :=
  | KON | KCONFLICT | KDO | KNOTHING | KUPDATE | KSET | KWHERE | KNULL | KCONSTRAINT
  | KDUPLICATE | KKEY | KVALUES | KAS.
Inductive tok : Type :=
  | TKw (k : kw) | TId (n : Z) | TNum (z : Z) | TPar (k : nat)
  | TLp | TRp | TComma | TDot | TEq | TLt | TGt | TPlus.

(* ---- _on_conflict_target ---- *)
Definition asm_target (cols : list coldesc) (t : sa_target) : rtarget :=
  match t with
  | STConstraint n => RConstraint n
  | STElems e w =>
      RCols (map (fun x => match x with TEStr s => s | TECol i => col_name cols i end) e) w
  | STNone => RNone
  end.

(* ---- visit_on_conflict_do_update: SET items in TABLE COLUMN order, then the unmatched keys ---- *)
Definition is_str (s : Z) (k : skey) : bool := match k with KStr s' => Z.eqb s s' | KCol _ => false end.
Definition is_col (i : nat) (k : skey) : bool := match k with KCol j => Nat.eqb i j | KStr _ => false end.

(* dict.pop *)
Fixpoint pop_key (f : skey -> bool) (l : list (skey * expr)) : option (expr * list (skey * expr)) :=
  match l with
  | [] => None
  | (k, v) :: r =>
      if f k then Some (v, r)
      else match pop_key f r with
           | Some (v', r') => Some (v', (k, v) :: r')
           | None => None
           end
  end.

Fixpoint asm_cols (cols : list coldesc) (i : nat) (sp : list (skey * expr))
    : list (lhs * expr) * list (skey * expr) :=
  match cols with
  | [] => ([], sp)
  | c :: cs =>
      match pop_key (is_str (ckey c)) sp with
      | Some (v, sp') =>
          let (out, left) := asm_cols cs (S i) sp' in ((LName (cname c), v) :: out, left)
      | None =>
          match pop_key (is_col i) sp with
          | Some (v, sp') =>
              let (out, left) := asm_cols cs (S i) sp' in ((LName (cname c), v) :: out, left)
          | None => asm_cols cs (S i) sp
          end
      end
  end.

(* "Additional column names not matching any column keys": rendered after the matched ones *)
Definition leftover (cols : list coldesc) (sp : list (skey * expr)) : list (lhs * expr) :=
  map (fun kv => match fst kv with
                 | KStr s => (LAdd s, snd kv)
                 | KCol j => (LQual (col_name cols j), snd kv)
                 end) sp.

Definition asm_sets (cols : list coldesc) (set_ : list (skey * expr)) : list (lhs * expr) :=
  let (out, left) := asm_cols cols 0 set_ in out ++ leftover cols left.

Definition asm_clause (cols : list coldesc) (c : sa_clause) : rclause :=
  match c with
  | SANothing t => RNothing (asm_target cols t)
  | SAUpdate t s w => RUpdate (asm_target cols t) (asm_sets cols s) w
  end.

(* sqlite OnConflictClause._append_to_existing: a clause without conflict target must stay last *)
Fixpoint chain_ok (cs : list sa_clause) : bool :=
  match cs with
  | [] => true
  | c :: rest =>
      match rest with
      | [] => true
      | _ :: _ => match sa_tgt c with STNone => false | _ => chain_ok rest end
      end
  end.

(* ---- rendering ---- *)
(* [qual]: columns of the target table are table-qualified (include_table);  [exs]: how the proposed
   row is referenced: 0 "excluded.c", 1 "VALUES(c)", 2 "new.c" *)
Definition r_atom (cols : list coldesc) (qual : bool) (exs : nat) (a : atom) : list tok :=
  match a with
  | AConst _ z => [TNum z]
  | ANull => [TKw KNULL]
  | APar k => [TPar k]
  | ACol i => if qual then [TId ID_T; TDot; TId (col_name cols i)] else [TId (col_name cols i)]
  | AExc i =>
      match exs with
      | O => [TId ID_EXCL; TDot; TId (col_name cols i)]
      | S O => [TKw KVALUES; TLp; TId (col_name cols i); TRp]
      | _ => [TId ID_NEW; TDot; TId (col_name cols i)]
      end
  end.

Definition r_expr (cols : list coldesc) (qual : bool) (exs : nat) (e : expr) : list tok :=
  match e with
  | EAtom a => r_atom cols qual exs a
  | EAdd a b => r_atom cols qual exs a ++ TPlus :: r_atom cols qual exs b
  end.

(* value.self_group(): a binary expression is parenthesised *)
Definition r_value (cols : list coldesc) (exs : nat) (e : expr) : list tok :=
  match e with
  | EAtom a => r_atom cols true exs a
  | EAdd _ _ => TLp :: r_expr cols true exs e ++ [TRp]
  end.

Definition r_cmp (c : cmp) : tok := match c with CLt => TLt | CEq => TEq | CGt => TGt end.

Definition r_pred (cols : list coldesc) (qual : bool) (p : pred) : list tok :=
  match p with Pred c l r => r_expr cols qual 0 l ++ r_cmp c :: r_expr cols qual 0 r end.

Fixpoint r_names (l : list Z) : list tok :=
  match l with
  | [] => []
  | [n] => [TId n]
  | n :: rest => TId n :: TComma :: r_names rest
  end.

Definition r_target (cols : list coldesc) (t : rtarget) : list tok :=
  match t with
  | RNone => []
  | RConstraint n => [TKw KON; TKw KCONSTRAINT; TId n]
  | RCols names w =>
      TLp :: r_names names ++ TRp ::
      match w with Some p => TKw KWHERE :: r_pred cols false p | None => [] end
  end.

Definition r_item (cols : list coldesc) (exs : nat) (k : lhs) (v : expr) : list tok :=
  match k with
  | LName n => TId n :: TEq :: r_value cols exs v
  | LAdd n => TId n :: TEq :: r_expr cols true exs v
  | LQual n => TId ID_T :: TDot :: TId n :: TEq :: r_expr cols true exs v
  end.

Fixpoint r_sets (cols : list coldesc) (exs : nat) (l : list (lhs * expr)) : list tok :=
  match l with
  | [] => []
  | [(k, v)] => r_item cols exs k v
  | (k, v) :: rest => r_item cols exs k v ++ TComma :: r_sets cols exs rest
  end.

Definition r_clause (cols : list coldesc) (c : rclause) : list tok :=
  match c with
  | RNothing t => TKw KON :: TKw KCONFLICT :: r_target cols t ++ [TKw KDO; TKw KNOTHING]
  | RUpdate t sets w =>
      TKw KON :: TKw KCONFLICT :: r_target cols t ++ TKw KDO :: TKw KUPDATE :: TKw KSET ::
      r_sets cols 0 sets ++
      match w with Some p => TKw KWHERE :: r_pred cols true p | None => [] end
  end.

Definition r_clauses (cols : list coldesc) (cs : list rclause) : list tok :=
  flat_map (r_clause cols) cs.

(* ---- MySQL ---- *)
Definition key_mem (k : Z) (l : list Z) : bool := existsb (Z.eqb k) l.
Fixpoint col_by_key (cols : list coldesc) (k : Z) : option coldesc :=
  match cols with
  | [] => None
  | c :: cs => if Z.eqb (ckey c) k then Some c else col_by_key cs k
  end.

(* dict(update) / on_duplicate_update[key]: the LAST value given for a key *)
Fixpoint my_lookup (k : Z) (l : list (Z * expr)) : option expr :=
  match l with
  | [] => None
  | (k', v) :: r =>
      match my_lookup k r with
      | Some v' => Some v'
      | None => if Z.eqb k k' then Some v else None
      end
  end.

(* [ordered]: the argument was a non-empty list of tuples (_parameter_ordering) *)
Definition my_cols (cols : list coldesc) (ordered : bool) (l : list (Z * expr)) : list coldesc :=
  if ordered then
    flat_map (fun k => match col_by_key cols k with Some c => [c] | None => [] end) (map fst l)
    ++ filter (fun c => negb (key_mem (ckey c) (map fst l))) cols
  else cols.

Definition my_asm (cols : list coldesc) (ordered : bool) (l : list (Z * expr)) : list (lhs * expr) :=
  flat_map (fun c => match my_lookup (ckey c) l with
                     | Some e => [(LName (cname c), e)]
                     | None => []
                     end) (my_cols cols ordered l).

(* [alias]: dialect._requires_alias_for_on_duplicate_key *)
Definition r_mysql (cols : list coldesc) (alias : bool) (sets : list (lhs * expr)) : list tok :=
  (if alias then [TKw KAS; TId ID_NEW] else []) ++
  TKw KON :: TKw KDUPLICATE :: TKw KKEY :: TKw KUPDATE :: r_sets cols (if alias then 2 else 1) sets.

(* ---- compile-time facts the execution strategy depends on ---- *)
Definition atom_is_par (a : atom) : bool := match a with APar _ => true | _ => false end.
Definition expr_has_par (e : expr) : bool :=
  match e with EAtom a => atom_is_par a | EAdd a b => atom_is_par a || atom_is_par b end.
Definition pred_has_par (p : pred) : bool :=
  match p with Pred _ l r => expr_has_par l || expr_has_par r end.

(* visit_bindparam(is_upsert_set=True): a bindparam() filled from the parameter sets (value-less, or - since
   5319231 - with a default but supplied by the parameter sets) inside a SET value or - since e3b606f - inside
   the DO UPDATE ... WHERE; [APar] is exactly "filled from the parameter sets" *)
Definition has_set_par (c : sa_clause) : bool :=
  match c with
  | SANothing _ => false
  | SAUpdate _ s _ => existsb (fun kv => expr_has_par (snd kv)) s
  end.
Definition has_where_par (c : sa_clause) : bool :=
  match c with
  | SAUpdate _ _ (Some p) => pred_has_par p
  | _ => false
  end.

(* has_upsert_bound_parameters *)
Definition has_row_par (c : sa_clause) : bool := has_set_par c || has_where_par c.

(* a bound literal inside index_where is rendered with literal_execute=True (sqlite only) *)
Definition atom_is_bound (a : atom) : bool := match a with AConst false _ => true | _ => false end.
Definition expr_has_bound (e : expr) : bool :=
  match e with EAtom a => atom_is_bound a | EAdd a b => atom_is_bound a || atom_is_bound b end.
Definition uses_literal_execute (c : sa_clause) : bool :=
  match sa_tgt c with
  | STElems _ (Some (Pred _ l r)) => expr_has_bound l || expr_has_bound r
  | _ => false
  end.

(* SQLCompiler._deliver_insertmanyvalues_batches: the decision between one statement per parameter
   set and multi-row VALUES batches (supports_multivalues_insert, not is_default_expr) *)
Definition use_row_at_a_time (sorted has_result sentinel_none upsert embed has_set_bp : bool) : bool :=
  if sorted && has_result && (sentinel_none || (upsert && negb embed)) then true
  else if has_set_bp && negb embed && has_result then true
  else false.
