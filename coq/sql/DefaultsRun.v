(* executable entry point for the correspondence check of C13 *)
From Coq Require Import List ZArith Bool.
Import ListNotations.
From SAV.base Require Import Tree.
From SAV.sql Require Import Defaults.
Open Scope Z_scope.

(* the callables of the harness (specs/c13.py) *)
Definition h_cval (f n : nat) : Z := 1000 * (Z.of_nat f + 1) + Z.of_nat n.
Definition h_ctxsum (p : pset) : Z :=
  fold_right (fun kv acc => match snd kv with Some v => (Z.of_nat (fst kv) + 1) * v + acc | None => acc end) 0 p.
Definition h_ctxval (f : nat) (p : pset) (n : nat) : Z :=
  50000 * (Z.of_nat f + 1) + Z.of_nat n + h_ctxsum p.
Definition h_sqlval (e : nat) : Z := 3000 + Z.of_nat e.
Definition h_srvval (e : nat) : Z := 4000 + Z.of_nat e.

Definition as_val (t : tree) : option val := as_optZ t.
Definition as_kv (t : tree) : option (nat * val) := as_pair_of as_nat as_val t.
Definition as_pset (t : tree) : option pset := as_list_of as_kv t.
Definition as_dkind (t : tree) : option dkind :=
  match t with
  | L [I 0] => Some NoDefault
  | L [I 1; I v] => Some (Scalar v)
  | L [I 2; f] => option_map Callable (as_nat f)
  | L [I 3; f] => option_map CtxCallable (as_nat f)
  | L [I 4; e] => option_map SqlExpr (as_nat e)
  | L [I 5; e] => option_map ServerSide (as_nat e)
  | _ => None
  end.
Definition as_col (t : tree) : option col :=
  match t with
  | L [k; d] => match as_nat k, as_dkind d with
                | Some a, Some b => Some {| ckey := a; cdef := b |} | _, _ => None end
  | _ => None
  end.

Definition of_val (v : val) : tree := of_optZ v.
Definition of_row (r : pset) : tree := L (map (fun kv => of_val (snd kv)) r).

(* the reference database assigns NULL / absent primary keys: max + 1 *)
Definition row_id (r : pset) : option Z := match get O r with Some (Some z) => Some z | _ => None end.
Definition next_id (db : list pset) : Z :=
  1 + fold_right (fun r m => match row_id r with Some z => Z.max z m | None => m end) 0 db.
Fixpoint db_insert (db : list pset) (rows : list pset) : list pset :=
  match rows with
  | [] => db
  | r :: t =>
      let r' := match row_id r with Some _ => r | None => set O (Some (next_id db)) r end in
      db_insert (db ++ [r']) t
  end.
Definition db_update (db : list pset) (row : pset) : list pset :=
  map (fun r => match row_id r, row_id row with
                | Some a, Some b => if Z.eqb a b then row else r
                | _, _ => r end) db.
Definition find_row (db : list pset) (id : val) : option pset :=
  find (fun r => match row_id r, id with Some a, Some b => Z.eqb a b | _, _ => false end) db.

Definition fns_of (cols : list col) : list nat :=
  flat_map (fun c => match fn_of c with Some f => [f] | None => [] end) cols.
Definition of_calls (cols : list col) (cs : calls) : tree := L (map (fun f => of_nat (count f cs)) (fns_of cols)).

Definition core_exec' := core_exec h_cval h_ctxval h_sqlval h_srvval.
Definition orm_exec' := orm_exec h_cval h_ctxval h_sqlval h_srvval.

Definition finish (upd : bool) (cols : list col) (db : list pset) (r : result (list pset * calls)) : tree :=
  match r with
  | Err (ERequired g k) => L [I 1; of_nat g; of_nat k]
  | Ok (rows, cs) =>
      let db' := if upd then fold_left db_update rows db else db_insert db rows in
      L [I 0; L (map of_row db'); of_calls cols cs]
  end.

(* input  L [I op; L cols; L base rows; L psets; flags (implementation side only)]   op 0 Core INSERT, 1 Core UPDATE, 2 ORM INSERT (psets =
          attribute dictionaries), 3 ORM UPDATE (psets = new attribute values incl. key 0 = the row)
          4 insert(t).values([rows]), 5 Core UPDATE ... ordered_values (5th element = the ordered keys),
          8 ORM bulk UPDATE by primary key (mappings),
          6 INSERT whose integer primary key has a pre-executed SQL default (5th element = [fetched value])
   output L [I 0; rows in insertion order (values in column order); call counts per callable]
        | L [I 1; group; key]  ("A value is required for bind parameter")
        | L [I 2; key]    (CompileError: multi-values row lacks a column that has no Python/SQL default) *)
Definition run_case (t : tree) : tree :=
  match t with
  | L [I op; tc; tb; tp; tf] =>
      match as_list_of as_col tc, as_list_of as_pset tb, as_list_of as_pset tp with
      | Some cols, Some base, Some ps =>
          let olds := map (fun p => find_row base (match get O p with Some v => v | None => None end)) ps in
          if Z.eqb op 0 then finish false cols base (core_exec' cols ps (map (fun _ => None) ps) [])
          else if Z.eqb op 1 then finish true cols base (core_exec' cols ps olds [])
          else if Z.eqb op 2 then
            finish false cols base
              (orm_exec' (S (length ps)) cols (map (fun a => (orm_insert_params cols a, None)) ps) [])
          else if Z.eqb op 3 then
            finish true cols base
              (orm_exec' (S (length ps)) cols
                 (filter (fun po => has_change (fst po))
                    (map (fun po => (orm_update_params cols (match snd po with Some o => o | None => [] end) (fst po),
                                     snd po)) (combine ps olds))) [])
          else if Z.eqb op 8 then
            finish true cols base
              (orm_exec' (S (length ps)) cols
                 (filter (fun po => has_change (fst po))
                    (map (fun po => (orm_bulk_update_params cols (fst po), snd po)) (combine ps olds))) [])
          else if Z.eqb op 4 then
            (* insert(t).values([rows]) ; context callables are not part of this family *)
            if existsb (fun c => match cdef c with CtxCallable _ => true | _ => false end) cols then bad_input
            else match multi_exec h_cval h_ctxval h_sqlval h_srvval cols ps [] with
                 | inl (rows, cs) => finish false cols base (Ok (rows, cs))
                 | inr (EMultiDefault i k) => L [I 2; of_nat k]
                 end
          else if Z.eqb op 5 then
            match as_list_of as_nat tf with
            | Some order =>
                let cols' := ordered_cols order cols in
                match core_exec' cols' ps olds [] with
                | Ok (rows, cs) => finish true cols base (Ok (map (table_order cols) rows, cs))
                | Err e => finish true cols base (Err e)
                end
            | None => bad_input
            end
          else if Z.eqb op 6 then
            match tf, ps with
            | L [fv], [p] =>
                match as_val fv with
                | Some fetched =>
                    finish false cols base
                      (core_exec' cols [(O, preexec_param None fetched) :: p] [None] [])
                | None => bad_input
                end
            | _, _ => bad_input
            end
          else bad_input
      | _, _, _ => bad_input
      end
  | _ => bad_input
  end.
