(* C07: main theorems about bound and literal rendering. *)
From Coq Require Import List ZArith NArith Bool Lia.
Import ListNotations.
From SAV.sql Require Import Val3 Val3Proofs InList InListSpecProofs InListCloseProofs InListLeepProofs
  InListBodyProofs InListRenderProofs InListPhraseProofs.

(* ---------------------------------------------------------------------------------------- *)
(** * closing the whole statement *)
Lemma close_join_noargs row ps sep ss cs : forallb static sep = true ->
  Forall2 (fun s c => close row ps [] s = Some c) ss cs ->
  close row ps [] (join sep ss) = Some (join sep cs).
Proof.
  intros Hs H. induction H as [|s c ss cs Hsc H IH]; [reflexivity|].
  destruct H as [|s2 c2 ss cs H2 H].
  - exact Hsc.
  - rewrite !join_cons2.
    apply (close_app row ps [] s c [] _ _ Hsc).
    apply (close_app row ps [] sep sep [] _ _ (close_static row ps sep Hs)). exact IH.
Qed.

Lemma close_lhs row ps l : close row ps [] (lhs_tokens l) = Some (clhs row l).
Proof.
  destruct l as [c|cs]; [reflexivity|].
  unfold lhs_tokens, clhs, row_toks, items.
  apply (close_app row ps [] [TLp] [TLp] [] _ _ eq_refl).
  apply (close_app row ps [] _ _ [] [TRp] [TRp]); [|reflexivity].
  rewrite map_map. apply close_join_noargs; [reflexivity|].
  induction cs; cbn [map]; constructor; [reflexivity|assumption].
Qed.

Lemma close_wrap row ps a s c : close row ps a s = Some c ->
  close row ps a ([TLp] ++ s ++ [TRp]) = Some ([TLp] ++ c ++ [TRp]).
Proof.
  intros H. apply (close_app row ps [] [TLp] [TLp] a _ _ eq_refl).
  rewrite <- (app_nil_r a). apply close_app; [exact H|reflexivity].
Qed.

Lemma close_render row ps a e right cright : close row ps a right = Some cright ->
  close row ps a (render_binary e right) = Some (crender e row cright).
Proof.
  intros H. unfold render_binary, generic_binary, crender.
  assert (G : forall ops, forallb static ops = true ->
              close row ps a (lhs_tokens (ie_left e) ++ ops ++ right) = Some (clhs row (ie_left e) ++ ops ++ cright)).
  { intros ops Ho. apply (close_app row ps [] _ _ a _ _ (close_lhs row ps _)).
    apply (close_app row ps [] _ _ a _ _ (close_static row ps ops Ho)). exact H. }
  destruct (ie_op e); [apply (G [TIn] eq_refl)|].
  destruct (ie_text e); [apply (G [TNot; TIn] eq_refl)|].
  apply (close_app row ps [] [TLp] [TLp] a _ _ eq_refl).
  rewrite <- (app_nil_r a). apply close_app; [apply (G [TNot; TIn] eq_refl)|reflexivity].
Qed.

Definition cargs_pre (d : dialect) (p : position) : list sv :=
  if d.(d_positional) then match p with PosAnd a _ | PosOr a => [SInt a] | _ => [] end else [].
Definition cargs_post (d : dialect) (p : position) : list sv :=
  if d.(d_positional) then match p with PosAnd _ b => [SInt b] | _ => [] end else [].

Lemma close_ctx d p row tu :
  close row (ctx_others p ++ exp_params tu) (cargs_pre d p) (ctx_pre d p) = Some (cctx_pre p row false) /\
  close row (ctx_others p ++ exp_params tu) (cargs_post d p) (ctx_post d p) = Some (cctx_post p row false).
Proof.
  unfold cargs_pre, cargs_post, ctx_pre, ctx_post, other_tok.
  destruct p; destruct (d_positional d); split; try reflexivity;
    cbn [close]; rewrite lookup_other_app; reflexivity.
Qed.

Lemma all_some_app {A} (l1 l2 : list (option A)) v1 v2 :
  all_some l1 = Some v1 -> all_some l2 = Some v2 -> all_some (l1 ++ l2) = Some (v1 ++ v2).
Proof.
  revert v1. induction l1 as [|[a|] l1 IH]; intros v1 H1 H2; cbn [all_some app] in *.
  - inversion H1; subst. exact H2.
  - destruct (all_some l1) as [w|]; [|discriminate]. cbn [option_map] in H1. inversion H1; subst.
    now rewrite (IH w eq_refl H2).
  - discriminate.
Qed.

Lemma args_total d p tu : d.(d_positional) = true -> NoDup (map fst tu) ->
  all_some (map (fun n => lookup_param n (ctx_others p ++ exp_params tu))
                (ctx_names_pre p ++ map (fun kv => PExp (fst kv)) tu ++ ctx_names_post p))
  = Some (cargs_pre d p ++ map snd tu ++ cargs_post d p).
Proof.
  intros Ed Hnd. rewrite !map_app. apply all_some_app; [|apply all_some_app].
  - unfold cargs_pre. rewrite Ed. destruct p; cbn [ctx_names_pre map all_some]; try reflexivity;
      rewrite lookup_other_app; reflexivity.
  - apply (args_of_names (ctx_others p) tu (no_exp_others p) Hnd tu). apply incl_refl.
  - unfold cargs_post. rewrite Ed. destruct p; cbn [ctx_names_post map all_some]; try reflexivity;
      rewrite lookup_other_app; reflexivity.
Qed.

Lemma close_bound row d p e tu repl crepl :
  NoDup (map fst tu) ->
  close row (ctx_others p ++ exp_params tu) (pargs d tu) repl = Some crepl ->
  close_expanded row
    {| x_statement := ctx_pre d p ++ render_binary e ([TLp] ++ repl ++ [TRp]) ++ ctx_post d p;
       x_params := ctx_others p ++ exp_params tu;
       x_positiontup := if d.(d_positional)
                        then Some (ctx_names_pre p ++ map (fun kv => PExp (fst kv)) tu ++ ctx_names_post p)
                        else None |}
  = Some (cctx_pre p row false ++ crender e row ([TLp] ++ crepl ++ [TRp]) ++ cctx_post p row false).
Proof.
  intros Hnd H. destruct (close_ctx d p row tu) as [Hpre Hpost].
  assert (G : close row (ctx_others p ++ exp_params tu) (cargs_pre d p ++ pargs d tu ++ cargs_post d p)
                (ctx_pre d p ++ render_binary e ([TLp] ++ repl ++ [TRp]) ++ ctx_post d p)
              = Some (cctx_pre p row false ++ crender e row ([TLp] ++ crepl ++ [TRp]) ++ cctx_post p row false)).
  { apply close_app; [exact Hpre|]. apply close_app; [|exact Hpost].
    apply close_render. now apply close_wrap. }
  unfold close_expanded. cbn [x_statement x_params x_positiontup].
  destruct (d_positional d) eqn:Ed.
  - rewrite (args_total d p tu Ed Hnd). unfold pargs in G. rewrite Ed in G. exact G.
  - unfold cargs_pre, cargs_post, pargs in G. rewrite Ed in G. exact G.
Qed.

(* ---------------------------------------------------------------------------------------- *)
(** * from a good predicate to the truth value of the executed statement *)
Lemma exec_from_pred row d p e tu repl crepl v :
  NoDup (map fst tu) ->
  close row (ctx_others p ++ exp_params tu) (pargs d tu) repl = Some crepl ->
  good_pred (crender e row ([TLp] ++ crepl ++ [TRp])) v ->
  exec_sem row
    {| x_statement := ctx_pre d p ++ render_binary e ([TLp] ++ repl ++ [TRp]) ++ ctx_post d p;
       x_params := ctx_others p ++ exp_params tu;
       x_positiontup := if d.(d_positional)
                        then Some (ctx_names_pre p ++ map (fun kv => PExp (fst kv)) tu ++ ctx_names_post p)
                        else None |}
  = EOk (ctx_value p row v).
Proof.
  intros Hnd Hc Hg. unfold exec_sem. rewrite (close_bound row d p e tu repl crepl Hnd Hc).
  apply phrase_teval. now apply ctx_phrase.
Qed.

Lemma expected_sem op X R :
  match op with OIn => in_sem X R | ONotIn => not3 (in_sem X R) end = expected op X R.
Proof. unfold expected. now rewrite in_is_or_of_eq. Qed.

Lemma scal_map_snd (ents : list (key * sv)) : scal (map (fun kv => TVal (snd kv)) ents) (map snd ents).
Proof. rewrite <- (map_map snd TVal). apply scal_vals. Qed.

Lemma tu_scalar_snd ss : map snd (tu_scalar ss) = ss.
Proof. unfold tu_scalar. rewrite map_map. cbn [snd]. apply enum_from_snd. Qed.

Lemma blocks_snd n ts : map (map snd) (blocks_from n ts) = ts.
Proof.
  unfold blocks_from. rewrite map_map.
  rewrite <- (enum_from_snd n ts) at 2. apply map_ext. intros [i te]. cbn [fst snd].
  rewrite map_map. cbn [snd]. apply enum_from_snd.
Qed.

Lemma blocks_nonempty n ts k : (1 <= k)%nat -> Forall (fun te => length te = k) ts ->
  Forall (fun blk : list (key * sv) => blk <> []) (blocks_from n ts).
Proof.
  intros Hk H. apply Forall_forall. intros blk Hb. unfold blocks_from in Hb.
  apply in_map_iff in Hb as ([i te] & <- & Hin). cbn [fst snd].
  assert (Hte : length te = k).
  { rewrite Forall_forall in H. apply H. apply (in_map snd) in Hin. now rewrite enum_from_snd in Hin. }
  destruct te; [cbn in Hte; lia|discriminate].
Qed.

(* static-ness of the empty-set expressions *)
Lemma static_join sep parts : forallb static sep = true -> Forall (fun p => forallb static p = true) parts ->
  forallb static (join sep parts) = true.
Proof. apply forallb_join. Qed.

Lemma static_ones k : forallb static (ones k) = true.
Proof. apply static_join; [reflexivity|]. apply forall_repeat. reflexivity. Qed.
Lemma static_join_map {A} (f : A -> list tok) l : (forall a, forallb static (f a) = true) ->
  forallb static (join [TComma] (map f l)) = true.
Proof.
  intros H. apply static_join; [reflexivity|]. apply Forall_forall. intros it Hit.
  apply in_map_iff in Hit as (i & <- & _). apply H.
Qed.

Lemma empty_expr_static d k E : visit_empty_set_expr d k = Ok E -> forallb static E = true.
Proof.
  unfold visit_empty_set_expr. destruct (d_empty d); intros H; inversion H; subst; clear H;
    repeat (rewrite ?forallb_app; cbn [forallb static andb one_ne_one app]);
    rewrite ?static_ones; cbn [andb];
    rewrite ?(static_join_map (fun i => [TWord (W_IN_ i)])), ?(static_join_map (fun i => [TNum 1; TWord W_AS; TWord (W_IN_ i)])) by reflexivity;
    try reflexivity.
  apply andb_true_iff. split; [|reflexivity]. apply static_join; [reflexivity|]. apply forall_repeat. reflexivity.
Qed.

Lemma nulls_static k : forallb static (nulls k) = true.
Proof. apply static_join; [reflexivity|]. apply forall_repeat. reflexivity. Qed.

Lemma empty_op_static d k eo E : visit_empty_set_op_expr d k eo = Ok E -> forallb static E = true.
Proof.
  unfold visit_empty_set_op_expr. destruct (d_empty_op_override d); [apply empty_expr_static|].
  destruct eo as [[|]|]; [| |apply empty_expr_static];
    intros H; inversion H; subst; clear H; destruct (Nat.ltb 1 k);
    repeat (rewrite ?forallb_app; cbn [forallb static andb app]); rewrite ?nulls_static; reflexivity.
Qed.

(* ---------------------------------------------------------------------------------------- *)
(** * facts from the side conditions *)
Lemma inop_eqb_eq a b : inop_eqb a b = true -> a = b.
Proof. destruct a, b; cbn; congruence. Qed.

Lemma wf_lhs_ok e vals : wf e vals = true -> lhs_ok (ie_left e).
Proof.
  unfold wf. destruct (ie_left e) as [c|cs]; [intros; exact I|].
  destruct (bp_kind (ie_bind e)) as [|k|]; intros H; try discriminate; cbn [lhs_ok].
  - apply andb_true_iff in H as [H _]. apply andb_true_iff in H as [H1 H2].
    apply Nat.eqb_eq in H1. apply Nat.leb_le in H2. destruct cs; [cbn in *; lia|discriminate].
  - apply andb_true_iff in H as [H _]. apply andb_true_iff in H as [H1 _].
    apply Nat.leb_le in H1. destruct cs; [cbn in *; lia|discriminate].
Qed.

Lemma lhs_vals_length row l : length (lhs_vals row l) = match l with LCol _ => 1%nat | LTuple cs => length cs end.
Proof. destruct l; cbn [lhs_vals length]; [reflexivity|apply map_length]. Qed.

(* the two shapes allowed by [wf] *)
Lemma wf_shape e vals : wf e vals = true ->
  (all_scalar vals = true /\ length (lhs_vals (fun _ => SNull) (ie_left e)) = 1%nat /\
   tuple_branch (ie_bind e) vals = false /\ type_count (ie_bind e) = 1%nat) \/
  (exists k, all_tuple k vals = true /\ (1 <= k)%nat /\ length (lhs_vals (fun _ => SNull) (ie_left e)) = k /\
             (vals <> [] -> tuple_branch (ie_bind e) vals = true) /\ (vals = [] -> type_count (ie_bind e) = k)).
Proof.
  unfold wf, tuple_branch, type_count, is_tuple_type, is_null_type.
  destruct (ie_left e) as [c|cs]; destruct (bp_kind (ie_bind e)) as [|k|]; intros H; try discriminate.
  - left. repeat split; try reflexivity; exact H.
  - left. repeat split; try reflexivity; [exact H|]. cbn [orb andb].
    destruct vals as [|v0 vals]; [reflexivity|]. cbn [all_scalar forallb] in H.
    apply andb_true_iff in H as [H _]. now destruct v0.
  - right. apply andb_true_iff in H as [H H3]. apply andb_true_iff in H as [H1 H2].
    apply Nat.eqb_eq in H1. apply Nat.leb_le in H2. exists k. repeat split; try assumption.
    + now rewrite lhs_vals_length.
  - right. apply andb_true_iff in H as [H H3]. apply andb_true_iff in H as [H1 H2].
    apply Nat.leb_le in H1. exists (length cs). repeat split; try assumption.
    + now rewrite lhs_vals_length.
    + intros _. cbn [orb andb]. destruct vals as [|v0 vals]; [discriminate|].
      cbn [all_tuple forallb] in H2. apply andb_true_iff in H2 as [H2 _]. now destruct v0.
    + intros ->. discriminate.
Qed.

Lemma lhs_len_indep row l : length (lhs_vals row l) = length (lhs_vals (fun _ => SNull) l).
Proof. now rewrite !lhs_vals_length. Qed.

(* ---------------------------------------------------------------------------------------- *)
(** * MAIN: bound execution of a compiled statement *)
Lemma rows_ok_tuples k X ts : length X = k -> Forall (fun te => length te = k) ts -> rows_ok k X ts = true.
Proof.
  intros HX H. unfold rows_ok. rewrite HX, Nat.eqb_refl. cbn [andb].
  apply forallb_forall. intros te Hin. rewrite Forall_forall in H. apply Nat.eqb_eq. now apply H.
Qed.

Lemma empty_pred d e row E :
  consistent e = true -> lhs_ok (ie_left e) -> (1 <= type_count (ie_bind e))%nat ->
  length (lhs_vals row (ie_left e)) = type_count (ie_bind e) ->
  visit_empty_set_op_expr d (type_count (ie_bind e)) (bp_expand_op (ie_bind e)) = Ok E ->
  good_pred (crender e row ([TLp] ++ E ++ [TRp])) (expected (ie_op e) (lhs_vals row (ie_left e)) []).
Proof.
  intros Hc Hl Hk HX HE.
  cbn [map expected or_eq fold_right].
  unfold visit_empty_set_op_expr in HE.
  assert (Hsub : visit_empty_set_expr d (type_count (ie_bind e)) = Ok E ->
            good_pred (crender e row ([TLp] ++ E ++ [TRp])) (match ie_op e with OIn => TF | ONotIn => not3 TF end)).
  { intros HS.
    pose proof (regular_pred e row E (type_count (ie_bind e)) [] Hl
                  (fun rest => empty_set_expr_body d _ E rest Hk HS)) as G.
    unfold rows_ok in G. rewrite HX, Nat.eqb_refl in G. specialize (G eq_refl).
    destruct (ie_op e); exact G. }
  unfold consistent in Hc. apply andb_true_iff in Hc as [Hc _].
  destruct (d_empty_op_override d); [now apply Hsub|].
  destruct (bp_expand_op (ie_bind e)) as [[|]|]; [| |now apply Hsub].
  + apply andb_true_iff in Hc as [Ho Ht]. apply inop_eqb_eq in Ho. rewrite <- Ho.
    inversion HE; subst E. apply (trick_in_pred e row _ Hl (eq_sym Ho) Hk HX).
  + apply andb_true_iff in Hc as [Ho Ht]. apply inop_eqb_eq in Ho. rewrite <- Ho.
    apply negb_true_iff in Ht.
    inversion HE; subst E. apply (trick_not_in_pred e row _ Hl (eq_sym Ho) Ht Hk HX).
Qed.

Lemma wf_empty_arity e row : wf e [] = true ->
  (1 <= type_count (ie_bind e))%nat /\ length (lhs_vals row (ie_left e)) = type_count (ie_bind e).
Proof.
  intros Hwf. destruct (wf_shape e [] Hwf) as [(_ & H1 & _ & H2)|(k & _ & Hk & H1 & _ & H2)].
  - rewrite H2, lhs_len_indep, H1. split; lia.
  - rewrite (H2 eq_refl), lhs_len_indep, H1. split; [exact Hk|reflexivity].
Qed.

Theorem bound_correct d p e vals row pop :
  consistent e = true -> wf e vals = true -> empty_ok d e vals = true ->
  exists x c', process (compile d p e) (ctx_others p) vals pop = Ok (x, c') /\
    exec_sem row x = EOk (ctx_value p row (expected e.(ie_op) (lhs_vals row e.(ie_left)) (map value_row vals))).
Proof.
  intros Hc Hwf He.
  pose proof (wf_lhs_ok e vals Hwf) as Hl.
  destruct vals as [|v0 vals'].
  - (* ---------- empty list ---------- *)
    unfold empty_ok in He.
    destruct (visit_empty_set_op_expr d (type_count (ie_bind e)) (bp_expand_op (ie_bind e))) as [E|] eqn:HE; [|discriminate].
    assert (Hleep : leep d (ie_bind e) [] = Ok ([], E)) by (unfold leep; now rewrite HE).
    destruct (process_fresh d p e [] [] E pop Hleep) as (c' & Hp).
    eexists _, c'. split; [exact Hp|].
    destruct (wf_empty_arity e row Hwf) as [Hk HX].
    assert (Hclose : close row (ctx_others p ++ exp_params []) (pargs d []) E = Some E).
    { unfold pargs. destruct (d_positional d); apply close_static; eapply empty_op_static; eauto. }
    apply (exec_from_pred row d p e [] E E _ ltac:(constructor) Hclose).
    now apply (empty_pred d e row E).
  - (* ---------- non-empty list ---------- *)
    set (vals := v0 :: vals') in *.
    destruct (wf_shape e vals Hwf) as [(Hs & HX & Hb & _)|(k & Ht & Hk & HX & Hb & _)].
    + (* scalars *)
      pose proof (leep_scalar d (ie_bind e) vals ltac:(discriminate) Hs Hb) as Hleep. cbv zeta in Hleep.
      set (ss := map (fun v => match v with VScalar s => s | VTuple _ => SNull end) vals) in *.
      destruct (process_fresh d p e vals _ _ pop Hleep) as (c' & Hp).
      eexists _, c'. split; [exact Hp|].
      pose proof (close_bind_items row d (ctx_others p) (tu_scalar ss) (no_exp_others p) (nodup_tu_scalar ss)
                    (tu_scalar ss) (incl_refl _)) as Hclose.
      apply (exec_from_pred row d p e _ _ _ _ (nodup_tu_scalar ss) Hclose).
      rewrite (all_scalar_rows vals Hs). fold ss. rewrite <- expected_sem.
      apply (regular_pred e row (val_items (tu_scalar ss)) 1%nat (map (fun v => [v]) ss) Hl).
      * intros rest. unfold val_items.
        rewrite (p_inbody_items _ _ rest (scal_map_snd (tu_scalar ss))).
        -- now rewrite tu_scalar_snd.
        -- unfold tu_scalar, ss, vals. cbn [map enum_from]. discriminate.
      * unfold rows_ok. rewrite lhs_len_indep, HX. cbn [Nat.eqb andb].
        apply forallb_forall. intros r Hr. apply in_map_iff in Hr as (v & <- & _). reflexivity.
    + (* tuples *)
      pose proof (leep_tuple d (ie_bind e) vals k ltac:(discriminate) Ht (Hb ltac:(discriminate))) as Hleep.
      cbv zeta in Hleep.
      set (ts := map value_row vals) in *.
      set (blks := blocks_from 1 ts) in *.
      pose proof (all_tuple_len k vals Ht) as Hlen. fold ts in Hlen.
      destruct (process_fresh d p e vals _ _ pop Hleep) as (c' & Hp).
      eexists _, c'. split; [exact Hp|].
      assert (Hclose : close row (ctx_others p ++ exp_params (concat blks)) (pargs d (concat blks))
                         ((if d_tuple_in_values d then [TValues] else []) ++ bind_rows d blks)
                       = Some ((if d_tuple_in_values d then [TValues] else []) ++ val_rows blks)).
      { apply (close_app row _ [] _ _ (pargs d (concat blks))).
        - apply close_static. now destruct (d_tuple_in_values d).
        - apply (close_bind_rows row d (ctx_others p) (concat blks) (no_exp_others p) (nodup_blocks 1 ts) blks (incl_refl _)). }
      apply (exec_from_pred row d p e _ _ _ _ (nodup_blocks 1 ts) Hclose).
      rewrite <- expected_sem.
      apply (regular_pred e row _ k ts Hl).
      * intros rest. unfold val_rows.
        rewrite <- (map_map (map (fun kv : key * sv => TVal (snd kv))) row_toks).
        rewrite <- app_assoc.
        rewrite (p_inbody_rows (d_tuple_in_values d) (map (map (fun kv : key * sv => TVal (snd kv))) blks) (map (map snd) blks) rest).
        -- unfold blks. rewrite blocks_snd. f_equal. f_equal. f_equal.
           unfold ts, vals. cbn [map hd]. inversion Hlen; subst. assumption.
        -- clear. induction blks; cbn [map]; constructor; [apply scal_map_snd|assumption].
        -- pose proof (blocks_nonempty 1 ts k Hk Hlen) as Hn. fold blks in Hn.
           apply Forall_forall. intros t Hin. apply in_map_iff in Hin as (blk & <- & Hb').
           rewrite Forall_forall in Hn. specialize (Hn blk Hb'). destruct blk; [congruence|discriminate].
        -- unfold blks, ts, vals. cbn [map enum_from blocks_from]. discriminate.
      * apply rows_ok_tuples; [now rewrite lhs_len_indep|exact Hlen].
Qed.

(* ---------------------------------------------------------------------------------------- *)
(** * MAIN: literal_binds *)
Definition lit_pre (p : position) : list tok :=
  match p with
  | PosBare => [] | PosCase => [TLp]
  | PosAnd a _ => [TCol 0; TNe; TNum a; TAnd]
  | PosOr a => [TCol 0; TEq; TNum a; TOr]
  end.
Definition lit_post (p : position) : list tok :=
  match p with
  | PosBare => [] | PosCase => [TRp]
  | PosAnd _ b => [TAnd; TCol 0; TNe; TNum b]
  | PosOr _ => []
  end.

Lemma literal_stmt_form d p e vals :
  compile_literal_stmt d p e vals =
  bind (leep_literal d (ie_bind e) vals) (fun repl =>
  Ok (lit_pre p ++ render_binary e ([TLp] ++ repl ++ [TRp]) ++ lit_post p)).
Proof.
  unfold compile_literal_stmt, compile_literal.
  destruct (leep_literal d (ie_bind e) vals) as [repl|]; [|reflexivity].
  destruct p; cbn [bind lit_pre lit_post app]; rewrite ?app_nil_r; reflexivity.
Qed.

Lemma close_literal row p e repl : forallb static repl = true ->
  close row [] [] (lit_pre p ++ render_binary e ([TLp] ++ repl ++ [TRp]) ++ lit_post p)
  = Some (cctx_pre p row true ++ crender e row ([TLp] ++ repl ++ [TRp]) ++ cctx_post p row true).
Proof.
  intros Hs.
  apply (close_app row [] [] _ _ []); [destruct p; reflexivity|].
  apply (close_app row [] [] _ _ []); [|destruct p; reflexivity].
  apply close_render. apply close_wrap. now apply close_static.
Qed.

Lemma exec_literal_from_pred row p e repl v : forallb static repl = true ->
  good_pred (crender e row ([TLp] ++ repl ++ [TRp])) v ->
  exec_literal row (lit_pre p ++ render_binary e ([TLp] ++ repl ++ [TRp]) ++ lit_post p) = EOk (ctx_value p row v).
Proof.
  intros Hs Hg. unfold exec_literal. rewrite (close_literal row p e repl Hs).
  apply phrase_teval. now apply ctx_phrase.
Qed.

Lemma scal_rlv ss : scal (map render_literal_value ss) ss.
Proof. induction ss as [|v ss IH]; constructor; [now destruct v|exact IH]. Qed.
Lemma static_rlv ss : forallb static (items (map render_literal_value ss)) = true.
Proof.
  unfold items. apply static_join; [reflexivity|]. apply Forall_forall. intros it Hit.
  apply in_map_iff in Hit as (t & <- & Ht). apply in_map_iff in Ht as (v & <- & _). now destruct v.
Qed.

Theorem literal_correct_guarded d p e vals row :
  consistent e = true -> wf e vals = true -> empty_ok d e vals = true -> literal_guard d e vals = true ->
  exists ts, compile_literal_stmt d p e vals = Ok ts /\
    exec_literal row ts = EOk (ctx_value p row (expected e.(ie_op) (lhs_vals row e.(ie_left)) (map value_row vals))).
Proof.
  intros Hc Hwf He Hg.
  pose proof (wf_lhs_ok e vals Hwf) as Hl.
  rewrite literal_stmt_form.
  unfold literal_guard in Hg. rename Hg into Hg2. apply negb_true_iff in Hg2.
  destruct vals as [|v0 vals'].
  - (* empty *)
    unfold empty_ok in He.
    destruct (visit_empty_set_op_expr d (type_count (ie_bind e)) (bp_expand_op (ie_bind e))) as [E|] eqn:HE; [|discriminate].
    destruct (wf_empty_arity e row Hwf) as [Hk HX].
    assert (Hrepl : leep_literal d (ie_bind e) [] = Ok E).
    { unfold leep_literal.
      destruct (is_tuple_type (ie_bind e)) eqn:Et.
      - exact HE.
      - replace 1%nat with (type_count (ie_bind e)); [exact HE|].
        unfold type_count, is_tuple_type in *. now destruct (bp_kind (ie_bind e)). }
    rewrite Hrepl. cbn [bind]. eexists. split; [reflexivity|].
    apply exec_literal_from_pred; [eapply empty_op_static; eauto|].
    now apply (empty_pred d e row E).
  - set (vals := v0 :: vals') in *.
    destruct (wf_shape e vals Hwf) as [(Hs & HX & Hb & _)|(k & Ht & Hk & HX & Hb & _)].
    + (* scalars *)
      set (ss := map (fun v => match v with VScalar s => s | VTuple _ => SNull end) vals).
      assert (Hrepl : leep_literal d (ie_bind e) vals = Ok (items (map render_literal_value ss))).
      { unfold leep_literal. unfold vals at 1. fold vals. rewrite Hb. rewrite (all_scalar_ok vals Hs). cbn [bind].
        fold ss. unfold items. now rewrite (map_map render_literal_value). }
      rewrite Hrepl. cbn [bind]. eexists. split; [reflexivity|].
      apply exec_literal_from_pred; [apply static_rlv|].
      rewrite (all_scalar_rows vals Hs). fold ss. rewrite <- expected_sem.
      apply (regular_pred e row _ 1%nat (map (fun v => [v]) ss) Hl).
      * intros rest. apply p_inbody_items; [apply scal_rlv|]. unfold ss, vals. cbn [map]. discriminate.
      * unfold rows_ok. rewrite lhs_len_indep, HX. cbn [Nat.eqb andb].
        apply forallb_forall. intros r Hr. apply in_map_iff in Hr as (v & <- & _). reflexivity.
    + (* tuples *)
      specialize (Hb ltac:(discriminate)). rewrite Hb, andb_true_r in Hg2.
      set (ts := map value_row vals).
      pose proof (all_tuple_len k vals Ht) as Hlen. fold ts in Hlen.
      assert (Hkind : bp_kind (ie_bind e) = KTuple k).
      { unfold wf in Hwf. unfold is_null_type in Hg2. unfold tuple_branch, is_tuple_type, is_null_type in Hb.
        destruct (ie_left e) as [c|cs]; destruct (bp_kind (ie_bind e)) as [|k'|]; try discriminate.
        apply andb_true_iff in Hwf as [Hwf _]. apply andb_true_iff in Hwf as [H1 _]. apply Nat.eqb_eq in H1.
        rewrite lhs_vals_length in HX. congruence. }
      set (body := (if d_tuple_in_values d then [TValues] else [])
                   ++ join [TComma] (map row_toks (map (map render_literal_value) ts))).
      assert (Hrepl : leep_literal d (ie_bind e) vals = Ok body).
      { unfold leep_literal. unfold vals at 1. fold vals. rewrite Hb, Hkind. rewrite (all_tuple_ok k vals Ht). cbn [bind].
        fold ts. unfold body. f_equal. f_equal. f_equal. rewrite map_map. apply map_ext_in. intros te Hte.
        rewrite Forall_forall in Hlen. rewrite <- (Hlen te Hte), firstn_all.
        unfold row_toks, items. cbn [app]. now rewrite map_map. }
      rewrite Hrepl. cbn [bind]. eexists. split; [reflexivity|].
      apply exec_literal_from_pred.
      * unfold body. rewrite forallb_app. apply andb_true_iff. split; [now destruct (d_tuple_in_values d)|].
        apply static_join; [reflexivity|]. apply Forall_forall. intros it Hit.
        apply in_map_iff in Hit as (r & <- & Hr). apply in_map_iff in Hr as (te & <- & _).
        unfold row_toks. cbn [forallb static andb]. rewrite forallb_app, static_rlv. reflexivity.
      * rewrite <- expected_sem. apply (regular_pred e row body k ts Hl).
        -- intros rest. unfold body. rewrite <- app_assoc.
           rewrite (p_inbody_rows (d_tuple_in_values d) (map (map render_literal_value) ts) ts rest).
           ++ f_equal. f_equal. f_equal. unfold ts, vals. cbn [map hd]. inversion Hlen; subst. assumption.
           ++ clear. induction ts; cbn [map]; constructor; [apply scal_rlv|assumption].
           ++ apply Forall_forall. intros t Hin. apply in_map_iff in Hin as (te & <- & Hte).
              rewrite Forall_forall in Hlen. specialize (Hlen te Hte). destruct te; [cbn in Hlen; lia|discriminate].
           ++ unfold ts, vals. cbn [map]. discriminate.
        -- apply rows_ok_tuples; [now rewrite lhs_len_indep|exact Hlen].
Qed.
