(* C07: main theorems about bound and literal rendering. *)
From Coq Require Import List ZArith NArith Bool Lia.
Import ListNotations.
From SAV.sql Require Import Val3 Val3Proofs InList InListSpecProofs InListCloseProofs InListLeepProofs
  InListBodyProofs InListRenderProofs InListPhraseProofs.

(* ---------------------------------------------------------------------------------------- *)
(** * closing the whole statement *)
Lemma close_join_noargs row ps sep ss cs : forallb static sep = true ->
  Forall2 (fun s c => close row ps [] s = Some c) ss cs ->
  close row ps [] (join sep ss) = Some (join sep cs).
Proof.
  intros Hs H. induction H as [|s c ss cs Hsc H IH]; [reflexivity|].
  destruct H as [|s2 c2 ss cs H2 H].
  - exact Hsc.
  - rewrite !join_cons2.
    apply (close_app row ps [] s c [] _ _ Hsc).
    apply (close_app row ps [] sep sep [] _ _ (close_static row ps sep Hs)). exact IH.
Qed.

Lemma close_lhs row ps l : close row ps [] (lhs_tokens l) = Some (clhs row l).
Proof.
  destruct l as [c|cs]; [reflexivity|].
  unfold lhs_tokens, clhs, row_toks, items.
  apply (close_app row ps [] [TLp] [TLp] [] _ _ eq_refl).
  apply (close_app row ps [] _ _ [] [TRp] [TRp]); [|reflexivity].
  rewrite map_map. apply close_join_noargs; [reflexivity|].
  induction cs; cbn [map]; constructor; [reflexivity|assumption].
Qed.

Lemma close_wrap row ps a s c : close row ps a s = Some c ->
  close row ps a ([TLp] ++ s ++ [TRp]) = Some ([TLp] ++ c ++ [TRp]).
Proof.
  intros H. apply (close_app row ps [] [TLp] [TLp] a _ _ eq_refl).
  rewrite <- (app_nil_r a). apply close_app; [exact H|reflexivity].
Qed.

Lemma close_render row ps a e right cright : close row ps a right = Some cright ->
  close row ps a (render_binary e right) = Some (crender e row cright).
Proof.
  intros H. unfold render_binary, generic_binary, crender.
  assert (G : forall ops, forallb static ops = true ->
              close row ps a (lhs_tokens (ie_left e) ++ ops ++ right) = Some (clhs row (ie_left e) ++ ops ++ cright)).
  { intros ops Ho. apply (close_app row ps [] _ _ a _ _ (close_lhs row ps _)).
    apply (close_app row ps [] _ _ a _ _ (close_static row ps ops Ho)). exact H. }
  destruct (ie_op e); [apply (G [TIn] eq_refl)|].
  destruct (ie_text e); [apply (G [TNot; TIn] eq_refl)|].
  apply (close_app row ps [] [TLp] [TLp] a _ _ eq_refl).
  rewrite <- (app_nil_r a). apply close_app; [apply (G [TNot; TIn] eq_refl)|reflexivity].
Qed.

Definition cargs_pre (d : dialect) (p : position) : list sv :=
  if d.(d_positional) then match p with PosAnd a _ | PosOr a => [SInt a] | _ => [] end else [].
Definition cargs_post (d : dialect) (p : position) : list sv :=
  if d.(d_positional) then match p with PosAnd _ b => [SInt b] | _ => [] end else [].

Lemma close_ctx d p row tu :
  close row (ctx_others p ++ exp_params tu) (cargs_pre d p) (ctx_pre d p) = Some (cctx_pre p row false) /\
  close row (ctx_others p ++ exp_params tu) (cargs_post d p) (ctx_post d p) = Some (cctx_post p row false).
Proof.
  unfold cargs_pre, cargs_post, ctx_pre, ctx_post, other_tok.
  destruct p; destruct (d_positional d); split; try reflexivity;
    cbn [close]; rewrite lookup_other_app; reflexivity.
Qed.

Lemma all_some_app {A} (l1 l2 : list (option A)) v1 v2 :
  all_some l1 = Some v1 -> all_some l2 = Some v2 -> all_some (l1 ++ l2) = Some (v1 ++ v2).
Proof.
  revert v1. induction l1 as [|[a|] l1 IH]; intros v1 H1 H2; cbn [all_some app] in *.
  - inversion H1; subst. exact H2.
  - destruct (all_some l1) as [w|]; [|discriminate]. cbn [option_map] in H1. inversion H1; subst.
    now rewrite (IH w eq_refl H2).
  - discriminate.
Qed.

Lemma args_total d p tu : d.(d_positional) = true -> NoDup (map fst tu) ->
  all_some (map (fun n => lookup_param n (ctx_others p ++ exp_params tu))
                (ctx_names_pre p ++ map (fun kv => PExp (fst kv)) tu ++ ctx_names_post p))
  = Some (cargs_pre d p ++ map snd tu ++ cargs_post d p).
Proof.
  intros Ed Hnd. rewrite !map_app. apply all_some_app; [|apply all_some_app].
  - unfold cargs_pre. rewrite Ed. destruct p; cbn [ctx_names_pre map all_some]; try reflexivity;
      rewrite lookup_other_app; reflexivity.
  - apply (args_of_names (ctx_others p) tu (no_exp_others p) Hnd tu). apply incl_refl.
  - unfold cargs_post. rewrite Ed. destruct p; cbn [ctx_names_post map all_some]; try reflexivity;
      rewrite lookup_other_app; reflexivity.
Qed.

Lemma close_bound row d p e tu repl crepl :
  NoDup (map fst tu) ->
  close row (ctx_others p ++ exp_params tu) (pargs d tu) repl = Some crepl ->
  close_expanded row
    {| x_statement := ctx_pre d p ++ render_binary e ([TLp] ++ repl ++ [TRp]) ++ ctx_post d p;
       x_params := ctx_others p ++ exp_params tu;
       x_positiontup := if d.(d_positional)
                        then Some (ctx_names_pre p ++ map (fun kv => PExp (fst kv)) tu ++ ctx_names_post p)
                        else None |}
  = Some (cctx_pre p row false ++ crender e row ([TLp] ++ crepl ++ [TRp]) ++ cctx_post p row false).
Proof.
  intros Hnd H. destruct (close_ctx d p row tu) as [Hpre Hpost].
  assert (G : close row (ctx_others p ++ exp_params tu) (cargs_pre d p ++ pargs d tu ++ cargs_post d p)
                (ctx_pre d p ++ render_binary e ([TLp] ++ repl ++ [TRp]) ++ ctx_post d p)
              = Some (cctx_pre p row false ++ crender e row ([TLp] ++ crepl ++ [TRp]) ++ cctx_post p row false)).
  { apply close_app; [exact Hpre|]. apply close_app; [|exact Hpost].
    apply close_render. now apply close_wrap. }
  unfold close_expanded. cbn [x_statement x_params x_positiontup].
  destruct (d_positional d) eqn:Ed.
  - rewrite (args_total d p tu Ed Hnd). unfold pargs in G. rewrite Ed in G. exact G.
  - unfold cargs_pre, cargs_post, pargs in G. rewrite Ed in G. exact G.
Qed.

(* ---------------------------------------------------------------------------------------- *)
(** * from a good predicate to the truth value of the executed statement *)
Lemma exec_from_pred row d p e tu repl crepl v :
  NoDup (map fst tu) ->
  close row (ctx_others p ++ exp_params tu) (pargs d tu) repl = Some crepl ->
  good_pred (crender e row ([TLp] ++ crepl ++ [TRp])) v ->
  exec_sem row
    {| x_statement := ctx_pre d p ++ render_binary e ([TLp] ++ repl ++ [TRp]) ++ ctx_post d p;
       x_params := ctx_others p ++ exp_params tu;
       x_positiontup := if d.(d_positional)
                        then Some (ctx_names_pre p ++ map (fun kv => PExp (fst kv)) tu ++ ctx_names_post p)
                        else None |}
  = EOk (ctx_value p row v).
Proof.
  intros Hnd Hc Hg. unfold exec_sem. rewrite (close_bound row d p e tu repl crepl Hnd Hc).
  apply phrase_teval. now apply ctx_phrase.
Qed.

Lemma expected_sem op X R :
  match op with OIn => in_sem X R | ONotIn => not3 (in_sem X R) end = expected op X R.
Proof. unfold expected. now rewrite in_is_or_of_eq. Qed.

Lemma scal_map_snd (ents : list (key * sv)) : scal (map (fun kv => TVal (snd kv)) ents) (map snd ents).
Proof. rewrite <- (map_map snd TVal). apply scal_vals. Qed.

Lemma tu_scalar_snd ss : map snd (tu_scalar ss) = ss.
Proof. unfold tu_scalar. rewrite map_map. cbn [snd]. apply enum_from_snd. Qed.

Lemma blocks_snd n ts : map (map snd) (blocks_from n ts) = ts.
Proof.
  unfold blocks_from. rewrite map_map.
  rewrite <- (enum_from_snd n ts) at 2. apply map_ext. intros [i te]. cbn [fst snd].
  rewrite map_map. cbn [snd]. apply enum_from_snd.
Qed.

Lemma blocks_nonempty n ts k : (1 <= k)%nat -> Forall (fun te => length te = k) ts ->
  Forall (fun blk : list (key * sv) => blk <> []) (blocks_from n ts).
Proof.
  intros Hk H. apply Forall_forall. intros blk Hb. unfold blocks_from in Hb.
  apply in_map_iff in Hb as ([i te] & <- & Hin). cbn [fst snd].
  assert (Hte : length te = k).
  { rewrite Forall_forall in H. apply H. apply (in_map snd) in Hin. now rewrite enum_from_snd in Hin. }
  destruct te; [cbn in Hte; lia|discriminate].
Qed.

(* static-ness of the empty-set expressions *)
Lemma static_join sep parts : forallb static sep = true -> Forall (fun p => forallb static p = true) parts ->
  forallb static (join sep parts) = true.
Proof. apply forallb_join. Qed.

Lemma empty_expr_static d k E : visit_empty_set_expr d k = Ok E -> forallb static E = true.
Proof.
  unfold visit_empty_set_expr. destruct (d_empty d); intros H; inversion H; subst; clear H;
    rewrite ?forallb_app; cbn [forallb static andb one_ne_one]; rewrite ?andb_true_r; rewrite ?andb_true_iff; repeat split;
    try reflexivity;
    try (apply static_join; [reflexivity|]; try (apply forall_repeat; reflexivity);
         apply Forall_forall; intros it Hit; apply in_map_iff in Hit as (i & <- & _); reflexivity).
Qed.

Lemma nulls_static k : forallb static (nulls k) = true.
Proof. apply static_join; [reflexivity|]. apply forall_repeat. reflexivity. Qed.

Lemma empty_op_static d k eo E : visit_empty_set_op_expr d k eo = Ok E -> forallb static E = true.
Proof.
  unfold visit_empty_set_op_expr. destruct (d_empty_op_override d); [apply empty_expr_static|].
  destruct eo as [[|]|]; [| |apply empty_expr_static];
    intros H; inversion H; subst; clear H; destruct (Nat.ltb 1 k);
    rewrite ?forallb_app; cbn [forallb static andb]; rewrite ?nulls_static; reflexivity.
Qed.

(* ---------------------------------------------------------------------------------------- *)
(** * facts from the side conditions *)
Lemma inop_eqb_eq a b : inop_eqb a b = true -> a = b.
Proof. destruct a, b; cbn; congruence. Qed.

Lemma wf_lhs_ok e vals : wf e vals = true -> lhs_ok (ie_left e).
Proof.
  unfold wf. destruct (ie_left e) as [c|cs]; [intros; exact I|].
  destruct (bp_kind (ie_bind e)) as [|k|]; intros H; try discriminate; cbn [lhs_ok].
  - apply andb_true_iff in H as [H _]. apply andb_true_iff in H as [H1 H2].
    apply Nat.eqb_eq in H1. apply Nat.leb_le in H2. destruct cs; [cbn in *; lia|discriminate].
  - apply andb_true_iff in H as [H _]. apply andb_true_iff in H as [H1 _].
    apply Nat.leb_le in H1. destruct cs; [cbn in *; lia|discriminate].
Qed.

Lemma lhs_vals_length row l : length (lhs_vals row l) = match l with LCol _ => 1%nat | LTuple cs => length cs end.
Proof. destruct l; cbn [lhs_vals length]; [reflexivity|apply map_length]. Qed.

(* the two shapes allowed by [wf] *)
Lemma wf_shape e vals : wf e vals = true ->
  (all_scalar vals = true /\ length (lhs_vals (fun _ => SNull) (ie_left e)) = 1%nat /\
   tuple_branch (ie_bind e) vals = false /\ type_count (ie_bind e) = 1%nat) \/
  (exists k, all_tuple k vals = true /\ (1 <= k)%nat /\ length (lhs_vals (fun _ => SNull) (ie_left e)) = k /\
             (vals <> [] -> tuple_branch (ie_bind e) vals = true) /\ (vals = [] -> type_count (ie_bind e) = k)).
Proof.
  unfold wf, tuple_branch, type_count, is_tuple_type, is_null_type.
  destruct (ie_left e) as [c|cs]; destruct (bp_kind (ie_bind e)) as [|k|]; intros H; try discriminate.
  - left. repeat split; try reflexivity; exact H.
  - left. repeat split; try reflexivity; [exact H|]. cbn [orb andb].
    destruct vals as [|v0 vals]; [reflexivity|]. cbn [all_scalar forallb] in H.
    apply andb_true_iff in H as [H _]. now destruct v0.
  - right. apply andb_true_iff in H as [H H3]. apply andb_true_iff in H as [H1 H2].
    apply Nat.eqb_eq in H1. apply Nat.leb_le in H2. exists k. repeat split; try assumption.
    + now rewrite lhs_vals_length.
  - right. apply andb_true_iff in H as [H H3]. apply andb_true_iff in H as [H1 H2].
    apply Nat.leb_le in H1. exists (length cs). repeat split; try assumption.
    + now rewrite lhs_vals_length.
    + intros _. cbn [orb andb]. destruct vals as [|v0 vals]; [discriminate|].
      cbn [all_tuple forallb] in H2. apply andb_true_iff in H2 as [H2 _]. now destruct v0.
    + intros ->. discriminate.
Qed.

Lemma lhs_len_indep row l : length (lhs_vals row l) = length (lhs_vals (fun _ => SNull) l).
Proof. now rewrite !lhs_vals_length. Qed.
