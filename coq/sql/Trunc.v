(* C21 - executable model of name generation / truncation (definitions only).

   Transcribes, branch by branch:
     sql/compiler.py   IdentifierPreparer._truncate_and_render_maxlen_name, truncate_and_render_index_name,
                       truncate_and_render_constraint_name, format_constraint,
                       SQLCompiler._truncated_identifier, _truncate_bindparam, visit_bindparam (name
                       conflict branch), visit_label (choice of the label name)
     engine/default.py DefaultDialect.validate_identifier
     sql/naming.py     _constraint_name_for_table, ConventionDict tokens, the after_parent_attach hook
     sql/elements.py   _truncated_label.apply_map, _anonymous_label.apply_map
     sql/_util_cy.py   prefix_anon_map.__missing__

   Strings are lists of code points.  Python ints that can be negative (lengths compared with
   [max_ - 8], [label_length - 6]) are Z, counters are N.  md5 is a Section variable. *)
From Coq Require Import List NArith ZArith Bool.
Import ListNotations.

Definition str := list N.
Definition slen (s : str) : Z := Z.of_nat (length s).

Fixpoint str_eqb (a b : str) : bool :=
  match a, b with
  | [], [] => true
  | x :: a', y :: b' => N.eqb x y && str_eqb a' b'
  | _, _ => false
  end.

(* ---- Python slicing with one open end ---- *)
(* s[0:e] *)
Definition slice_to (s : str) (e : Z) : str :=
  if (e <? 0)%Z then firstn (Z.to_nat (Z.max (slen s + e) 0)) s else firstn (Z.to_nat e) s.
(* s[b:] *)
Definition slice_from (s : str) (b : Z) : str :=
  if (b <? 0)%Z then skipn (Z.to_nat (Z.max (slen s + b) 0)) s else skipn (Z.to_nat b) s.

(* ---- positional rendering of a counter: hex(n), str(n) ---- *)
(* most significant digit first; the fuel [S (log2 n)] is always sufficient (TruncDigits.digits_value) *)
Fixpoint digits_fuel (base : N) (fuel : nat) (n : N) (acc : list N) : list N :=
  match fuel with
  | O => acc
  | S f =>
      let acc' := (n mod base)%N :: acc in
      if (n / base =? 0)%N then acc' else digits_fuel base f (n / base)%N acc'
  end.
Definition digits (base n : N) : list N := digits_fuel base (S (N.to_nat (N.log2 n))) n [].

Definition hexchar (d : N) : N := if (d <? 10)%N then (48 + d)%N else (87 + d)%N.   (* 0-9 a-f *)
Definition decchar (d : N) : N := (48 + d)%N.
Definition py_hex (n : N) : str := [48; 120]%N ++ map hexchar (digits 16 n).         (* "0x" ++ ... *)
Definition py_dec (n : N) : str := map decchar (digits 10 n).

(* ---- the literals of the two truncation functions (tied to the source by the T2 translator) ---- *)
Definition underscore : N := 95.
(* _truncate_and_render_maxlen_name:  len(name) > max_ ; name[0 : max_ - 8] ; md5_hex(name)[-4:] *)
Definition maxlen_too_long (len max_ : Z) : bool := (len >? max_)%Z.
Definition maxlen_cut (max_ : Z) : Z := (max_ - 8)%Z.
Definition md5_tail : Z := (-4)%Z.
(* validate_identifier:  len(ident) > self.max_identifier_length *)
Definition ident_too_long (len maxid : Z) : bool := (len >? maxid)%Z.
(* _truncated_identifier:  len(anonname) > self.label_length - 6 ; anonname[0 : max(self.label_length - 6, 0)] ;
   hex(counter)[2:] ; self._truncated_counters.get(ident_class, 1) ; counter + 1 *)
Definition label_too_long (len ll : Z) : bool := (len >? ll - 6)%Z.
Definition label_cut (ll : Z) : Z := Z.max (ll - 6) 0.
Definition hex_skip : Z := 2%Z.
Definition counter_start : N := 1%N.
Definition counter_next (c : N) : N := (c + 1)%N.
(* prefix_anon_map.__missing__:  self_dict.get(derived, 1) ; anonymous_counter + 1 *)
Definition anon_counter_start : N := 1%N.
Definition anon_counter_next (c : N) : N := (c + 1)%N.

(* Python [a or b] on Optional[int] *)
Definition py_or (o : option Z) (d : Z) : Z :=
  match o with Some z => if (z =? 0)%Z then d else z | None => d end.

Inductive exn := IdentifierError | InvalidRequestError | CompileError | ArgumentError.
Inductive result (A : Type) := Ok (a : A) | Raise (e : exn).
Arguments Ok {A} a.
Arguments Raise {A} e.

(* ================= the dialect's limits as an engine sees them ================= *)
Definition truthy (o : option Z) : bool := match o with Some z => negb (z =? 0)%Z | None => false end.

(* DefaultDialect.__init__ (max_identifier_length=, label_length= arguments) followed by
   DefaultDialect.initialize on the first connection: [detected] is what
   _check_max_identifier_length(connection) returns.  Ok m = the engine starts with
   dialect.max_identifier_length = m *)
Definition initialize (class_maxid : Z) (user_maxid label_length detected : option Z) : result Z :=
  let m0 := py_or user_maxid class_maxid in                       (* __init__ *)
  let m := if truthy user_maxid then m0 else py_or detected m0 in  (* initialize *)
  if truthy label_length && (py_or label_length 0 >? m)%Z then Raise ArgumentError else Ok m.

(* ================= constraint / index names ================= *)
Record dialect := { d_maxid : Z; d_idx : option Z; d_con : option Z }.
(* truncate_and_render_index_name / truncate_and_render_constraint_name *)
Definition max_for (d : dialect) (is_index : bool) : Z :=
  py_or (if is_index then d_idx d else d_con d) (d_maxid d).

(* naming convention templates: "lit%(table_name)s..." as a token list *)
Inductive token :=
| TLit (s : str)
| TTable                    (* %(table_name)s *)
| TCol (i : nat)            (* %(column_<i>_name)s ; "" when there is no such column *)
| TColN (with_sep : bool)   (* %(column_0_N_name)s (joined by "_") / %(column_0N_name)s (joined by "") *)
| TCName                    (* %(constraint_name)s *)
| TRefTable.                (* %(referred_table_name)s *)

(* the .name of a Constraint/Index *)
Inductive gname := GNone | GNoneName | GPlain (s : str) | GConv (s : str).
Record cenv := { e_table : str; e_cols : list str; e_ref : str }.

Fixpoint join (sep : str) (l : list str) : str :=
  match l with [] => [] | [x] => x | x :: r => x ++ sep ++ join sep r end.

Definition mentions_cname (tpl : list token) : bool :=
  existsb (fun t => match t with TCName => true | _ => false end) tpl.

(* ConventionDict.__getitem__ *)
Definition expand_token (g : gname) (env : cenv) (t : token) : result str :=
  match t with
  | TLit s => Ok s
  | TTable => Ok (e_table env)
  | TCol i => Ok (nth i (e_cols env) [])
  | TColN with_sep => Ok (join (if with_sep then [underscore] else []) (e_cols env))
  | TCName => match g with
              | GNone | GNoneName => Raise InvalidRequestError
              | GPlain s | GConv s => Ok s
              end
  | TRefTable => Ok (e_ref env)
  end.
(* convention % ConventionDict(...) *)
Fixpoint expand (g : gname) (env : cenv) (tpl : list token) : result str :=
  match tpl with
  | [] => Ok []
  | t :: r => match expand_token g env t with
              | Raise e => Raise e
              | Ok s => match expand g env r with Raise e => Raise e | Ok s' => Ok (s ++ s') end
              end
  end.

(* naming._constraint_name_for_table: Some s stands for conv(s) *)
Definition constraint_name_for_table (cv : option (list token)) (g : gname) (env : cenv)
  : result (option str) :=
  match g with
  | GConv s => Ok (Some s)
  | _ =>
      match cv with
      | Some tpl =>
          if (match g with GNone | GNoneName => true | _ => false end) || mentions_cname tpl
          then match expand g env tpl with Raise e => Raise e | Ok s => Ok (Some s) end
          else Ok None
      | None => Ok None
      end
  end.

(* naming._constraint_name, the after_parent_attach listener (generated names are assumed non-empty) *)
Definition attach_name (cv : option (list token)) (g : gname) (env : cenv) : result gname :=
  match g with
  | GConv _ | GNoneName => Ok g
  | _ => match constraint_name_for_table cv g env with
         | Raise e => Raise e
         | Ok (Some s) => Ok (GConv s)
         | Ok None => Ok g
         end
  end.

Section Maxlen.
  Variable md5_hex : str -> str.        (* util.md5_hex *)

  Definition truncate_maxlen (name : str) (max_ : Z) : str :=
    if maxlen_too_long (slen name) max_
    then slice_to name (maxlen_cut max_) ++ [underscore] ++ slice_from (md5_hex name) md5_tail
    else name.

  (* IdentifierPreparer._truncate_and_render_maxlen_name (before quoting); [truncatable] = the name
     is a _truncated_label (conv or generated by a convention); otherwise validate_identifier *)
  Definition truncate_and_render_maxlen_name (truncatable : bool) (name : str) (max_ maxid : Z)
    : result str :=
    if truncatable then Ok (truncate_maxlen name max_)
    else if ident_too_long (slen name) maxid then Raise IdentifierError else Ok name.

  (* IdentifierPreparer.format_constraint; None = rendered without a name *)
  Definition format_constraint (d : dialect) (is_index : bool) (cv : option (list token))
             (g : gname) (env : cenv) : result (option str) :=
    let named (truncatable : bool) (s : str) :=
      match truncate_and_render_maxlen_name truncatable s (max_for d is_index) (d_maxid d) with
      | Raise e => Raise e
      | Ok r => Ok (Some r)
      end in
    match g with
    | GNoneName =>
        match constraint_name_for_table cv g env with
        | Raise e => Raise e
        | Ok None => Ok None
        | Ok (Some s) => named true s
        end
    | GNone => Ok None
    | GPlain s => named false s
    | GConv s => named true s
    end.

  (* the name as it appears in CREATE TABLE / CREATE INDEX for a constraint attached to its table *)
  Definition ddl_name (d : dialect) (is_index : bool) (cv : option (list token))
             (g : gname) (env : cenv) : result (option str) :=
    match attach_name cv g env with
    | Raise e => Raise e
    | Ok g' =>
        match format_constraint d is_index cv g' env with
        | Raise e => Raise e
        | Ok None => if is_index then Raise CompileError else Ok None  (* CREATE INDEX requires a name *)
        | Ok (Some s) => Ok (Some s)
        end
    end.
End Maxlen.

(* ================= labels, aliases, bind names inside one statement compilation ================= *)
(* a _truncated_label: literal text and anonymous tokens "%(<id> <body>)s".  A plain _truncated_label
   is [Lit s] (or []); lists are canonical (no empty / adjacent Lit), so that Python's equality of the
   format strings is structural equality here *)
Inductive seg := Lit (s : str) | Anon (id : N) (body : str).
Definition tname := list seg.

Definition seg_eqb (a b : seg) : bool :=
  match a, b with
  | Lit s, Lit t => str_eqb s t
  | Anon i s, Anon j t => N.eqb i j && str_eqb s t
  | _, _ => false
  end.
Fixpoint tname_eqb (a b : tname) : bool :=
  match a, b with
  | [], [] => true
  | x :: a', y :: b' => seg_eqb x y && tname_eqb a' b'
  | _, _ => false
  end.

Fixpoint assoc {K V} (eqb : K -> K -> bool) (k : K) (l : list (K * V)) : option V :=
  match l with
  | [] => None
  | (k', v) :: r => if eqb k k' then Some v else assoc eqb k r
  end.

Definition akey := (N * str)%type.
Definition akey_eqb (a b : akey) : bool := N.eqb (fst a) (fst b) && str_eqb (snd a) (snd b).

(* prefix_anon_map: key -> generated name, and body -> next counter (latest binding first) *)
Record amap := { am_keys : list (akey * str); am_ctr : list (str * N) }.
Definition am_counter (am : amap) (body : str) : N :=
  match assoc str_eqb body (am_ctr am) with Some c => c | None => anon_counter_start end.
(* map_[key], with __missing__ *)
Definition am_get (am : amap) (k : akey) : amap * str :=
  match assoc akey_eqb k (am_keys am) with
  | Some v => (am, v)
  | None =>
      let c := am_counter am (snd k) in
      let v := snd k ++ [underscore] ++ py_dec c in
      ({| am_keys := (k, v) :: am_keys am; am_ctr := (snd k, anon_counter_next c) :: am_ctr am |}, v)
  end.
(* name.apply_map(self.anon_map)  =  name % anon_map *)
Fixpoint apply_map (am : amap) (n : tname) : amap * str :=
  match n with
  | [] => (am, [])
  | Lit s :: r => let (am', t) := apply_map am r in (am', s ++ t)
  | Anon i b :: r =>
      let (am1, v) := am_get am (i, b) in
      let (am2, t) := apply_map am1 r in (am2, v ++ t)
  end.

Definition ckey := (N * tname)%type.            (* (ident_class, name) *)
Definition ckey_eqb (a b : ckey) : bool := N.eqb (fst a) (fst b) && tname_eqb (snd a) (snd b).

Definition cls_colident : N := 0.
Definition cls_alias : N := 1.
Definition cls_bindparam : N := 2.

(* a BindParameter: .key is a plain str or a _truncated_label *)
Inductive bkey := BPlain (s : str) | BTrunc (n : tname).
Record bindrec := { b_key : bkey; b_unique : bool; b_expanding : bool }.

Record cstate := {
  st_am : amap;                         (* self.anon_map *)
  st_memo : list (ckey * str);          (* self.truncated_names *)
  st_tctr : list (N * N);               (* self._truncated_counters *)
  st_binds : list (str * N);            (* self.binds : name -> bind parameter (object identity) *)
  st_bind_names : list (N * str)        (* self.bind_names : bind parameter -> name *)
}.
Definition init_state : cstate :=
  {| st_am := {| am_keys := []; am_ctr := [] |}; st_memo := []; st_tctr := [];
     st_binds := []; st_bind_names := [] |}.

Definition tcounter (st : cstate) (cls : N) : N :=
  match assoc N.eqb cls (st_tctr st) with Some c => c | None => counter_start end.

(* the name built in the truncation branch *)
Definition truncname (ll : Z) (anonname : str) (counter : N) : str :=
  slice_to anonname (label_cut ll) ++ [underscore] ++ slice_from (py_hex counter) hex_skip.

(* SQLCompiler._truncated_identifier; ll = self.label_length *)
Definition truncated_identifier (ll : Z) (st : cstate) (cls : N) (name : tname) : cstate * str :=
  match assoc ckey_eqb (cls, name) (st_memo st) with
  | Some out => (st, out)
  | None =>
      let (am', anonname) := apply_map (st_am st) name in
      if label_too_long (slen anonname) ll then
        let counter := tcounter st cls in
        let out := truncname ll anonname counter in
        ({| st_am := am'; st_memo := ((cls, name), out) :: st_memo st;
            st_tctr := (cls, counter_next counter) :: st_tctr st;
            st_binds := st_binds st; st_bind_names := st_bind_names st |}, out)
      else
        ({| st_am := am'; st_memo := ((cls, name), anonname) :: st_memo st;
            st_tctr := st_tctr st;
            st_binds := st_binds st; st_bind_names := st_bind_names st |}, anonname)
  end.

(* the name of a Label / alias: a plain str is used as it is (visit_label, visit_alias) *)
Inductive lname := LStr (s : str) | LTrunc (n : tname).
Definition element_name (ll : Z) (st : cstate) (cls : N) (n : lname) : cstate * str :=
  match n with
  | LStr s => (st, s)
  | LTrunc t => truncated_identifier ll st cls t
  end.

Section Binds.
  Variable benv : N -> bindrec.         (* the bind parameter objects of the statement, by identity *)

  (* SQLCompiler._truncate_bindparam *)
  Definition truncate_bindparam (ll : Z) (st : cstate) (oid : N) : cstate * str :=
    match assoc N.eqb oid (st_bind_names st) with
    | Some nm => (st, nm)
    | None =>
        let (st1, nm) := match b_key (benv oid) with
                         | BPlain s => (st, s)
                         | BTrunc t => truncated_identifier ll st cls_bindparam t
                         end in
        ({| st_am := st_am st1; st_memo := st_memo st1; st_tctr := st_tctr st1;
            st_binds := st_binds st1; st_bind_names := (oid, nm) :: st_bind_names st1 |}, nm)
    end.

  (* SQLCompiler.visit_bindparam, the part that assigns and checks the name (distinct objects are
     assumed not to be clones of each other; the _is_crud branch of INSERT/UPDATE is not modelled) *)
  Definition visit_bindparam (ll : Z) (st : cstate) (oid : N) : result (cstate * str) :=
    let (st1, nm) := truncate_bindparam ll st oid in
    let ok := Ok ({| st_am := st_am st1; st_memo := st_memo st1; st_tctr := st_tctr st1;
                     st_binds := (nm, oid) :: st_binds st1;
                     st_bind_names := st_bind_names st1 |}, nm) in
    match assoc str_eqb nm (st_binds st1) with
    | None => ok
    | Some ex =>
        if N.eqb ex oid then ok
        else if b_unique (benv ex) || b_unique (benv oid) then Raise CompileError
        else if negb (Bool.eqb (b_expanding (benv ex)) (b_expanding (benv oid))) then Raise CompileError
        else ok
    end.

  (* one compilation = a sequence of name requests in traversal order *)
  Inductive req := RName (cls : N) (n : lname) | RBind (oid : N).

  Definition step (ll : Z) (st : cstate) (r : req) : result (cstate * str) :=
    match r with
    | RName cls n => Ok (element_name ll st cls n)
    | RBind oid => visit_bindparam ll st oid
    end.

  Fixpoint run (ll : Z) (st : cstate) (rs : list req) : result (cstate * list str) :=
    match rs with
    | [] => Ok (st, [])
    | r :: rest =>
        match step ll st r with
        | Raise e => Raise e
        | Ok (st1, o) =>
            match run ll st1 rest with
            | Raise e => Raise e
            | Ok (st2, os) => Ok (st2, o :: os)
            end
        end
    end.
End Binds.

(* pure reading of an anonymised name in a map that already holds all its keys *)
Fixpoint anon_pure (am : amap) (n : tname) : str :=
  match n with
  | [] => []
  | Lit s :: r => s ++ anon_pure am r
  | Anon i b :: r =>
      (match assoc akey_eqb (i, b) (am_keys am) with Some v => v | None => [] end) ++ anon_pure am r
  end.
