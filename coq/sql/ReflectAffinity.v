(* C15: reflect -> re-create -> reflect is a fixed point for the column types, for every type table that
   passes the boolean check [aff_ok] (evaluated on the table regenerated from the dialect on every run) *)
From Coq Require Import List NArith Bool Lia Arith.
Import ListNotations.
From SAV.sql Require Import Ident IdentProofs Reflect ReflectProofs.
Open Scope N_scope.

(* a non-negative int as Python prints it *)
Definition canon (d : digits) : bool :=
  nonempty d && forallb is_digit d && match d with c :: _ :: _ => negb (c =? 48) | _ => true end.
Definition canon_args (t : rtype) : Prop := forallb canon (rt_args t) = true.

Definition entry_ok (tab : afftab) (e : N * nat * (str * nat)) : bool :=
  let '(c, n, (name, k)) := e in
  nonempty name && forallb tnamec name && (classify tab name =? c) && Nat.leb k n && accepts tab c k &&
  match lookup_render (a_render tab) c k with
  | Some (name', k') => str_eqb name' name && Nat.eqb k' k
  | None => false
  end.
Definition aff_ok (tab : afftab) : bool := forallb (entry_ok tab) (a_render tab).

Lemma lookup_render_in : forall d c n v, lookup_render d c n = Some v -> In (c, n, v) d.
Proof.
  induction d as [|[[c' n'] v'] d IH]; intros c n v H; cbn [lookup_render] in H; [discriminate|].
  destruct ((c =? c') && Nat.eqb n n') eqn:E.
  - inversion H; subst. apply andb_true_iff in E. destruct E as [E1 E2]. apply N.eqb_eq in E1. apply Nat.eqb_eq in E2.
    subst. left. reflexivity.
  - right. apply IH. exact H.
Qed.

Lemma strip_zeros_canon_id : forall d, canon d = true -> strip_zeros d = d.
Proof.
  intros [|c [|c2 r]] H; try reflexivity. unfold canon in H. apply andb_true_iff in H. destruct H as [_ H].
  apply negb_true_iff in H. cbn [strip_zeros]. rewrite H. reflexivity.
Qed.

Lemma strip_zeros_is_canon : forall d, d <> [] -> forallb is_digit d = true -> canon (strip_zeros d) = true.
Proof.
  induction d as [|c d IH]; intros Hne Hd; [congruence|].
  cbn [forallb] in Hd. apply andb_true_iff in Hd. destruct Hd as [Hc Hd].
  destruct d as [|c2 r].
  - cbn [strip_zeros]. unfold canon. cbn [nonempty forallb]. rewrite Hc. reflexivity.
  - cbn [strip_zeros]. destruct (c =? 48) eqn:E.
    + apply IH; [discriminate|assumption].
    + unfold canon. cbn [nonempty forallb]. cbn [forallb] in Hd. rewrite Hc, Hd, E. reflexivity.
Qed.

Lemma span_digits_nonempty : forall c t, is_digit c = true ->
  fst (span is_digit (c :: t)) <> [] /\ forallb is_digit (fst (span is_digit (c :: t))) = true.
Proof.
  intros c t Hc. cbn [span]. rewrite Hc.
  assert (forall u, forallb is_digit (fst (span is_digit u)) = true) as Hall.
  { induction u as [|a u IHu]; cbn [span]; [reflexivity|]. destruct (is_digit a) eqn:E; [|reflexivity].
    destruct (span is_digit u). cbn [fst forallb] in *. rewrite E, IHu. reflexivity. }
  specialize (Hall t). destruct (span is_digit t). cbn [fst forallb] in *. rewrite Hc, Hall. split; [discriminate|reflexivity].
Qed.

Lemma find_ints_canon : forall f t, forallb canon (find_ints f t) = true.
Proof.
  induction f as [|f IH]; intros t; [reflexivity|]. destruct t as [|c r]; [reflexivity|].
  cbn [find_ints]. destruct (is_digit c) eqn:E; [|apply IH].
  destruct (span_digits_nonempty c r E) as [Hne Hd].
  destruct (span is_digit (c :: r)) as [w rest]. cbn [fst] in *. cbn [forallb].
  rewrite (strip_zeros_is_canon w Hne Hd), IH. reflexivity.
Qed.

Theorem affinity_canon : forall tab s, canon_args (affinity tab s).
Proof.
  intros tab s. unfold canon_args, affinity. destruct (span tnamec s) as [g1 rest].
  destruct g1; [reflexivity|].
  destruct rest as [|c r]; [reflexivity|]. destruct (c =? lpar); [|reflexivity].
  destruct (lazy0_until rpar r) as [[a _]|]; [|reflexivity].
  destruct (accepts tab _ _); [apply find_ints_canon|reflexivity].
Qed.

(* find_ints over "d1, d2, .., dk" *)
Lemma find_ints_one : forall d tl f, canon d = true ->
  (tl = [] \/ exists c r, tl = c :: r /\ is_digit c = false) -> (length (d ++ tl) <= f)%nat ->
  exists f', (length tl <= f')%nat /\ find_ints f (d ++ tl) = d :: find_ints f' tl.
Proof.
  intros d tl f Hc Htl Hf. pose proof Hc as Hc'. unfold canon in Hc'. apply andb_true_iff in Hc'. destruct Hc' as [Hc' _].
  apply andb_true_iff in Hc'. destruct Hc' as [Hne Hd]. destruct d as [|c d']; [discriminate|].
  destruct f as [|f]; [cbn [length app] in Hf; lia|].
  assert (is_digit c = true) as Hdc by (cbn [forallb] in Hd; apply andb_true_iff in Hd; tauto).
  cbn [app find_ints]. rewrite Hdc. change (c :: d' ++ tl) with ((c :: d') ++ tl).
  destruct Htl as [-> | [x [r [-> Hx]]]].
  - rewrite app_nil_r, (span_all_end is_digit (c :: d') Hd), (strip_zeros_canon_id _ Hc).
    exists f. split; [cbn; lia|]. destruct f; reflexivity.
  - rewrite (span_all is_digit (c :: d') x r Hd Hx), (strip_zeros_canon_id _ Hc).
    exists f. split; [|reflexivity]. rewrite app_length in Hf. cbn [length] in *. lia.
Qed.

Lemma find_ints_nil : forall f, find_ints f [] = [].
Proof. destruct f; reflexivity. Qed.

Lemma find_ints_joined : forall A f, forallb canon A = true -> (length (join_args A) <= f)%nat ->
  find_ints f (join_args A) = A.
Proof.
  induction A as [|d A IH]; intros f Hc Hf; [apply find_ints_nil|].
  cbn [forallb] in Hc. apply andb_true_iff in Hc. destruct Hc as [Hd HA].
  destruct A as [|d2 A'].
  - cbn [join_args] in *. rewrite <- (app_nil_r d) in Hf.
    destruct (find_ints_one d [] f Hd (or_introl eq_refl) Hf) as [f' [_ H]]. rewrite app_nil_r in H.
    rewrite H, find_ints_nil. reflexivity.
  - change (join_args (d :: d2 :: A')) with (d ++ [44; 32] ++ join_args (d2 :: A')) in *.
    destruct (find_ints_one d ([44; 32] ++ join_args (d2 :: A')) f Hd) as [f' [Hf' ->]];
      [right; do 2 eexists; split; reflexivity|exact Hf|].
    f_equal. cbn [app] in Hf' |- *. destruct f' as [|f']; [cbn [length] in Hf'; lia|].
    cbn [find_ints]. change (is_digit 44) with false. cbn match.
    destruct f' as [|f']; [cbn [length] in Hf'; lia|].
    cbn [find_ints]. change (is_digit 32) with false. cbn match.
    apply IH; [assumption|]. cbn [length] in Hf'. lia.
Qed.

Lemma join_args_chars : forall A, forallb canon A = true ->
  forallb (fun c => dotc c && negb (c =? rpar)) (join_args A) = true.
Proof.
  induction A as [|d A IH]; intros Hc; [reflexivity|].
  cbn [forallb] in Hc. apply andb_true_iff in Hc. destruct Hc as [Hd HA].
  assert (forallb (fun c => dotc c && negb (c =? rpar)) d = true) as Hdc.
  { unfold canon in Hd. apply andb_true_iff in Hd. destruct Hd as [Hd _]. apply andb_true_iff in Hd. destruct Hd as [_ Hd].
    apply forallb_forall. intros c Hin. apply forallb_forall with (x := c) in Hd; [|assumption].
    unfold is_digit in Hd. apply andb_true_iff in Hd. destruct Hd as [H1 H2]. apply N.leb_le in H1. apply N.leb_le in H2.
    unfold dotc, rpar. destruct (c =? 10) eqn:E1; [apply N.eqb_eq in E1; lia|].
    destruct (c =? 41) eqn:E2; [apply N.eqb_eq in E2; lia|]. reflexivity. }
  destruct A as [|d2 A']; [exact Hdc|].
  change (join_args (d :: d2 :: A')) with (d ++ [44; 32] ++ join_args (d2 :: A')).
  rewrite !forallb_app, Hdc, (IH HA). reflexivity.
Qed.

Lemma firstn_incl : forall A (l : list A) n x, In x (firstn n l) -> In x l.
Proof.
  intros A l. induction l as [|a l IH]; intros [|n] x H; cbn [firstn] in H; try (destruct H; fail).
  destruct H as [->|H]; [left; reflexivity|right; eapply IH; exact H].
Qed.

Lemma existsb_firstn_false : forall A (f : A -> bool) l n, existsb f l = false -> existsb f (firstn n l) = false.
Proof.
  intros A f l. induction l as [|a l IH]; intros [|n] H; cbn [firstn existsb] in *; try reflexivity.
  apply orb_false_iff in H. destruct H as [Ha Hl]. rewrite Ha, (IH n Hl). reflexivity.
Qed.

Theorem type_affinity_stable : forall tab, aff_ok tab = true ->
  forall t text, canon_args t -> render_type tab t = Some text ->
  rt_class (affinity tab text) = rt_class t /\ render_type tab (affinity tab text) = Some text.
Proof.
  intros tab Hok t text Hc Hr. unfold render_type in Hr.
  destruct (existsb is_zero (rt_args t)) eqn:Ez; [discriminate|].
  destruct (lookup_render (a_render tab) (rt_class t) (length (rt_args t))) as [[name k]|] eqn:El; [|discriminate].
  apply lookup_render_in in El. unfold aff_ok in Hok.
  apply forallb_forall with (x := (rt_class t, length (rt_args t), (name, k))) in Hok; [|assumption].
  unfold entry_ok in Hok. repeat (apply andb_true_iff in Hok; destruct Hok as [Hok ?]).
  destruct (lookup_render (a_render tab) (rt_class t) k) as [[name' k']|] eqn:El2; [|discriminate].
  apply andb_true_iff in H. destruct H as [Hn' Hk']. apply str_eqb_eq in Hn'. apply Nat.eqb_eq in Hk'. subst name' k'.
  rename H0 into Hacc. rename H1 into Hkn. rename H2 into Hcls. rename H3 into Htn. rename Hok into Hne.
  apply N.eqb_eq in Hcls. apply Nat.leb_le in Hkn.
  destruct k as [|k'].
  - (* NAME *)
    inversion Hr; subst text. unfold affinity. rewrite (span_all_end tnamec name Htn).
    rewrite Hcls. destruct name as [|n0 name']; [discriminate|].
    cbn [rt_class rt_args length]. split; [reflexivity|].
    unfold render_type. cbn [rt_class rt_args length]. rewrite El2. reflexivity.
  - (* NAME(a1, .., ak) *)
    set (A := firstn (S k') (rt_args t)) in *.
    assert (length A = S k') as HlA by (unfold A; apply firstn_length_le; exact Hkn).
    assert (forallb canon A = true) as HcA.
    { apply forallb_forall. intros d Hd. unfold A in Hd. apply firstn_incl in Hd.
      unfold canon_args in Hc. apply forallb_forall with (x := d) in Hc; assumption. }
    inversion Hr; subst text. unfold affinity.
    change (name ++ [lpar] ++ join_args A ++ [rpar]) with (name ++ lpar :: join_args A ++ [rpar]).
    rewrite (span_all tnamec name lpar (join_args A ++ [rpar]) Htn) by reflexivity.
    rewrite Hcls, N.eqb_refl. unfold lazy0_until.
    rewrite (lazy_go_body rpar (join_args A) [] [] (join_args_chars A HcA)). cbn [rev app].
    rewrite (find_ints_joined A _ HcA (le_n _)). rewrite HlA, Hacc.
    destruct name as [|n0 name']; [discriminate|].
    cbn [rt_class rt_args]. split; [reflexivity|].
    unfold render_type. cbn [rt_class rt_args]. unfold A at 1. rewrite (existsb_firstn_false _ is_zero _ _ Ez). fold A.
    rewrite HlA, El2.
    rewrite <- HlA at 1. rewrite firstn_all. reflexivity.
Qed.
