(* C14 - explicit dependencies (Table.add_is_dependent_on): never dropped from the sort, so the CREATE
   TABLE / DROP TABLE statements follow them, FK cycle or not *)
From Coq Require Import List NArith Bool Lia Permutation.
Import ListNotations.
From SAV.util Require Import Topo Cycles TopoProofs TopoCycle TopoExtra CyclesSound CyclesComplete CyclesExact.
From SAV.sql Require Import DDLOrder DDLOrderBase DDLOrderSort DDLOrderExec DDLOrderCreate DDLOrderDrop.

(* the tables in the order their CREATE TABLE / DROP TABLE statements are emitted *)
Definition created_order (l : list stmt) : list node :=
  flat_map (fun s => match s with CreateT n _ => [n] | _ => [] end) l.
Definition dropped_order (l : list stmt) : list node :=
  flat_map (fun s => match s with DropT n => [n] | _ => [] end) l.

Lemma created_order_create_stmts tables cyc : forall l,
  (forall n, In n l -> In n (names tables)) -> created_order (create_stmts tables cyc l) = l.
Proof. induction l as [|n l IH]; intros H; [reflexivity|]. unfold create_stmts, created_order in *. cbn [flat_map].
  rewrite flat_map_app. rewrite IH by (intros x Hx; apply H; right; exact Hx).
  assert (Hn : In n (names tables)) by (apply H; left; reflexivity).
  unfold names in Hn. apply in_map_iff in Hn. destruct Hn as [t [Hn Ht]].
  destruct (find_table tables n) as [u|] eqn:F.
  - reflexivity.
  - exfalso. unfold find_table in F. pose proof (find_none _ _ F t Ht) as X. simpl in X.
    rewrite Hn, N.eqb_refl in X. discriminate. Qed.

Lemma dropped_order_map l : dropped_order (map DropT l) = l.
Proof. unfold dropped_order. induction l as [|n l IH]; simpl; congruence. Qed.

Lemma stc_respects_fixed filt tables o cyc w t p :
  sort_tables_and_constraints filt tables = Ok (o, cyc, w) ->
  In t tables -> In p (t_extra t) -> In p (names tables) -> before o p (t_name t).
Proof. intros Hs Ht Hp Hpn. destruct (stc_ok _ _ _ _ _ Hs) as [Hsort _].
  apply (sort_order _ _ _ Hsort).
  - apply in_or_app. left. apply In_fixed. exists t. simpl. auto.
  - exact Hpn.
  - unfold names. apply in_map. exact Ht. Qed.

Theorem create_order_respects_explicit existing checkfirst md o u :
  create_plan existing checkfirst md = Plan o u ->
  forall t p, In t (create_tables existing checkfirst md) -> In p (t_extra t) ->
    In p (names (create_tables existing checkfirst md)) -> before (created_order o) p (t_name t).
Proof. unfold create_plan.
  destruct (sort_tables_and_constraints none_filter (create_tables existing checkfirst md)) as [[[ns cyc] w]| |] eqn:Hs;
    try discriminate.
  intros H; inversion H; subst o u. intros t p Ht Hp Hpn.
  rewrite created_order_create_stmts.
  - eapply stc_respects_fixed; eassumption.
  - intros n Hn. destruct (stc_ok _ _ _ _ _ Hs) as [Hsort _]. apply (Permutation_in _ (sort_perm _ _ _ Hsort)). exact Hn. Qed.

Theorem drop_order_respects_explicit existing checkfirst md o u :
  drop_plan existing checkfirst md = Plan o u ->
  forall t p, In t (drop_tables existing checkfirst md) -> In p (t_extra t) ->
    In p (names (drop_tables existing checkfirst md)) -> before (dropped_order o) (t_name t) p.
Proof. unfold drop_plan.
  destruct (sort_tables_and_constraints drop_filter (drop_tables existing checkfirst md)) as [[[ns cyc] w]| |] eqn:Hs;
    try discriminate.
  destruct (forallb stmt_named _); [|discriminate].
  intros H; inversion H; subst o u. intros t p Ht Hp Hpn.
  rewrite dropped_order_map. apply before_rev. eapply stc_respects_fixed; eassumption. Qed.

(* a cycle of explicit dependencies among the tables always raises, for create and for drop *)
Theorem explicit_cycle_raises filt tables :
  (exists w, cycle (fixed tables) w /\ incl w (names tables)) ->
  sort_tables_and_constraints filt tables = Circular.
Proof. intros [w [Hw Hi]]. apply stc_circular_conv. exists w. split; [|exact Hi].
  eapply cycle_incl; [exact Hw|]. intros e He. apply in_or_app. left. exact He. Qed.

Theorem drop_explicit_cycle_raises existing checkfirst md :
  (exists w, cycle (fixed (drop_tables existing checkfirst md)) w /\
             incl w (names (drop_tables existing checkfirst md))) ->
  drop_plan existing checkfirst md = ErrCircular.
Proof. intros H. unfold drop_plan. rewrite (explicit_cycle_raises drop_filter _ H). reflexivity. Qed.

(* t1 <-> t2 by foreign keys, t1.add_is_dependent_on(t2) on the very pair the cycle handling removes,
   t1 inserted first: t2 is still created first *)
Example explicit_on_cycle_edge :
  let md := [mktable 1 [mkfk 0 2 false true] [2]; mktable 2 [mkfk 0 1 false true] []]%N in
  create_plan [] false md =
    Plan [CreateT 2 []; CreateT 1 []]%N [AddFK 1 (mkfk 0 2 false true); AddFK 2 (mkfk 0 1 false true)]%N /\
  drop_plan [] false md =
    Plan [DropT 1; DropT 2]%N [DropFK 1 (mkfk 0 2 false true); DropFK 2 (mkfk 0 1 false true)]%N /\
  sorted_tables md = Ok ([2; 1]%N, true).
Proof. vm_compute. repeat split. Qed.
