(* C14 - model of lib/sqlalchemy/sql/ddl.py : sort_tables_and_constraints / sort_tables,
   SchemaGenerator.visit_metadata / visit_table / visit_foreign_key_constraint,
   SchemaDropper.visit_metadata / visit_table / visit_foreign_key_constraint,
   MetaData.sorted_tables (sql/schema.py) - for a dialect with supports_alter = True (PostgreSQL) -
   on top of the C19 model of util/topological.py; and the SPEC side: a reference database catalog that
   enforces "a foreign key constraint can only be created when the referenced table exists" and "a
   table can only be dropped when no other table holds a constraint referencing it".
   Definitions only. *)
From Coq Require Import List NArith Bool Permutation.
Import ListNotations.
From SAV.util Require Import Topo Cycles.

(* ---------------------------------------------------------------- metadata *)
(* a ForeignKeyConstraint of a table.  [fk_id] identifies the constraint inside its table (its
   columns; a multi-column constraint is still one constraint to one referred table). *)
Record fk := mkfk {
  fk_id : N;
  fk_ref : N;          (* fkc.referred_table *)
  fk_alter : bool;     (* fkc.use_alter is True *)
  fk_named : bool      (* fkc.name is not None *)
}.
Record table := mktable {
  t_name : N;
  t_fks : list fk;     (* table.foreign_key_constraints *)
  t_extra : list N     (* table._extra_dependencies (Table.add_is_dependent_on) *)
}.
Definition metadata := list table.   (* metadata.tables.values(), insertion order *)

(* ---------------------------------------------------------------- find_cycles with a canonical
   iteration order (the set it returns does not depend on the order: C19 find_cycles_exact) *)
Definition dedup (l : list node) : list node :=
  fold_right (fun x acc => if memb x acc then acc else x :: acc) [] l.
Definition ord_of (ts : list edge) (a : node) : list node :=
  dedup (map snd (filter (fun e => N.eqb (fst e) a) ts)).
Definition starts_of (ts : list edge) : list node := dedup (map fst ts).
Definition cycles_of (ts : list edge) : option (list node) := find_cycles (ord_of ts) (starts_of ts).

(* ---------------------------------------------------------------- sort_tables_and_constraints *)
Definition is_true (o : option bool) : bool := match o with Some true => true | _ => false end.
Definition is_false (o : option bool) : bool := match o with Some false => true | _ => false end.

Section Sort.
Variable filt : fk -> option bool.        (* filter_fn; [fun _ => None] when filter_fn is None *)
Variable tables : list table.

(* "if fkc.use_alter is True: remaining_fkcs.add(fkc); continue"
   "if filter_fn: ... if filtered is True: remaining_fkcs.add(fkc); continue" *)
Definition pre_deferred (f : fk) : bool := fk_alter f || is_true (filt f).
(* "dependent_on = fkc.referred_table; if dependent_on is not table: mutable_dependencies.add(...)" *)
Definition dep_fk (t : table) (f : fk) : bool :=
  negb (pre_deferred f) && negb (N.eqb (fk_ref f) (t_name t)).
Definition fk_edge (t : table) (f : fk) : edge := (fk_ref f, t_name t).
Definition mutable_of (t : table) : list edge := map (fk_edge t) (filter (dep_fk t) (t_fks t)).
(* "fixed_dependencies.update((parent, table) for parent in table._extra_dependencies)" *)
Definition fixed_of (t : table) : list edge := map (fun p => (p, t_name t)) (t_extra t).
Definition mutable0 : list edge := flat_map mutable_of tables.
Definition fixed : list edge := flat_map fixed_of tables.
Definition names : list node := map t_name tables.

(* the except branch.  The loop "for edge in err.edges: if edge in mutable_dependencies: table = edge[1];
   if table not in err.cycles: continue; can_remove = [...]; remaining_fkcs.update(can_remove);
   for fkc in can_remove: ... mutable_dependencies.discard((dependent_on, table))" only adds to one set
   and discards from another, and processing a table twice changes nothing, so its effect is: every
   table that is in err.cycles and is the child of some mutable edge ([hit]) gets all its removable
   constraints deferred and their edges discarded. *)
Definition can_remove (t : table) : list fk :=
  filter (fun f => negb (is_false (filt f))) (t_fks t).
Definition hit (cyc : list node) (t : table) : bool :=
  memb (t_name t) cyc && existsb (fun e => N.eqb (snd e) (t_name t)) mutable0.
(* member of remaining_fkcs at the end *)
Definition deferred (cyc : list node) (t : table) (f : fk) : bool :=
  pre_deferred f || (hit cyc t && negb (is_false (filt f))).
(* the edge contributed by [f] was discarded: some removable constraint of the table refers to the same
   table (the edge is a PAIR OF TABLES, not a constraint) *)
Definition discarded (cyc : list node) (t : table) (f : fk) : bool :=
  hit cyc t && existsb (fun f' => N.eqb (fk_ref f') (fk_ref f)) (can_remove t).
Definition mutable1_of (cyc : list node) (t : table) : list edge :=
  map (fk_edge t) (filter (fun f => dep_fk t f && negb (discarded cyc t f)) (t_fks t)).
Definition mutable1 (cyc : list node) : list edge := flat_map (mutable1_of cyc) tables.

(* result: (candidate_sort, err.cycles used ([] when the first sort succeeded), first sort failed) *)
Definition sort_tables_and_constraints : res (list node * list node * bool) :=
  match sort (fixed ++ mutable0) names with
  | Ok o => Ok (o, [], false)
  | OutOfFuel => OutOfFuel
  | Circular =>
    match cycles_of (fixed ++ mutable0) with
    | None => OutOfFuel
    | Some cyc =>
      match sort (fixed ++ mutable1 cyc) names with
      | Ok o => Ok (o, cyc, true)
      | Circular => Circular            (* a cycle of fixed / non-removable edges: raised again *)
      | OutOfFuel => OutOfFuel
      end
    end
  end.

(* "(table, table.foreign_key_constraints.difference(remaining_fkcs))" *)
Definition inline_of (cyc : list node) (t : table) : list fk :=
  filter (fun f => negb (deferred cyc t f)) (t_fks t).
(* "(None, list(remaining_fkcs))" - a set: the order is arbitrary; canonical here *)
Definition deferred_of (cyc : list node) (t : table) : list fk :=
  filter (deferred cyc t) (t_fks t).
Definition find_table (n : node) : option table :=
  find (fun t => N.eqb (t_name t) n) tables.
End Sort.

(* ---------------------------------------------------------------- DDL plans *)
Inductive stmt :=
| CreateT (t : N) (fks : list fk)      (* CREATE TABLE t (..., inline FOREIGN KEY clauses) *)
| AddFK (t : N) (f : fk)               (* ALTER TABLE t ADD [CONSTRAINT name] FOREIGN KEY ... *)
| DropT (t : N)                        (* DROP TABLE t *)
| DropFK (t : N) (f : fk).             (* ALTER TABLE t DROP CONSTRAINT name *)

(* [ordered]: statements whose relative order is fixed by the code; [unordered]: the statements made
   from list(remaining_fkcs), emitted in set-iteration order - after the ordered ones for CREATE,
   before them for DROP *)
Inductive outcome :=
| Plan (ordered unordered : list stmt)
| ErrCircular        (* CircularDependencyError *)
| ErrCompile         (* CompileError: Can't emit DROP CONSTRAINT for constraint ...; it has no name *)
| ErrFuel.           (* model artefact; proved unreachable *)

Definition none_filter : fk -> option bool := fun _ => None.
(* SchemaDropper: "False if not self.dialect.supports_alter or constraint.name is None else None" *)
Definition drop_filter (f : fk) : option bool := if fk_named f then None else Some false.

(* "[t for t in tables if self._can_create_table(t)]":
   "not self.checkfirst & bool_to_check or not self._has_table(table, ...)" *)
Definition create_tables (existing : list N) (checkfirst : bool) (md : metadata) : list table :=
  filter (fun t => negb checkfirst || negb (memb (t_name t) existing)) md.
(* "[t for t in tables if self._can_drop_table(t)]" *)
Definition drop_tables (existing : list N) (checkfirst : bool) (md : metadata) : list table :=
  filter (fun t => negb checkfirst || memb (t_name t) existing) md.

Definition create_stmts (tables : list table) (cyc : list node) (o : list node) : list stmt :=
  flat_map (fun n => match find_table tables n with
                     | Some t => [CreateT n (inline_of none_filter tables cyc t)]
                     | None => []
                     end) o.
Definition alter_stmts (mk : N -> fk -> stmt) (filt : fk -> option bool) (tables : list table)
    (cyc : list node) : list stmt :=
  flat_map (fun t => map (mk (t_name t)) (deferred_of filt tables cyc t)) tables.

Definition create_plan (existing : list N) (checkfirst : bool) (md : metadata) : outcome :=
  let tables := create_tables existing checkfirst md in
  match sort_tables_and_constraints none_filter tables with
  | Ok (o, cyc, _) => Plan (create_stmts tables cyc o) (alter_stmts AddFK none_filter tables cyc)
  | Circular => ErrCircular
  | OutOfFuel => ErrFuel
  end.

Definition stmt_named (s : stmt) : bool :=
  match s with DropFK _ f => fk_named f | _ => true end.

Definition drop_plan (existing : list N) (checkfirst : bool) (md : metadata) : outcome :=
  let tables := drop_tables existing checkfirst md in
  match sort_tables_and_constraints drop_filter tables with
  | Ok (o, cyc, _) =>
    let alters := alter_stmts DropFK drop_filter tables cyc in
    if forallb stmt_named alters then Plan (map DropT (rev o)) alters else ErrCompile
  | Circular => ErrCircular
  | OutOfFuel => ErrFuel
  end.

Definition create_script (p : outcome) : option (list stmt) :=
  match p with Plan o u => Some (o ++ u) | _ => None end.
Definition drop_script (p : outcome) : option (list stmt) :=
  match p with Plan o u => Some (u ++ o) | _ => None end.

(* MetaData.sorted_tables: "ddl.sort_tables(sorted(self.tables.values(), key=lambda t: t.key))" *)
Fixpoint insert_table (t : table) (l : list table) : list table :=
  match l with
  | [] => [t]
  | u :: r => if N.leb (t_name t) (t_name u) then t :: l else u :: insert_table t r
  end.
Definition key_sort (md : metadata) : list table := fold_right insert_table [] md.
(* result: the table names, and whether the "Cannot correctly sort tables" warning was emitted *)
Definition sorted_tables (md : metadata) : res (list node * bool) :=
  match sort_tables_and_constraints none_filter (key_sort md) with
  | Ok (o, _, w) => Ok (o, w)
  | Circular => Circular
  | OutOfFuel => OutOfFuel
  end.

(* ---------------------------------------------------------------- reference database (spec side) *)
Definition db := list (N * list fk).      (* catalog: table name, its foreign key constraints *)

Definition has_table (n : N) (d : db) : bool := existsb (fun r => N.eqb (fst r) n) d.
Definition fks_in (n : N) (d : db) : list fk :=
  match find (fun r => N.eqb (fst r) n) d with Some r => snd r | None => [] end.
Definition has_fk (i : N) (fks : list fk) : bool := existsb (fun f => N.eqb (fk_id f) i) fks.

Definition upd_fks (n : N) (g : list fk -> list fk) (d : db) : db :=
  map (fun r => if N.eqb (fst r) n then (fst r, g (snd r)) else r) d.

(* [None] = the statement is rejected with an error *)
Definition exec1 (d : db) (s : stmt) : option db :=
  match s with
  | CreateT t fks =>
    if has_table t d then None                                               (* already exists *)
    else if forallb (fun f => N.eqb (fk_ref f) t || has_table (fk_ref f) d) fks
    then Some (d ++ [(t, fks)])
    else None                                                (* referenced table does not exist *)
  | AddFK t f =>
    if has_table t d && has_table (fk_ref f) d && negb (has_fk (fk_id f) (fks_in t d))
    then Some (upd_fks t (fun l => l ++ [f]) d)
    else None
  | DropT t =>
    if has_table t d
       && forallb (fun r => N.eqb (fst r) t || forallb (fun f => negb (N.eqb (fk_ref f) t)) (snd r)) d
    then Some (filter (fun r => negb (N.eqb (fst r) t)) d)
    else None                                  (* other objects depend on it / does not exist *)
  | DropFK t f =>
    if has_table t d && fk_named f && has_fk (fk_id f) (fks_in t d)
    then Some (upd_fks t (filter (fun g => negb (N.eqb (fk_id g) (fk_id f)))) d)
    else None
  end.

Fixpoint exec (d : db) (l : list stmt) : option db :=
  match l with
  | [] => Some d
  | s :: r => match exec1 d s with Some d' => exec d' r | None => None end
  end.

(* ---------------------------------------------------------------- vocabulary of the statements *)
(* MetaData.tables is a dict keyed by name; every ForeignKey resolves to a table of the MetaData
   (otherwise NoReferencedTableError); constraints of one table are distinct objects *)
Definition wf (md : metadata) : Prop :=
  NoDup (names md) /\
  (forall t f, In t md -> In f (t_fks t) -> In (fk_ref f) (names md)) /\
  (forall t, In t md -> NoDup (map fk_id (t_fks t))).

(* the database holds a part of the metadata: some of its tables, each with all its constraints,
   referentially closed *)
Definition consistent (d : db) (md : metadata) : Prop :=
  NoDup (map fst d) /\
  (forall n, In n (map fst d) -> In n (names md)) /\
  (forall t, In t md -> has_table (t_name t) d = true ->
     Permutation (fks_in (t_name t) d) (t_fks t) /\
     forall f, In f (t_fks t) -> has_table (fk_ref f) d = true).

(* the catalog is exactly the metadata (tables and constraints, as sets) *)
Definition cat_equiv (d : db) (md : metadata) : Prop :=
  Permutation (map fst d) (names md) /\
  forall t, In t md -> Permutation (fks_in (t_name t) d) (t_fks t).

(* the catalog made by declaring the metadata directly *)
Definition catalog_of (md : metadata) : db := map (fun t => (t_name t, t_fks t)) md.

(* ---------------------------------------------------------------- metadata histories *)
(* The MetaData a plan is computed from is the result of a history of Table(...) definitions,
   MetaData.remove(t) and Table(..., extend_existing=True).  MetaData.tables is a dict: a definition
   appends, remove deletes the key (a later definition of the same name goes to the END), extend
   keeps the position.  A ForeignKey given by name ("parent.id") refers to whatever table has that name
   NOW (MetaData._fk_memos re-points it when the name is defined again): [fk_ref] is a name, so
   resolution against the current tables is built into the model.  extend_existing: a re-specified
   column replaces the old column together with its ForeignKeyConstraint; other constraints stay
   (foreign_key_constraints is a set: kept sorted by id here). *)
Inductive step :=
| Define (t : table)        (* Table(name, md, ...) *)
| Remove (n : N)            (* md.remove(md.tables[name]) *)
| Extend (t : table).       (* Table(name, md, ..., extend_existing=True) *)

Fixpoint insert_fk (f : fk) (l : list fk) : list fk :=
  match l with
  | [] => [f]
  | g :: r => if N.leb (fk_id f) (fk_id g) then f :: l else g :: insert_fk f r
  end.
Definition sort_fks (l : list fk) : list fk := fold_right insert_fk [] l.
Definition extend_fks (old new : list fk) : list fk :=
  sort_fks (filter (fun f => negb (has_fk (fk_id f) new)) old ++ new).

(* [None]: InvalidRequestError "Table is already defined for this MetaData instance" *)
Definition apply_step (md : metadata) (s : step) : option metadata :=
  match s with
  | Define t => if memb (t_name t) (names md) then None else Some (md ++ [t])
  | Remove n => Some (filter (fun t => negb (N.eqb (t_name t) n)) md)
  | Extend t =>
    if memb (t_name t) (names md)
    then Some (map (fun u => if N.eqb (t_name u) (t_name t)
                             then mktable (t_name u) (extend_fks (t_fks u) (t_fks t)) (t_extra u ++ t_extra t)
                             else u) md)
    else Some (md ++ [t])
  end.
Fixpoint run_history (md : metadata) (h : list step) : option metadata :=
  match h with
  | [] => Some md
  | s :: r => match apply_step md s with Some md' => run_history md' r | None => None end
  end.
Definition current (h : list step) : option metadata := run_history [] h.
