(* C04 - escaping of bind names (bindparam_string / bindname_escape_characters / escaped_bind_names) *)
From Coq Require Import List NArith ZArith Bool Lia.
Import ListNotations.
From SAV.sql Require Import Params ParamsDict.

(* side conditions on the table, evaluated on the table extracted from the live module *)
(* no replacement character is itself an escaped character *)
Definition table_closed (tab : list (N * N)) : bool :=
  forallb (fun kr => match tab_get (snd kr) tab with None => true | Some _ => false end) tab.
(* some character is really replaced by a different one *)
Definition table_nontrivial (tab : list (N * N)) : bool :=
  existsb (fun kr => match tab_get (fst kr) tab with Some r => negb (N.eqb (fst kr) r) | None => false end) tab.

Section Esc.
Variable tab : list (N * N).

Lemma tab_get_In : forall c r t, tab_get c t = Some r -> In (c, r) t.
Proof.
  induction t as [|[k r'] t IH]; cbn [tab_get]; [discriminate|].
  destruct (N.eqb_spec c k) as [->|Hn]; intro H.
  - inversion H; subst. left. reflexivity.
  - right. apply IH. exact H.
Qed.

Lemma closed_repl : table_closed tab = true -> forall c r, tab_get c tab = Some r -> tab_get r tab = None.
Proof.
  intros Hc c r H. apply tab_get_In in H. unfold table_closed in Hc. rewrite forallb_forall in Hc.
  specialize (Hc _ H). cbn [snd] in Hc. destruct (tab_get r tab); [discriminate|reflexivity].
Qed.

Lemma esc_char_clean : table_closed tab = true -> forall c, tab_get (esc_char tab c) tab = None.
Proof.
  intros Hc c. unfold esc_char. destruct (tab_get c tab) eqn:E; [exact (closed_repl Hc _ _ E)|exact E].
Qed.

Lemma needs_esc_esc : table_closed tab = true -> forall n, needs_esc tab (esc tab n) = false.
Proof.
  intros Hc n. induction n as [|c n IH]; [reflexivity|].
  cbn [esc map needs_esc existsb]. rewrite (esc_char_clean Hc c). cbn [orb]. exact IH.
Qed.

Lemma needs_esc_false_esc : forall n, needs_esc tab n = false -> esc tab n = n.
Proof.
  induction n as [|c n IH]; [reflexivity|]. cbn [needs_esc existsb esc map]. intro H.
  apply orb_false_iff in H. destruct H as [H1 H2]. unfold esc_char.
  destruct (tab_get c tab); [discriminate|]. f_equal. apply IH. exact H2.
Qed.

Lemma esc_idem : table_closed tab = true -> forall n, esc tab (esc tab n) = esc tab n.
Proof. intros Hc n. apply needs_esc_false_esc. apply needs_esc_esc. exact Hc. Qed.

(* the escape map of a closed table that replaces anything cannot be injective: c and its replacement
   r are both sent to r *)
Lemma esc_not_injective : table_closed tab = true -> table_nontrivial tab = true ->
  exists a b, a <> b /\ esc tab a = esc tab b.
Proof.
  intros Hc Hn. unfold table_nontrivial in Hn. apply existsb_exists in Hn.
  destruct Hn as [[c r0] [_ H]]. cbn [fst] in H. destruct (tab_get c tab) as [r|] eqn:E; [|discriminate].
  apply negb_true_iff in H. apply N.eqb_neq in H.
  exists [c], [r]. split; [congruence|].
  cbn [esc map]. unfold esc_char. rewrite E, (closed_repl Hc _ _ E). reflexivity.
Qed.

(* ---- escaped_bind_names ---- *)
Lemma ebn_fold_get : forall order d n,
  dget n (fold_left (fun d n => if needs_esc tab n then dset n (esc tab n) d else d) order d) =
  if memb n order && needs_esc tab n then Some (esc tab n) else dget n d.
Proof.
  induction order as [|m order IH]; intros d n; [reflexivity|].
  cbn [fold_left]. rewrite IH. cbn [memb existsb]. fold (memb n order).
  destruct (str_eqb_spec n m) as [->|Hn]; cbn [orb].
  - destruct (needs_esc tab m) eqn:E.
    + rewrite andb_true_r. destruct (memb m order); [reflexivity|]. apply dget_dset_same.
    + rewrite !andb_false_r. reflexivity.
  - destruct (memb n order && needs_esc tab n); [reflexivity|].
    destruct (needs_esc tab m); [apply dget_dset_other; exact Hn|reflexivity].
Qed.

Lemma ebn_get : forall order n,
  dget n (ebn_of tab order) = if memb n order && needs_esc tab n then Some (esc tab n) else None.
Proof. intros. unfold ebn_of. rewrite ebn_fold_get. reflexivity. Qed.

(* escaped_bind_names.get(name, name) is the escaped name, for every bind of the statement *)
Lemma ebn_get_or_key_in : forall order n, In n order -> dget_or_key (ebn_of tab order) n = esc tab n.
Proof.
  intros order n H. unfold dget_or_key. rewrite ebn_get. apply memb_In in H. rewrite H. cbn [andb].
  destruct (needs_esc tab n) eqn:E; [reflexivity|]. symmetry. apply needs_esc_false_esc. exact E.
Qed.
Lemma ebn_get_or_key_out : forall order n, ~ In n order -> dget_or_key (ebn_of tab order) n = n.
Proof.
  intros order n H. unfold dget_or_key. rewrite ebn_get. apply memb_false in H. rewrite H. reflexivity.
Qed.

Lemma ebn_fold_keys : forall order d,
  NoDup (keys d) -> (forall k, In k (keys d) -> needs_esc tab k = true) ->
  let r := fold_left (fun d n => if needs_esc tab n then dset n (esc tab n) d else d) order d in
  NoDup (keys r) /\ (forall k, In k (keys r) -> (In k (keys d) \/ In k order) /\ needs_esc tab k = true).
Proof.
  induction order as [|m order IH]; intros d Hnd Hk; cbn [fold_left].
  - split; [exact Hnd|]. intros k H. split; [left; exact H|apply Hk; exact H].
  - destruct (needs_esc tab m) eqn:E.
    + destruct (IH (dset m (esc tab m) d)) as [H1 H2].
      * apply NoDup_keys_dset. exact Hnd.
      * intros k H. apply In_keys_dset in H. destruct H as [->|H]; [exact E|apply Hk; exact H].
      * split; [exact H1|]. intros k H. destruct (H2 k H) as [[H3|H3] H4]; split; try exact H4.
        -- apply In_keys_dset in H3. destruct H3 as [->|H3]; [right; left; reflexivity|left; exact H3].
        -- right. right. exact H3.
    + destruct (IH d Hnd Hk) as [H1 H2]. split; [exact H1|]. intros k H.
      destruct (H2 k H) as [[H3|H3] H4]; split; try exact H4; [left; exact H3|right; right; exact H3].
Qed.

Lemma ebn_keys : forall order,
  NoDup (keys (ebn_of tab order)) /\
  (forall k, In k (keys (ebn_of tab order)) -> In k order /\ needs_esc tab k = true).
Proof.
  intro order. destruct (ebn_fold_keys order [] (NoDup_nil _) (fun k H => match H with end)) as [H1 H2].
  split; [exact H1|]. intros k H. destruct (H2 k H) as [[[]|H3] H4]. split; assumption.
Qed.

(* every entry of escaped_bind_names is (n, esc n) *)
Lemma ebn_entries : forall order k e, In (k, e) (ebn_of tab order) -> e = esc tab k /\ In k order.
Proof.
  intros order k e H. destruct (ebn_keys order) as [Hnd Hk].
  assert (Hin : In k (keys (ebn_of tab order))) by (apply in_map_iff; exists (k, e); split; [reflexivity|exact H]).
  destruct (Hk k Hin) as [Ho Hne]. split; [|exact Ho].
  assert (Hg : dget k (ebn_of tab order) = Some e).
  { clear Hk Hin Ho Hne. induction (ebn_of tab order) as [|[k' e'] d IH]; [destruct H|].
    cbn [keys map fst] in Hnd. inversion Hnd as [|? ? Hni Hnd']; subst. cbn [dget]. destruct H as [H|H].
    - inversion H; subst. rewrite str_eqb_refl. reflexivity.
    - rewrite str_eqb_neq; [apply IH; assumption|]. intro; subst. apply Hni.
      apply in_map_iff. exists (k', e). split; [reflexivity|exact H]. }
  rewrite ebn_get in Hg. destruct (memb k order && needs_esc tab k); congruence.
Qed.
End Esc.
