(* C56 - MySQL ON DUPLICATE KEY UPDATE: which assignments are rendered, and in which order. *)
From Coq Require Import List ZArith Bool Lia Permutation.
Import ListNotations.
From SAV.sql Require Import Upsert UpsertAsm UpsertParse UpsertSpec UpsertSynProofs UpsertAsmProofs.

Lemma my_lookup_none : forall k upd, ~ In k (map fst upd) -> my_lookup k upd = None.
Proof.
  induction upd as [|[k' v] upd IH]; intros H; [reflexivity|]. cbn [my_lookup].
  rewrite IH by (intros X; apply H; right; exact X).
  destruct (Z.eqb k k') eqn:E; [|reflexivity]. apply Z.eqb_eq in E. exfalso. apply H. left. symmetry. exact E.
Qed.

Lemma my_lookup_nodup : forall k e upd, NoDup (map fst upd) -> In (k, e) upd -> my_lookup k upd = Some e.
Proof.
  induction upd as [|[k' v] upd IH]; intros Hnd Hin; [destruct Hin|].
  cbn [map fst] in Hnd. inversion Hnd as [|? ? Hnin Hnd']; subst. cbn [my_lookup].
  destruct Hin as [Heq|Hin].
  - injection Heq as -> ->. rewrite my_lookup_none by exact Hnin. rewrite Z.eqb_refl. reflexivity.
  - rewrite (IH Hnd' Hin). reflexivity.
Qed.

Lemma col_by_key_idx : forall cols k,
  col_by_key cols k = match key_idx cols k with Some i => Some (nth i cols dflt_col) | None => None end.
Proof.
  induction cols as [|c cs IH]; intros k; [reflexivity|]. cbn [col_by_key key_idx].
  destruct (Z.eqb (ckey c) k); [reflexivity|]. rewrite IH. destruct (key_idx cs k); reflexivity.
Qed.

Section My.
  Variable cols : list coldesc.
  Hypothesis Hwf : wf_cols cols.

  Definition F (upd : list (Z * expr)) (c : coldesc) : list (lhs * expr) :=
    match my_lookup (ckey c) upd with Some e => [(LName (cname c), e)] | None => [] end.

  Lemma A_col : forall i e, i < length cols ->
    A cols (LName (cname (nth i cols dflt_col)), e) = set_item (length cols) (Some i) e.
  Proof.
    intros i e Hi. unfold A. cbn [fst snd lhs_idx]. fold (col_name cols i).
    rewrite name_idx_nth by (apply Hwf || exact Hi). reflexivity.
  Qed.

  (* ordered form (list of tuples): the assignments are rendered in the order given *)
  Theorem my_asm_ordered : forall upd, NoDup (map fst upd) ->
    map (A cols) (my_asm cols true upd) = my_spec_ordered cols upd.
  Proof.
    intros upd Hnd. unfold my_asm, my_cols. fold (F upd). rewrite flat_map_app.
    assert (H2 : forall l, flat_map (F upd) (filter (fun c => negb (key_mem (ckey c) (map fst upd))) l) = []).
    { induction l as [|c cs IH]; [reflexivity|]. cbn [filter].
      destruct (key_mem (ckey c) (map fst upd)) eqn:E; cbn [negb]; [exact IH|].
      cbn [flat_map]. rewrite IH, app_nil_r. unfold F. rewrite my_lookup_none; [reflexivity|].
      intros Hin. unfold key_mem in E. assert (existsb (Z.eqb (ckey c)) (map fst upd) = true).
      { apply existsb_exists. exists (ckey c). split; [exact Hin|apply Z.eqb_refl]. } congruence. }
    rewrite H2, app_nil_r. unfold my_spec_ordered.
    assert (G : forall l, incl l upd ->
              map (A cols) (flat_map (F upd) (flat_map (fun k => match col_by_key cols k with Some c => [c] | None => [] end) (map fst l)))
              = flat_map (fun kv => match key_idx cols (fst kv) with
                                    | Some i => [set_item (length cols) (Some i) (snd kv)] | None => [] end) l).
    { induction l as [|[k e] l IH]; intros Hincl; [reflexivity|].
      cbn [map fst flat_map snd]. rewrite flat_map_app, map_app.
      rewrite IH by (intros x Hx; apply Hincl; right; exact Hx). f_equal.
      rewrite col_by_key_idx. destruct (key_idx cols k) as [i|] eqn:Ek; [|reflexivity].
      destruct (key_idx_some _ _ _ Ek) as [Hi Hkey]. cbn [flat_map]. rewrite app_nil_r. unfold F.
      rewrite Hkey. rewrite (my_lookup_nodup k e upd Hnd) by (apply Hincl; left; reflexivity).
      cbn [map]. rewrite A_col by exact Hi. reflexivity. }
    apply G. apply incl_refl.
  Qed.

  (* dict form: table column order *)
  Theorem my_asm_dict : forall upd,
    map (A cols) (my_asm cols false upd) =
    flat_map (fun i => match my_lookup (ckey (nth i cols dflt_col)) upd with
                       | Some e => [set_item (length cols) (Some i) e]
                       | None => []
                       end) (seq 0 (length cols)).
  Proof.
    intros upd. unfold my_asm, my_cols. fold (F upd).
    assert (G : forall cs i, suffix_at cols cs i ->
              map (A cols) (flat_map (F upd) cs) =
              flat_map (fun i => match my_lookup (ckey (nth i cols dflt_col)) upd with
                                 | Some e => [set_item (length cols) (Some i) e]
                                 | None => []
                                 end) (seq i (length cs))).
    { induction cs as [|c cs IH]; intros i Hsuf; [reflexivity|].
      cbn [flat_map length seq]. rewrite map_app. rewrite (IH (S i)) by (eapply suffix_tl; exact Hsuf). f_equal.
      destruct (Hsuf 0) as [Hc Hi]; [simpl; lia|]. cbn [nth] in Hc. rewrite Nat.add_0_r in *.
      unfold F. rewrite <- Hc. destruct (my_lookup (ckey c) upd) as [e|]; [|reflexivity].
      cbn [map]. rewrite Hc. rewrite A_col by exact Hi. reflexivity. }
    apply G. apply suffix_all.
  Qed.
End My.
