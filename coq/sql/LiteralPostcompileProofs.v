(* C05 - post-compile substitution is ONE pass over the original statement text: the replacement
   values (rendered literals) are spliced in verbatim and never scanned again, whatever token-like
   text they contain. *)
From Coq Require Import List NArith ZArith Bool Lia.
Import ListNotations.
From SAV.sql Require Import Literal.
Open Scope N_scope.

(* a statement template: text chunks and parameter tokens *)
Inductive piece := Txt (t : str) | Hole (name : str).
Definition piece_text (p : piece) : str :=
  match p with Txt t => t | Hole n => PC_PREFIX ++ n ++ [93] end.
Definition tmpl_text (ps : list piece) : str := flat_map piece_text ps.
Fixpoint tmpl_fill (f : str -> option str) (ps : list piece) : pcres :=
  match ps with
  | [] => POk []
  | Txt t :: r => match tmpl_fill f r with POk o => POk (t ++ o) | e => e end
  | Hole n :: r =>
    match f n with
    | Some v => match tmpl_fill f r with POk o => POk (v ++ o) | e => e end
    | None => PKeyError
    end
  end.

(* a text chunk in which no token can start: no "_[" and no trailing "_" *)
Fixpoint chunk_ok (t : str) : bool :=
  match t with
  | [] => true
  | c :: r =>
    match r with
    | [] => negb (c =? 95)
    | c2 :: _ => negb ((c =? 95) && (c2 =? 91)) && chunk_ok r
    end
  end.
Definition piece_ok (p : piece) : bool :=
  match p with Txt t => chunk_ok t | Hole n => name_ok n end.

Lemma pcsub_skip f a : forall k r, pcsub f (length a + k) (a ++ r) = pcsub f k r.
Proof. induction a as [|c a IH]; intros k r; [reflexivity|]. cbn [length app plus pcsub]. apply IH. Qed.

Lemma strip_prefix_app p r : strip_prefix p (p ++ r) = Some r.
Proof. induction p as [|a p IH]; [reflexivity|]. cbn [app strip_prefix]. rewrite N.eqb_refl. exact IH. Qed.

Lemma span_rb_name n r : forallb (fun c => negb (is_ws c) && negb (c =? 93)) n = true ->
  span_rb (n ++ 93 :: r) = (n, 93 :: r).
Proof.
  induction n as [|c n IH]; intros H; [reflexivity|].
  cbn [forallb] in H. apply andb_prop in H. destruct H as [H1 H2]. apply andb_prop in H1.
  destruct H1 as [_ H1]. apply negb_true_iff in H1.
  cbn [app span_rb]. rewrite H1, (IH H2). reflexivity.
Qed.

Lemma tok_at_hole n r : name_ok n = true -> tok_at (PC_PREFIX ++ n ++ 93 :: r) = Some (n, r).
Proof.
  intros H. unfold tok_at. rewrite strip_prefix_app.
  pose proof H as H'. unfold name_ok in H'. apply andb_prop in H'. destruct H' as [_ H2].
  rewrite (span_rb_name n r H2), H. reflexivity.
Qed.

Lemma pcsub_hole f n v r : name_ok n = true -> f n = Some v ->
  pcsub f 0 (PC_PREFIX ++ n ++ 93 :: r) = match pcsub f 0 r with POk o => POk (v ++ o) | e => e end.
Proof.
  intros Hn Hf. pose proof (tok_at_hole n r Hn) as Ht.
  change (PC_PREFIX ++ n ++ 93 :: r) with (95 :: (tl PC_PREFIX ++ n ++ 93 :: r)) in *.
  cbn [pcsub]. rewrite Ht, Hf.
  replace (tl PC_PREFIX ++ n ++ 93 :: r) with ((tl PC_PREFIX ++ n ++ [93]) ++ r)
    by (rewrite <- !app_assoc; reflexivity).
  replace (15 + length n)%nat with (Nat.add (length (tl PC_PREFIX ++ n ++ [93])) 0)
    by (rewrite !app_length; cbn [tl PC_PREFIX length]; lia).
  rewrite pcsub_skip. reflexivity.
Qed.

Lemma pcsub_hole_missing f n r : name_ok n = true -> f n = None ->
  pcsub f 0 (PC_PREFIX ++ n ++ 93 :: r) = PKeyError.
Proof.
  intros Hn Hf. pose proof (tok_at_hole n r Hn) as Ht.
  change (PC_PREFIX ++ n ++ 93 :: r) with (95 :: (tl PC_PREFIX ++ n ++ 93 :: r)) in *.
  cbn [pcsub]. rewrite Ht, Hf. reflexivity.
Qed.

Lemma strip3 c c2 c3 x r : strip_prefix PC_PREFIX (c :: c2 :: c3 :: x) = Some r ->
  c = 95 /\ c2 = 95 /\ c3 = 91.
Proof.
  unfold PC_PREFIX. cbn [strip_prefix].
  destruct (N.eqb_spec 95 c); [|discriminate]. destruct (N.eqb_spec 95 c2); [|discriminate].
  destruct (N.eqb_spec 91 c3); [|discriminate]. intros _. repeat split; symmetry; assumption.
Qed.

(* no token starts inside an admissible chunk, whatever follows it *)
Lemma tok_at_chunk c t r : chunk_ok (c :: t) = true -> tok_at ((c :: t) ++ r) = None.
Proof.
  intros H. unfold tok_at.
  destruct (strip_prefix PC_PREFIX ((c :: t) ++ r)) as [x|] eqn:E; [|reflexivity]. exfalso.
  destruct t as [|c2 t].
  - cbn [chunk_ok] in H. apply negb_true_iff in H. apply N.eqb_neq in H.
    cbn [app] in E. unfold PC_PREFIX in E. cbn [strip_prefix] in E.
    destruct (N.eqb_spec 95 c); [congruence|discriminate].
  - cbn [chunk_ok] in H. apply andb_prop in H. destruct H as [H1 H2]. apply negb_true_iff in H1.
    destruct t as [|c3 t].
    + cbn [chunk_ok] in H2. apply negb_true_iff in H2. apply N.eqb_neq in H2.
      cbn [app] in E. unfold PC_PREFIX in E. cbn [strip_prefix] in E.
      destruct (N.eqb_spec 95 c); [|discriminate]. destruct (N.eqb_spec 95 c2); [congruence|discriminate].
    + cbn [app] in E. apply strip3 in E. destruct E as (_ & -> & ->).
      cbn [chunk_ok] in H2. apply andb_prop in H2. destruct H2 as [H2 _].
      apply negb_true_iff in H2. cbn in H2. discriminate.
Qed.

Lemma chunk_ok_tail c t : chunk_ok (c :: t) = true -> chunk_ok t = true.
Proof. destruct t as [|c2 t]; [reflexivity|]. cbn [chunk_ok]. intros H. apply andb_prop in H. tauto. Qed.

Lemma pcsub_chunk f t : forall r, chunk_ok t = true ->
  pcsub f 0 (t ++ r) = match pcsub f 0 r with POk o => POk (t ++ o) | e => e end.
Proof.
  induction t as [|c t IH]; intros r H.
  - cbn [app]. destruct (pcsub f 0 r); reflexivity.
  - pose proof (tok_at_chunk c t r H) as Ht. cbn [app] in *. cbn [pcsub]. rewrite Ht.
    rewrite (IH r (chunk_ok_tail c t H)). destruct (pcsub f 0 r); reflexivity.
Qed.

(* the result is the template with every token replaced by its value, verbatim: the values are not
   looked at (a value may itself contain  __[POSTCOMPILE_<any name>] ) *)
Theorem postcompile_single_pass : forall f ps,
  forallb piece_ok ps = true -> pcsub f 0 (tmpl_text ps) = tmpl_fill f ps.
Proof.
  intros f ps. unfold tmpl_text. induction ps as [|p ps IH]; intros H; [reflexivity|].
  cbn [forallb] in H. apply andb_prop in H. destruct H as [Hp Hps]. specialize (IH Hps).
  cbn [flat_map]. destruct p as [t|n]; cbn [piece_text piece_ok tmpl_fill] in *.
  - rewrite (pcsub_chunk f t _ Hp), IH. reflexivity.
  - rewrite <- app_assoc. cbn [app]. destruct (f n) as [v|] eqn:Ef.
    + rewrite <- app_assoc. cbn [app]. rewrite (pcsub_hole f n v _ Hp Ef), IH. reflexivity.
    + rewrite <- app_assoc. cbn [app]. apply (pcsub_hole_missing f n _ Hp Ef).
Qed.

(* consequence: two value assignments that agree on the template's parameters up to one value give
   results that differ exactly by that value - in particular a value that spells another parameter's
   token is NOT expanded *)
Definition tok (n : str) : str := PC_PREFIX ++ n ++ [93].
Example postcompile_value_not_rescanned :
  let f := fun n => if str_eqb n [97] then Some (39 :: tok [98] ++ [39])      (* a = '__[POSTCOMPILE_b]' *)
                    else if str_eqb n [98] then Some [39; 120; 39] else None in
  pcsub f 0 (tmpl_text [Txt [40]; Hole [97]; Txt [44; 32]; Hole [98]; Txt [41]])
  = POk ([40] ++ (39 :: tok [98] ++ [39]) ++ [44; 32] ++ [39; 120; 39] ++ [41]).
Proof. vm_compute. reflexivity. Qed.
