(* Proofs about the per-batch parameter expansion of IMV.v: which value the database binds to which
   placeholder of the rewritten statement (positional / numeric / named paramstyles). *)
From Coq Require Import List ZArith Bool Lia Arith ZifyBool.
Import ListNotations.
From SAV.sql Require Import IMV.
Open Scope Z_scope.

(* ---------------- expand_pos_lower_index / expand_pos_upper_index ---------------- *)
Lemma positions_from_bounds i mask x : In x (positions_from i mask) -> (i <= x < i + length mask)%nat.
Proof.
  revert i. induction mask as [|m t IH]; intros i H; cbn in H; [destruct H|].
  destruct m; [destruct H as [<-|H]|]; cbn [length]; try lia; apply IH in H; lia.
Qed.
Lemma fold_min_le r x : (fold_left Nat.min r x <= x)%nat.
Proof. revert x. induction r as [|y t IH]; intros x; cbn; [lia|]. specialize (IH (Nat.min x y)). lia. Qed.
Lemma fold_max_ge r x : (x <= fold_left Nat.max r x)%nat.
Proof. revert x. induction r as [|y t IH]; intros x; cbn; [lia|]. specialize (IH (Nat.max x y)). lia. Qed.
Lemma fold_max_bound r x b : (x < b)%nat -> (forall y, In y r -> (y < b)%nat) -> (fold_left Nat.max r x < b)%nat.
Proof.
  revert x. induction r as [|y t IH]; intros x Hx Hr; cbn; [exact Hx|].
  apply IH; [|intros z Hz; apply Hr; right; exact Hz]. specialize (Hr y (or_introl eq_refl)). lia.
Qed.
Lemma lower_le_upper mask : (lower_index mask <= upper_index mask <= length mask)%nat.
Proof.
  unfold lower_index, upper_index, expand_positions.
  destruct (positions_from 0 mask) as [|x r] eqn:E; [lia|].
  pose proof (fold_min_le r x). pose proof (fold_max_ge r x).
  assert (fold_left Nat.max r x < length mask)%nat.
  { apply fold_max_bound.
    - assert (In x (positions_from 0 mask)) by (rewrite E; left; reflexivity). apply positions_from_bounds in H1. lia.
    - intros y Hy. assert (In y (positions_from 0 mask)) by (rewrite E; right; exact Hy). apply positions_from_bounds in H1. lia. }
  lia.
Qed.

(* ---------------- slices of a concatenation ---------------- *)
Lemma slice_all {A} (l : list A) : slice 0 (length l) l = l.
Proof. unfold slice. rewrite Nat.sub_0_r. cbn [skipn]. apply firstn_all. Qed.
Lemma slice_length {A} lo hi (l : list A) : (lo <= hi <= length l)%nat -> length (slice lo hi l) = (hi - lo)%nat.
Proof. intros H. unfold slice. rewrite firstn_length, skipn_length. lia. Qed.

Lemma skipn_app_exact {A} (pre l : list A) : skipn (length pre) (pre ++ l) = l.
Proof. induction pre; cbn; [reflexivity|assumption]. Qed.
Lemma firstn_app_exact {A} (pre l : list A) : firstn (length pre) (pre ++ l) = pre.
Proof. induction pre as [|a t IH]; cbn; [reflexivity|]. rewrite IH. reflexivity. Qed.

(* the i-th group of k consecutive values after the first |pre| ones *)
Definition db_groups {A} (lo k n : nat) (params : list A) : list (list A) :=
  map (fun i => slice (lo + i * k) (lo + (i + 1) * k) params) (seq 0 n).

Lemma db_groups_concat {A} (k : nat) (ls : list (list A)) : Forall (fun l => length l = k) ls ->
  forall pre post, db_groups (length pre) k (length ls) (pre ++ concat ls ++ post) = ls.
Proof.
  induction 1 as [|l r Hl Hr IH]; intros pre post; [reflexivity|].
  unfold db_groups. cbn [length seq map concat]. f_equal.
  - unfold slice. replace (length pre + (0 + 1) * k - (length pre + 0 * k))%nat with k by lia.
    rewrite Nat.mul_0_l, Nat.add_0_r, skipn_app_exact, <- app_assoc, <- Hl. apply firstn_app_exact.
  - rewrite <- seq_shift, map_map.
    specialize (IH (pre ++ l) post). unfold db_groups in IH.
    rewrite <- IH at 2. apply map_ext. intros i.
    rewrite app_length, Hl, <- !app_assoc. f_equal; lia.
Qed.

(* ---------------- positional / numeric ---------------- *)
Record wf_layout (ly : layout) (items : list ptuple) : Prop := {
  wf_len : Forall (fun p => length p = length (l_mask ly)) items;     (* every tuple follows positiontup *)
  wf_count : l_num_ins ly = Z.of_nat (upper_index (l_mask ly) - lower_index (l_mask ly))
    (* the bind parameters counted inside VALUES are the contiguous block found in positiontup
       (the `assert len(all_expand_positions) == upper - lower` of the code) *)
}.

Section Positional.
Variable ly : layout.
Let lo := lower_index (l_mask ly).
Let hi := upper_index (l_mask ly).
Let k := (hi - lo)%nat.

(* one uniform description of replaced_parameters, whichever of the two branches built it *)
Lemma expand_positional_params items cbs b0 rest : items = b0 :: rest -> wf_layout ly items ->
  exists e, expand_positional ly items cbs = Ok e /\
    e_params e = firstn lo b0 ++ concat (map (slice lo hi) items) ++ skipn hi b0 /\
    e_groups e = (if l_embed ly then Z.of_nat (length items) else cbs) /\
    e_counters e = (if l_embed ly then zrange 0 (length items) else []) /\
    e_numbers e = (if numeric_guard (l_numeric ly) (l_num_ins ly)
                   then zrange (Z.of_nat lo + 1) (Z.to_nat (l_num_ins ly * cbs)) else []).
Proof.
  intros Hitems [Hlen Hcnt]. subst items. unfold expand_positional. fold lo hi.
  pose proof (lower_le_upper (l_mask ly)) as Hb. fold lo hi in Hb.
  assert (Hb0 : length b0 = length (l_mask ly)) by (inversion Hlen; assumption).
  destruct (l_num_ins ly =? Z.of_nat (length b0)) eqn:E.
  - (* no parameters outside VALUES *)
    assert (lo = 0%nat /\ hi = length b0) as [Hlo Hhi] by (fold lo hi in Hcnt; lia).
    eexists; split; [reflexivity|]. cbn [e_params e_groups e_counters e_numbers].
    split; [|split; [reflexivity|split; [reflexivity|]]].
    + rewrite Hlo, Hhi. cbn [firstn app]. rewrite skipn_all. f_equal. f_equal.
      rewrite <- (map_id (b0 :: rest)) at 1. apply map_ext_in. intros p Hp.
      eapply Forall_forall in Hlen; [|exact Hp]. rewrite <- Hb0 in Hlen. rewrite <- Hlen. symmetry. apply slice_all.
    + unfold py_range, numeric_start, numeric_end.
      destruct (numeric_guard (l_numeric ly) (l_num_ins ly)); [|reflexivity]. f_equal. lia.
  - eexists; split; [reflexivity|]. cbn [e_params e_groups e_counters e_numbers].
    split; [reflexivity|split; [reflexivity|split; [reflexivity|]]].
    unfold py_range, numeric_start, numeric_end.
    destruct (numeric_guard (l_numeric ly) (l_num_ins ly)); [|reflexivity]. f_equal. lia.
Qed.

(* what the database binds: the placeholders are consumed left to right; |lo| of them precede the
   VALUES clause, then come [groups] groups of k, then the rest *)
Theorem expand_positional_values items cbs b0 rest : items = b0 :: rest -> wf_layout ly items ->
  cbs = Z.of_nat (length items) ->
  exists e, expand_positional ly items cbs = Ok e /\
    e_groups e = Z.of_nat (length items) /\
    db_groups lo k (length items) (e_params e) = map (slice lo hi) items /\   (* VALUES row i = parameter set i *)
    firstn lo (e_params e) = firstn lo b0 /\                                    (* parameters left of VALUES *)
    skipn (lo + length items * k) (e_params e) = skipn hi b0 /\                 (* parameters right of VALUES *)
    (l_embed ly = true -> e_counters e = zrange 0 (length items)).
Proof.
  intros Hitems Hwf Hcbs.
  destruct (expand_positional_params items cbs b0 rest Hitems Hwf) as (e & He & Hp & Hg & Hc & _).
  exists e. split; [exact He|].
  pose proof (lower_le_upper (l_mask ly)) as Hb. fold lo hi in Hb.
  destruct Hwf as [Hlen _].
  assert (Hb0 : length b0 = length (l_mask ly)) by (subst items; inversion Hlen; assumption).
  assert (Hlo : length (firstn lo b0) = lo) by (rewrite firstn_length; lia).
  assert (Hall : Forall (fun l => length l = k) (map (slice lo hi) items)).
  { apply Forall_forall. intros l Hl. apply in_map_iff in Hl. destruct Hl as (p & <- & Hp').
    eapply Forall_forall in Hlen; [|exact Hp']. apply slice_length. lia. }
  split; [rewrite Hg; destruct (l_embed ly); [reflexivity|exact Hcbs]|].
  split; [|split; [|split]].
  - rewrite Hp. rewrite <- Hlo at 1. rewrite <- (map_length (slice lo hi) items) at 1.
    apply db_groups_concat. exact Hall.
  - rewrite Hp. rewrite <- Hlo at 1. apply firstn_app_exact.
  - rewrite Hp, app_assoc.
    assert (Hl2 : length (firstn lo b0 ++ concat (map (slice lo hi) items)) = (lo + length items * k)%nat).
    { rewrite app_length, Hlo. f_equal. clear - Hall. induction items as [|p r IH]; [reflexivity|].
      cbn [map concat length]. inversion Hall; subst. rewrite app_length, IH by assumption. lia. }
    rewrite <- Hl2. apply skipn_app_exact.
  - intros Hem. rewrite Hc, Hem. reflexivity.
Qed.

(* numeric paramstyle: the VALUES placeholders are renumbered lo+1, lo+2, ... contiguously, so the
   j-th of them (group j / k, column j mod k) addresses replaced_parameters[lo + j], the very slot a
   left-to-right binding reads *)
Lemma zrange_nth start n j : (j < n)%nat -> nth j (zrange start n) 0 = start + Z.of_nat j.
Proof.
  revert start j. induction n as [|m IH]; intros start j H; [lia|]. destruct j; cbn [zrange nth]; [lia|].
  rewrite IH by lia. lia.
Qed.
Lemma zrange_length start n : length (zrange start n) = n.
Proof. revert start. induction n; intros; cbn; [reflexivity|]. rewrite IHn. reflexivity. Qed.

Theorem numeric_renumber_contiguous items cbs b0 rest : items = b0 :: rest -> wf_layout ly items ->
  cbs = Z.of_nat (length items) -> l_numeric ly = true -> (0 < k)%nat ->
  exists e, expand_positional ly items cbs = Ok e /\
    length (e_numbers e) = (k * length items)%nat /\
    forall j, (j < k * length items)%nat -> nth j (e_numbers e) 0 = Z.of_nat (lo + j) + 1.
Proof.
  intros Hitems Hwf Hcbs Hnum Hk.
  destruct (expand_positional_params items cbs b0 rest Hitems Hwf) as (e & He & _ & _ & _ & Hn).
  exists e. split; [exact He|]. destruct Hwf as [_ Hcnt]. fold lo hi k in Hcnt.
  unfold numeric_guard in Hn. rewrite Hnum in Hn. destruct (l_num_ins ly >? 0) eqn:E; [|lia]. cbn [andb] in Hn. rewrite Hn.
  replace (Z.to_nat (l_num_ins ly * cbs)) with (k * length items)%nat by lia.
  split; [apply zrange_length|]. intros j Hj. rewrite zrange_nth by exact Hj. lia.
Qed.
End Positional.

(* ---------------- named ---------------- *)
Section SelectMask.
Variable want : bool.
Fixpoint sel (j : nat) (mask : list bool) (l : list Z) : list (nat * Z) :=
  match mask, l with
  | m :: mt, x :: lt => if Bool.eqb m want then (j, x) :: sel (S j) mt lt else sel (S j) mt lt
  | _, _ => []
  end.
Lemma select_mask_sel mask l : select_mask want mask l = sel 0 mask l.
Proof.
  reflexivity.
Qed.
Lemma sel_in base mask l j v : In (j, v) (sel base mask l) <->
  exists j0, j = (base + j0)%nat /\ nth_error mask j0 = Some want /\ nth_error l j0 = Some v.
Proof.
  revert base l. induction mask as [|m mt IH]; intros base l.
  - cbn. split; [intros []|intros (j0 & _ & H & _); destruct j0; discriminate].
  - destruct l as [|x lt].
    + cbn. split; [intros []|intros (j0 & _ & _ & H); destruct j0; discriminate].
    + cbn [sel]. assert (Hrest : In (j, v) (sel (S base) mt lt) <->
        exists j0, j = (base + S j0)%nat /\ nth_error mt j0 = Some want /\ nth_error lt j0 = Some v).
      { rewrite IH. split; intros (j0 & H1 & H2 & H3); exists j0; repeat split; try assumption; lia. }
      destruct (Bool.eqb m want) eqn:E.
      * apply Bool.eqb_prop in E. subst m. cbn [In]. rewrite Hrest. split.
        -- intros [H|(j0 & H1 & H2 & H3)].
           ++ inversion H; subst. exists 0%nat. repeat split. lia.
           ++ exists (S j0). repeat split; assumption.
        -- intros (j0 & H1 & H2 & H3). destruct j0 as [|j0'].
           ++ cbn in H2, H3. inversion H3; subst. left. f_equal. lia.
           ++ right. exists j0'. repeat split; assumption.
      * rewrite Hrest. split.
        -- intros (j0 & H1 & H2 & H3). exists (S j0). repeat split; assumption.
        -- intros (j0 & H1 & H2 & H3). destruct j0 as [|j0'].
           ++ cbn in H2. inversion H2; subst. rewrite Bool.eqb_reflx in E. discriminate.
           ++ exists j0'. repeat split; assumption.
Qed.
End SelectMask.

Lemma select_mask_in want mask (l : list Z) j v : In (j, v) (select_mask want mask l) <->
  nth_error mask j = Some want /\ nth_error l j = Some v.
Proof.
  rewrite select_mask_sel, sel_in. split.
  - intros (j0 & -> & H). exact H.
  - intros H. exists j. split; [reflexivity|exact H].
Qed.

Lemma named_updates_in mask i0 items j i v : In (j, Some i, v) (named_updates mask i0 items) <->
  exists i' p, i = (i0 + i')%nat /\ nth_error items i' = Some p /\
               nth_error mask j = Some true /\ nth_error p j = Some v.
Proof.
  revert i0. induction items as [|p r IH]; intros i0; cbn [named_updates].
  - split; [intros []|intros (i' & p & _ & H & _); destruct i'; discriminate].
  - rewrite in_app_iff, in_map_iff, IH. split.
    + intros [((j', v') & Heq & Hin)|(i' & p' & H1 & H2 & H3)].
      * cbn [fst snd] in Heq. inversion Heq; subst. apply select_mask_in in Hin.
        exists 0%nat, p. split; [lia|]. split; [reflexivity|exact Hin].
      * exists (S i'), p'. split; [lia|]. split; [exact H2|exact H3].
    + intros (i' & p' & H1 & H2 & H3). destruct i' as [|i''].
      * cbn in H2. inversion H2; subst. left. exists (j, v). split; [cbn; f_equal; f_equal; f_equal; lia|].
        apply select_mask_in. exact H3.
      * right. exists i'', p'. split; [lia|]. split; [exact H2|exact H3].
Qed.
Lemma named_updates_no_base mask i0 items j v : ~ In (j, None, v) (named_updates mask i0 items).
Proof.
  revert i0. induction items as [|p r IH]; intros i0; cbn [named_updates]; [intros []|].
  rewrite in_app_iff, in_map_iff. intros [((j', v') & Heq & _)|H]; [discriminate|exact (IH _ H)].
Qed.

(* the dictionary passed to the DBAPI: "<key j>__<i>" holds parameter set i's value for key j (for the
   keys rendered inside VALUES), every other key holds the FIRST parameter set's value *)
Theorem expand_named_spec mask first items j oi v : In (j, oi, v) (expand_named mask first items) <->
  match oi with
  | None => nth_error mask j = Some false /\ nth_error first j = Some v
  | Some i => nth_error mask j = Some true /\ exists p, nth_error items i = Some p /\ nth_error p j = Some v
  end.
Proof.
  unfold expand_named. rewrite in_app_iff, in_map_iff. destruct oi as [i|].
  - rewrite named_updates_in. split.
    + intros [((j', v') & Heq & _)|(i' & p & H1 & H2 & H3 & H4)]; [discriminate|].
      cbn in H1. subst i'. split; [exact H3|]. exists p. split; assumption.
    + intros (H3 & p & H2 & H4). right. exists i, p. repeat split; assumption.
  - split.
    + intros [((j', v') & Heq & Hin)|H]; [|exfalso; exact (named_updates_no_base _ _ _ _ _ H)].
      cbn [fst snd] in Heq. inversion Heq; subst. apply select_mask_in in Hin. exact Hin.
    + intros H. left. exists (j, v). split; [reflexivity|]. apply select_mask_in. exact H.
Qed.

(* keys are unique, so the dictionary is well defined *)
Corollary expand_named_functional mask first items j oi v v' :
  In (j, oi, v) (expand_named mask first items) -> In (j, oi, v') (expand_named mask first items) -> v = v'.
Proof.
  rewrite !expand_named_spec. destruct oi as [i|].
  - intros (_ & p & H1 & H2) (_ & p' & H1' & H2'). congruence.
  - intros (_ & H) (_ & H'). congruence.
Qed.
