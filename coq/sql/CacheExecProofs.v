(* C02 - proofs, part 3: a cached compilation receives the parameters of the statement being
   executed; executing through the cache equals executing directly, for every history *)
From Coq Require Import List NArith ZArith Bool Lia.
Import ListNotations.
From SAV.sql Require Import CacheKey CacheKeyProofs CacheKeyBinds CacheExec.

(* ---- first-match lookups in bind lists ---- *)
Lemma bindex_bfind : forall l bs i, bindex l bs = Some i ->
  exists x, bfind l bs = Some x /\ (forall d, nth i bs d = x) /\ blbl x = l /\ In x bs.
Proof.
  induction bs as [|b r IH]; cbn; intros i H; [discriminate|].
  destruct (N.eqb_spec (blbl b) l) as [E|E].
  - inversion H; subst i. exists b. repeat split; auto.
  - destruct (bindex l r) as [j|] eqn:Ej; [|discriminate]. inversion H; subst i.
    destruct (IH j eq_refl) as [x [H1 [H2 [H3 H4]]]]. exists x. repeat split; auto.
Qed.
Lemma bindex_labels : forall l b1 b2, map blbl b1 = map blbl b2 -> bindex l b1 = bindex l b2.
Proof.
  induction b1 as [|x r IH]; intros [|y s] H; cbn in H; try discriminate; [reflexivity|].
  inversion H as [[H1 H2]]. cbn. rewrite H1, (IH s H2). reflexivity.
Qed.
Lemma bindex_some : forall l bs, In l (map blbl bs) -> exists i, bindex l bs = Some i.
Proof.
  induction bs as [|b r IH]; cbn; intro H; [contradiction|].
  destruct (N.eqb_spec (blbl b) l) as [E|E]; [exists O; reflexivity|].
  destruct H as [H|H]; [contradiction|]. destruct (IH H) as [i ->]. exists (S i); reflexivity.
Qed.

(* ---- the parts of wf ---- *)
Lemma wf_binds : forall T s k bs, wf T s = true -> gen_key T s = Some (k, bs) ->
  forall b, In b bs -> bfind (blbl b) (allbinds T s) = Some b.
Proof.
  intros T s k bs Hw Hk b Hb. unfold wf in Hw. rewrite Hk in Hw.
  apply andb_true_iff in Hw as [Hw _]. apply andb_true_iff in Hw as [_ Hw].
  rewrite forallb_forall in Hw. specialize (Hw b Hb).
  destruct (bfind (blbl b) (allbinds T s)) as [b'|]; [|discriminate].
  apply bind_eqb_eq in Hw. subst; reflexivity.
Qed.
Lemma wf_complete : forall T s k bs, wf T s = true -> gen_key T s = Some (k, bs) ->
  incl (kbl T (proj T s)) (map blbl bs).
Proof.
  intros T s k bs Hw Hk l Hl. unfold wf in Hw. rewrite Hk in Hw.
  apply andb_true_iff in Hw as [_ Hw]. rewrite forallb_forall in Hw. apply memN_In. exact (Hw l Hl).
Qed.

Section ExecProofs.
  Variable T : ttab.
  Variable V : vtab.
  Variable SQL : Type.
  Variable render : atom -> ktree -> SQL * list N.
  Variable U : list node.           (* the statements that are ever executed *)
  Hypothesis Hholes : forall ctx v, incl (snd (render ctx v)) (kbl T v).
  Hypothesis HU_wf : forall s, In s U -> wf T s = true.
  Hypothesis HU_view : forall s1 s2 k b1 b2, In s1 U -> In s2 U ->
    gen_key T s1 = Some (k, b1) -> gen_key T s2 = Some (k, b2) -> view T V s1 = view T V s2.
  Hypothesis HU_kbl : forall s, In s U -> incl (kbl T (view T V s)) (kbl T (proj T s)).
  Hypothesis HU_call : forall s1 s2 k b1 b2, In s1 U -> In s2 U ->
    gen_key T s1 = Some (k, b1) -> gen_key T s2 = Some (k, b2) -> map bcall b1 = map bcall b2.

  Notation compile := (compile T V SQL render).
  Notation exec_direct := (exec_direct T V SQL render).
  Notation exec_cached := (exec_cached T V SQL render).
  Notation run := (run T V SQL render).

  (* construct_params(extracted_parameters=...) on a Compiled made from s0 yields the values of s *)
  Lemma rebind_positional : forall ctx s0 s k b0 b sets, In s0 U -> In s U ->
    gen_key T s0 = Some (k, b0) -> gen_key T s = Some (k, b) ->
    (tsql _ (compile ctx s0 b0), rebind_many SQL (compile ctx s0 b0) b sets) = exec_direct ctx s sets.
  Proof.
    intros ctx s0 s k b0 b sets H0 H1 K0 K1. unfold CacheExec.exec_direct, CacheExec.rebind_many, CacheExec.compile.
    cbn [tsql tholes]. rewrite (HU_view s0 s k b0 b H0 H1 K0 K1). f_equal.
    apply map_ext. intro ps. apply map_ext_in. intros l Hl.
    unfold param_with. destruct (alookup l ps) as [v|]; [reflexivity|].
    assert (In l (map blbl b0)) as Hl0.
    { apply (wf_complete T s0 k b0 (HU_wf _ H0) K0). apply (HU_kbl s0 H0).
      rewrite (HU_view s0 s k b0 b H0 H1 K0 K1). exact (Hholes _ _ _ Hl). }
    assert (map blbl b0 = map blbl b) as Hlab
      by (rewrite (gen_key_labels T s0 k b0 K0), (gen_key_labels T s k b K1); reflexivity).
    destruct (bindex_some l b0 Hl0) as [i Hi].
    destruct (bindex_bfind l b0 i Hi) as [x0 [_ [Hn0 [Hx0 Hin0]]]].
    pose proof Hi as Hi'. rewrite (bindex_labels l b0 b Hlab) in Hi'.
    destruct (bindex_bfind l b i Hi') as [x [_ [Hn [Hx Hin]]]].
    pose proof (wf_binds T s0 k b0 (HU_wf _ H0) K0 x0 Hin0) as F0. rewrite Hx0 in F0.
    pose proof (wf_binds T s k b (HU_wf _ H1) K1 x Hin) as F1. rewrite Hx in F1.
    unfold param_of; cbn [tbinds torig]. rewrite F0, F1, Hi. cbn [bindex]. rewrite (Hn x0).
    assert (bcall x0 = bcall x) as ->; [|reflexivity].
    pose proof (HU_call s0 s k b0 b H0 H1 K0 K1) as Hc.
    pose proof (map_nth bcall b0 x0 i) as M0. pose proof (map_nth bcall b x0 i) as M1.
    rewrite (Hn0 x0) in M0. rewrite (Hn x0) in M1. rewrite <- M0, <- M1, Hc. reflexivity.
  Qed.

  Lemma ckey_eqb_eq : forall a b, ckey_eqb a b = true -> a = b.
  Proof.
    intros [c1 k1] [c2 k2]; unfold ckey_eqb; cbn. intro H. apply andb_true_iff in H as [H1 H2].
    apply atom_eqb_eq in H1. apply ktree_eqb_eq in H2. subst; reflexivity.
  Qed.
  Lemma clookup_In : forall k (c : cache SQL) t, clookup SQL k c = Some t -> In (k, t) c.
  Proof.
    induction c as [|[k' t'] r IH]; cbn; intros t H; [discriminate|].
    destruct (ckey_eqb k' k) eqn:E; [|right; apply IH, H].
    inversion H; subst. apply ckey_eqb_eq in E. subst. left; reflexivity.
  Qed.

  (* every cache entry under key (ctx, k) is the compilation of a statement with key k *)
  Definition Inv (c : cache SQL) : Prop :=
    forall ck t, In (ck, t) c ->
      exists s0 b0, In s0 U /\ gen_key T s0 = Some (snd ck, b0) /\ t = compile (fst ck) s0 b0.

  Lemma exec_cached_ok : forall c x, Inv c -> In (s_stmt x) U ->
    fst (exec_cached c x) = exec_direct (s_ctx x) (s_stmt x) (s_sets x) /\ Inv (snd (exec_cached c x)).
  Proof.
    intros c x Hinv Hin. unfold CacheExec.exec_cached.
    destruct (if s_enabled x then gen_key T (s_stmt x) else None) as [[k b]|] eqn:Ek.
    2: { split; [reflexivity | exact Hinv]. }
    assert (gen_key T (s_stmt x) = Some (k, b)) as K by (destruct (s_enabled x); [exact Ek | discriminate]).
    destruct (clookup SQL (s_ctx x, k) c) as [t|] eqn:El.
    - split; [|exact Hinv]. cbn [fst].
      apply clookup_In in El. destruct (Hinv _ _ El) as [s0 [b0 [H0 [K0 Et]]]]. cbn [fst snd] in *.
      subst t. exact (rebind_positional (s_ctx x) s0 (s_stmt x) k b0 b (s_sets x) H0 Hin K0 K).
    - split; cbn [fst snd].
      + exact (rebind_positional (s_ctx x) (s_stmt x) (s_stmt x) k b b (s_sets x) Hin Hin K K).
      + intros ck t Ht. apply filter_In in Ht as [Ht _]. destruct Ht as [Ht|Ht].
        * inversion Ht; subst. exists (s_stmt x), b. repeat split; auto.
        * exact (Hinv _ _ Ht).
  Qed.

  Theorem run_ok : forall h c, Inv c -> (forall x, In x h -> In (s_stmt x) U) ->
    fst (run c h) = map (fun x => exec_direct (s_ctx x) (s_stmt x) (s_sets x)) h /\ Inv (snd (run c h)).
  Proof.
    induction h as [|x r IH]; intros c Hinv Hin; cbn [CacheExec.run map fst snd]; [split; [reflexivity | exact Hinv]|].
    destruct (exec_cached_ok c x Hinv (Hin x (or_introl eq_refl))) as [E1 I1].
    destruct (IH _ I1 (fun y Hy => Hin y (or_intror Hy))) as [E2 I2].
    split; [rewrite E1, E2; reflexivity | exact I2].
  Qed.

  Lemma Inv_nil : Inv [].
  Proof. intros ck t []. Qed.
End ExecProofs.
