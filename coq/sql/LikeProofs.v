(* C08 - proofs about the LIKE model: an escaped operand matches exactly itself. *)
From Coq Require Import List NArith Bool Lia.
Import ListNotations.
From SAV.sql Require Import Like.
Open Scope N_scope.

Lemma neqb a b : a <> b -> N.eqb a b = false.
Proof. intros H. apply N.eqb_neq. exact H. Qed.

Lemma fm_cons {A B} (f : A -> list B) x l : flat_map f (x :: l) = f x ++ flat_map f l.
Proof. reflexivity. Qed.

(* ------------------------------------------------------------ text helpers *)

Fixpoint strip_prefix (x s : list chr) : option (list chr) :=
  match x, s with
  | [], _ => Some s
  | a :: x', b :: s' => if N.eqb a b then strip_prefix x' s' else None
  | _ :: _, [] => None
  end.

Lemma strip_prefix_is_prefix x : forall s,
  is_prefix x s = match strip_prefix x s with Some _ => true | None => false end.
Proof. induction x as [|a x IH]; intros s; [reflexivity|]. destruct s as [|b s]; [reflexivity|].
  cbn [is_prefix strip_prefix]. destruct (N.eqb a b); [apply IH|reflexivity]. Qed.

Lemma strip_prefix_eqb x : forall s,
  list_eqb x s = match strip_prefix x s with Some [] => true | _ => false end.
Proof. induction x as [|a x IH]; intros s; [destruct s; reflexivity|]. destruct s as [|b s]; [reflexivity|].
  cbn [list_eqb strip_prefix]. destruct (N.eqb a b); [apply IH|reflexivity]. Qed.

Lemma star_ext k1 k2 : (forall s, k1 s = k2 s) -> forall s, star_of k1 s = star_of k2 s.
Proof. intros H s. induction s as [|b s IH]; cbn [star_of]; rewrite H; [reflexivity|]. rewrite IH. reflexivity. Qed.

Lemma suffix_star x s : is_suffix x s = star_of (list_eqb x) s.
Proof. induction s as [|b s IH]; cbn [is_suffix star_of]; [reflexivity|]. rewrite IH. reflexivity. Qed.

Lemma infix_star x s : is_infix x s = star_of (is_prefix x) s.
Proof. induction s as [|b s IH]; cbn [is_infix star_of]; [reflexivity|]. rewrite IH. reflexivity. Qed.

(* ------------------------------------------------------------ literal segments of a pattern *)

Section Seg.
Variable esc : option chr.
Hypothesis pct_plain : is_esc esc pct = false.

(* the pattern fragment [q] matches exactly the text [x], whatever follows *)
Definition lit_seg (q x : list chr) : Prop :=
  forall p s, like esc (q ++ p) s =
              match strip_prefix x s with Some s' => like esc p s' | None => false end.

Lemma like_pct p s : like esc (pct :: p) s = star_of (like esc p) s.
Proof. cbn [like]. rewrite pct_plain. reflexivity. Qed.

Lemma like_pct_nil s : like esc [pct] s = true.
Proof. rewrite like_pct. induction s as [|b s IH]; [reflexivity|]. cbn [star_of like]. exact IH. Qed.

Lemma seg_exact q x : lit_seg q x -> forall s, like esc q s = list_eqb x s.
Proof. intros H s. rewrite <- (app_nil_r q). rewrite H, strip_prefix_eqb.
  destruct (strip_prefix x s) as [[|b r]|]; reflexivity. Qed.

Lemma seg_prefix q x : lit_seg q x -> forall s, like esc (q ++ [pct]) s = is_prefix x s.
Proof. intros H s. rewrite H, strip_prefix_is_prefix.
  destruct (strip_prefix x s); [apply like_pct_nil|reflexivity]. Qed.

Lemma seg_suffix q x : lit_seg q x -> forall s, like esc (pct :: q) s = is_suffix x s.
Proof. intros H s. rewrite like_pct, suffix_star. apply star_ext. apply seg_exact. exact H. Qed.

Lemma seg_infix q x : lit_seg q x -> forall s, like esc (pct :: q ++ [pct]) s = is_infix x s.
Proof. intros H s. rewrite like_pct, infix_star. apply star_ext. apply seg_prefix. exact H. Qed.

(* no autoescape: an operand free of wildcard and escape characters is a literal segment *)
Lemma plain_seg x : plain_ok esc x = true -> lit_seg x x.
Proof.
  induction x as [|a x IH]; intros Hp p s; [reflexivity|].
  cbn [plain_ok forallb] in Hp. apply andb_true_iff in Hp. destruct Hp as [Ha Hx].
  apply negb_true_iff in Ha. apply orb_false_elim in Ha. destruct Ha as [Ha He].
  apply orb_false_elim in Ha. destruct Ha as [Hpc Hun].
  cbn [app like strip_prefix]. rewrite He, Hpc, Hun.
  destruct s as [|b s']; [reflexivity|]. rewrite (IH Hx). rewrite (N.eqb_sym b a).
  destruct (N.eqb a b); reflexivity. Qed.
End Seg.

(* ------------------------------------------------------------ autoescape *)

Section Esc.
Variable e : chr.
Hypothesis e_pct : e <> pct.
Hypothesis e_und : e <> und.

(* what autoescape does to one character *)
Definition esc1 (x : chr) : list chr :=
  if N.eqb x e then [e; e] else if N.eqb x pct then [e; pct] else if N.eqb x und then [e; und] else [x].

(* the three sequential str.replace calls amount to one character-wise substitution *)
Lemma autoescape_charwise s : autoescape e s = flat_map esc1 s.
Proof.
  unfold autoescape, model_replaces. cbn [fold_left]. unfold apply_repl.
  cbn [r_unless r_from r_to existsb tok_val map].
  rewrite (neqb _ _ e_pct), (neqb _ _ e_und). cbn [orb]. unfold replace1.
  induction s as [|x s IH]; [reflexivity|].
  rewrite (fm_cons esc1). rewrite <- IH.
  rewrite (fm_cons (fun x0 => if N.eqb x0 e then [e; e] else [x0])).
  rewrite !flat_map_app. f_equal. clear IH.
  unfold esc1. destruct (N.eqb x e) eqn:E1.
  - apply N.eqb_eq in E1. subst x. cbn [flat_map app]. rewrite (neqb _ _ e_pct). cbn [flat_map app].
    rewrite (neqb _ _ e_und). reflexivity.
  - cbn [flat_map app]. destruct (N.eqb x pct) eqn:E2.
    + apply N.eqb_eq in E2. subst x. cbn [flat_map app]. rewrite (neqb _ _ e_und).
      change (N.eqb pct und) with false. reflexivity.
    + cbn [flat_map app]. destruct (N.eqb x und) eqn:E3; reflexivity. Qed.

Lemma escaped_seg x : lit_seg (Some e) (flat_map esc1 x) x.
Proof.
  induction x as [|a x IH]; intros p s; [reflexivity|].
  cbn [flat_map strip_prefix]. rewrite <- app_assoc. unfold esc1 at 1.
  destruct (N.eqb a e) eqn:E1.
  - apply N.eqb_eq in E1. subst a. cbn [app like is_esc]. rewrite N.eqb_refl.
    destruct s as [|b s']; [reflexivity|]. rewrite IH. rewrite (N.eqb_sym b e).
    destruct (N.eqb e b); reflexivity.
  - destruct (N.eqb a pct) eqn:E2.
    + apply N.eqb_eq in E2. subst a. cbn [app like is_esc]. rewrite N.eqb_refl.
      destruct s as [|b s']; [reflexivity|]. rewrite IH. rewrite (N.eqb_sym b pct).
      destruct (N.eqb pct b); reflexivity.
    + destruct (N.eqb a und) eqn:E3.
      * apply N.eqb_eq in E3. subst a. cbn [app like is_esc]. rewrite N.eqb_refl.
        destruct s as [|b s']; [reflexivity|]. rewrite IH. rewrite (N.eqb_sym b und).
        destruct (N.eqb und b); reflexivity.
      * cbn [app like is_esc]. rewrite E1, E2, E3.
        destruct s as [|b s']; [reflexivity|]. rewrite IH. rewrite (N.eqb_sym b a).
        destruct (N.eqb a b); reflexivity. Qed.

Lemma autoescape_seg x : lit_seg (Some e) (autoescape e x) x.
Proof. rewrite autoescape_charwise. apply escaped_seg. Qed.

Lemma pct_plain_e : is_esc (Some e) pct = false.
Proof. cbn [is_esc]. apply neqb. congruence. Qed.

(* ---- case folding commutes with the escaping when the escape character is not a letter *)
Hypothesis e_letter : is_letter e = false.

Lemma lower_nonletter c : is_letter c = false -> lower_chr c = c.
Proof. unfold is_letter, lower_chr. intros H. apply orb_false_elim in H. destruct H as [H _].
  rewrite H. reflexivity. Qed.

Lemma lower_eq_nonletter a c : is_letter c = false -> N.eqb (lower_chr a) c = N.eqb a c.
Proof.
  intros H. destruct (N.eqb_spec a c) as [->|Hne].
  - rewrite (lower_nonletter c H). apply N.eqb_refl.
  - apply N.eqb_neq. unfold lower_chr. destruct (is_upper a) eqn:U; [|exact Hne].
    unfold is_upper in U. apply andb_true_iff in U. destruct U as [U1 U2].
    apply N.leb_le in U1, U2. intro Heq. subst c.
    unfold is_letter in H. apply orb_false_elim in H. destruct H as [_ H].
    unfold is_lower in H. apply andb_false_iff in H.
    destruct H as [H|H]; apply N.leb_gt in H; lia. Qed.

Lemma lower_esc1 a : map lower_chr (esc1 a) = esc1 (lower_chr a).
Proof.
  unfold esc1.
  rewrite (lower_eq_nonletter a e e_letter).
  rewrite (lower_eq_nonletter a pct eq_refl), (lower_eq_nonletter a und eq_refl).
  destruct (N.eqb_spec a e) as [->|E1]; [cbn [map]; rewrite (lower_nonletter e e_letter); reflexivity|].
  destruct (N.eqb_spec a pct) as [->|E2]; [cbn [map]; rewrite (lower_nonletter e e_letter); reflexivity|].
  destruct (N.eqb_spec a und) as [->|E3]; [cbn [map]; rewrite (lower_nonletter e e_letter); reflexivity|].
  reflexivity. Qed.

Lemma lower_autoescape x : lower (autoescape e x) = autoescape e (lower x).
Proof. rewrite !autoescape_charwise. unfold lower.
  induction x as [|a x IH]; [reflexivity|].
  cbn [map]. rewrite !fm_cons, map_app, IH, lower_esc1. reflexivity. Qed.
End Esc.

(* ------------------------------------------------------------ the six operators *)

Lemma build_contains r : build_pattern [PPct; PRight; PPct] r = pct :: r ++ [pct].
Proof. reflexivity. Qed.
Lemma build_starts r : build_pattern [PRight; PPct] r = r ++ [pct].
Proof. reflexivity. Qed.
Lemma build_ends r : build_pattern [PPct; PRight] r = pct :: r.
Proof. cbn [build_pattern flat_map app]. rewrite app_nil_r. reflexivity. Qed.

Lemma esc_ok_neq e : esc_ok e = true -> e <> pct /\ e <> und.
Proof. unfold esc_ok. intros H. apply negb_true_iff in H. apply orb_false_elim in H.
  destruct H as [H1 H2]. split; apply N.eqb_neq; assumption. Qed.

(* a pattern built around a literal segment [q] of [x] decides the Python test *)
Lemma wrapped_seg esc q x s (o : op) :
  is_esc esc pct = false -> lit_seg esc q x ->
  like esc (build_pattern (w_pieces (model_render o)) q) s =
  match o with
  | Contains | IContains => is_infix x s
  | Startswith | IStartswith => is_prefix x s
  | Endswith | IEndswith => is_suffix x s
  end.
Proof.
  intros Hp Hq. destruct o; cbn [model_render w_pieces];
    rewrite ?build_contains, ?build_starts, ?build_ends;
    first [apply (seg_infix esc Hp q x Hq) | apply (seg_prefix esc Hp q x Hq) | apply (seg_suffix esc Hp q x Hq)].
Qed.

Theorem autoescape_literal o escape x s :
  guard o (eff_escape escape) = true -> op_match o true escape x s = py_test o x s.
Proof.
  intros G. unfold guard in G. apply andb_true_iff in G. destruct G as [G1 G2].
  destruct (esc_ok_neq _ G1) as [Hp Hu].
  unfold op_match, op_pattern, escaped_like_impl. cbn [fst snd].
  set (e := eff_escape escape) in *.
  assert (Hseg : lit_seg (Some e) (fold_case o (autoescape e x)) (fold_case o x)).
  { unfold fold_case in *. destruct (w_lower (model_render o)).
    - apply negb_true_iff in G2. rewrite (lower_autoescape e Hp Hu G2). apply (autoescape_seg e Hp Hu).
    - apply (autoescape_seg e Hp Hu). }
  rewrite (wrapped_seg (Some e) _ _ (fold_case o s) o (pct_plain_e e Hp) Hseg).
  destruct o; reflexivity. Qed.

(* LIKE with an escaped operand and no wildcards around it is equality *)
Theorem like_escaped_is_equality e x s :
  esc_ok e = true -> like (Some e) (autoescape e x) s = list_eqb x s.
Proof. intros G. destruct (esc_ok_neq _ G) as [Hp Hu].
  apply (seg_exact (Some e) (autoescape e x) x (autoescape_seg e Hp Hu x)). Qed.

Theorem autoescape_is_charwise e x : esc_ok e = true ->
  autoescape e x = flat_map (fun c => if N.eqb c e || N.eqb c pct || N.eqb c und then [e; c] else [c]) x.
Proof. intros G. destruct (esc_ok_neq _ G) as [Hp Hu]. rewrite (autoescape_charwise e Hp Hu).
  induction x as [|a x IH]; [reflexivity|]. rewrite !fm_cons, IH. f_equal. unfold esc1.
  destruct (N.eqb_spec a e) as [->|E1]; [reflexivity|].
  destruct (N.eqb_spec a pct) as [->|E2]; [reflexivity|].
  destruct (N.eqb_spec a und) as [->|E3]; reflexivity. Qed.

(* without autoescape an operand that contains nothing LIKE interprets is matched literally *)
Theorem plain_literal o escape x s :
  is_esc escape pct = false -> plain_ok escape (fold_case o x) = true ->
  op_match o false escape x s = py_test o x s.
Proof.
  intros Hp Hx. unfold op_match, op_pattern, escaped_like_impl. cbn [fst snd].
  rewrite (wrapped_seg escape _ _ (fold_case o s) o Hp (plain_seg escape _ Hx)).
  destruct o; reflexivity. Qed.

(* ------------------------------------------------------------ the guard is exact *)

Definition differs (o : op) (e : chr) (x s : list chr) : bool :=
  negb (Bool.eqb (op_match o true (Some e) x s) (py_test o x s)).

Lemma differs_neq o e x s : differs o e x s = true -> op_match o true (Some e) x s <> py_test o x s.
Proof. unfold differs. intros H E. rewrite E, Bool.eqb_reflx in H. discriminate. Qed.

(* a%b / A%b as operand *)
Definition wx : list chr := [97; 37; 98].
Definition wild_witness (o : op) (e : chr) : list chr :=
  if N.eqb e pct then
    match o with
    | Endswith | IEndswith => [120; 97; 37; 98] (* xa%b *)
    | _ => [97; 37; 98] (* a%b *)
    end
  else [97; 95; 98] (* a_b *).

Lemma wild_escape_differs o e : esc_ok e = false -> differs o e wx (wild_witness o e) = true.
Proof.
  unfold esc_ok. intros H. apply negb_false_iff in H. apply orb_true_iff in H.
  destruct H as [H|H]; apply N.eqb_eq in H; subst e; destruct o; vm_compute; reflexivity. Qed.

Lemma below_in e n : e < N.of_nat n -> In e (map N.of_nat (seq 0 n)).
Proof. intros H. apply in_map_iff. exists (N.to_nat e). split; [apply N2Nat.id|].
  apply in_seq. lia. Qed.

Lemma letter_below e : is_letter e = true -> e < N.of_nat 123.
Proof. unfold is_letter, is_upper, is_lower. intros H. apply orb_true_iff in H.
  destruct H as [H|H]; apply andb_true_iff in H; destruct H as [_ H]; apply N.leb_le in H; lia. Qed.

Definition letter_chk (o : op) (e : chr) : bool :=
  implb (is_letter e) (differs o e [upper_chr e] [lower_chr e]).

Lemma letter_escape_differs o e : w_lower (model_render o) = true -> is_letter e = true ->
  differs o e [upper_chr e] [lower_chr e] = true.
Proof.
  intros Hl He.
  assert (A : forallb (letter_chk o) (map N.of_nat (seq 0 123)) = true).
  { destruct o; try discriminate Hl; vm_compute; reflexivity. }
  rewrite forallb_forall in A. specialize (A e (below_in e 123 (letter_below e He))).
  unfold letter_chk in A. rewrite He in A. exact A. Qed.

Theorem guard_exact o e : guard o e = false ->
  exists x s, op_match o true (Some e) x s <> py_test o x s.
Proof.
  unfold guard. intros G. apply andb_false_iff in G. destruct G as [G|G].
  - exists wx, (wild_witness o e). apply differs_neq. apply wild_escape_differs. exact G.
  - destruct (w_lower (model_render o)) eqn:Hl; [|discriminate G]. apply negb_false_iff in G.
    exists [upper_chr e], [lower_chr e]. apply differs_neq. apply letter_escape_differs; assumption. Qed.

(* ------------------------------------------------------------ per-operator readings *)

Lemma contains_guarded e x s : esc_ok e = true ->
  like (Some e) (pct :: autoescape e x ++ [pct]) s = is_infix x s.
Proof. intros H. change (op_match Contains true (Some e) x s = py_test Contains x s).
  apply autoescape_literal. unfold guard. cbn [eff_escape model_render w_lower]. rewrite H. reflexivity. Qed.

Lemma startswith_guarded e x s : esc_ok e = true ->
  like (Some e) (autoescape e x ++ [pct]) s = is_prefix x s.
Proof. intros H. change (op_match Startswith true (Some e) x s = py_test Startswith x s).
  apply autoescape_literal. unfold guard. cbn [eff_escape model_render w_lower]. rewrite H. reflexivity. Qed.

Lemma endswith_guarded e x s : esc_ok e = true ->
  like (Some e) (pct :: autoescape e x) s = is_suffix x s.
Proof. intros H. rewrite <- (build_ends (autoescape e x)).
  change (op_match Endswith true (Some e) x s = py_test Endswith x s).
  apply autoescape_literal. unfold guard. cbn [eff_escape model_render w_lower]. rewrite H. reflexivity. Qed.

Lemma icontains_guarded e x s : esc_ok e = true -> is_letter e = false ->
  like (Some e) (pct :: lower (autoescape e x) ++ [pct]) (lower s) = is_infix (lower x) (lower s).
Proof. intros H Hl. change (op_match IContains true (Some e) x s = py_test IContains x s).
  apply autoescape_literal. unfold guard. cbn [eff_escape model_render w_lower]. rewrite H, Hl. reflexivity. Qed.

(* ------------------------------------------------------------ only valid escape sequences are produced *)

Lemma wf_esc1 e a q : e <> pct -> e <> und -> wf_pattern e (esc1 e a ++ q) = wf_pattern e q.
Proof.
  intros Hp Hu. unfold esc1.
  destruct (N.eqb_spec a e) as [->|E1].
  - cbn [app wf_pattern]. rewrite N.eqb_refl. reflexivity.
  - destruct (N.eqb_spec a pct) as [->|E2].
    + cbn [app wf_pattern]. rewrite !N.eqb_refl. rewrite orb_true_r. reflexivity.
    + destruct (N.eqb_spec a und) as [->|E3].
      * cbn [app wf_pattern]. rewrite !N.eqb_refl. rewrite orb_true_r. reflexivity.
      * cbn [app wf_pattern]. rewrite (neqb _ _ E1). reflexivity. Qed.

Lemma wf_escaped e x q : e <> pct -> e <> und ->
  wf_pattern e (flat_map (esc1 e) x ++ q) = wf_pattern e q.
Proof. intros Hp Hu. induction x as [|a x IH]; [reflexivity|].
  rewrite fm_cons, <- app_assoc, (wf_esc1 e a _ Hp Hu). exact IH. Qed.

Theorem autoescape_wellformed o escape x :
  guard o (eff_escape escape) = true -> wf_pattern (eff_escape escape) (op_pattern o true escape x) = true.
Proof.
  intros G. unfold guard in G. apply andb_true_iff in G. destruct G as [G1 G2].
  destruct (esc_ok_neq _ G1) as [Hp Hu]. unfold op_pattern, escaped_like_impl. cbn [snd].
  set (e := eff_escape escape) in *.
  assert (Hq : exists y, fold_case o (autoescape e x) = flat_map (esc1 e) y).
  { unfold fold_case. destruct (w_lower (model_render o)).
    - apply negb_true_iff in G2. exists (lower x).
      rewrite (lower_autoescape e Hp Hu G2). apply (autoescape_charwise e Hp Hu).
    - exists x. apply (autoescape_charwise e Hp Hu). }
  destruct Hq as [y Hy]. rewrite Hy.
  assert (Hpe : N.eqb pct e = false) by (apply neqb; congruence).
  destruct o; cbn [model_render w_pieces];
    rewrite ?build_contains, ?build_starts, ?build_ends; cbn [wf_pattern]; rewrite ?Hpe;
    first [ rewrite (wf_escaped e y _ Hp Hu); cbn [wf_pattern]; rewrite Hpe; reflexivity
          | rewrite <- (app_nil_r (flat_map (esc1 e) y)); rewrite (wf_escaped e y _ Hp Hu); reflexivity ].
Qed.
