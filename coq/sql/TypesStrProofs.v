(* C09 - digit strings: formatting a bounded field and reading it back *)
From Coq Require Import List NArith ZArith Bool Lia Zify.
Import ListNotations.
From SAV.sql Require Import Types.
Open Scope N_scope.

Ltac Zify.zify_post_hook ::= Z.div_mod_to_equations.

Lemma digs_length : forall w n, length (digs w n) = w.
Proof. induction w as [|w IH]; intros n; cbn [digs]; [reflexivity|]. rewrite app_length, IH. cbn. lia. Qed.

Lemma num_of_app : forall a b acc,
  num_of (a ++ b) acc = match num_of a acc with Some v => num_of b v | None => None end.
Proof.
  induction a as [|c r IH]; intros b acc; cbn [app num_of]; [reflexivity|].
  destruct (is_digit c); [apply IH|reflexivity].
Qed.

Lemma is_digit_char : forall d, d < 10 -> is_digit (48 + d) = true.
Proof. intros d H. unfold is_digit. apply andb_true_iff. split; apply N.leb_le; lia. Qed.

Lemma pow10_S : forall w, 10 ^ N.of_nat (S w) = 10 * 10 ^ N.of_nat w.
Proof. intro w. rewrite Nat2N.inj_succ, N.pow_succ_r'. reflexivity. Qed.

Lemma num_of_digs : forall w n acc, n < 10 ^ N.of_nat w ->
  num_of (digs w n) acc = Some (acc * 10 ^ N.of_nat w + n).
Proof.
  induction w as [|w IH]; intros n acc H.
  - cbn in *. f_equal. lia.
  - cbn [digs]. rewrite num_of_app, pow10_S in *. rewrite IH by (apply N.div_lt_upper_bound; lia).
    cbn [num_of]. rewrite is_digit_char by (apply N.mod_lt; lia). f_equal.
    pose proof (N.div_mod n 10). pose proof (N.mod_lt n 10). nia.
Qed.

Lemma take_num_digs : forall w n rest, n < 10 ^ N.of_nat w -> take_num w (digs w n ++ rest) = Some (n, rest).
Proof.
  intros w n rest H. unfold take_num. rewrite app_length, digs_length.
  replace (Nat.ltb (w + length rest) w) with false by (symmetry; apply Nat.ltb_ge; lia).
  rewrite firstn_app, digs_length, Nat.sub_diag, firstn_O, app_nil_r.
  rewrite <- (digs_length w n) at 1. rewrite firstn_all, num_of_digs by assumption. cbn [N.mul N.add].
  rewrite skipn_app, digs_length, Nat.sub_diag. cbn [skipn]. rewrite <- (digs_length w n) at 1. rewrite skipn_all.
  reflexivity.
Qed.

Lemma expect_cons : forall c rest, expect c (c :: rest) = Some rest.
Proof. intros. cbn. now rewrite N.eqb_refl. Qed.

(* ---- the maximal digit run of the regexp variant ---- *)
Definition no_digit_head (s : str) : Prop := match s with [] => True | c :: _ => is_digit c = false end.

Lemma take_run_aux_app : forall a b acc v, num_of a acc = Some v ->
  take_run_aux (a ++ b) acc = take_run_aux b v.
Proof.
  induction a as [|c r IH]; intros b acc v H; cbn [num_of app] in *.
  - now injection H as ->.
  - cbn [take_run_aux]. destruct (is_digit c); [now apply IH|discriminate].
Qed.

Lemma take_run_aux_stop : forall rest v, no_digit_head rest -> take_run_aux rest v = (v, rest).
Proof. intros [|c r] v H; [reflexivity|]. cbn in H. cbn [take_run_aux]. now rewrite H. Qed.

Lemma take_run_digs : forall w n rest, n < 10 ^ N.of_nat (S w) -> no_digit_head rest ->
  take_run (digs (S w) n ++ rest) = Some (n, rest).
Proof.
  intros w n rest H Hr. unfold take_run.
  assert (Hhd : exists c tl, digs (S w) n ++ rest = c :: tl /\ is_digit c = true).
  { cbn [digs]. destruct (digs w (n / 10)) as [|c tl] eqn:E.
    - exists (48 + n mod 10), rest. split; [reflexivity|]. apply is_digit_char, N.mod_lt. lia.
    - exists c, (tl ++ [48 + n mod 10] ++ rest). split; [now rewrite <- app_assoc|].
      destruct w as [|w']; [discriminate|]. cbn [digs] in E.
      destruct (digs w' (n / 10 / 10)) as [|c' tl'] eqn:E'; cbn [app] in E; injection E as <- _.
      + apply is_digit_char, N.mod_lt. lia.
      + (* the head of a digs list is a digit: by induction *)
        clear - E'. revert c' tl' E'. generalize (n / 10 / 10). induction w' as [|w'' IHw]; intros m c' tl' E'; [discriminate|].
        cbn [digs] in E'. destruct (digs w'' (m / 10)) as [|c2 t2] eqn:E2; cbn [app] in E'; injection E' as <- _.
        * apply is_digit_char, N.mod_lt. lia.
        * eapply IHw. exact E2. }
  destruct Hhd as (c & tl & Ec & Hc). rewrite Ec, Hc, <- Ec.
  rewrite (take_run_aux_app _ _ 0 n) by (rewrite num_of_digs by assumption; f_equal; lia).
  now rewrite take_run_aux_stop.
Qed.
