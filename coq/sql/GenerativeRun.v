(* executable entry point for C03: given the effect lists of a chain of generative calls, which
   ancestors are observed unchanged at the end? *)
From Coq Require Import List ZArith Bool Arith.
Import ListNotations.
From SAV.base Require Import Tree.
From SAV.sql Require Import Generative.

Definition dec_eff (t : tree) : option eff :=
  match t with
  | L [I 0%Z; I f; I v] => Some (Rebind (Z.to_nat f) (Z.to_nat v))
  | L [I 1%Z; I f; I v] => Some (Mutate (Z.to_nat f) (Z.to_nat v))
  | _ => None
  end.
Definition dec_method (t : tree) : option (list eff) := as_list_of dec_eff t.

Fixpoint init_obj (fs : list nat) (k : nat) : heap * obj :=
  match fs with
  | [] => ([], [])
  | f :: r => let (h, o) := init_obj r (S k) in (k :: h, (f, 0) :: map (fun p => (fst p, S (snd p))) o)
  end.

Definition obs_eqb (a b : list (field * val)) : bool :=
  (length a =? length b)%nat &&
  forallb (fun p => Nat.eqb (fst (fst p)) (fst (snd p)) && Nat.eqb (snd (fst p)) (snd (snd p))) (combine a b).

(* input [fields; methods]   output: for each object of the chain (oldest first) 1 if unchanged *)
Definition run_case (t : tree) : tree :=
  match t with
  | L [tf; L tms] =>
      match as_list_of as_nat tf, all_some (map dec_method tms) with
      | Some fs, Some ms =>
          let (h0, o0) := init_obj fs 100 in
          let (hn, os) := chain h0 o0 ms in
          let hs := chain_heaps h0 o0 ms in
          L (map (fun p => of_bool (obs_eqb (observe hn (fst p)) (observe (snd p) (fst p)))) (combine os hs))
      | _, _ => bad_input
      end
  | _ => bad_input
  end.
