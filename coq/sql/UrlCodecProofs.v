(* C20 - UTF-8, percent coding, quote/unquote, int/str and sort_keys round trips *)
From Coq Require Import List NArith ZArith Bool Lia ZifyBool Permutation Decimal DecimalZ DecimalPos.
Import ListNotations.
From SAV.sql Require Import UrlCodec UrlListProofs.
Open Scope N_scope.

Ltac Zify.zify_post_hook ::= Z.to_euclidean_division_equations.

Ltac ifval e v :=
  let H := fresh "Hc" in
  assert (H : e = v) by (unfold cont, second3, second4; lia); rewrite H; clear H.

(* ---------------- UTF-8 ---------------- *)
Lemma utf8_dec_char : forall c r, scalar c = true -> utf8_dec (utf8_char c ++ r) = c :: utf8_dec r.
Proof.
  intros c r Hs. unfold scalar in Hs. unfold utf8_char.
  destruct (N.ltb_spec c 0x80) as [H1|H1].
  { cbn [List.app utf8_dec]. ifval (c <? 0x80) true. reflexivity. }
  destruct (N.ltb_spec c 0x800) as [H2|H2].
  { cbn [List.app utf8_dec].
    ifval (0xC0 + c / 64 <? 0x80) false. ifval (0xC0 + c / 64 <? 0xC2) false.
    ifval (0xC0 + c / 64 <? 0xE0) true. ifval (cont (0x80 + c mod 64)) true.
    f_equal. lia. }
  destruct (N.ltb_spec c 0x10000) as [H3|H3].
  { cbn [List.app utf8_dec].
    ifval (0xE0 + c / 4096 <? 0x80) false. ifval (0xE0 + c / 4096 <? 0xC2) false.
    ifval (0xE0 + c / 4096 <? 0xE0) false. ifval (0xE0 + c / 4096 <? 0xF0) true.
    assert (Hsec : second3 (0xE0 + c / 4096) (0x80 + (c / 64) mod 64) = true).
    { unfold second3, cont.
      destruct (N.eqb_spec (0xE0 + c / 4096) 0xE0); [lia|].
      destruct (N.eqb_spec (0xE0 + c / 4096) 0xED); lia. }
    rewrite Hsec. ifval (cont (0x80 + c mod 64)) true.
    f_equal. lia. }
  cbn [List.app utf8_dec].
  ifval (0xF0 + c / 262144 <? 0x80) false. ifval (0xF0 + c / 262144 <? 0xC2) false.
  ifval (0xF0 + c / 262144 <? 0xE0) false. ifval (0xF0 + c / 262144 <? 0xF0) false.
  ifval (0xF0 + c / 262144 <? 0xF5) true.
  assert (Hsec : second4 (0xF0 + c / 262144) (0x80 + (c / 4096) mod 64) = true).
  { unfold second4, cont.
    destruct (N.eqb_spec (0xF0 + c / 262144) 0xF0); [lia|].
    destruct (N.eqb_spec (0xF0 + c / 262144) 0xF4); lia. }
  rewrite Hsec. ifval (cont (0x80 + (c / 64) mod 64)) true. ifval (cont (0x80 + c mod 64)) true.
  f_equal. lia.
Qed.

Lemma utf8_roundtrip : forall s, forallb scalar s = true -> utf8_dec (utf8 s) = s.
Proof.
  induction s as [|c s IH]; intros H; [reflexivity|]. cbn in H. apply andb_true_iff in H as [Hc Hs].
  unfold utf8. cbn [flat_map]. rewrite (utf8_dec_char c _ Hc). f_equal. apply IH; exact Hs.
Qed.

Definition byte (b : N) : bool := b <? 256.

Lemma utf8_char_bytes : forall c, scalar c = true -> forallb byte (utf8_char c) = true.
Proof.
  intros c Hs. unfold scalar in Hs. unfold utf8_char, byte.
  destruct (N.ltb_spec c 0x80); [cbn [forallb]; lia|].
  destruct (N.ltb_spec c 0x800); [cbn [forallb]; lia|].
  destruct (N.ltb_spec c 0x10000); cbn [forallb]; lia.
Qed.

Lemma utf8_bytes : forall s, forallb scalar s = true -> forallb byte (utf8 s) = true.
Proof.
  induction s as [|c s IH]; intros H; [reflexivity|]. cbn in H. apply andb_true_iff in H as [Hc Hs].
  unfold utf8. cbn [flat_map]. rewrite forallb_app, (utf8_char_bytes c Hc). apply IH; exact Hs.
Qed.

(* ---------------- percent coding ---------------- *)
Lemma hexval_hexdig : forall n, n < 16 -> hexval (hexdig n) = Some n.
Proof.
  intros n Hn. unfold hexdig. destruct (N.ltb_spec n 10) as [H|H]; unfold hexval.
  - ifval ((48 <=? 48 + n) && (48 + n <=? 57)) true. f_equal. lia.
  - ifval ((48 <=? 55 + n) && (55 + n <=? 57)) false. ifval ((65 <=? 55 + n) && (55 + n <=? 70)) true.
    f_equal. lia.
Qed.

Lemma mem_false_neq : forall c l, mem c l = false -> forall x, In x l -> x <> c.
Proof.
  intros c l H x Hin ->. unfold mem in H. assert (existsb (N.eqb c) l = true); [|congruence].
  apply existsb_exists. exists c. split; [exact Hin | apply N.eqb_refl].
Qed.

Lemma pct_roundtrip : forall safe bs, mem 37 safe = false -> forallb byte bs = true ->
  pct_decode (flat_map (quote_byte safe) bs) = bs.
Proof.
  intros safe bs Hsafe. induction bs as [|b bs IH]; intros H; [reflexivity|].
  cbn in H. apply andb_true_iff in H as [Hb Hbs]. unfold byte in Hb. cbn [flat_map]. unfold quote_byte at 1.
  destruct (always_safe b || mem b safe) eqn:E.
  - cbn [List.app pct_decode]. assert (Hne : (b =? 37) = false).
    { destruct (N.eqb_spec b 37) as [->|]; [|reflexivity]. rewrite Hsafe in E. vm_compute in E. discriminate. }
    rewrite Hne. f_equal. apply IH; exact Hbs.
  - cbn [List.app pct_decode]. rewrite N.eqb_refl.
    rewrite (hexval_hexdig (b / 16)) by lia. rewrite (hexval_hexdig (b mod 16)) by lia.
    f_equal; [lia | apply IH; exact Hbs].
Qed.

(* the characters quote() can emit *)
Definition qchar (safe : list N) (c : N) : bool := always_safe c || mem c safe || (c =? 37).

Lemma hexdig_safe : forall n, n < 16 -> always_safe (hexdig n) = true.
Proof. intros n H. unfold hexdig, always_safe. destruct (N.ltb_spec n 10); lia. Qed.

Lemma quote_byte_chars : forall safe b, byte b = true -> forallb (qchar safe) (quote_byte safe b) = true.
Proof.
  intros safe b Hb. unfold byte in Hb. unfold quote_byte. destruct (always_safe b || mem b safe) eqn:E; cbn [forallb].
  - unfold qchar. rewrite E. reflexivity.
  - unfold qchar. rewrite (hexdig_safe (b / 16)) by lia. rewrite (hexdig_safe (b mod 16)) by lia.
    cbn. rewrite orb_true_r. reflexivity.
Qed.

Lemma quote_bytes_chars : forall safe bs, forallb byte bs = true ->
  forallb (qchar safe) (flat_map (quote_byte safe) bs) = true.
Proof.
  induction bs as [|b bs IH]; intros H; [reflexivity|]. cbn in H. apply andb_true_iff in H as [Hb Hbs].
  cbn [flat_map]. rewrite forallb_app, (quote_byte_chars safe b Hb). apply IH; exact Hbs.
Qed.

Lemma quote_some : forall safe s, forallb scalar s = true ->
  quote safe s = Some (flat_map (quote_byte safe) (utf8 s)).
Proof. intros safe s H. unfold quote, utf8_strict. rewrite H. reflexivity. Qed.

Lemma quote_chars : forall safe s q, quote safe s = Some q -> forallb (qchar safe) q = true.
Proof.
  intros safe s q H. unfold quote, utf8_strict in H. destruct (forallb scalar s) eqn:E; [|discriminate].
  inversion H; subst. apply quote_bytes_chars, utf8_bytes; exact E.
Qed.

(* ---------------- unquote ---------------- *)
Definition ascii (c : N) : bool := c <? 128.

Lemma unq_go_ascii : forall s acc, forallb ascii s = true -> unq_go acc s = flush (List.rev s ++ acc).
Proof.
  induction s as [|c s IH]; intros acc H; [reflexivity|]. cbn in H. apply andb_true_iff in H as [Hc Hs].
  cbn [unq_go]. unfold ascii in Hc. rewrite Hc, (IH _ Hs). cbn [List.rev]. rewrite <- app_assoc. reflexivity.
Qed.

Lemma unquote_ascii : forall s, forallb ascii s = true -> unquote s = utf8_dec (pct_decode s).
Proof.
  intros s H. unfold unquote. rewrite (unq_go_ascii s [] H). unfold flush.
  rewrite app_nil_r, rev_involutive. reflexivity.
Qed.

Lemma qchar_ascii : forall safe, forallb ascii safe = true -> forall c, qchar safe c = true -> ascii c = true.
Proof.
  intros safe Hsafe c H. unfold qchar in H. unfold ascii.
  destruct (always_safe c) eqn:E1; [unfold always_safe in E1; lia|].
  destruct (c =? 37) eqn:E3; [lia|]. rewrite orb_false_r in H. cbn in H.
  unfold mem in H. apply existsb_exists in H as [x [Hin Hx]]. apply N.eqb_eq in Hx. subst x.
  rewrite forallb_forall in Hsafe. exact (Hsafe c Hin).
Qed.

Theorem unquote_quote : forall safe s q, forallb ascii safe = true -> mem 37 safe = false ->
  quote safe s = Some q -> unquote q = s.
Proof.
  intros safe s q Ha H37 H. pose proof (quote_chars safe s q H) as Hq.
  unfold quote, utf8_strict in H. destruct (forallb scalar s) eqn:E; [|discriminate]. inversion H; subst.
  rewrite unquote_ascii; [|exact (forallb_impl _ _ _ (qchar_ascii safe Ha) Hq)].
  rewrite pct_roundtrip; [apply utf8_roundtrip; exact E | exact H37 | apply utf8_bytes; exact E].
Qed.

Lemma replace_id : forall a b s, forallb (nb a) s = true -> replace a b s = s.
Proof.
  induction s as [|c s IH]; intros H; [reflexivity|]. cbn in H. apply andb_true_iff in H as [Hc Hs].
  cbn. unfold nb in Hc. apply negb_true_iff in Hc. rewrite Hc. f_equal. apply IH; exact Hs.
Qed.

Lemma replace_back : forall a b s, forallb (nb b) s = true -> replace b a (replace a b s) = s.
Proof.
  induction s as [|c s IH]; intros H; [reflexivity|]. cbn in H. apply andb_true_iff in H as [Hc Hs].
  cbn. unfold nb in Hc. apply negb_true_iff in Hc. destruct (N.eqb_spec c a) as [->|Hne].
  - rewrite N.eqb_refl. f_equal. apply IH; exact Hs.
  - rewrite Hc. f_equal. apply IH; exact Hs.
Qed.

(* the characters quote_plus() can emit: always-safe characters, '+' and '%' *)
Definition qpchar (c : N) : bool := always_safe c || (c =? 43) || (c =? 37).

Lemma quote_plus_chars : forall s q, quote_plus s = Some q -> forallb qpchar q = true.
Proof.
  intros s q H. unfold quote_plus in H. destruct (quote [32] s) as [q0|] eqn:E; [|discriminate].
  inversion H; subst. pose proof (quote_chars _ _ _ E) as Hq. clear E H. unfold replace.
  induction q0 as [|c q0 IH]; [reflexivity|]. cbn in Hq. apply andb_true_iff in Hq as [Hc Hq].
  cbn [map forallb]. rewrite (IH Hq), andb_true_r. unfold qchar, mem in Hc. cbn in Hc. unfold qpchar.
  destruct (N.eqb_spec c 32) as [->|Hne]; [reflexivity|]. unfold always_safe in *. lia.
Qed.

Theorem unquote_plus_quote_plus : forall s q, quote_plus s = Some q -> unquote_plus q = s.
Proof.
  intros s q H. unfold quote_plus in H. destruct (quote [32] s) as [q0|] eqn:E; [|discriminate].
  inversion H; subst. unfold unquote_plus. rewrite replace_back.
  - apply (unquote_quote [32] s q0); [reflexivity | reflexivity | exact E].
  - apply (forallb_impl (qchar [32])); [|exact (quote_chars _ _ _ E)].
    intros c Hc. unfold qchar, mem in Hc. cbn in Hc. unfold nb, always_safe in *. lia.
Qed.

Lemma quote_plus_some : forall s, forallb scalar s = true -> exists q, quote_plus s = Some q.
Proof. intros s H. unfold quote_plus. rewrite (quote_some [32] s H). eexists; reflexivity. Qed.

(* ---------------- int / str ---------------- *)
Lemma digits_uint_digits : forall d, digits_uint (uint_digits d) = Some d.
Proof. induction d; cbn [uint_digits digits_uint]; try rewrite IHd; reflexivity. Qed.

Lemma uint_digits_head : forall d, d <> Nil ->
  exists c r, uint_digits d = c :: r /\ (c =? 45) = false /\ (c =? 43) = false.
Proof. destruct d; intros H; try contradiction; cbn [uint_digits]; eexists; eexists; repeat split. Qed.

Theorem py_int_str_of_Z : forall z, py_int (str_of_Z z) = Some z.
Proof.
  intros z. unfold str_of_Z. pose proof (DecimalZ.of_to z) as Hz. destruct (Z.to_int z) as [d|d] eqn:E.
  - assert (Hd : d <> Nil).
    { destruct z; cbn in E; inversion E; try discriminate; apply DecimalPos.Unsigned.to_uint_nonnil. }
    destruct (uint_digits_head d Hd) as [c [r [Hcr [H45 H43]]]].
    unfold py_int. rewrite Hcr, H45, H43, <- Hcr, digits_uint_digits. cbn [option_map]. rewrite Hz. reflexivity.
  - assert (Hd : d <> Nil).
    { destruct z; cbn in E; inversion E; apply DecimalPos.Unsigned.to_uint_nonnil. }
    destruct (uint_digits_head d Hd) as [c [r [Hcr _]]].
    unfold py_int. rewrite N.eqb_refl. rewrite Hcr. cbn [is_nil]. rewrite <- Hcr, digits_uint_digits.
    cbn [option_map]. rewrite Hz. reflexivity.
Qed.

Lemma uint_digits_chars : forall d, forallb (fun c => (48 <=? c) && (c <=? 57)) (uint_digits d) = true.
Proof. induction d; cbn [uint_digits forallb]; try rewrite IHd; reflexivity. Qed.

(* str(int) consists of digits and '-' only *)
Lemma str_of_Z_chars : forall z, forallb (fun c => ((48 <=? c) && (c <=? 57)) || (c =? 45)) (str_of_Z z) = true.
Proof.
  intros z. unfold str_of_Z. destruct (Z.to_int z); cbn [forallb];
  apply (forallb_impl (fun c => (48 <=? c) && (c <=? 57))); try apply uint_digits_chars; intros; lia.
Qed.

(* ---------------- sort_keys ---------------- *)
Lemma insert_key_perm : forall k l, Permutation (insert_key k l) (k :: l).
Proof.
  induction l as [|y l IH]; cbn [insert_key]; [apply Permutation_refl|].
  destruct (str_leb k y); [apply Permutation_refl|].
  eapply Permutation_trans; [apply perm_skip, IH | apply perm_swap].
Qed.

Theorem sort_keys_perm : forall l, Permutation (sort_keys l) l.
Proof.
  induction l as [|k l IH]; [apply Permutation_refl|]. unfold sort_keys. cbn [fold_right].
  eapply Permutation_trans; [apply insert_key_perm | apply perm_skip, IH].
Qed.
