(* C14 - drop_all: guarded success, the documented errors, and the refutation of the unguarded claim *)
From Coq Require Import List NArith Bool Lia Permutation.
Import ListNotations.
From SAV.util Require Import Topo Cycles TopoProofs TopoCycle TopoExtra CyclesSound CyclesComplete CyclesExact.
From SAV.sql Require Import DDLOrder DDLOrderBase DDLOrderSort DDLOrderExec DDLOrderCreate.

(* ---------------------------------------------------------------- guards *)
(* documented: a use_alter constraint needs a name to be dropped *)
Definition alter_named (md : metadata) : Prop :=
  forall t f, In t md -> In f (t_fks t) -> fk_alter f = true -> fk_named f = true.
(* two constraints of one table to the same table are both named or both unnamed *)
Definition siblings_agree (md : metadata) : Prop :=
  forall t f f', In t md -> In f (t_fks t) -> In f' (t_fks t) -> fk_ref f = fk_ref f' -> fk_named f = fk_named f'.
(* dependencies that ALTER cannot take away: constraints without a name (and without use_alter) *)
Definition unnamed_dep (t : table) (f : fk) : bool :=
  negb (fk_alter f) && negb (fk_named f) && negb (N.eqb (fk_ref f) (t_name t)).
Definition unnamed_deps (md : metadata) : list edge :=
  flat_map (fun t => map (fk_edge t) (filter (unnamed_dep t) (t_fks t))) md.

Lemma In_unnamed md e : In e (unnamed_deps md) <->
  exists t f, In t md /\ In f (t_fks t) /\ unnamed_dep t f = true /\ e = fk_edge t f.
Proof. unfold unnamed_deps. rewrite in_flat_map. split.
  - intros [t [Ht H]]. apply in_map_iff in H. destruct H as [f [<- Hf]]. apply filter_In in Hf. exists t, f. tauto.
  - intros [t [f [Ht [Hf [Hu ->]]]]]. exists t. split; [exact Ht|]. apply in_map_iff. exists f.
    split; [reflexivity|]. apply filter_In. tauto. Qed.

(* ---------------------------------------------------------------- drop_filter facts *)
Lemma drop_filter_true f : is_true (drop_filter f) = false.
Proof. unfold drop_filter. destruct (fk_named f); reflexivity. Qed.
Lemma drop_filter_false f : negb (is_false (drop_filter f)) = fk_named f.
Proof. unfold drop_filter. destruct (fk_named f); reflexivity. Qed.

Lemma deferred_drop tables cyc t f :
  deferred drop_filter tables cyc t f = fk_alter f || (hit drop_filter tables cyc t && fk_named f).
Proof. unfold deferred, pre_deferred. rewrite drop_filter_true, drop_filter_false, orb_false_r. reflexivity. Qed.

Lemma dep_fk_drop t f : dep_fk drop_filter t f = negb (fk_alter f) && negb (N.eqb (fk_ref f) (t_name t)).
Proof. unfold dep_fk, pre_deferred. rewrite drop_filter_true, orb_false_r. reflexivity. Qed.

Lemma stuck_drop_unnamed tables e : In e (stuck_edges drop_filter tables) -> In e (unnamed_deps tables).
Proof. intros H. apply In_stuck in H. destruct H as [t [f [Ht [Hf [Hu ->]]]]]. apply In_unnamed. exists t, f.
  repeat split; try assumption. unfold unremovable in Hu. apply andb_true_iff in Hu. destruct Hu as [Hd Hn].
  rewrite dep_fk_drop in Hd. apply andb_true_iff in Hd. destruct Hd as [Ha Hr].
  unfold unnamed_dep. rewrite Ha, Hr. simpl. rewrite andb_true_r.
  destruct (fk_named f) eqn:Nm; [|reflexivity]. exfalso. apply negb_true_iff in Hn.
  assert (X : existsb (fun f' => N.eqb (fk_ref f') (fk_ref f)) (can_remove drop_filter t) = true).
  { apply existsb_exists. exists f. split; [|apply N.eqb_refl]. unfold can_remove. apply filter_In.
    split; [exact Hf|]. rewrite drop_filter_false. exact Nm. }
  congruence. Qed.

Lemma drops_for_alter filt tables cyc n :
  drops_for n (alter_stmts DropFK filt tables cyc) =
  map fk_id (flat_map (fun t => if N.eqb (t_name t) n then deferred_of filt tables cyc t else []) tables).
Proof. unfold alter_stmts. generalize (deferred_of filt tables cyc). intros D.
  induction tables as [|t l IH]; simpl; [reflexivity|]. unfold drops_for in *. rewrite flat_map_app, map_app, IH. f_equal.
  induction (D t) as [|f r IHr]; simpl.
  - destruct (N.eqb (t_name t) n); reflexivity.
  - rewrite IHr. destruct (N.eqb (t_name t) n); reflexivity. Qed.

Lemma filter_none {A} (p : A -> bool) l : (forall x, In x l -> p x = false) -> filter p l = [].
Proof. induction l as [|a l IH]; simpl; intros H; [reflexivity|]. rewrite (H a) by (left; reflexivity).
  apply IH. intros x Hx. apply H. right. exact Hx. Qed.

(* ---------------------------------------------------------------- main proof *)
Section DropProof.
Variable md : metadata.
Variable db0 : db.
Variable checkfirst : bool.
Hypothesis Hwf : wf md.
Hypothesis Hcons : consistent db0 md.
Hypothesis Hcf : checkfirst = false -> forall t, In t md -> has_table (t_name t) db0 = true.
Hypothesis Hg1 : alter_named md.
Hypothesis Hg2 : siblings_agree md.

Let tables := drop_tables (map fst db0) checkfirst md.

Lemma In_dtables t : In t tables <-> In t md /\ has_table (t_name t) db0 = true.
Proof. unfold tables, drop_tables. rewrite filter_In. destruct checkfirst eqn:C; simpl.
  - split; intros [H1 H2]; (split; [exact H1|]).
    + apply memb_In in H2. apply has_table_In. exact H2.
    + apply memb_In. apply has_table_In. exact H2.
  - split; [intros [H _]; split; [exact H|apply (Hcf eq_refl); exact H]|tauto]. Qed.

Lemma dtables_nodup : NoDup (names tables).
Proof. unfold tables, drop_tables, names. apply NoDup_map_filter. apply Hwf. Qed.

Lemma dname_in_tables n : has_table n db0 = true -> exists t, In t tables /\ t_name t = n.
Proof. intros H. destruct Hcons as [_ [H2 _]]. pose proof (H2 n (proj1 (has_table_In n db0) H)) as Hn.
  unfold names in Hn. apply in_map_iff in Hn. destruct Hn as [t [E Ht]]. exists t. split; [|exact E].
  apply In_dtables. split; [exact Ht|]. rewrite E. exact H. Qed.

Lemma dfixed_sub : incl (fixed tables ++ stuck_edges drop_filter tables) (fixed md ++ unnamed_deps md).
Proof. intros e H. apply in_app_or in H. apply in_or_app. destruct H as [H|H].
  - left. apply In_fixed in H. destruct H as [t [Ht H]]. apply In_fixed. exists t. split; [|exact H].
    apply In_dtables in Ht. tauto.
  - right. apply stuck_drop_unnamed in H. apply In_unnamed in H. destruct H as [t [f [Ht H]]].
    apply In_unnamed. exists t, f. split; [|exact H]. apply In_dtables in Ht. tauto. Qed.

Lemma dnames_sub : incl (names tables) (names md).
Proof. unfold names. intros n H. apply in_map_iff in H. destruct H as [t [<- Ht]]. apply in_map. apply In_dtables in Ht. tauto. Qed.

Section WithSort.
Variables (o cyc : list node) (w : bool).
Hypothesis Hs : sort_tables_and_constraints drop_filter tables = Ok (o, cyc, w).

Lemma do_perm : Permutation o (names tables).
Proof. destruct (stc_ok _ _ _ _ _ Hs) as [H _]. exact (sort_perm _ _ _ H). Qed.

Lemma do_nodup : NoDup o.
Proof. eapply Permutation_NoDup; [apply Permutation_sym, do_perm|apply dtables_nodup]. Qed.

Let u := alter_stmts DropFK drop_filter tables cyc.

Lemma du_in s : In s u -> exists tt f, s = DropFK (t_name tt) f /\ In tt tables /\ In f (t_fks tt) /\
  deferred drop_filter tables cyc tt f = true.
Proof. unfold u, alter_stmts. intros H. apply in_flat_map in H. destruct H as [tt [Ht H]].
  apply in_map_iff in H. destruct H as [g [Hga Hgb]]. exists tt, g. split; [symmetry; exact Hga|].
  split; [exact Ht|]. unfold deferred_of in Hgb. apply filter_In in Hgb. tauto. Qed.

Lemma du_named : forallb stmt_named u = true.
Proof. apply forallb_forall. intros s Hs'. destruct (du_in s Hs') as [tt [f [-> [Ht [Hf Hd]]]]]. simpl.
  rewrite deferred_drop in Hd. apply orb_true_iff in Hd. destruct Hd as [Ha|Hh].
  - apply (Hg1 tt f); try assumption. apply In_dtables in Ht. tauto.
  - apply andb_true_iff in Hh. tauto. Qed.

Lemma du_all_drop : Forall is_dropfk u.
Proof. apply Forall_forall. intros s Hs'. destruct (du_in s Hs') as [tt [f [-> _]]]. exact I. Qed.

Lemma drops_for_u t : In t tables -> drops_for (t_name t) u = map fk_id (deferred_of drop_filter tables cyc t).
Proof. intros Ht. unfold u. rewrite drops_for_alter.
  rewrite (flat_map_pick (deferred_of drop_filter tables cyc) tables t dtables_nodup Ht). reflexivity. Qed.

Lemma drops_for_u_none n : ~ In n (names tables) -> drops_for n u = [].
Proof. intros Hn. unfold u. rewrite drops_for_alter. rewrite flat_map_pick_none; [reflexivity|exact Hn]. Qed.

Theorem drop_exec u' : Permutation u' u -> exec db0 (u' ++ map DropT (rev o)) = Some [].
Proof.
  intros Hp. rewrite exec_app.
  destruct (exec_dropfks u' db0) as [d1 [H1 [H2 H3]]].
  - eapply Permutation_Forall; [apply Permutation_sym; exact Hp|exact du_all_drop].
  - intros t f Hin. apply (Permutation_in _ Hp) in Hin. destruct (du_in _ Hin) as [tt [g [E [Ht [Hf Hd]]]]].
    inversion E; subst. split.
    + apply In_dtables in Ht. tauto.
    + pose proof du_named as Hn. rewrite forallb_forall in Hn. apply (Hn (DropFK (t_name tt) g) Hin).
  - intros n. assert (Hpp : Permutation (drops_for n u') (drops_for n u)) by (apply drops_for_perm; exact Hp).
    destruct (in_dec N.eq_dec n (names tables)) as [Hin|Hnin].
    + unfold names in Hin. apply in_map_iff in Hin. destruct Hin as [t [<- Ht]].
      rewrite (drops_for_u t Ht) in Hpp. split.
      * eapply Permutation_NoDup; [apply Permutation_sym; exact Hpp|]. unfold deferred_of.
        apply NoDup_map_filter. destruct Hwf as [_ [_ H3']]. apply H3'. apply In_dtables in Ht. tauto.
      * intros i Hi. apply (Permutation_in _ Hpp) in Hi. apply has_fk_In.
        apply In_dtables in Ht. destruct Ht as [Hmd Hh]. destruct Hcons as [_ [_ Hc3]].
        destruct (Hc3 t Hmd Hh) as [Hperm _].
        apply (Permutation_in _ (Permutation_map fk_id (Permutation_sym Hperm))).
        apply in_map_iff in Hi. destruct Hi as [g [Hga Hgb]]. apply in_map_iff. exists g. split; [exact Hga|].
        unfold deferred_of in Hgb. apply filter_In in Hgb. tauto.
    + rewrite (drops_for_u_none n Hnin) in Hpp. apply Permutation_sym, Permutation_nil in Hpp. rewrite Hpp. split; [constructor|intros i []].
  - rewrite H1.
    assert (Hhas : forall n, has_table n d1 = has_table n db0).
    { intros n. apply bool_ext. rewrite !has_table_In, H2. tauto. }
    rewrite (exec_dropts d1 (rev o)).
    + f_equal. apply filter_none. intros r Hr. apply negb_false_iff. apply memb_In. apply in_rev. rewrite rev_involutive.
      apply (Permutation_in _ (Permutation_sym do_perm)).
      assert (Hn : has_table (fst r) db0 = true).
      { rewrite <- Hhas. apply has_table_In. apply in_map. exact Hr. }
      destruct (dname_in_tables _ Hn) as [t [Ht <-]]. unfold names. apply in_map. exact Ht.
    + apply NoDup_rev. exact do_nodup.
    + rewrite H2. apply Hcons.
    + intros n Hn. rewrite Hhas. apply in_rev in Hn. apply (Permutation_in _ do_perm) in Hn.
      unfold names in Hn. apply in_map_iff in Hn. destruct Hn as [t [<- Ht]]. apply In_dtables in Ht. tauto.
    + intros pre t suf E un g Hu Hne Hg Href.
      rewrite Hhas in Hu. destruct (dname_in_tables _ Hu) as [tu [Htu Hname]].
      assert (Hmd : In tu md) by (apply In_dtables in Htu; tauto).
      rewrite H3 in Hg. apply filter_In in Hg. destruct Hg as [Hg Hnd]. apply negb_true_iff in Hnd.
      apply memb_false in Hnd.
      (* g is a declared constraint of tu that was not deferred *)
      assert (Hgt : In g (t_fks tu)).
      { destruct Hcons as [_ [_ Hc3]]. rewrite <- Hname in Hg, Hu. destruct (Hc3 tu Hmd Hu) as [Hperm _].
        apply (Permutation_in _ Hperm). exact Hg. }
      assert (Hdef : deferred drop_filter tables cyc tu g = false).
      { destruct (deferred drop_filter tables cyc tu g) eqn:D; [|reflexivity]. exfalso. apply Hnd.
        apply (Permutation_in _ (Permutation_sym (drops_for_perm un _ _ Hp))). rewrite <- Hname.
        rewrite (drops_for_u tu Htu). apply in_map. unfold deferred_of. apply filter_In. tauto. }
      rewrite deferred_drop in Hdef. apply orb_false_iff in Hdef. destruct Hdef as [Ha Hhn].
      assert (Hto : In t o).
      { apply in_rev. rewrite E. apply in_or_app. right. left. reflexivity. }
      apply (before_prefix (rev o) un t pre suf (@NoDup_rev _ o do_nodup)); [|exact E].
      apply before_rev. destruct (stc_ok _ _ _ _ _ Hs) as [Hsort _].
      apply (sort_order _ _ _ Hsort).
      * apply in_or_app. right. apply In_mutable1. exists tu, g. split; [exact Htu|]. split; [exact Hgt|].
        split; [|split].
        -- rewrite dep_fk_drop. rewrite Ha. simpl. apply negb_true_iff. apply N.eqb_neq. congruence.
        -- unfold discarded. destruct (hit drop_filter tables cyc tu) eqn:Hh; [|reflexivity]. simpl.
           simpl in Hhn.
           destruct (existsb (fun f' => N.eqb (fk_ref f') (fk_ref g)) (can_remove drop_filter tu)) eqn:Ex; [|reflexivity].
           exfalso. apply existsb_exists in Ex. destruct Ex as [f' [Hf1 Hf2]]. apply N.eqb_eq in Hf2.
           unfold can_remove in Hf1. apply filter_In in Hf1. destruct Hf1 as [Hf1 Hf3].
           rewrite drop_filter_false in Hf3.
           pose proof (Hg2 tu f' g Hmd Hf1 Hgt Hf2) as Hag. congruence.
        -- unfold fk_edge. rewrite Href, Hname. reflexivity.
      * apply (Permutation_in _ do_perm). exact Hto.
      * unfold names. rewrite <- Hname. apply in_map. exact Htu. Qed.
End WithSort.

Theorem drop_all_succeeds_main :
  ~ (exists w, cycle (fixed md ++ unnamed_deps md) w /\ incl w (names md)) ->
  exists o u, drop_plan (map fst db0) checkfirst md = Plan o u /\
    forall u', Permutation u' u -> exec db0 (u' ++ o) = Some [].
Proof.
  intros Hcyc. unfold drop_plan. fold tables.
  destruct (sort_tables_and_constraints drop_filter tables) as [[[o cyc] w]| |] eqn:Hs.
  - rewrite (du_named cyc). eexists _, _. split; [reflexivity|].
    intros u' Hp. apply (drop_exec o cyc w Hs). exact Hp.
  - exfalso. apply Hcyc. apply stc_circular in Hs. destruct Hs as [w [Hw Hi]]. exists w. split.
    + eapply cycle_incl; [exact Hw|exact dfixed_sub].
    + intros x Hx. apply dnames_sub, Hi, Hx.
  - exfalso. exact (stc_never_fuel _ _ Hs). Qed.
End DropProof.

(* ---------------------------------------------------------------- the errors drop_all can raise *)
Theorem drop_plan_circular_iff existing checkfirst md :
  drop_plan existing checkfirst md = ErrCircular <->
  exists w, cycle (fixed (drop_tables existing checkfirst md) ++
                   stuck_edges drop_filter (drop_tables existing checkfirst md)) w /\
            incl w (names (drop_tables existing checkfirst md)).
Proof. unfold drop_plan. split.
  - destruct (sort_tables_and_constraints drop_filter (drop_tables existing checkfirst md)) as [[[o cyc] w]| |] eqn:E;
      try discriminate.
    + destruct (forallb stmt_named _); discriminate.
    + intros _. apply stc_circular. exact E.
  - intros H. rewrite (stc_circular_conv _ _ H). reflexivity. Qed.

Theorem drop_plan_circular_unnamed existing checkfirst md :
  drop_plan existing checkfirst md = ErrCircular ->
  exists w, cycle (fixed md ++ unnamed_deps md) w /\ incl w (names md).
Proof. intros H. apply drop_plan_circular_iff in H. destruct H as [w [Hw Hi]]. exists w. split.
  - eapply cycle_incl; [exact Hw|]. intros e He. apply in_app_or in He. apply in_or_app. destruct He as [He|He].
    + left. apply In_fixed in He. destruct He as [t [Ht H]]. apply In_fixed. exists t. split; [|exact H].
      unfold drop_tables in Ht. apply filter_In in Ht. tauto.
    + right. apply stuck_drop_unnamed in He. apply In_unnamed in He. destruct He as [t [f [Ht H]]].
      apply In_unnamed. exists t, f. split; [|exact H]. unfold drop_tables in Ht. apply filter_In in Ht. tauto.
  - intros x Hx. apply Hi in Hx. unfold names, drop_tables in *. apply in_map_iff in Hx. destruct Hx as [t [<- Ht]].
    apply in_map. apply filter_In in Ht. tauto. Qed.

Theorem drop_plan_compile_error existing checkfirst md :
  drop_plan existing checkfirst md = ErrCompile ->
  exists t f, In t md /\ In f (t_fks t) /\ fk_alter f = true /\ fk_named f = false.
Proof. unfold drop_plan.
  destruct (sort_tables_and_constraints drop_filter (drop_tables existing checkfirst md)) as [[[o cyc] w]| |] eqn:E;
    try discriminate.
  destruct (forallb stmt_named _) eqn:F; [discriminate|]. intros _.
  assert (X : exists s, In s (alter_stmts DropFK drop_filter (drop_tables existing checkfirst md) cyc) /\ stmt_named s = false).
  { clear E. induction (alter_stmts DropFK drop_filter (drop_tables existing checkfirst md) cyc) as [|s l IH]; simpl in F; [discriminate|].
    destruct (stmt_named s) eqn:S; simpl in F.
    - destruct (IH F) as [s' [H1 H2]]. exists s'. split; [right; exact H1|exact H2].
    - exists s. split; [left; reflexivity|exact S]. }
  destruct X as [s [Hin Hn]]. unfold alter_stmts in Hin. apply in_flat_map in Hin. destruct Hin as [t [Ht Hin]].
  apply in_map_iff in Hin. destruct Hin as [f [<- Hf]]. simpl in Hn. unfold deferred_of in Hf.
  apply filter_In in Hf. destruct Hf as [Hf Hd]. rewrite deferred_drop in Hd. rewrite Hn, andb_false_r, orb_false_r in Hd.
  exists t, f. unfold drop_tables in Ht. apply filter_In in Ht. tauto. Qed.

Theorem drop_plan_total existing checkfirst md : drop_plan existing checkfirst md <> ErrFuel.
Proof. unfold drop_plan.
  destruct (sort_tables_and_constraints drop_filter (drop_tables existing checkfirst md)) as [[[o cyc] w]| |] eqn:E;
    try discriminate.
  - destruct (forallb stmt_named _); discriminate.
  - exfalso. exact (stc_never_fuel _ _ E). Qed.
