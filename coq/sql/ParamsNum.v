(* C04 - numeric / numeric_dollar: _process_numeric numbers the plain binds 1..n in bind order, the
   expanded names continue from next_numeric_pos, and placeholder k finds its value at position k *)
From Coq Require Import List NArith ZArith Bool Lia.
Import ListNotations.
From SAV.sql Require Import Params ParamsDict ParamsEscape ParamsGuard ParamsPost ParamsInline ParamsFinal ParamsNamed ParamsPos.

Lemma nseq_length : forall len s, length (nseq s len) = len.
Proof. induction len as [|len IH]; intro s; cbn [nseq length]; [reflexivity|]. f_equal. apply IH. Qed.
Lemma nseq_nth : forall len s j, (j < len)%nat -> nth_error (nseq s len) j = Some (s + N.of_nat j)%N.
Proof.
  induction len as [|len IH]; intros s j H; [lia|]. destruct j as [|j]; cbn [nseq nth_error].
  - f_equal. lia.
  - rewrite IH by lia. f_equal. lia.
Qed.

Lemma map_flat_map : forall {A B C} (f : B -> C) (g : A -> list B) l,
  map f (flat_map g l) = flat_map (fun x => map f (g x)) l.
Proof. induction l as [|x l IH]; [reflexivity|]. cbn [flat_map]. rewrite map_app, IH. reflexivity. Qed.

Lemma nth_error_app_l : forall {A} (l1 l2 : list A) i x, nth_error l1 i = Some x -> nth_error (l1 ++ l2) i = Some x.
Proof.
  intros A l1 l2 i x H. rewrite nth_error_app1; [exact H|]. apply nth_error_Some. congruence.
Qed.
Lemma nth_error_app_r : forall {A} (l1 l2 : list A) j, nth_error (l1 ++ l2) (length l1 + j) = nth_error l2 j.
Proof. intros A l1 l2 j. rewrite nth_error_app2 by lia. f_equal. lia. Qed.

Lemma NoDup_flat_map : forall {A B} (f : A -> list B) l,
  NoDup l -> (forall a, In a l -> NoDup (f a)) ->
  (forall a b x, In a l -> In b l -> In x (f a) -> In x (f b) -> a = b) ->
  NoDup (flat_map f l).
Proof.
  induction l as [|a l IH]; intros Hn Hf Hd; [constructor|].
  inversion Hn as [|? ? Hni Hnd]; subst. cbn [flat_map]. apply NoDup_app_intro.
  - apply Hf. left. reflexivity.
  - apply IH; [exact Hnd|intros b Hb; apply Hf; right; exact Hb|].
    intros b c x Hb Hc. apply Hd; right; assumption.
  - intros x Hx Hy. apply in_flat_map in Hy. destruct Hy as [b [Hb Hxb]].
    apply Hni. rewrite (Hd a b x (or_introl eq_refl) (or_intror Hb) Hx Hxb). exact Hb.
Qed.

(* position of a name in a list *)
Fixpoint index_of (n : name) (l : list name) : nat :=
  match l with [] => O | x :: r => if str_eqb n x then O else S (index_of n r) end.
Lemma index_of_nth : forall n l, In n l -> nth_error l (index_of n l) = Some n.
Proof.
  induction l as [|x l IH]; intro H; [destruct H|]. cbn [index_of].
  destruct (str_eqb_spec n x) as [->|Hn]; [reflexivity|]. cbn [nth_error]. apply IH.
  destruct H as [H|H]; [congruence|exact H].
Qed.
Lemma index_of_lt : forall n l, In n l -> (index_of n l < length l)%nat.
Proof. intros n l H. apply nth_error_Some. rewrite (index_of_nth n l H). congruence. Qed.
Lemma index_of_snoc : forall n l, ~ In n l -> index_of n (l ++ [n]) = length l.
Proof.
  induction l as [|x l IH]; intro H; cbn [app index_of length].
  - rewrite str_eqb_refl. reflexivity.
  - rewrite str_eqb_neq by (intros ->; apply H; left; reflexivity). f_equal. apply IH.
    intro Hi. apply H. right. exact Hi.
Qed.
Lemma index_of_app_l : forall n l1 l2, In n l1 -> index_of n (l1 ++ l2) = index_of n l1.
Proof.
  induction l1 as [|x l1 IH]; intros l2 H; [destruct H|]. cbn [app index_of].
  destruct (str_eqb_spec n x) as [->|Hn]; [reflexivity|]. f_equal. apply IH. destruct H as [H|H]; [congruence|exact H].
Qed.

(* {key: num for num, key in enumerate(l, s)} for distinct keys *)
Lemma dget_enumerate : forall (l : list name) s x, NoDup l -> In x l ->
  dget x (dupdate (combine l (nseq s (length l))) []) = Some (s + N.of_nat (index_of x l))%N.
Proof.
  intros l s x Hnd Hin. apply dget_dupdate_in.
  - assert (H : map fst (combine l (nseq s (length l))) = l).
    { clear. revert s. induction l as [|y l IH]; intro s; [reflexivity|]. cbn [length nseq combine map fst]. f_equal. apply IH. }
    rewrite H. exact Hnd.
  - clear Hnd. revert s. induction l as [|y l IH]; intro s; [destruct Hin|].
    cbn [length nseq combine index_of]. destruct (str_eqb_spec x y) as [->|Hn].
    + left. f_equal. lia.
    + right. destruct Hin as [H|H]; [congruence|]. specialize (IH H (s + 1)%N).
      replace (s + N.of_nat (S (index_of x l)))%N with (s + 1 + N.of_nat (index_of x l))%N by lia. exact IH.
Qed.

Section NumLoop.
Variable inp : input.
Notation plainb := (fun n : name => is_plain (kind_of inp n)).

(* the plain names among the keys, in order *)
Definition plains (pp : dict (option N)) : list name := filter plainb (keys pp).

Record NInv (seen : list name) (st : dict (option N) * N) : Prop := {
  n_nodup : NoDup (keys (fst st));
  n_keys : forall k, In k (keys (fst st)) <-> In k seen;
  n_plain : forall n, In n (plains (fst st)) ->
            dget n (fst st) = Some (Some (1 + N.of_nat (index_of n (plains (fst st)))))%N;
  n_other : forall k, In k (keys (fst st)) -> plainb k = false -> dget k (fst st) = Some None;
  n_next : snd st = (1 + N.of_nat (length (plains (fst st))))%N
}.

Lemma num_step_inv : forall seen st n, NInv seen st -> NInv (seen ++ [n]) (num_step inp st n).
Proof.
  intros seen [pp num] n I. destruct I as [I1 I2 I3 I4 I5]. cbn [fst snd] in *. unfold num_step.
  destruct (dmem n pp) eqn:D.
  - apply dmem_In in D. constructor; cbn [fst snd]; try assumption.
    intro k. rewrite I2, in_app_iff. cbn [In]. split; [tauto|]. intros [H|[<-|[]]]; [exact H|apply I2; exact D].
  - apply dmem_false in D.
    destruct (is_plain (kind_of inp n)) eqn:P.
    + assert (Hpl : plains (dset n (Some num) pp) = plains pp ++ [n]).
      { unfold plains. rewrite keys_dset, (proj2 (dmem_false n pp) D), filter_app. cbn [filter]. rewrite P. reflexivity. }
      assert (Hnp : ~ In n (plains pp)).
      { intro H. apply D. unfold plains in H. apply filter_In in H. tauto. }
      constructor; cbn [fst snd].
      * apply NoDup_keys_dset. exact I1.
      * intro k. rewrite In_keys_dset, I2, in_app_iff. cbn [In]. split; intros H; intuition congruence.
      * intros m Hm. rewrite Hpl in Hm |- *. apply in_app_or in Hm. destruct Hm as [Hm|[<-|[]]].
        -- rewrite dget_dset_other by (intros ->; exact (Hnp Hm)).
           rewrite index_of_app_l by exact Hm. apply I3. exact Hm.
        -- rewrite dget_dset_same, index_of_snoc by exact Hnp. rewrite I5. reflexivity.
      * intros k Hk Hp. apply In_keys_dset in Hk. destruct Hk as [->|Hk]; [congruence|].
        rewrite dget_dset_other by (intros ->; exact (D Hk)). apply I4; assumption.
      * rewrite Hpl, app_length. cbn [length]. rewrite I5. lia.
    + assert (Hpl : plains (dset n None pp) = plains pp).
      { unfold plains. rewrite keys_dset, (proj2 (dmem_false n pp) D), filter_app. cbn [filter]. rewrite P. apply app_nil_r. }
      constructor; cbn [fst snd].
      * apply NoDup_keys_dset. exact I1.
      * intro k. rewrite In_keys_dset, I2, in_app_iff. cbn [In]. split; intros H; intuition congruence.
      * intros m Hm. rewrite Hpl in Hm |- *.
        rewrite dget_dset_other; [apply I3; exact Hm|]. intros ->. unfold plains in Hm. apply filter_In in Hm. tauto.
      * intros k Hk Hp. apply In_keys_dset in Hk. destruct Hk as [->|Hk]; [apply dget_dset_same|].
        rewrite dget_dset_other by (intros ->; exact (D Hk)). apply I4; assumption.
      * rewrite Hpl. exact I5.
Qed.

Lemma num_loop_inv : forall l seen st, NInv seen st -> NInv (seen ++ l) (fold_left (num_step inp) l st).
Proof.
  induction l as [|n l IH]; intros seen st I; cbn [fold_left].
  - rewrite app_nil_r. exact I.
  - rewrite (app_assoc seen [n] l : seen ++ n :: l = (seen ++ [n]) ++ l). apply IH. apply num_step_inv. exact I.
Qed.

Lemma num_loop : forall l, NInv l (fold_left (num_step inp) l ([], 1%N)).
Proof.
  intro l. apply (num_loop_inv l [] ([], 1%N)). constructor; cbn [fst snd keys map plains filter length].
  - constructor.
  - tauto.
  - intros n [].
  - intros k [].
  - reflexivity.
Qed.
End NumLoop.

Lemma join_toks_map : forall (g : otok -> otok) l, (forall s, g (OTxt s) = OTxt s) ->
  map g (join_toks l) = join_toks (map g l).
Proof.
  intros g l Hg. induction l as [|x l IH]; [reflexivity|]. destruct l as [|y l]; [reflexivity|].
  cbn [map]. rewrite !join_toks_cons2. cbn [map]. rewrite Hg. f_equal. f_equal. exact IH.
Qed.

Section NumRun.
Variable tab : list (N * N).
Variable lit : Z -> str.
Variable empty_expr : str.
Variable proc : N -> Z -> Z.
Variable ps : style.
Variable inp : input.
Hypothesis W : wf tab inp.
Hypothesis Hnum : numeric ps = true.

Notation order := (i_order inp).
Notation ebn := (ebn_of tab (i_order inp)).
Notation Inv := (Inv tab lit empty_expr ps inp).
Notation plainb := (fun n : name => is_plain (kind_of inp n)).

Lemma Hps : positional ps = true.
Proof. revert Hnum. destruct ps; cbn; congruence. Qed.

Lemma bind_tok_num : forall k, bind_tok ps k = OPh k.
Proof. intro k. revert Hnum. destruct ps; cbn; congruence. Qed.

Lemma numeric_order_In : forall k, In k (numeric_order inp) <-> In k order.
Proof.
  intro k. unfold numeric_order. destruct (i_values inp) as [vb|]; [|tauto].
  rewrite in_app_iff, filter_In. tauto.
Qed.

Definition nst : dict (option N) * N := fold_left (num_step inp) (numeric_order inp) ([], 1%N).
Definition npp : dict (option N) := fst nst.
Definition num (n : name) : N := match dget n npp with Some (Some k) => k | _ => 0%N end.
Definition P : list name := plains inp npp.

Lemma nI : NInv inp (numeric_order inp) nst.
Proof. exact (num_loop inp (numeric_order inp)). Qed.

Lemma npp_keys : forall k, In k (keys npp) <-> In k order.
Proof. intro k. unfold npp. rewrite (n_keys _ _ _ nI). apply numeric_order_In. Qed.

Lemma P_In : forall n, In n P <-> In n order /\ kind_of inp n = Plain.
Proof.
  intro n. unfold P, plains. rewrite filter_In, npp_keys. split; intros [A B]; (split; [exact A|]).
  - destruct (kind_of inp n); cbn in B; congruence.
  - rewrite B. reflexivity.
Qed.

Lemma num_plain : forall n, In n P -> dget n npp = Some (Some (num n)) /\ num n = (1 + N.of_nat (index_of n P))%N.
Proof.
  intros n H. pose proof (n_plain _ _ _ nI n H) as G. fold npp in G. fold P in G.
  unfold num. rewrite G. split; reflexivity.
Qed.

(* escaped lookups in the re-keyed numbering *)
Lemma renumber_get : forall pp', 
  match ebn with
  | [] => Ok npp
  | _ => if Nat.eqb (length (drekey (dget_or_key ebn) npp)) (length npp)
         then Ok (drekey (dget_or_key ebn) npp) else Raise AssertionError
  end = Ok pp' ->
  forall n, In n order -> dget (esc tab n) pp' = dget n npp.
Proof.
  intros pp' H n Hn. destruct ebn as [|e0 er] eqn:E.
  - inversion H; subst. f_equal. apply needs_esc_false_esc.
    pose proof (ebn_get tab order n) as G. rewrite E in G. cbn [dget] in G.
    apply memb_In in Hn. rewrite Hn in G. cbn [andb] in G. destruct (needs_esc tab n); [discriminate|reflexivity].
  - rewrite <- E in H.
    assert (Hinj : forall a b, In a (keys npp) -> In b (keys npp) -> dget_or_key ebn a = dget_or_key ebn b -> a = b).
    { intros a b Ha Hb. apply npp_keys in Ha. apply npp_keys in Hb.
      rewrite !ebn_get_or_key_in by assumption. apply (w_inj _ _ W); assumption. }
    rewrite (drekey_inj _ _ Hinj (n_nodup _ _ _ nI)) in H.
    unfold rekey_map in H at 1. rewrite map_length, Nat.eqb_refl in H. inversion H; subst.
    rewrite <- (ebn_get_or_key_in tab order n Hn). apply dget_rekey_map.
    intros a Ha. apply Hinj; [exact Ha|apply npp_keys; exact Hn].
Qed.

Lemma renumber_ok : exists pp',
  match ebn with
  | [] => Ok npp
  | _ => if Nat.eqb (length (drekey (dget_or_key ebn) npp)) (length npp)
         then Ok (drekey (dget_or_key ebn) npp) else Raise AssertionError
  end = Ok pp'.
Proof.
  destruct ebn as [|e0 er] eqn:E; [eexists; reflexivity|]. rewrite <- E.
  assert (Hinj : forall a b, In a (keys npp) -> In b (keys npp) -> dget_or_key ebn a = dget_or_key ebn b -> a = b).
  { intros a b Ha Hb. apply npp_keys in Ha. apply npp_keys in Hb.
    rewrite !ebn_get_or_key_in by assumption. apply (w_inj _ _ W); assumption. }
  rewrite (drekey_inj _ _ Hinj (n_nodup _ _ _ nI)). unfold rekey_map. rewrite map_length, Nat.eqb_refl.
  eexists; reflexivity.
Qed.

Notation bnum := (fun n : name => ONum (num n)).

(* _process_numeric *)
Lemma process_numeric_ok :
  process_numeric inp ebn (carrier tab ps (i_toks inp)) =
  Ok (map (ctok tab ps bnum) (i_toks inp), keys npp, snd nst).
Proof.
  unfold process_numeric. fold nst. destruct nst as [pp next] eqn:E.
  assert (Hpp : pp = npp) by (unfold npp; rewrite E; reflexivity). subst pp.
  destruct renumber_ok as [pp' Hr]. rewrite Hr. cbn [bind].
  rewrite (mapM_ok _ (fun t => match t with
                               | OPh e => ONum (match dget e pp' with Some (Some k) => k | _ => 0%N end)
                               | _ => t end)).
  - cbn [bind snd]. f_equal. f_equal. f_equal. unfold carrier. rewrite map_map. apply map_ext_in.
    intros [s|n|n] Ht; cbn [ctok]; try reflexivity.
    destruct (w_bind _ _ W n Ht) as [Hn K]. rewrite (renumber_get pp' Hr n Hn). reflexivity.
  - intros t Ht. unfold carrier in Ht. apply in_map_iff in Ht. destruct Ht as [[s|n|n] [<- Ht]]; try reflexivity.
    destruct (w_bind _ _ W n Ht) as [Hn K]. rewrite (renumber_get pp' Hr n Hn).
    destruct (num_plain n (proj2 (P_In n) (conj Hn K))) as [G _]. rewrite G. reflexivity.
Qed.

Lemma newpos_P : flat_map (newpos_of tab ps inp) (keys npp) = P.
Proof.
  unfold P, plains. induction (keys npp) as [|k l IH]; [reflexivity|]. cbn [flat_map filter].
  rewrite IH. unfold newpos_of. rewrite Hnum. destruct (kind_of inp k); reflexivity.
Qed.

Definition numpos : list name := flat_map (numpos_of tab inp) (keys npp).

Lemma numpos_nodup : NoDup numpos.
Proof.
  unfold numpos. apply NoDup_flat_map.
  - exact (n_nodup _ _ _ nI).
  - intros a Ha. apply npp_keys in Ha. unfold numpos_of. destruct (kind_of inp a); try constructor.
    exact (w_xnodup _ _ W a Ha).
  - intros a b x Ha Hb Hxa Hxb. apply npp_keys in Ha. apply npp_keys in Hb.
    unfold numpos_of in Hxa, Hxb.
    destruct (kind_of inp a) eqn:Ka; try destruct Hxa. destruct (kind_of inp b) eqn:Kb; try destruct Hxb.
    exact (w_xdisj _ _ W a b x Ha Hb Hxa Hxb).
Qed.

Lemma numpos_In : forall n k, In n order -> kind_of inp n = Expand -> In k (xnames tab inp n) -> In k numpos.
Proof.
  intros n k Hn K Hk. unfold numpos. apply in_flat_map. exists n. split; [apply npp_keys; exact Hn|].
  unfold numpos_of. rewrite K. exact Hk.
Qed.

(* numbers of the expanded names *)
Definition ppx : dict N := dupdate (combine numpos (nseq (snd nst) (length numpos))) [].
Definition xnum (k : name) : N := match dget k ppx with Some num => num | None => 0%N end.
Definition renum (t : otok) : otok := match t with OPh k => ONum (xnum k) | _ => t end.

Lemma xnum_ok : forall k, In k numpos ->
  dget k ppx = Some (xnum k) /\ xnum k = (1 + N.of_nat (length P) + N.of_nat (index_of k numpos))%N.
Proof.
  intros k Hk. unfold xnum, ppx. rewrite (dget_enumerate numpos (snd nst) k numpos_nodup Hk).
  split; [reflexivity|]. rewrite (n_next _ _ _ nI). reflexivity.
Qed.

(* the values handed to the driver *)
Definition vals (gv : name -> pval) : list pval := map gv (P ++ numpos).
Notation getp := (fun st : pcstate => getv proc (fprocs inp st) (s_params st)).

Lemma vals_plain : forall d n, In n P -> nth_error (vals d) (N.to_nat (num n) - 1) = Some (d n).
Proof.
  intros d n H. destruct (num_plain n H) as [_ E]. rewrite E.
  replace (N.to_nat (1 + N.of_nat (index_of n P)) - 1)%nat with (index_of n P) by lia.
  unfold vals. apply map_nth_error. apply nth_error_app_l. apply index_of_nth. exact H.
Qed.
Lemma vals_x : forall d k, In k numpos -> nth_error (vals d) (N.to_nat (xnum k) - 1) = Some (d k).
Proof.
  intros d k H. destruct (xnum_ok k H) as [_ E]. rewrite E.
  replace (N.to_nat (1 + N.of_nat (length P) + N.of_nat (index_of k numpos)) - 1)%nat
    with (length P + index_of k numpos)%nat by lia.
  unfold vals. apply map_nth_error. rewrite nth_error_app_r. apply index_of_nth. exact H.
Qed.

Lemma inline_join_num : forall d (g : Z -> Z) (items : list (name * Z)),
  (forall k v, In (k, v) items -> In k numpos /\ d k = PS (g v)) -> items <> [] ->
  inline_num ps (join_toks (map (fun kv => ONum (xnum (fst kv))) items)) (vals d) = Some (join_vals (map g (map snd items))).
Proof.
  intros d g items. induction items as [|[k v] items IH]; intros H Hne; [congruence|].
  assert (Hk : N.eqb (xnum k) 0 = false /\ nth_error (vals d) (N.to_nat (xnum k) - 1) = Some (PS (g v))).
  { destruct (H k v (or_introl eq_refl)) as [A B]. split.
    - destruct (xnum_ok k A) as [_ E]. apply N.eqb_neq. lia.
    - rewrite (vals_x d k A), B. reflexivity. }
  destruct Hk as [Hk1 Hk2].
  destruct items as [|[k2 v2] items].
  - cbn [map join_toks fst snd inline_num join_vals]. rewrite Hk1, Hk2. reflexivity.
  - cbn [map fst snd]. rewrite join_toks_cons2, join_vals_cons2. cbn [inline_num]. rewrite Hk1, Hk2.
    change (ONum (xnum k2) :: map (fun kv : name * Z => ONum (xnum (fst kv))) items)
      with (map (fun kv : name * Z => ONum (xnum (fst kv))) ((k2, v2) :: items)).
    rewrite IH; [|intros k' v' Hi; apply H; right; exact Hi|discriminate].
    cbn [option_map map snd]. rewrite unpct_comma. reflexivity.
Qed.

(* one source token after both substitutions *)
Lemma num_token : forall st t, Inv (keys npp) st ->
  (forall n, t = Bind n -> In n order /\ kind_of inp n = Plain) ->
  (forall n, t = PC n -> In n order /\ kind_of inp n <> Plain) ->
  exists r, spec_tok lit empty_expr proc inp t = Some r /\
            inline_num ps (map renum (final_tok tab lit empty_expr ps inp bnum t)) (vals (getp st)) = Some r /\
            (forall k, In (OPh k) (final_tok tab lit empty_expr ps inp bnum t) -> In k numpos).
Proof.
  intros st t I Hb Hp. destruct t as [s|n|n].
  - exists (map Ch s). split; [reflexivity|]. split.
    + cbn [final_tok map renum inline_num option_map]. rewrite unpct_pct, app_nil_r. reflexivity.
    + intros k [H|[]]. discriminate.
  - destruct (Hb n eq_refl) as [Hn K]. destruct (w_plain _ _ W n Hn K) as [v Hv].
    assert (HP : In n P) by (apply P_In; split; assumption).
    exists [Val (pz proc inp n v)]. split; [apply spec_bind; exact Hv|]. split.
    + cbn [final_tok map renum inline_num]. destruct (num_plain n HP) as [_ E].
      replace (N.eqb (num n) 0) with false by (symmetry; apply N.eqb_neq; lia).
      rewrite (vals_plain _ n HP). unfold getv.
      rewrite (v_keep _ _ _ _ _ _ _ I n Hn (or_intror K)), Hv.
      rewrite (papply_pz proc inp _ n n v (fprocs_plain tab lit empty_expr ps inp W _ st n I Hn)). reflexivity.
    + intros k [H|[]]. discriminate.
  - destruct (Hp n eq_refl) as [Hn K]. assert (Hd : In n (keys npp)) by (apply npp_keys; exact Hn).
    cbn [final_tok spec_tok]. unfold repl_of.
    destruct (kind_of inp n) eqn:K'; [congruence| |].
    + destruct (w_expand _ _ W n Hn K') as [l Hl]. rewrite Hl. unfold plist. rewrite Hl.
      assert (Hx : expanded_names (esc tab n) l = xitems tab inp n).
      { unfold xitems, plist. rewrite K', Hl. reflexivity. }
      destruct l as [|z l].
      * exists (map Ch empty_expr). split; [reflexivity|]. split.
        -- cbn [repl_expand map renum inline_num option_map]. rewrite unpct_pct, app_nil_r. reflexivity.
        -- cbn [repl_expand]. intros k [H|[]]. discriminate.
      * exists (join_vals (map (pz proc inp n) (z :: l))). split; [reflexivity|]. unfold repl_expand.
        rewrite (map_ext _ (fun kv => OPh (fst kv))) by (intro kv; apply bind_tok_num). split.
        -- rewrite join_toks_map by reflexivity. rewrite map_map. cbn [renum].
           rewrite (inline_join_num _ (pz proc inp n)).
           ++ unfold expanded_names. rewrite expand_from_snd. reflexivity.
           ++ intros k v Hi. rewrite Hx in Hi. split.
              ** apply (numpos_In n k Hn K'). exact (xitem_name _ _ _ _ _ Hi).
              ** unfold getv. rewrite (v_x _ _ _ _ _ _ _ I n k v Hd Hi).
                 exact (papply_pz proc inp _ k n v (fprocs_x tab lit empty_expr ps inp W _ st n k v I Hd Hi)).
           ++ discriminate.
        -- intros k Hk. apply (numpos_In n k Hn K').
           assert (Hin : In (OPh k) (map (fun kv : name * Z => OPh (fst kv)) (expanded_names (esc tab n) (z :: l)))).
           { clear -Hk. revert Hk. generalize (expanded_names (esc tab n) (z :: l)) as items.
             induction items as [|a items IH]; [intros []|]. destruct items as [|b items].
             - cbn. tauto.
             - cbn [map]. rewrite join_toks_cons2. intros [H|[H|H]]; [left; exact H|discriminate|right; apply IH; exact H]. }
           apply in_map_iff in Hin. destruct Hin as [[k' v'] [He Hi]]. inversion He; subst.
           unfold xnames, xitems, plist. rewrite K', Hl. apply in_map_iff. exists (k, v'). split; [reflexivity|exact Hi].
    + destruct (w_litv _ _ W n Hn K') as [v Hv]. rewrite Hv, (kind_pv inp n v Hv).
      exists (map Ch (lit_of lit empty_expr v)). split; [reflexivity|]. split.
      * cbn [map renum inline_num option_map]. rewrite unpct_pct, app_nil_r. reflexivity.
      * intros k [H|[]]. discriminate.
Qed.

Lemma num_tokens : forall st toks, Inv (keys npp) st ->
  (forall n, In (Bind n) toks -> In n order /\ kind_of inp n = Plain) ->
  (forall n, In (PC n) toks -> In n order /\ kind_of inp n <> Plain) ->
  exists sp, concat_opt (map (spec_tok lit empty_expr proc inp) toks) = Some sp /\
             inline_num ps (map renum (flat_map (final_tok tab lit empty_expr ps inp bnum) toks)) (vals (getp st)) = Some sp /\
             (forall k, In (OPh k) (flat_map (final_tok tab lit empty_expr ps inp bnum) toks) -> In k numpos).
Proof.
  intros st toks I. induction toks as [|t toks IH]; intros Hb Hp.
  - exists []. split; [reflexivity|]. split; [reflexivity|intros k []].
  - destruct (num_token st t I) as [r [R1 [R2 R3]]].
    + intros n ->. apply Hb. left. reflexivity.
    + intros n ->. apply Hp. left. reflexivity.
    + destruct IH as [sp [S1 [S2 S3]]].
      * intros n Hn. apply Hb. right. exact Hn.
      * intros n Hn. apply Hp. right. exact Hn.
      * exists (r ++ sp). cbn [map concat_opt flat_map]. rewrite R1, S1. split; [reflexivity|]. split.
        -- rewrite map_app, inline_num_app, R2, S2. reflexivity.
        -- intros k Hk. apply in_app_or in Hk. destruct Hk as [Hk|Hk]; [apply R3|apply S3]; exact Hk.
Qed.

Lemma vals_present : forall st, Inv (keys npp) st -> forall k, In k (P ++ numpos) -> dget k (s_params st) <> None.
Proof.
  intros st I k Hk. apply in_app_or in Hk. destruct Hk as [Hk|Hk].
  - apply P_In in Hk. destruct Hk as [Hn K]. rewrite (v_keep _ _ _ _ _ _ _ I k Hn (or_intror K)).
    destruct (w_plain _ _ W k Hn K) as [v Hv]. congruence.
  - unfold numpos in Hk. apply in_flat_map in Hk. destruct Hk as [n [Hn Hx]].
    unfold numpos_of in Hx. destruct (kind_of inp n) eqn:K; try destruct Hx.
    unfold xnames in Hx. apply in_map_iff in Hx. destruct Hx as [[k' v] [<- Hi]]. cbn [fst].
    rewrite (v_x _ _ _ _ _ _ _ I n k' v Hn Hi). congruence.
Qed.

Theorem num_ok :
  exists ts fp sp, run tab lit empty_expr proc ps inp = Ok (ts, fp) /\
                   inline_spec lit empty_expr proc inp = Some sp /\ inline ps ts fp = Some sp.
Proof.
  pose proof Hps as Hpos.
  unfold run, compile. rewrite Hnum, process_numeric_ok. cbn [bind c_toks c_positiontup c_next].
  destruct (i_pc inp) eqn:HP.
  - unfold postcompile. rewrite Hpos. cbn [c_toks c_positiontup c_next].
    assert (Hincl : incl (keys npp) order) by (intros k Hk; apply npp_keys; exact Hk).
    destruct (pc_loop tab lit empty_expr ps inp W (keys npp) Hincl) as [st [E I]].
    unfold init_state in E. rewrite E. cbn [bind].
    pose proof (subst_ok tab lit empty_expr ps inp bnum st (i_toks inp)) as HS. unfold subst_fun in HS.
    rewrite HS; clear HS.
    + cbn [bind]. rewrite Hnum.
      destruct (num_tokens st (i_toks inp) I) as [sp [S1 [S2 S3]]].
      * exact (w_bind _ _ W).
      * exact (w_pc _ _ W).
      * rewrite (v_numpos _ _ _ _ _ _ _ I), (v_newpos _ _ _ _ _ _ _ I), Hnum, Hpos, newpos_P.
        fold numpos. fold ppx.
        rewrite (mapM_ok _ renum).
        -- cbn [bind]. rewrite (assemble_ok proc _ _ _ (vals_present st I)). cbn [bind].
           eexists _, _, sp. split; [reflexivity|]. split; [exact S1|].
           unfold inline. rewrite Hnum. exact S2.
        -- intros t Ht. destruct t; try reflexivity. cbn [renum].
           destruct (xnum_ok n (S3 n Ht)) as [G _]. rewrite G. reflexivity.
    + intro n. exact Logic.I.
    + intros n Hn. destruct (w_pc _ _ W n Hn) as [A B]. apply (v_repl_in _ _ _ _ _ _ _ I n); [|exact B].
      apply npp_keys. exact A.
  - assert (Hno : forall n, ~ In (PC n) (i_toks inp)).
    { intros n Hn. destruct (w_pc _ _ W n Hn) as [A B]. apply B. exact (has_postcompile_false tab inp n W HP A). }
    cbn [bind]. rewrite Hpos.
    (* without post-compile binds there are no expanded names and positiontup is the plain names *)
    assert (Hall : forall k, In k (keys npp) -> kind_of inp k = Plain).
    { intros k Hk. apply npp_keys in Hk. exact (has_postcompile_false tab inp k W HP Hk). }
    assert (HkP : keys npp = P).
    { unfold P, plains. revert Hall. generalize (keys npp) as l. induction l as [|k l IH]; intro Hall; [reflexivity|].
      cbn [filter]. rewrite (Hall k (or_introl eq_refl)). cbn [is_plain]. f_equal. apply IH. intros k' Hk'. apply Hall. right. exact Hk'. }
    assert (Hnp : numpos = []).
    { unfold numpos. revert Hall. generalize (keys npp) as l. induction l as [|k l IH]; intro Hall; [reflexivity|].
      cbn [flat_map]. rewrite IH by (intros k' Hk'; apply Hall; right; exact Hk').
      unfold numpos_of. rewrite (Hall k (or_introl eq_refl)). reflexivity. }
    assert (Hincl : incl (keys npp) order) by (intros k Hk; apply npp_keys; exact Hk).
    destruct (pc_loop tab lit empty_expr ps inp W (keys npp) Hincl) as [st [_ I]].
    destruct (num_tokens st (i_toks inp) I (w_bind _ _ W) (w_pc _ _ W)) as [sp [S1 [S2 S3]]].
    rewrite (no_pc_final tab lit empty_expr ps inp bnum (i_toks inp) Hno) in S2, S3.
    assert (Hre : map renum (map (ctok tab ps bnum) (i_toks inp)) = map (ctok tab ps bnum) (i_toks inp)).
    { rewrite <- (map_id (map (ctok tab ps bnum) (i_toks inp))) at 2. apply map_ext_in.
      intros t Ht. destruct t; try reflexivity. exfalso. pose proof (S3 n Ht) as Hk. rewrite Hnp in Hk. exact Hk. }
    assert (Hv : vals (getp st) = map (getv proc (dupdate [] (i_procs inp)) (i_params inp)) (keys npp)).
    { unfold vals. rewrite Hnp, app_nil_r, HkP. apply map_ext_in. intros k Hk. unfold getv.
      apply P_In in Hk. destruct Hk as [Hn K]. rewrite (v_keep _ _ _ _ _ _ _ I k Hn (or_intror K)).
      destruct (dget k (i_params inp)); [|reflexivity]. unfold papply.
      rewrite (fprocs_plain tab lit empty_expr ps inp W _ st k I Hn). reflexivity. }
    rewrite Hre, Hv in S2.
    rewrite (assemble_ok proc).
    + cbn [bind]. eexists _, _, sp. split; [reflexivity|]. split; [exact S1|].
      unfold inline. rewrite Hnum. exact S2.
    + intros k Hk. rewrite HkP in Hk. apply P_In in Hk. destruct Hk as [Hn K].
      destruct (w_plain _ _ W k Hn K) as [v Hv']. congruence.
Qed.
End NumRun.
