(* C16 - any history of executions over one compiled cache: every execution yields what [spec_exec]
   says for the compilation that governs it (the first one since the last eviction). *)
From Coq Require Import List ZArith Bool Lia PeanoNat.
Import ListNotations.
From SAV.sql Require Import SchemaTr SchemaTrScanProofs SchemaTrProofs.
Open Scope Z_scope.

Section H.
Variable quote : option bool -> str -> str.
Variable dflt : str.
Variable stmts : nat -> stmt.
Hypothesis stmts_ok : forall sid, stmt_ok quote (stmts sid) = true.

Notation compile_plain := (compile_plain quote).
Notation compile_sym := (compile_sym quote).
Notation render_translates := (render_translates quote dflt).
Notation spec_exec := (spec_exec quote dflt).
Notation get_compiled := (get_compiled quote stmts).
Notation exec_cached := (exec_cached quote dflt stmts).
Notation exec_ddl := (exec_ddl quote dflt stmts).
Notation exec_scalar_default := (exec_scalar_default quote dflt stmts).
Notation step := (step quote dflt stmts).
Notation run_hist := (run_hist quote dflt stmts).
Notation gov_step := (gov_step stmts).
Notation gov := (gov stmts).
Notation gov_flag := (gov_flag stmts).
Notation op_ok := (op_ok stmts).

Definition cache_ok (c : cache) : Prop :=
  forall sid inc t, lookup sid c = Some (inc, t) -> compile_sym inc (stmts sid) = Ok t.
Definition flag_of (c : cache) (sid : nat) : option bool := option_map fst (lookup sid c).
Definition flag_or (c : cache) (sid : nat) (m : smap) : bool :=
  match flag_of c sid with Some b => b | None => has_none m end.

Lemma stmt_ok_parts : forall sid inc,
  marker_free quote inc (stmts sid) = true /\ names_ok (stmts sid) = true.
Proof.
  intros sid inc. pose proof (stmts_ok sid) as H. unfold stmt_ok in H.
  apply andb_prop in H. destruct H as [H H3]. apply andb_prop in H. destruct H as [H1 H2].
  destruct inc; auto.
Qed.

(* rendering a governed compilation *)
Lemma render_governed : forall inc m sid t,
  is_empty m = false -> map_ok m = true -> force_ok m (stmts sid) = true ->
  compile_sym inc (stmts sid) = Ok t ->
  render_translates inc m t = spec_exec inc m (stmts sid).
Proof.
  intros inc m sid t He Hm Hf Hc. unfold SchemaTr.spec_exec. rewrite He.
  destruct (bracketed (stmts sid)) eqn:Hb.
  - apply (bracket_rejected quote inc) in Hb. rewrite Hb in Hc. discriminate Hc.
  - destruct (stmt_ok_parts sid inc) as [H1 H2].
    apply (render_sym_general quote dflt inc m (stmts sid) t H1 H2 Hf Hm Hc).
Qed.

Lemma get_compiled_spec : forall c sid m, cache_ok c ->
  match get_compiled c sid m with
  | Err e => e = EBracket /\ is_empty m = false /\ bracketed (stmts sid) = true /\ lookup sid c = None
  | Ok (c', None) => c' = c /\ is_empty m = true
  | Ok (c', Some (inc, t)) =>
      is_empty m = false /\ inc = flag_or c sid m /\ compile_sym inc (stmts sid) = Ok t /\
      ((lookup sid c = Some (inc, t) /\ c' = c) \/ (lookup sid c = None /\ c' = (sid, (inc, t)) :: c))
  end.
Proof.
  intros c sid m Hc. unfold SchemaTr.get_compiled, flag_or, flag_of.
  destruct (is_empty m) eqn:He; [auto|].
  destruct (lookup sid c) as [[inc t]|] eqn:El; cbn [option_map fst].
  - split; [reflexivity|]. split; [reflexivity|]. split; [apply (Hc sid inc t El)|]. left. auto.
  - destruct (compile_sym (has_none m) (stmts sid)) as [t|e] eqn:Ec; cbn [bind].
    + split; [reflexivity|]. split; [reflexivity|]. split; [exact Ec|]. right. auto.
    + destruct (compile_sym_err quote _ _ _ Ec) as [-> Hb]. auto.
Qed.

Lemma cache_ok_cons : forall c sid inc t, cache_ok c -> compile_sym inc (stmts sid) = Ok t ->
  cache_ok ((sid, (inc, t)) :: c).
Proof.
  intros c sid inc t Hc Ht sid' inc' t' Hl. cbn [lookup] in Hl.
  destruct (Nat.eqb sid sid') eqn:E.
  - apply Nat.eqb_eq in E. subst. inversion Hl; subst. exact Ht.
  - apply (Hc sid' inc' t' Hl).
Qed.

Lemma exec_cached_spec : forall c sid m, cache_ok c -> op_ok (Exec sid m) = true ->
  snd (exec_cached c sid m) = spec_exec (flag_or c sid m) m (stmts sid).
Proof.
  intros c sid m Hc Ho. cbn [SchemaTr.op_ok] in Ho. apply andb_prop in Ho. destruct Ho as [Hm Hf].
  pose proof (get_compiled_spec c sid m Hc) as G. unfold SchemaTr.exec_cached.
  destruct (get_compiled c sid m) as [[c' [[inc t]|]]|e]; cbn [snd].
  - destruct G as (He & -> & Ht & _). apply render_governed; auto.
  - destruct G as [_ He]. unfold SchemaTr.spec_exec. rewrite He. reflexivity.
  - destruct G as (-> & He & Hb & _). unfold SchemaTr.spec_exec. rewrite He, Hb. reflexivity.
Qed.

Lemma exec_ddl_spec : forall sid m, op_ok (Ddl sid m) = true ->
  exec_ddl sid m = spec_exec (has_none m) m (stmts sid).
Proof.
  intros sid m Ho. cbn [SchemaTr.op_ok] in Ho. apply andb_prop in Ho. destruct Ho as [Hm Hf].
  unfold SchemaTr.exec_ddl. destruct (is_empty m) eqn:He.
  - unfold SchemaTr.spec_exec. rewrite He. reflexivity.
  - destruct (compile_sym (has_none m) (stmts sid)) as [t|e] eqn:Ec; cbn [bind].
    + apply render_governed; auto.
    + destruct (compile_sym_err quote _ _ _ Ec) as [-> Hb]. unfold SchemaTr.spec_exec. rewrite He, Hb. reflexivity.
Qed.

Lemma exec_scalar_default_spec : forall c sid dsid m, cache_ok c -> op_ok (ScalarDefault sid dsid m) = true ->
  snd (exec_scalar_default c sid dsid m) =
    spec_scalar_default quote dflt (flag_or c sid m) m (stmts sid) (stmts dsid).
Proof.
  intros c sid dsid m Hc Ho. cbn [SchemaTr.op_ok] in Ho. apply andb_prop in Ho. destruct Ho as [Hm Hf].
  pose proof (get_compiled_spec c sid m Hc) as G. unfold SchemaTr.exec_scalar_default, spec_scalar_default.
  destruct (get_compiled c sid m) as [[c' [[inc t]|]]|e]; cbn [snd].
  - destruct G as (He & -> & Ht & _). rewrite He.
    destruct (bracketed (stmts sid)) eqn:Hb.
    { apply (bracket_rejected quote (flag_or c sid m)) in Hb. rewrite Hb in Ht. discriminate Ht. }
    destruct (compile_sym (has_none m) (stmts dsid)) as [td|e] eqn:Ed; cbn [bind].
    + assert (Hbd : bracketed (stmts dsid) = false).
      { destruct (bracketed (stmts dsid)) eqn:Hb2; [|reflexivity].
        apply (bracket_rejected quote (has_none m)) in Hb2. rewrite Hb2 in Ed. discriminate Ed. }
      rewrite Hbd. unfold SchemaTr.render_translates.
      destruct (has_none m && negb (flag_or c sid m)) eqn:Hn; [reflexivity|].
      destruct (stmt_ok_parts dsid (has_none m)) as [H1 H2].
      pose proof (render_sym_direct quote dflt m (stmts dsid) td H1 H2 Hf Hm Ed) as R.
      unfold SchemaTr.render_translates in R. rewrite andb_negb_r in R. exact R.
    + destruct (compile_sym_err quote _ _ _ Ed) as [-> Hb2]. rewrite Hb2. reflexivity.
  - destruct G as [_ He]. rewrite He. reflexivity.
  - destruct G as (-> & He & Hb & _). rewrite He, Hb. reflexivity.
Qed.

(* ---- the cache after a history and the governing compilation ---- *)
Lemma lookup_evict : forall sids c sid,
  lookup sid (evict sids c) = if existsb (Nat.eqb sid) sids then None else lookup sid c.
Proof.
  intros sids. induction c as [|[k v] c IH]; intros sid.
  - cbn. destruct (existsb _ sids); reflexivity.
  - unfold evict in *. cbn [filter fst]. destruct (existsb (Nat.eqb k) sids) eqn:Ek; cbn [negb].
    + rewrite IH. cbn [lookup]. destruct (Nat.eqb k sid) eqn:E; [|reflexivity].
      apply Nat.eqb_eq in E. subst. rewrite Ek. reflexivity.
    + cbn [lookup]. destruct (Nat.eqb k sid) eqn:E; [|apply IH].
      apply Nat.eqb_eq in E. subst. rewrite Ek. reflexivity.
Qed.

Lemma get_compiled_step : forall c sid m, cache_ok c ->
  let c' := match get_compiled c sid m with Ok (c', _) => c' | Err _ => c end in
  cache_ok c' /\
  forall sid', flag_of c' sid' =
    match flag_of c sid' with
    | Some b => Some b
    | None => if Nat.eqb sid sid' && negb (is_empty m) && negb (bracketed (stmts sid'))
              then Some (has_none m) else None
    end.
Proof.
  intros c sid m Hc. pose proof (get_compiled_spec c sid m Hc) as G.
  destruct (get_compiled c sid m) as [[c' [[inc t]|]]|e]; cbn zeta.
  - destruct G as (He & Hi & Ht & [[Hl ->]|[Hl ->]]).
    + split; [exact Hc|]. intros sid'. destruct (flag_of c sid') eqn:Ef; [reflexivity|].
      destruct (Nat.eqb sid sid') eqn:E; [|reflexivity]. apply Nat.eqb_eq in E. subst sid'.
      unfold flag_of in Ef. rewrite Hl in Ef. discriminate Ef.
    + split; [apply cache_ok_cons; assumption|]. intros sid'. unfold flag_of. cbn [lookup].
      destruct (Nat.eqb sid sid') eqn:E.
      * apply Nat.eqb_eq in E. subst sid'. rewrite Hl. cbn [option_map fst]. rewrite He. cbn [negb andb].
        assert (bracketed (stmts sid) = false) as ->.
        { destruct (bracketed (stmts sid)) eqn:Hb; [|reflexivity].
          apply (bracket_rejected quote inc) in Hb. rewrite Hb in Ht. discriminate Ht. }
        cbn [negb]. unfold flag_or, flag_of in Hi. rewrite Hl in Hi. cbn in Hi. subst. reflexivity.
      * cbn [andb]. destruct (option_map fst (lookup sid' c)); reflexivity.
  - destruct G as [-> He]. split; [exact Hc|]. intros sid'. rewrite He. cbn [negb andb]. rewrite andb_false_r.
    destruct (flag_of c sid'); reflexivity.
  - destruct G as (-> & He & Hb & Hl). split; [exact Hc|]. intros sid'.
    destruct (flag_of c sid') eqn:Ef; [reflexivity|].
    destruct (Nat.eqb sid sid') eqn:E; [|reflexivity]. apply Nat.eqb_eq in E. subst sid'.
    rewrite Hb. cbn [negb]. rewrite andb_false_r. reflexivity.
Qed.

Definition next (c : cache) (o : op) : cache := fst (step c o).
Definition cache_after (c : cache) (pre : list op) : cache := fold_left next pre c.

Lemma step_inv : forall c o, cache_ok c ->
  cache_ok (next c o) /\ forall sid, flag_of (next c o) sid = gov_step sid (flag_of c sid) o.
Proof.
  intros c o Hc. unfold next. destruct o as [sid m|sid m|sid dsid m|sids]; cbn [SchemaTr.step SchemaTr.gov_step].
  - pose proof (get_compiled_step c sid m Hc) as G. cbn zeta in G. unfold SchemaTr.exec_cached.
    destruct (get_compiled c sid m) as [[c' [[inc t]|]]|e]; cbn [fst]; destruct G as [G1 G2]; (split; [exact G1|]);
      intros sid'; apply G2.
  - cbn [fst]. split; [exact Hc|reflexivity].
  - pose proof (get_compiled_step c sid m Hc) as G. cbn zeta in G. unfold SchemaTr.exec_scalar_default.
    destruct (get_compiled c sid m) as [[c' [[inc t]|]]|e]; cbn [fst]; destruct G as [G1 G2]; (split; [exact G1|]);
      intros sid'; apply G2.
  - cbn [fst]. split.
    + intros sid inc t Hl. rewrite lookup_evict in Hl. destruct (existsb (Nat.eqb sid) sids); [discriminate Hl|].
      apply (Hc sid inc t Hl).
    + intros sid. unfold flag_of. rewrite lookup_evict. destruct (existsb (Nat.eqb sid) sids); reflexivity.
Qed.

Lemma cache_after_inv : forall pre c, cache_ok c ->
  cache_ok (cache_after c pre) /\
  forall sid, flag_of (cache_after c pre) sid = fold_left (gov_step sid) pre (flag_of c sid).
Proof.
  induction pre as [|o pre IH]; intros c Hc; [split; [exact Hc|reflexivity]|].
  unfold cache_after in *. cbn [fold_left]. destruct (step_inv c o Hc) as [H1 H2].
  destruct (IH (next c o) H1) as [H3 H4]. split; [exact H3|]. intros sid. rewrite H4, H2. reflexivity.
Qed.

Lemma cache_ok_nil : cache_ok [].
Proof. intros sid inc t H. discriminate H. Qed.

Lemma flag_or_gov : forall pre sid m, flag_or (cache_after [] pre) sid m = gov_flag pre sid m.
Proof.
  intros pre sid m. unfold flag_or, SchemaTr.gov_flag, SchemaTr.gov.
  destruct (cache_after_inv pre [] cache_ok_nil) as [_ H]. rewrite H. reflexivity.
Qed.

Lemma run_hist_nth : forall pre c o post,
  nth (length pre) (run_hist c (pre ++ o :: post)) None = snd (step (cache_after c pre) o).
Proof.
  induction pre as [|p pre IH]; intros c o post.
  - unfold cache_after. cbn [app length SchemaTr.run_hist fold_left]. destruct (step c o) as [c' out]. reflexivity.
  - cbn [app length SchemaTr.run_hist]. unfold cache_after. cbn [fold_left]. unfold next at 2.
    destruct (step c p) as [c' out] eqn:E. cbn [nth fst]. apply IH.
Qed.

(* cache_history_transparent *)
Theorem history_exec : forall pre sid m post, op_ok (Exec sid m) = true ->
  nth (length pre) (run_hist [] (pre ++ Exec sid m :: post)) None
  = Some (spec_exec (gov_flag pre sid m) m (stmts sid)).
Proof.
  intros pre sid m post Ho. rewrite run_hist_nth. cbn [SchemaTr.step].
  destruct (cache_after_inv pre [] cache_ok_nil) as [Hc _].
  pose proof (exec_cached_spec _ sid m Hc Ho) as E.
  destruct (exec_cached (cache_after [] pre) sid m) as [c' r]. cbn [snd] in *. rewrite E, flag_or_gov. reflexivity.
Qed.

Theorem history_ddl : forall pre sid m post, op_ok (Ddl sid m) = true ->
  nth (length pre) (run_hist [] (pre ++ Ddl sid m :: post)) None
  = Some (spec_exec (has_none m) m (stmts sid)).
Proof.
  intros pre sid m post Ho. rewrite run_hist_nth. cbn [SchemaTr.step snd]. rewrite (exec_ddl_spec sid m Ho). reflexivity.
Qed.

Theorem history_scalar_default : forall pre sid dsid m post, op_ok (ScalarDefault sid dsid m) = true ->
  nth (length pre) (run_hist [] (pre ++ ScalarDefault sid dsid m :: post)) None
  = Some (spec_scalar_default quote dflt (gov_flag pre sid m) m (stmts sid) (stmts dsid)).
Proof.
  intros pre sid dsid m post Ho. rewrite run_hist_nth. cbn [SchemaTr.step].
  destruct (cache_after_inv pre [] cache_ok_nil) as [Hc _].
  pose proof (exec_scalar_default_spec _ sid dsid m Hc Ho) as E.
  destruct (exec_scalar_default (cache_after [] pre) sid dsid m) as [c' r]. cbn [snd] in *.
  rewrite E, flag_or_gov. reflexivity.
Qed.

(* histories whose maps agree on the presence of the None key: no stale compilation is ever visible *)
Definition agrees (sid : nat) (b : bool) (o : op) : bool :=
  match o with
  | Exec sid' m | ScalarDefault sid' _ m => negb (Nat.eqb sid' sid) || is_empty m || Bool.eqb (has_none m) b
  | _ => true
  end.
Lemma gov_agrees : forall pre sid b g, forallb (agrees sid b) pre = true ->
  (g = None \/ g = Some b) ->
  fold_left (gov_step sid) pre g = None \/ fold_left (gov_step sid) pre g = Some b.
Proof.
  induction pre as [|o pre IH]; intros sid b g Ha Hg; [exact Hg|].
  cbn [forallb] in Ha. apply andb_prop in Ha. destruct Ha as [Ho Ha]. cbn [fold_left].
  apply (IH sid b _ Ha). destruct Hg as [->| ->].
  - destruct o as [sid' m|sid' m|sid' dsid m|sids]; cbn [SchemaTr.gov_step agrees] in *; auto.
    + destruct (Nat.eqb sid' sid); cbn [negb orb andb] in *; auto.
      destruct (is_empty m); cbn [negb orb andb] in *; auto.
      destruct (bracketed (stmts sid)); cbn [negb] ; auto. apply Bool.eqb_prop in Ho. subst. auto.
    + destruct (Nat.eqb sid' sid); cbn [negb orb andb] in *; auto.
      destruct (is_empty m); cbn [negb orb andb] in *; auto.
      destruct (bracketed (stmts sid)); cbn [negb] ; auto. apply Bool.eqb_prop in Ho. subst. auto.
    + destruct (existsb (Nat.eqb sid) sids); auto.
  - destruct o as [sid' m|sid' m|sid' dsid m|sids]; cbn [SchemaTr.gov_step]; auto.
    destruct (existsb (Nat.eqb sid) sids); auto.
Qed.

Theorem history_consistent : forall pre sid m post, op_ok (Exec sid m) = true ->
  forallb (agrees sid (has_none m)) pre = true ->
  nth (length pre) (run_hist [] (pre ++ Exec sid m :: post)) None
  = Some (spec_exec (has_none m) m (stmts sid)).
Proof.
  intros pre sid m post Ho Ha. rewrite (history_exec pre sid m post Ho). f_equal. f_equal.
  unfold SchemaTr.gov_flag, SchemaTr.gov.
  destruct (gov_agrees pre sid (has_none m) None Ha (or_introl eq_refl)) as [-> | ->]; reflexivity.
Qed.

(* with a consistent governing flag the specification is the directly translated statement *)
Lemma spec_exec_consistent : forall m s, is_empty m = false -> bracketed s = false ->
  spec_exec (has_none m) m s = direct quote dflt m s.
Proof.
  intros m s He Hb. unfold SchemaTr.spec_exec, SchemaTr.direct. rewrite He, Hb, andb_negb_r.
  rewrite direct_inc_consistent. reflexivity.
Qed.
End H.
