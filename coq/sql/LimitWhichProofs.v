(* C18 - the form chosen by each dialect returns the requested slice; the DISTINCT defect of the
   MSSQL ROW_NUMBER() wrapper *)
From Coq Require Import List ZArith Bool Lia Permutation Sorted.
Import ListNotations.
From SAV.sql Require Import Limit LimitListProofs LimitFormProofs.
Open Scope Z_scope.

Section Which.
Variable A : Type.
Variable eqA : A -> A -> bool.
Variable eqk : A -> A -> bool.
Variable reorder : list A -> list A.
Variable lek : A -> A -> bool.
Hypothesis lek_trans : forall a b c, lek a b = true -> lek b c = true -> lek a c = true.
Hypothesis eqk_def : forall a b, eqk a b = lek a b && lek b a.

Notation exec := (exec A eqA eqk reorder).
Notation result := (result A eqA).
Notation spec := (spec A eqA eqk).
Notation sorted := (StronglySorted (fun a b => lek a b = true)).

Definition lo_spec (lo : lim_off) (rows : list A) : list A :=
  match lo with
  | LO_limit l o => slice (opt0 o) (Some l) rows
  | LO_offset o => slice o None rows
  end.
Definition lo_nonneg (lo : lim_off) : Prop :=
  match lo with LO_limit l o => 0 <= l /\ 0 <= opt0 o | LO_offset o => 0 <= o end.

Lemma default_limit_ok : forall lo distinct pre, lo_nonneg lo ->
  exec (default_limit_clause lo) distinct pre = lo_spec lo (result distinct pre).
Proof.
  intros [l o|o] distinct pre H; cbn [default_limit_clause lo_spec].
  - apply limit_eq_slice. apply H.
  - now rewrite limit_negative_eq_slice.
Qed.

Lemma sqlite_limit_ok : forall lo distinct pre, lo_nonneg lo ->
  exec (sqlite_limit_clause lo) distinct pre = lo_spec lo (result distinct pre).
Proof.
  intros [l [o|]|o] distinct pre H; cbn [sqlite_limit_clause lo_spec].
  - apply limit_eq_slice. apply H.
  - rewrite limit_eq_slice by apply H. reflexivity.
  - rewrite limit_negative_eq_slice by (unfold sqlite_no_limit; lia). reflexivity.
Qed.

Lemma pg_limit_ok : forall lo distinct pre, lo_nonneg lo ->
  exec (pg_limit_clause lo) distinct pre = lo_spec lo (result distinct pre).
Proof.
  intros [l o|o] distinct pre H; cbn [pg_limit_clause lo_spec].
  - apply limit_eq_slice. apply H.
  - apply limit_all_eq_slice.
Qed.

Lemma mysql_limit_ok : forall lo distinct pre, lo_nonneg lo ->
  Z.of_nat (length (result distinct pre)) <= mysql_no_limit ->
  exec (mysql_limit_clause lo) distinct pre = lo_spec lo (result distinct pre).
Proof.
  intros [l [o|]|o] distinct pre H Hb; cbn [mysql_limit_clause lo_spec].
  - apply mysql_eq_slice.
  - apply mysql_eq_slice.
  - apply mysql_no_limit_iff; [exact H|]. cbn [lo_nonneg] in H. lia.
Qed.

Definition vals_nonneg (s : sel) : Prop := 0 <= lim_val s /\ 0 <= opt0 (val (s_off s)).

Lemma nonneg_vals : forall s, nonneg s = true -> vals_nonneg s.
Proof. intros s H. unfold nonneg in H. apply andb_prop in H. unfold vals_nonneg. lia. Qed.

Lemma slice_0_none : forall rows : list A, slice 0 None rows = rows.
Proof. reflexivity. Qed.

(* SQLCompiler._row_limit_clause over any dialect limit_clause() that is right on its own *)
Lemma generic_ok : forall limit_fn s pre,
  (forall lo, lo_nonneg lo ->
     exec (limit_fn lo) (s_distinct s) pre = lo_spec lo (result (s_distinct s) pre)) ->
  vals_nonneg s -> (fetch_ties s = true -> sorted pre) ->
  exec (generic_row_limit limit_fn s) (s_distinct s) pre = spec s pre.
Proof.
  intros limit_fn [lim off ordered distinct] pre Hfn [Hl Ho] Hs.
  unfold generic_row_limit, Limit.spec, fetch_clause, limit_clause, fetch_percent, fetch_ties, lim_val in *.
  cbn [s_lim s_off s_distinct] in *.
  destruct lim as [|[ls lv]|[fs fv] pct ties]; cbn [val option_map c_val] in *.
  - destruct off as [[os ov]|]; cbn [val option_map c_val opt0] in *.
    + rewrite Hfn by exact Ho. reflexivity.
    + reflexivity.
  - rewrite Hfn by (split; assumption). reflexivity.
  - cbn [Limit.exec]. apply (fetch_sem_spec A eqk lek lek_trans eqk_def).
    intros Ht. apply sorted_result. now apply Hs.
Qed.

Definition out (d : dialect) (s : sel) (l : list A) : list A :=
  if wrapped (which_form d s) then reorder l else l.

Lemma mssql_ok : forall b s pre, vals_nonneg s -> is_error (mssql_form b s) = false ->
  (fetch_ties s = true -> sorted pre) ->
  guard eqA (MSSQL b) s pre = true ->
  exec (mssql_form b s) (s_distinct s) pre = out (MSSQL b) s (spec s pre).
Proof.
  intros b [lim off ordered distinct] pre [Hl Ho] Herr Hs Hg.
  unfold out, guard in *. cbn [which_form] in *. revert Herr Hg.
  unfold mssql_form, has_row_limiting, use_top, check_can_use_fetch_limit, get_limit_or_fetch,
    Limit.spec, fetch_clause, limit_clause, fetch_percent, fetch_ties, lim_val, simple_int in *.
  cbn [s_lim s_off s_distinct s_ordered] in *.
  destruct lim as [|[ls lv]|[fs fv] pct ties]; destruct off as [[os ov]|];
    cbn [val option_map c_val c_simple opt0 is_some negb orb andb] in *.
  - (* OFFSET only *)
    destruct ordered; cbn [negb]; [|discriminate]. destruct b; intros _ Hg.
    + cbn [wrapped]. apply offset_fetch_eq_slice.
    + cbn [wrapped]. rewrite (exec_rownumber A eqA eqk reorder None (Some ov)) by (cbn; try reflexivity; lia).
      cbn [opt0]. f_equal. destruct distinct; cbn [negb orb Limit.result] in *; [|reflexivity].
      now rewrite nodupb_dedup.
  - intros _ _. reflexivity.
  - (* LIMIT + OFFSET *)
    destruct ordered; cbn [negb]; [|discriminate]. destruct b; intros _ Hg.
    + cbn [wrapped]. apply offset_fetch_eq_slice.
    + cbn [wrapped]. rewrite (exec_rownumber A eqA eqk reorder (Some lv) (Some ov)) by (cbn; try reflexivity; lia).
      cbn [opt0]. f_equal. destruct distinct; cbn [negb orb Limit.result] in *; [|reflexivity].
      now rewrite nodupb_dedup.
  - (* LIMIT only: TOP when simple *)
    destruct ls; cbn [negb orb andb].
    + intros _ _. cbn [wrapped]. apply top_eq_slice.
    + destruct ordered; cbn [negb]; [|discriminate]. destruct b; intros _ Hg.
      * cbn [wrapped]. apply offset_fetch_eq_slice.
      * cbn [wrapped]. rewrite (exec_rownumber A eqA eqk reorder (Some lv) None) by (cbn; try reflexivity; lia).
        cbn [opt0]. f_equal. destruct distinct; cbn [negb orb Limit.result] in *; [|reflexivity].
        now rewrite nodupb_dedup.
  - (* FETCH + OFFSET: no TOP; PERCENT / WITH TIES are a CompileError *)
    destruct ordered; cbn [negb]; [|discriminate].
    destruct (pct || ties) eqn:Ept; [discriminate|]. apply orb_false_elim in Ept. destruct Ept; subst pct ties.
    unfold fetch_spec. destruct b; intros _ Hg.
    + cbn [wrapped]. apply offset_fetch_eq_slice.
    + cbn [wrapped]. rewrite (exec_rownumber A eqA eqk reorder (Some fv) (Some ov)) by (cbn; try reflexivity; lia).
      cbn [opt0]. f_equal. destruct distinct; cbn [negb orb Limit.result] in *; [|reflexivity].
      now rewrite nodupb_dedup.
  - (* FETCH only: TOP iff simple and (PERCENT or WITH TIES) *)
    destruct (fs && (pct || ties)) eqn:Etop.
    + intros _ _. cbn [wrapped Limit.exec].
      apply (fetch_sem_spec A eqk lek lek_trans eqk_def None).
      intros Ht. apply sorted_result. now apply Hs.
    + destruct ordered; cbn [negb]; [|discriminate].
      destruct (pct || ties) eqn:Ept; [discriminate|]. apply orb_false_elim in Ept. destruct Ept; subst pct ties.
      unfold fetch_spec. destruct b; intros _ Hg.
      * cbn [wrapped]. apply offset_fetch_eq_slice.
      * cbn [wrapped]. rewrite (exec_rownumber A eqA eqk reorder (Some fv) None) by (cbn; try reflexivity; lia).
        cbn [opt0]. f_equal. destruct distinct; cbn [negb orb Limit.result] in *; [|reflexivity].
        now rewrite nodupb_dedup.
Qed.

Lemma oracle_ok : forall b s pre, vals_nonneg s ->
  (fetch_ties s = true -> sorted pre) ->
  exec (oracle_form b s) (s_distinct s) pre = out (Oracle b) s (spec s pre).
Proof.
  intros b [lim off ordered distinct] pre [Hl Ho] Hs.
  unfold out. cbn [which_form].
  unfold oracle_form, has_row_limiting, Limit.spec, fetch_clause, limit_clause, fetch_percent,
    fetch_ties, lim_val in *.
  cbn [s_lim s_off s_distinct s_ordered] in *.
  destruct lim as [|[ls lv]|[fs fv] pct ties]; destruct off as [[os ov]|];
    cbn [val option_map c_val c_simple opt0 is_some negb orb andb] in *.
  - destruct b; cbn [wrapped].
    + apply offset_fetch_eq_slice.
    + apply (exec_rownum A eqA eqk reorder None (Some ov)); cbn; try reflexivity; lia.
  - reflexivity.
  - destruct b; cbn [wrapped].
    + apply offset_fetch_eq_slice.
    + apply (exec_rownum A eqA eqk reorder (Some lv) (Some ov)); cbn; try reflexivity; lia.
  - destruct b; cbn [wrapped].
    + apply offset_fetch_eq_slice.
    + apply (exec_rownum A eqA eqk reorder (Some lv) None); cbn; try reflexivity; lia.
  - cbn [wrapped Limit.exec]. apply (fetch_sem_spec A eqk lek lek_trans eqk_def (Some ov)).
    intros Ht. apply sorted_result. now apply Hs.
  - cbn [wrapped Limit.exec]. apply (fetch_sem_spec A eqk lek lek_trans eqk_def None).
    intros Ht. apply sorted_result. now apply Hs.
Qed.

Lemma generic_not_wrapped : forall fn s,
  (forall lo, wrapped (fn lo) = false) -> wrapped (generic_row_limit fn s) = false.
Proof.
  intros fn s H. unfold generic_row_limit. destruct (fetch_clause s); [reflexivity|].
  destruct (val (limit_clause s)); [apply H|]. destruct (val (s_off s)); [apply H|reflexivity].
Qed.

(* THE theorem: whatever form the dialect picks, the database returns the requested slice - as a list
   for the native forms, through the wrapper's outer SELECT ([reorder]) for the emulations *)
Theorem which_form_exec : forall d s pre,
  nonneg s = true ->
  is_error (which_form d s) = false ->
  guard eqA d s pre = true ->
  (d = MySQL -> Z.of_nat (length (result (s_distinct s) pre)) <= mysql_no_limit) ->
  (fetch_ties s = true -> sorted pre) ->
  exec (which_form d s) (s_distinct s) pre = out d s (spec s pre).
Proof.
  intros d s pre Hn Herr Hg Hmy Hs. apply nonneg_vals in Hn.
  destruct d; cbn [which_form] in *.
  - unfold out. cbn [which_form]. rewrite generic_not_wrapped by (intros [? ?|?]; reflexivity).
    apply generic_ok; auto. intros; now apply default_limit_ok.
  - unfold out. cbn [which_form]. rewrite generic_not_wrapped by (intros [? [?|]|?]; reflexivity).
    apply generic_ok; auto. intros; now apply sqlite_limit_ok.
  - unfold out. cbn [which_form]. rewrite generic_not_wrapped by (intros [? [?|]|?]; reflexivity).
    apply generic_ok; auto. intros; apply mysql_limit_ok; auto.
  - unfold out. cbn [which_form]. rewrite generic_not_wrapped by (intros [? ?|?]; reflexivity).
    apply generic_ok; auto. intros; now apply pg_limit_ok.
  - now apply mssql_ok.
  - now apply oracle_ok.
Qed.

(* as multisets, for every behaviour of the outer SELECT *)
Theorem which_form_multiset : forall d s pre,
  (forall l, Permutation (reorder l) l) ->
  nonneg s = true ->
  is_error (which_form d s) = false ->
  guard eqA d s pre = true ->
  (d = MySQL -> Z.of_nat (length (result (s_distinct s) pre)) <= mysql_no_limit) ->
  (fetch_ties s = true -> sorted pre) ->
  Permutation (exec (which_form d s) (s_distinct s) pre) (spec s pre).
Proof.
  intros d s pre Hr Hn Herr Hg Hmy Hs. rewrite which_form_exec by assumption.
  unfold out. destruct (wrapped (which_form d s)); [apply Hr|apply Permutation_refl].
Qed.

(* as lists: native forms always; wrappers only if the outer SELECT keeps the derived table's order *)
Theorem which_form_list : forall d s pre,
  (wrapped (which_form d s) = true -> forall l, reorder l = l) ->
  nonneg s = true ->
  is_error (which_form d s) = false ->
  guard eqA d s pre = true ->
  (d = MySQL -> Z.of_nat (length (result (s_distinct s) pre)) <= mysql_no_limit) ->
  (fetch_ties s = true -> sorted pre) ->
  exec (which_form d s) (s_distinct s) pre = spec s pre.
Proof.
  intros d s pre Hr Hn Herr Hg Hmy Hs. rewrite which_form_exec by assumption.
  unfold out. destruct (wrapped (which_form d s)); [now apply Hr|reflexivity].
Qed.

(* the decision is total and only fails where the code raises CompileError: MSSQL without usable TOP
   and either no ORDER BY or PERCENT / WITH TIES *)
Theorem which_form_error_iff : forall d s,
  is_error (which_form d s) = true <->
  exists b, d = MSSQL b /\ has_row_limiting s = true /\ use_top s = false /\
            (s_ordered s = false \/ fetch_percent s || fetch_ties s = true).
Proof.
  intros d s. split.
  - destruct d; cbn [which_form].
    + unfold generic_row_limit. destruct (fetch_clause s); [discriminate|].
      destruct (val (limit_clause s)); [discriminate|]. destruct (val (s_off s)); discriminate.
    + unfold generic_row_limit. destruct (fetch_clause s); [discriminate|].
      destruct (val (limit_clause s)) as [?|]; destruct (val (s_off s)); discriminate.
    + unfold generic_row_limit. destruct (fetch_clause s); [discriminate|].
      destruct (val (limit_clause s)) as [?|]; destruct (val (s_off s)); discriminate.
    + unfold generic_row_limit. destruct (fetch_clause s); [discriminate|].
      destruct (val (limit_clause s)) as [?|]; destruct (val (s_off s)); discriminate.
    + intros H. exists offset_fetch. split; [reflexivity|]. revert H. unfold mssql_form, check_can_use_fetch_limit.
      destruct (has_row_limiting s); cbn [negb]; [|discriminate].
      destruct (use_top s); [discriminate|].
      destruct (s_ordered s); cbn [negb]; [|auto].
      destruct (fetch_percent s || fetch_ties s); [auto|]. destruct offset_fetch; discriminate.
    + unfold oracle_form. destruct (negb (has_row_limiting s)); [discriminate|].
      destruct (fetch_clause s); [discriminate|]. destruct offset_fetch; discriminate.
  - intros (b & -> & H1 & H2 & H3). cbn [which_form]. unfold mssql_form, check_can_use_fetch_limit.
    rewrite H1, H2. cbn [negb]. destruct H3 as [-> | H3]; [reflexivity|].
    destruct (s_ordered s); cbn [negb]; [|reflexivity]. now rewrite H3.
Qed.

End Which.

(* ---------------------------------------------------------------------------------------------- *)
(* the two emulations on their own *)
Section Wrappers.
Variable A : Type.
Variable eqA : A -> A -> bool.
Variable eqk : A -> A -> bool.
Variable reorder : list A -> list A.
Notation exec := (exec A eqA eqk reorder).
Notation result := (result A eqA).

Definition mssql_plan (lim off : option Z) : plan :=
  PRowNumber (preds_on MssqlRn (mssql_tr (is_some lim) (is_some off))) lim off.
Definition oracle_plan (lim off : option Z) : plan :=
  PRowNum (preds_on RowNum (oracle_tr (is_some lim) (is_some off)))
          (if is_some off then Some (preds_on OraRn (oracle_tr (is_some lim) (is_some off))) else None)
          lim off.

Lemma mssql_rownumber_exec : forall lim off distinct pre,
  is_some lim || is_some off = true -> 0 <= opt0 lim -> 0 <= opt0 off ->
  negb distinct || nodupb A eqA pre = true ->
  exec (mssql_plan lim off) distinct pre = reorder (slice (opt0 off) lim (result distinct pre)).
Proof.
  intros lim off distinct pre H1 H2 H3 Hg. unfold mssql_plan. rewrite exec_rownumber by assumption.
  f_equal. destruct distinct; cbn [negb orb Limit.result] in *; [|reflexivity]. now rewrite nodupb_dedup.
Qed.

Lemma mssql_rownumber_multiset : forall lim off distinct pre,
  (forall l, Permutation (reorder l) l) ->
  is_some lim || is_some off = true -> 0 <= opt0 lim -> 0 <= opt0 off ->
  negb distinct || nodupb A eqA pre = true ->
  Permutation (exec (mssql_plan lim off) distinct pre) (slice (opt0 off) lim (result distinct pre)).
Proof. intros. rewrite mssql_rownumber_exec by assumption. auto. Qed.

Lemma mssql_rownumber_list : forall lim off distinct pre,
  (forall l, reorder l = l) ->
  is_some lim || is_some off = true -> 0 <= opt0 lim -> 0 <= opt0 off ->
  negb distinct || nodupb A eqA pre = true ->
  exec (mssql_plan lim off) distinct pre = slice (opt0 off) lim (result distinct pre).
Proof. intros. rewrite mssql_rownumber_exec by assumption. auto. Qed.

Lemma oracle_rownum_multiset : forall lim off distinct pre,
  (forall l, Permutation (reorder l) l) ->
  is_some lim || is_some off = true -> 0 <= opt0 lim -> 0 <= opt0 off ->
  Permutation (exec (oracle_plan lim off) distinct pre) (slice (opt0 off) lim (result distinct pre)).
Proof. intros. unfold oracle_plan. rewrite exec_rownum by assumption. auto. Qed.

Lemma oracle_rownum_list : forall lim off distinct pre,
  (forall l, reorder l = l) ->
  is_some lim || is_some off = true -> 0 <= opt0 lim -> 0 <= opt0 off ->
  exec (oracle_plan lim off) distinct pre = slice (opt0 off) lim (result distinct pre).
Proof. intros. unfold oracle_plan. rewrite exec_rownum by assumption. auto. Qed.
End Wrappers.

(* ---------------------------------------------------------------------------------------------- *)
(* The defect: SELECT DISTINCT x .. ORDER BY x LIMIT 3 OFFSET 4 on MSSQL < 2012.  mssql_rn is put
   inside the DISTINCT, every row becomes distinct, and the slice is cut from the NON-distinct rows. *)
Definition refute_pre : list Z := [0; 0; 1; 1; 2; 2; 2; 3; 3; 4; 4; 4].
Definition refute_sel : sel :=
  Sel (Limit (Clause true 3)) (Some (Clause true 4)) true true.

Lemma refuted_values : forall reorder,
  exec Z Z.eqb Z.eqb reorder (which_form (MSSQL false) refute_sel) true refute_pre = reorder [2; 2; 2]
  /\ spec Z Z.eqb Z.eqb refute_sel refute_pre = [4].
Proof. intros. split; vm_compute; reflexivity. Qed.

Theorem mssql_rownumber_distinct_refuted :
  exists (s : sel) (pre : list Z), nonneg s = true /\ s_ordered s = true /\
    StronglySorted (fun a b => (a <=? b) = true) pre /\
    forall reorder, (forall l, Permutation (reorder l) l) ->
      ~ Permutation (exec Z Z.eqb Z.eqb reorder (which_form (MSSQL false) s) (s_distinct s) pre)
                    (spec Z Z.eqb Z.eqb s pre).
Proof.
  exists refute_sel, refute_pre. split; [reflexivity|]. split; [reflexivity|]. split.
  - unfold refute_pre. repeat (constructor; [|repeat (constructor; [reflexivity|]); constructor]). constructor.
  - intros reorder Hr HP. destruct (refuted_values reorder) as [E1 E2].
    change (s_distinct refute_sel) with true in HP. rewrite E1, E2 in HP.
    apply Permutation_length in HP. rewrite (Permutation_length (Hr _)) in HP. discriminate.
Qed.
