(* C16 - schema_translate_map.  Executable model of
     sql/compiler.py   IdentifierPreparer._with_schema_translate (symbol_getter),
                       IdentifierPreparer._render_schema_translates (+ its inner [replace] and the regex),
                       IdentifierPreparer.format_table (schema prefix),
     sql/elements.py   ClauseElement._compile_w_cache (the cache key holds only bool(map)),
     engine/base.py    Connection._execute_ddl (DDL is compiled on every execution, never cached),
     engine/default.py DefaultExecutionContext._init_compiled / _init_ddl / _execute_scalar /
                       _exec_default_clause_element (a pre-executed SQL default is compiled with the current map)
   and the SPEC side: the schema a table would carry if it were rebuilt with the translated name
   ([target], [subst_schemas]) and what such a statement compiles to without any map ([compile_plain]).

   A statement is the list of the pieces its SQL text is made of: literal text the compiler emits
   independently of schema names ([Txt]) and the places where IdentifierPreparer.format_table /
   format_sequence / visit_column ask [schema_for_object] for a schema prefix ([Sch]).
   Strings are lists of code points.  [quote] (IdentifierPreparer.quote, property C06) and the dialect's
   default_schema_name are Section variables: every theorem holds for all of them.
   Definitions only; proofs are in SchemaTr*Proofs.v. *)
From Coq Require Import List ZArith Bool.
Import ListNotations.
Open Scope Z_scope.

Definition str := list Z.

Fixpoint str_eqb (a b : str) : bool :=
  match a, b with
  | [], [] => true
  | x :: a', y :: b' => Z.eqb x y && str_eqb a' b'
  | _, _ => false
  end.
Definition ostr_eqb (a b : option str) : bool :=
  match a, b with
  | None, None => true
  | Some x, Some y => str_eqb x y
  | _, _ => false
  end.

(* Python exceptions are result values *)
Inductive err : Type :=
| ENoneAdded      (* InvalidRequestError "previously did not have `None` present as a key now has" *)
| ENoneRemoved    (* InvalidRequestError "previously had `None` present as a key now no longer has it" *)
| ENoDefault      (* CompileError "Dialect has no default schema name; can't use None as dynamic schema target" *)
| EBracket.       (* CompileError "Square bracket characters ([]) not supported in schema translate name" *)
Inductive result (A : Type) : Type := Ok (a : A) | Err (e : err).
Arguments Ok {A} a.
Arguments Err {A} e.

Definition bind {A B} (r : result A) (f : A -> result B) : result B :=
  match r with Ok a => f a | Err e => Err e end.

(* a place where the compiler renders a schema prefix *)
Record sref : Type := {
  r_map : bool;            (* obj._use_schema_map: True for Table / Sequence, False for table() clauses *)
  r_name : option str;     (* obj.schema *)
  r_force : option bool    (* getattr(obj.schema, "quote", None): quoted_name(..., quote=...) *)
}.
Inductive item : Type := Txt (s : str) | Sch (r : sref).
Definition stmt := list item.

(* schema_translate_map: a dict; key None = Python None; a value None (or "") is falsy *)
Definition smap := list (option str * option str).

Fixpoint assoc (k : option str) (d : smap) : option (option str) :=
  match d with
  | [] => None
  | (k', v) :: r => if ostr_eqb k k' then Some v else assoc k r
  end.
Definition has_key (k : option str) (d : smap) : bool :=
  match assoc k d with Some _ => true | None => false end.
Definition has_none (d : smap) : bool := has_key None d.      (* None in schema_translate_map *)
Definition is_empty (d : smap) : bool := match d with [] => true | _ => false end.  (* not bool(map) *)

Definition c_us : Z := 95.   (* _ *)
Definition c_lb : Z := 91.   (* [ *)
Definition c_rb : Z := 93.   (* ] *)
Definition c_dot : Z := 46.  (* . *)
(* "__[SCHEMA_" *)
Definition tok_prefix : str := [95; 95; 91; 83; 67; 72; 69; 77; 65; 95].
(* "_none" *)
Definition none_name : str := [95; 110; 111; 110; 101].

Definition has_bracket (s : str) : bool := existsb (fun c => Z.eqb c c_lb || Z.eqb c c_rb) s.
(* "__[SCHEMA_%s]" % name *)
Definition token (name : str) : str := tok_prefix ++ name ++ [c_rb].
(* name or "_none" *)
Definition or_none (o : option str) : str :=
  match o with Some (c :: s) => c :: s | _ => none_name end.
(* truthiness of an optional string *)
Definition truthy (o : option str) : option str :=
  match o with Some (c :: s) => Some (c :: s) | _ => None end.

(* ------------------------------------------------------------------------------------------- *)
(* the regex  (__\[SCHEMA_([^\]]+)\])  at the head of [s]: the name (group 2) and what follows the match.
   [^\]]+ is greedy and can only be followed by "]", so the match is decided by the first "]" *)
Fixpoint strip_prefix (p s : str) : option str :=
  match p, s with
  | [], _ => Some s
  | a :: p', b :: s' => if Z.eqb a b then strip_prefix p' s' else None
  | _ :: _, [] => None
  end.
Fixpoint span_name (s : str) : str * str :=
  match s with
  | [] => ([], [])
  | c :: r => if Z.eqb c c_rb then ([], s) else let '(n, t) := span_name r in (c :: n, t)
  end.
Definition try_match (s : str) : option str :=
  match strip_prefix tok_prefix s with
  | Some r =>
      match span_name r with
      | ((_ :: _) as n, _ :: _) => Some n    (* the rest starts with the "]" span_name stopped at *)
      | _ => None
      end
  | None => None
  end.
Definition match_len (n : str) : nat := (10 + length n + 1)%nat.

(* re.sub(pattern, replace, statement): leftmost non-overlapping matches, the replacement text is not
   rescanned; an exception raised by [replace] aborts.  [skip] = characters of the current match still to
   be consumed. *)
Fixpoint scan_aux (repl : str -> result str) (skip : nat) (s : str) : result str :=
  match s with
  | [] => Ok []
  | c :: r =>
      match skip with
      | S k => scan_aux repl k r
      | O =>
          match try_match s with
          | Some n =>
              bind (repl n) (fun t => bind (scan_aux repl (match_len n - 1) r) (fun u => Ok (t ++ u)))
          | None => bind (scan_aux repl 0 r) (fun u => Ok (c :: u))
          end
      end
  end.
Definition scan (repl : str -> result str) (s : str) : result str := scan_aux repl 0 s.

Section Model.
Variable quote : option bool -> str -> str.   (* IdentifierPreparer.quote(ident) with force = ident.quote *)
Variable dflt : str.                           (* dialect.default_schema_name ("" = None) *)

(* ---- compilation without a map: schema_for_object = attrgetter("schema") ---- *)
(* format_table: "if ... and effective_schema: result = quote_schema(effective_schema) + '.' + result" *)
Definition prefix_plain (r : sref) : str :=
  match truthy (r_name r) with
  | Some n => quote (r_force r) n ++ [c_dot]
  | None => []
  end.
Definition piece_plain (i : item) : str :=
  match i with Txt s => s | Sch r => prefix_plain r end.
Definition compile_plain (s : stmt) : str := concat (map piece_plain s).

(* ---- compilation with a (non-empty) map: _with_schema_translate.symbol_getter ---- *)
Inductive seg : Type := Lit (s : str) | Tok (name : str).
Definition symbolic (inc : bool) (r : sref) : bool :=
  r_map r && (match r_name r with Some _ => true | None => inc end).
Definition piece_sym (inc : bool) (i : item) : result (list seg) :=
  match i with
  | Txt s => Ok [Lit s]
  | Sch r =>
      if symbolic inc r then
        match r_name r with
        | Some n => if has_bracket n then Err EBracket else Ok [Tok (or_none (Some n)); Lit [c_dot]]
        | None => Ok [Tok none_name; Lit [c_dot]]
        end
      else Ok [Lit (prefix_plain r)]
  end.
Fixpoint segs_of (inc : bool) (s : stmt) : result (list seg) :=
  match s with
  | [] => Ok []
  | i :: r => bind (piece_sym inc i) (fun a => bind (segs_of inc r) (fun b => Ok (a ++ b)))
  end.
Definition seg_text (g : seg) : str := match g with Lit s => s | Tok n => token n end.
Definition flat (g : list seg) : str := concat (map seg_text g).
(* the string of the Compiled object, [inc] = None in (the map it was compiled with) *)
Definition compile_sym (inc : bool) (s : stmt) : result str :=
  bind (segs_of inc s) (fun g => Ok (flat g)).

(* ---- _render_schema_translates ---- *)
(* d after  d = dict(d); d["_none"] = d[None]  (a copy, made when None in d; the caller's dict is untouched) *)
Definition d_has (d : smap) (name : str) : bool :=
  (has_none d && str_eqb name none_name) || has_key (Some name) d.
Definition d_get (d : smap) (name : str) : option str :=
  if has_none d && str_eqb name none_name then
    match assoc None d with Some v => v | None => None end
  else match assoc (Some name) d with Some v => v | None => None end.
(* the fallback for a falsy effective schema *)
Definition or_default (o : option str) : result str :=
  match truthy o with
  | Some n => Ok n
  | None => match dflt with _ :: _ => Ok dflt | [] => Err ENoDefault end
  end.
(* the schema name [replace] decides on, before quoting *)
Definition effective (d : smap) (name : str) : result str :=
  bind (if d_has d name then Ok (d_get d name)
        else if str_eqb name none_name then Err ENoneRemoved
        else Ok (Some name))
       or_default.
Definition replace (d : smap) (name : str) : result str :=
  bind (effective d name) (fun n => Ok (quote None n)).
Definition render_translates (inc : bool) (d : smap) (text : str) : result str :=
  if has_none d && negb inc then Err ENoneAdded else scan (replace d) text.

(* ---- one execution against the compiled cache ---- *)
Definition cache := list (nat * (bool * str)).     (* statement -> (_includes_none_schema_translate, string) *)
Fixpoint lookup (sid : nat) (c : cache) : option (bool * str) :=
  match c with
  | [] => None
  | (k, v) :: r => if Nat.eqb k sid then Some v else lookup sid r
  end.
Definition evict (sids : list nat) (c : cache) : cache :=
  filter (fun kv => negb (existsb (Nat.eqb (fst kv)) sids)) c.

Inductive op : Type :=
| Exec (sid : nat) (m : smap)                 (* Connection._execute_clauseelement *)
| Ddl (sid : nat) (m : smap)                  (* Connection._execute_ddl *)
| ScalarDefault (sid dsid : nat) (m : smap)   (* statement [sid] pre-executes the SQL default [dsid] *)
| Evict (sids : list nat).                    (* LRU eviction / clear_compiled_cache() *)

Variable stmts : nat -> stmt.

(* _compile_w_cache + _init_compiled: the new cache and the Compiled used (None: compiled without map) *)
Definition get_compiled (c : cache) (sid : nat) (m : smap) : result (cache * option (bool * str)) :=
  if is_empty m then Ok (c, None)
  else match lookup sid c with
       | Some hit => Ok (c, Some hit)
       | None =>
           let inc := has_none m in
           bind (compile_sym inc (stmts sid)) (fun t => Ok ((sid, (inc, t)) :: c, Some (inc, t)))
       end.
Definition exec_cached (c : cache) (sid : nat) (m : smap) : cache * result str :=
  match get_compiled c sid m with
  | Err e => (c, Err e)
  | Ok (c', None) => (c', Ok (compile_plain (stmts sid)))
  | Ok (c', Some (inc, t)) => (c', render_translates inc m t)
  end.
Definition exec_ddl (sid : nat) (m : smap) : result str :=
  if is_empty m then Ok (compile_plain (stmts sid))
  else bind (compile_sym (has_none m) (stmts sid)) (render_translates (has_none m) m).
(* _exec_default_clause_element: select(default).compile(dialect=..., schema_translate_map=<the map of the
   execution options>) - a fresh compilation with the CURRENT map, never cached - then _execute_scalar renders
   that text with the parent statement's preparer (whose None-key state is the cached one).
   _init_compiled runs _process_execute_defaults BEFORE it renders the parent statement, so the default's
   SELECT reaches the cursor first (this is the text observed here) *)
Definition exec_scalar_default (c : cache) (sid dsid : nat) (m : smap) : cache * result str :=
  match get_compiled c sid m with
  | Err e => (c, Err e)
  | Ok (c', None) => (c', Ok (compile_plain (stmts dsid)))
  | Ok (c', Some (inc, t)) =>
      (c', bind (compile_sym (has_none m) (stmts dsid)) (render_translates inc m))
  end.

Definition step (c : cache) (o : op) : cache * option (result str) :=
  match o with
  | Exec sid m => let '(c', r) := exec_cached c sid m in (c', Some r)
  | Ddl sid m => (c, Some (exec_ddl sid m))
  | ScalarDefault sid dsid m => let '(c', r) := exec_scalar_default c sid dsid m in (c', Some r)
  | Evict sids => (evict sids c, None)
  end.
Fixpoint run_hist (c : cache) (ops : list op) : list (option (result str)) :=
  match ops with
  | [] => []
  | o :: r => let '(c', out) := step c o in out :: run_hist c' r
  end.

(* =========================================================================================== *)
(* SPEC side: the same construct with the translated schema names, compiled without a map       *)
(* the schema a Table carries after translation; a falsy target means the default schema, which
   _render_schema_translates names explicitly *)
Definition target (m : smap) (r : sref) : result sref :=
  if r_map r then
    match assoc (r_name r) m with
    | Some tgt => bind (or_default tgt) (fun n => Ok {| r_map := true; r_name := Some n; r_force := None |})
    | None => Ok r
    end
  else Ok r.
(* ... as the documentation describes a None target: "will render with no schema" *)
Definition target_doc (m : smap) (r : sref) : sref :=
  if r_map r then
    match assoc (r_name r) m with
    | Some tgt => {| r_map := true; r_name := truthy tgt; r_force := None |}
    | None => r
    end
  else r.
Fixpoint subst_schemas (m : smap) (s : stmt) : result stmt :=
  match s with
  | [] => Ok []
  | Txt t :: r => bind (subst_schemas m r) (fun r' => Ok (Txt t :: r'))
  | Sch x :: r => bind (target m x) (fun x' => bind (subst_schemas m r) (fun r' => Ok (Sch x' :: r')))
  end.
Definition subst_doc (m : smap) (s : stmt) : stmt :=
  map (fun i => match i with Txt t => Txt t | Sch x => Sch (target_doc m x) end) s.
Definition direct (m : smap) (s : stmt) : result str :=
  bind (subst_schemas m s) (fun s' => Ok (compile_plain s')).

(* a translatable reference whose name contains a square bracket *)
Definition bracketed (s : stmt) : bool :=
  existsb (fun i => match i with
                    | Sch r => r_map r && match r_name r with Some n => has_bracket n | None => false end
                    | Txt _ => false end) s.
(* a translatable schema-less reference *)
Definition has_none_ref (s : stmt) : bool :=
  existsb (fun i => match i with
                    | Sch r => r_map r && match r_name r with None => true | Some _ => false end
                    | Txt _ => false end) s.
(* what the documentation promises for an execution whose Compiled was built when the None key was
   [inc]: the documented errors when the presence of the None key differs, else the direct statement.
   The order of the checks is the order in which the implementation meets them. *)
Fixpoint direct_inc (inc : bool) (m : smap) (s : stmt) : result stmt :=
  match s with
  | [] => Ok []
  | Txt t :: r => bind (direct_inc inc m r) (fun r' => Ok (Txt t :: r'))
  | Sch x :: r =>
      bind (if r_map x && inc && negb (has_none m) && match r_name x with None => true | _ => false end
            then Err ENoneRemoved else target m x)
           (fun x' => bind (direct_inc inc m r) (fun r' => Ok (Sch x' :: r')))
  end.
Definition spec_exec (inc : bool) (m : smap) (s : stmt) : result str :=
  if is_empty m then Ok (compile_plain s)
  else if bracketed s then Err EBracket
  else if has_none m && negb inc then Err ENoneAdded
  else bind (direct_inc inc m s) (fun s' => Ok (compile_plain s')).

(* the pre-executed default: translated with the current map; the None-key check is the parent's *)
Definition spec_scalar_default (inc : bool) (m : smap) (s ds : stmt) : result str :=
  if is_empty m then Ok (compile_plain ds)
  else if bracketed s then Err EBracket
  else if bracketed ds then Err EBracket
  else if has_none m && negb inc then Err ENoneAdded
  else direct m ds.

(* which compilation governs statement [sid] after the operations [pre]: the first successful one with
   a non-empty map since the statement was last evicted *)
Definition gov_step (sid : nat) (g : option bool) (o : op) : option bool :=
  match o with
  | Exec sid' m | ScalarDefault sid' _ m =>
      match g with
      | Some b => Some b
      | None => if Nat.eqb sid' sid && negb (is_empty m) && negb (bracketed (stmts sid))
                then Some (has_none m) else None
      end
  | Ddl _ _ => g
  | Evict sids => if existsb (Nat.eqb sid) sids then None else g
  end.
Definition gov (pre : list op) (sid : nat) : option bool := fold_left (gov_step sid) pre None.
Definition gov_flag (pre : list op) (sid : nat) (m : smap) : bool :=
  match gov pre sid with Some b => b | None => has_none m end.

(* ---- guards: the regions in which the implementation does what the property says ---- *)
(* "__[SCHEMA" *)
Definition marker : str := [95; 95; 91; 83; 67; 72; 69; 77; 65].
Fixpoint is_prefix (p s : str) : bool :=
  match p, s with
  | [], _ => true
  | a :: p', b :: s' => Z.eqb a b && is_prefix p' s'
  | _ :: _, [] => false
  end.
Fixpoint occurs (p s : str) : bool :=
  is_prefix p s || match s with [] => false | _ :: r => occurs p r end.
(* the text around the schema tokens does not contain the token marker *)
Definition skel (g : list seg) : str :=
  concat (map (fun x => match x with Lit s => s | Tok _ => [c_rb] end) g).
Definition marker_free (inc : bool) (s : stmt) : bool :=
  match segs_of inc s with Ok g => negb (occurs marker (skel g)) | Err _ => true end.
(* no translatable reference is called "_none" or "" *)
Definition names_ok (s : stmt) : bool :=
  forallb (fun i => match i with
                    | Sch r => negb (r_map r) ||
                               match r_name r with
                               | Some n => negb (str_eqb n none_name) && negb (str_eqb n [])
                               | None => true end
                    | Txt _ => true end) s.
(* an explicit quoted_name(..., quote=...) flag only on references the map translates *)
Definition force_ok (m : smap) (s : stmt) : bool :=
  forallb (fun i => match i with
                    | Sch r => negb (r_map r) || has_key (r_name r) m ||
                               match r_name r, r_force r with
                               | Some _, Some _ => false
                               | _, _ => true end
                    | Txt _ => true end) s.
Definition map_ok (m : smap) : bool := negb (has_key (Some none_name) m).
Definition stmt_ok (s : stmt) : bool := marker_free true s && marker_free false s && names_ok s.
(* no falsy target: the region where "default schema" and "no schema" need not be told apart *)
Definition targets_truthy (m : smap) : bool :=
  forallb (fun kv => match truthy (snd kv) with Some _ => true | None => false end) m.

(* the map translates no reference of the statement *)
Definition untranslated (m : smap) (s : stmt) : bool :=
  forallb (fun i => match i with
                    | Sch r => negb (r_map r) || negb (has_key (r_name r) m)
                    | Txt _ => true end) s.

(* per operation: the guards of the statement executed with this map *)
Definition op_ok (o : op) : bool :=
  match o with
  | Exec sid m | Ddl sid m => map_ok m && force_ok m (stmts sid)
  | ScalarDefault sid dsid m =>
      map_ok m && force_ok m (stmts dsid)
  | Evict _ => true
  end.

End Model.
