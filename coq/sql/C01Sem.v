(* C01 semantic half: associative flattening, and_/or_ flattening and negation rewriting preserve
   evaluation, for any operator semantics in which the flattened operators are associative and every
   registered negation partner is the complement. *)
From Coq Require Import List Arith ZArith Bool Lia.
Import ListNotations.
From SAV.sql Require Import Prec SAExpr C01Tables C01Proofs.

Section Sem.
Variable T : satab.
Variable V : Type.
Variable bsem : nat -> V -> V -> V.
Variable usem : nat -> V -> V.
Variable env : nat -> V.

Hypothesis H_assoc : forall o, In o binops -> flattens T o = true ->
  forall a b c, bsem o (bsem o a b) c = bsem o a (bsem o b c).
Hypothesis H_neg : forall o no, In o binops -> negate T o = Some no ->
  forall a b, usem INV (bsem o a b) = bsem no a b.

Fixpoint eval (p : pt) : V :=
  match p with
  | PA n => env n
  | PB o l r => bsem o (eval l) (eval r)
  | PU u e => usem u (eval e)
  end.

Definition evx (x : sx) : V := eval (erase (lower x)).

Lemma evx_sg x p : evx (self_group T x p) = evx x.
Proof.
  destruct x as [n|o l r|o e1 es|u e|e]; cbn [self_group]; try reflexivity.
  - destruct (_ || _); reflexivity.
  - destruct (_ || _); reflexivity.
  - destruct (is_precedent T u p); reflexivity.
Qed.

Definition foldl1 (o : nat) (vs : list V) (d : V) : V :=
  match vs with [] => d | v :: r => fold_left (bsem o) r v end.

Lemma erase_fold o : forall es acc,
  eval (erase (fold_left (fun a e => B o a (lower e)) es acc)) =
  fold_left (bsem o) (map evx es) (eval (erase acc)).
Proof. induction es as [|e es IH]; intros acc; cbn [fold_left map]; [reflexivity|]. rewrite IH. reflexivity. Qed.

Lemma evx_SL o e1 es : evx (SL o e1 es) = fold_left (bsem o) (map evx es) (evx e1).
Proof. unfold evx. cbn [lower]. apply erase_fold. Qed.

Lemma evx_mk_list o cs d : cs <> [] -> evx (mk_list o cs) = foldl1 o (map evx cs) d.
Proof. destruct cs as [|c r]; [contradiction|]. intros _. cbn [mk_list map foldl1]. apply evx_SL. Qed.

Lemma fold_assoc o : In o binops -> flattens T o = true -> forall l a v,
  fold_left (bsem o) (a :: l) v = bsem o v (fold_left (bsem o) l a).
Proof.
  intros Ho Hf. cbn [fold_left]. induction l as [|b l IH]; intros a v; cbn [fold_left]; [reflexivity|].
  rewrite (H_assoc o Ho Hf). apply IH.
Qed.

Lemma foldl1_app o d : In o binops -> flattens T o = true -> forall l1 l2, l1 <> [] -> l2 <> [] ->
  foldl1 o (l1 ++ l2) d = bsem o (foldl1 o l1 d) (foldl1 o l2 d).
Proof.
  intros Ho Hf l1 l2 H1 H2. destruct l1 as [|v l1]; [contradiction|]. destruct l2 as [|w l2]; [contradiction|].
  cbn [foldl1 app]. rewrite fold_left_app. apply fold_assoc; assumption.
Qed.

(* an operand's value is the fold of the clauses it contributes *)
Lemma evx_contrib o x d : evx x = foldl1 o (map evx (contrib o x)) d.
Proof.
  unfold contrib. destruct (has_op x o) eqn:E; [|reflexivity].
  destruct x as [n|o' l r|o' e1 es|u e|e]; unfold has_op in E; cbn in E; try discriminate.
  - apply Nat.eqb_eq in E; subst o'. reflexivity.
  - apply Nat.eqb_eq in E; subst o'. cbn [flat_clauses map foldl1]. apply evx_SL.
  - reflexivity.
Qed.

Lemma map_evx_sg o l : map evx (map (fun c => self_group T c o) l) = map evx l.
Proof. rewrite map_map. apply map_ext. intros a. apply evx_sg. Qed.

Lemma evx_construct_for_op o l r : In o binops -> evx (construct_for_op T o l r) = bsem o (evx l) (evx r).
Proof.
  intros Ho. unfold construct_for_op. destruct (assoc T o && (has_op l o || has_op r o)) eqn:E.
  - apply andb_true_iff in E. destruct E as [Ha _].
    assert (Hf : flattens T o = true) by (unfold flattens; rewrite Ha; reflexivity).
    fold (contrib o l). fold (contrib o r).
    rewrite (evx_mk_list o _ (evx l)).
    + rewrite map_evx_sg, map_app. rewrite (foldl1_app o (evx l) Ho Hf).
      * rewrite <- !evx_contrib. reflexivity.
      * intros H. apply map_eq_nil in H. exact (contrib_nonempty o l H).
      * intros H. apply map_eq_nil in H. exact (contrib_nonempty o r H).
    + intros H. apply map_eq_nil in H. apply app_eq_nil in H. exact (contrib_nonempty o l (proj1 H)).
  - unfold evx. cbn [lower erase eval]. fold (evx (self_group T l o)). fold (evx (self_group T r o)).
    rewrite !evx_sg. reflexivity.
Qed.

Lemma evx_bool_list o l r : In o binops -> flattens T o = true -> evx (bool_list T o l r) = bsem o (evx l) (evx r).
Proof.
  intros Ho Hf. unfold bool_list. fold (contrib o (self_group T l o)). fold (contrib o (self_group T r o)).
  rewrite (evx_mk_list o _ (evx l)).
  - rewrite map_app, (foldl1_app o (evx l) Ho Hf).
    + rewrite <- !evx_contrib, !evx_sg. reflexivity.
    + intros H. apply map_eq_nil in H. exact (contrib_nonempty _ _ H).
    + intros H. apply map_eq_nil in H. exact (contrib_nonempty _ _ H).
  - intros H. apply app_eq_nil in H. exact (contrib_nonempty _ _ (proj1 H)).
Qed.

Lemma evx_negate x : inv T x -> evx (negate_sx T x) = usem INV (evx x).
Proof.
  intros Hi. destruct x as [n|o l r|o e1 es|u e|e]; cbn [negate_sx]; try reflexivity.
  - destruct (negate T o) as [no|] eqn:En; [|reflexivity].
    unfold evx. cbn [lower erase eval]. fold (evx (self_group T l no)). fold (evx (self_group T r no)).
    rewrite !evx_sg. fold (evx l). fold (evx r). symmetry. apply H_neg; [apply Hi|exact En].
  - unfold evx at 1. cbn [lower erase eval]. fold (evx (self_group T (SL o e1 es) INV)). rewrite evx_sg. reflexivity.
  - unfold evx at 1. cbn [lower erase eval]. fold (evx (self_group T (SU u e) INV)). rewrite evx_sg. reflexivity.
Qed.

Lemma flattens_AND : flattens T AND = true.
Proof. unfold flattens. rewrite Nat.eqb_refl, orb_true_r. reflexivity. Qed.
Lemma flattens_OR : flattens T OR = true.
Proof. unfold flattens. rewrite Nat.eqb_refl, !orb_true_r. reflexivity. Qed.

Theorem construct_sound : neg_wf T = true -> forall t, wf_u t -> evx (construct T t) = eval (full t).
Proof.
  intros Hn. induction t as [n|o l IHl r IHr|l IHl r IHr|l IHl r IHr|e IHe|e IHe]; cbn [construct full eval wf_u]; intros Hw.
  - reflexivity.
  - destruct Hw as [Ho [_ [_ [Hl Hr]]]]. rewrite (evx_construct_for_op o _ _ Ho), IHl, IHr by assumption. reflexivity.
  - destruct Hw as [Hl Hr]. rewrite (evx_bool_list AND _ _ (or_introl eq_refl) flattens_AND), IHl, IHr by assumption. reflexivity.
  - destruct Hw as [Hl Hr]. rewrite (evx_bool_list OR _ _ (or_intror (or_introl eq_refl)) flattens_OR), IHl, IHr by assumption. reflexivity.
  - rewrite evx_negate, IHe by (try assumption; apply construct_inv; assumption). reflexivity.
  - unfold evx. cbn [lower erase eval]. fold (evx (self_group T (construct T e) NEG)). rewrite evx_sg, IHe by assumption. reflexivity.
Qed.
End Sem.
