(* C02 - proofs, part 1: induction principles, boolean equalities, view = restrict . proj *)
From Coq Require Import List NArith ZArith Bool Lia.
Import ListNotations.
From SAV.sql Require Import CacheKey.

(* ---- induction principles for the nested types ---- *)
Section NodeInd.
  Variable P : node -> Prop.
  Hypothesis H : forall lbl cls atoms kids,
      Forall (fun p => Forall P (snd p)) kids -> P (Node lbl cls atoms kids).
  Fixpoint node_ind' (n : node) : P n :=
    match n with
    | Node lbl cls atoms kids =>
        H lbl cls atoms kids
          ((fix gk (x : list (N * list node)) : Forall (fun p => Forall P (snd p)) x :=
              match x with
              | [] => Forall_nil _
              | p :: x' =>
                  Forall_cons p
                    ((fix gl (u : list node) : Forall P u :=
                        match u with
                        | [] => Forall_nil _
                        | s :: u' => Forall_cons s (node_ind' s) (gl u')
                        end) (snd p))
                    (gk x')
              end) kids)
    end.
End NodeInd.

Section KtreeInd.
  Variable P : ktree -> Prop.
  Hypothesis HN : forall l c ka kk, Forall (fun p => Forall P (snd p)) kk -> P (KN l c ka kk).
  Hypothesis HR : forall l c, P (KR l c).
  Hypothesis HI : forall a, P (KI a).
  Fixpoint ktree_ind' (k : ktree) : P k :=
    match k with
    | KN l c ka kk =>
        HN l c ka kk
          ((fix gk (x : list (N * list ktree)) : Forall (fun p => Forall P (snd p)) x :=
              match x with
              | [] => Forall_nil _
              | p :: x' =>
                  Forall_cons p
                    ((fix gl (u : list ktree) : Forall P u :=
                        match u with
                        | [] => Forall_nil _
                        | s :: u' => Forall_cons s (ktree_ind' s) (gl u')
                        end) (snd p))
                    (gk x')
              end) kk)
    | KR l c => HR l c
    | KI a => HI a
    end.
End KtreeInd.

(* ---- boolean equalities are sound ---- *)
Lemma atom_eqb_eq : forall a b, atom_eqb a b = true -> a = b.
Proof.
  intros [i t] [j u]; unfold atom_eqb; cbn. intro H. apply andb_true_iff in H as [H1 H2].
  apply Z.eqb_eq in H1. apply eqb_prop in H2. subst; reflexivity.
Qed.
Lemma atom_eqb_refl : forall a, atom_eqb a a = true.
Proof. intros [i t]; unfold atom_eqb; cbn. rewrite Z.eqb_refl, eqb_reflx; reflexivity. Qed.

Lemma ktree_eqb_eq : forall a b, ktree_eqb a b = true -> a = b.
Proof.
  induction a as [l c ka kk IH | l c | x] using ktree_ind'; intros [l' c' ka' kk' | l' c' | y] Hq;
    cbn in Hq; try discriminate.
  - apply andb_true_iff in Hq as [Hq Hk]. apply andb_true_iff in Hq as [Hq Ha].
    apply andb_true_iff in Hq as [Hl Hc]. apply N.eqb_eq in Hl. apply N.eqb_eq in Hc. subst l' c'.
    assert (ka = ka') as ->.
    { clear -Ha. revert ka' Ha. induction ka as [|[i p] x IHx]; intros [|[j q] y] Ha; try discriminate; auto.
      apply andb_true_iff in Ha as [Ha Hr]. apply andb_true_iff in Ha as [Hi Hp].
      apply N.eqb_eq in Hi. apply atom_eqb_eq in Hp. subst. f_equal. apply IHx, Hr. }
    assert (kk = kk') as ->; [|reflexivity].
    clear -IH Hk. revert kk' Hk.
    induction IH as [|[i p] x Hp Hx IHx]; intros [|[j q] y] Hk; try discriminate; auto.
    apply andb_true_iff in Hk as [Hk Hr]. apply andb_true_iff in Hk as [Hi Hl].
    apply N.eqb_eq in Hi. subst j. f_equal; [|apply IHx, Hr]. f_equal.
    cbn in Hp. clear -Hp Hl. revert q Hl.
    induction Hp as [|s u Hs Hu IHu]; intros [|t v] Hl; try discriminate; auto.
    apply andb_true_iff in Hl as [H1 H2]. f_equal; [apply Hs, H1 | apply IHu, H2].
  - apply andb_true_iff in Hq as [Hl Hc]. apply N.eqb_eq in Hl. apply N.eqb_eq in Hc. subst; reflexivity.
  - apply atom_eqb_eq in Hq. subst; reflexivity.
Qed.

Lemma bind_eqb_eq : forall x y, bind_eqb x y = true -> x = y.
Proof.
  intros [l v c e] [l' v' c' e']; unfold bind_eqb; cbn. intro H.
  apply andb_true_iff in H as [H He]. apply andb_true_iff in H as [H Hc]. apply andb_true_iff in H as [Hl Hv].
  apply N.eqb_eq in Hl. apply atom_eqb_eq in Hv. apply eqb_prop in Hc. apply atom_eqb_eq in He.
  subst; reflexivity.
Qed.

(* ---- small list facts ---- *)
Lemma memN_In : forall k l, memN k l = true <-> In k l.
Proof.
  intros k l; unfold memN. rewrite existsb_exists. split.
  - intros [x [Hi He]]. apply N.eqb_eq in He. subst; exact Hi.
  - intro Hi. exists k. split; [exact Hi | apply N.eqb_refl].
Qed.
Lemma nodupN_NoDup : forall l, nodupN l = true -> NoDup l.
Proof.
  induction l as [|x r IH]; cbn; intro H; [constructor|].
  apply andb_true_iff in H as [H1 H2]. constructor; [|apply IH, H2].
  intro Hi. apply memN_In in Hi. rewrite Hi in H1; discriminate.
Qed.
Lemma alookup_In : forall {A} k (l : list (N * A)) v, alookup k l = Some v -> In (k, v) l.
Proof.
  induction l as [|[k' v'] r IH]; cbn; intros v H; [discriminate|].
  destruct (N.eqb_spec k' k) as [->|Hn]; [inversion H; subst; left; reflexivity | right; apply IH, H].
Qed.
Lemma alookup_NoDup : forall {A} k (l : list (N * A)) v, NoDup (map fst l) -> In (k, v) l -> alookup k l = Some v.
Proof.
  induction l as [|[k' v'] r IH]; cbn; intros v Hn Hi; [contradiction|].
  inversion Hn as [|? ? Hx Hr]; subst. destruct Hi as [He|Hi].
  - inversion He; subst. rewrite N.eqb_refl; reflexivity.
  - destruct (N.eqb_spec k' k) as [->|Hne]; [|apply IH; assumption].
    exfalso. apply Hx. apply in_map_iff. exists (k, v); split; [reflexivity | exact Hi].
Qed.
Lemma alookup_map : forall {A B} (f : A -> B) k (l : list (N * A)),
  alookup k (map (fun p => (fst p, f (snd p))) l) = option_map f (alookup k l).
Proof.
  induction l as [|[k' v'] r IH]; cbn; [reflexivity|]. destruct (N.eqb k' k); [reflexivity | exact IH].
Qed.
Lemma kget_map : forall {A B} (f : A -> B) k (l : list (N * list A)),
  kget k (map (fun p => (fst p, map f (snd p))) l) = map f (kget k l).
Proof.
  intros. unfold kget. rewrite (alookup_map (map f)). destruct (alookup k l); reflexivity.
Qed.

Lemma flat_map_ext_in : forall {A B} (f g : A -> list B) l, (forall a, In a l -> f a = g a) -> flat_map f l = flat_map g l.
Proof.
  induction l as [|x r IH]; intro H; [reflexivity|]. cbn. rewrite (H x (or_introl eq_refl)). f_equal.
  apply IH. intros a Ha. apply H. right; exact Ha.
Qed.

(* ---- lookups in the selected key entries ---- *)
Definition atom_rule (sh : shape) (x : atom) : bool :=
  match sh with HTruthy | HKids => atruthy x | HNotNone => negb (is_none x) | _ => false end.
Definition keyshape (sh : shape) : bool := match sh with HTruthy | HNotNone | HKids => true | _ => false end.

Lemma sel_atoms_notin : forall fs atoms a, ~ In a (map fst fs) -> alookup a (sel_atoms fs atoms) = None.
Proof.
  induction fs as [|[a' sh] r IH]; intros atoms a Hn; [reflexivity|].
  cbn in Hn. unfold sel_atoms; cbn [flat_map fst snd]. fold (sel_atoms r atoms).
  assert (a' <> a) by (intro; apply Hn; left; assumption).
  assert (alookup a (sel_atoms r atoms) = None) as Hr by (apply IH; intro; apply Hn; right; assumption).
  destruct sh; cbn; try exact Hr.
  - destruct (atruthy (aget a' atoms)); cbn; [destruct (N.eqb_spec a' a); [contradiction|]|]; exact Hr.
  - destruct (is_none (aget a' atoms)); cbn; [|destruct (N.eqb_spec a' a); [contradiction|]]; exact Hr.
  - destruct (atruthy (aget a' atoms)); cbn; [destruct (N.eqb_spec a' a); [contradiction|]|]; exact Hr.
Qed.
Lemma sel_atoms_lookup : forall fs atoms a sh, NoDup (map fst fs) -> In (a, sh) fs ->
  alookup a (sel_atoms fs atoms) = if atom_rule sh (aget a atoms) then Some (aget a atoms) else None.
Proof.
  induction fs as [|[a' sh'] r IH]; intros atoms a sh Hn Hi; [contradiction|].
  cbn in Hn. inversion Hn as [|? ? Hx Hr]; subst.
  unfold sel_atoms; cbn [flat_map fst snd]. fold (sel_atoms r atoms).
  destruct Hi as [He|Hi].
  - inversion He; subst a' sh'. pose proof (sel_atoms_notin r atoms a Hx) as Hno.
    destruct sh; cbn; try exact Hno.
    + destruct (atruthy (aget a atoms)); cbn; [rewrite N.eqb_refl; reflexivity | exact Hno].
    + destruct (is_none (aget a atoms)); cbn; [exact Hno | rewrite N.eqb_refl; reflexivity].
    + destruct (atruthy (aget a atoms)); cbn; [rewrite N.eqb_refl; reflexivity | exact Hno].
  - assert (a' <> a) as Hne.
    { intro; subst a'. apply Hx. apply in_map_iff. exists (a, sh); split; [reflexivity | exact Hi]. }
    specialize (IH atoms a sh Hr Hi).
    destruct sh'; cbn; try exact IH.
    + destruct (atruthy (aget a' atoms)); cbn; [destruct (N.eqb_spec a' a); [contradiction|]|]; exact IH.
    + destruct (is_none (aget a' atoms)); cbn; [|destruct (N.eqb_spec a' a); [contradiction|]]; exact IH.
    + destruct (atruthy (aget a' atoms)); cbn; [destruct (N.eqb_spec a' a); [contradiction|]|]; exact IH.
Qed.

Lemma sel_kids_notin : forall {A} fs (pk : list (N * list A)) a, ~ In a (map fst fs) -> kget a (sel_kids fs pk) = [].
Proof.
  induction fs as [|[a' sh] r IH]; intros pk a Hn; [reflexivity|].
  cbn in Hn. unfold sel_kids; cbn [flat_map fst snd]. fold (sel_kids r pk).
  assert (a' <> a) by (intro; apply Hn; left; assumption).
  assert (kget a (sel_kids r pk) = []) as Hr by (apply IH; intro; apply Hn; right; assumption).
  destruct sh; cbn; try exact Hr;
    (destruct (kget a' pk); cbn; [exact Hr|]; unfold kget in *; cbn;
     destruct (N.eqb_spec a' a); [contradiction | exact Hr]).
Qed.
Lemma sel_kids_lookup : forall {A} fs (pk : list (N * list A)) a sh, NoDup (map fst fs) -> In (a, sh) fs ->
  keyshape sh = true -> kget a (sel_kids fs pk) = kget a pk.
Proof.
  induction fs as [|[a' sh'] r IH]; intros pk a sh Hn Hi Hk; [contradiction|].
  cbn in Hn. inversion Hn as [|? ? Hx Hr]; subst.
  unfold sel_kids; cbn [flat_map fst snd]. fold (sel_kids r pk).
  destruct Hi as [He|Hi].
  - inversion He; subst a' sh'. pose proof (sel_kids_notin r pk a Hx) as Hno.
    destruct sh; try discriminate;
      (destruct (kget a pk) eqn:E; cbn; [exact Hno|]; unfold kget; cbn; rewrite N.eqb_refl; reflexivity).
  - assert (a' <> a) as Hne.
    { intro; subst a'. apply Hx. apply in_map_iff. exists (a, sh); split; [reflexivity | exact Hi]. }
    specialize (IH pk a sh Hr Hi Hk).
    destruct sh'; cbn; try exact IH;
      (destruct (kget a' pk); cbn; [exact IH|]; unfold kget in *; cbn;
       destruct (N.eqb_spec a' a); [contradiction | exact IH]).
Qed.

Lemma truthy_not_none : forall x, atruthy x = true -> is_none x = false.
Proof. intros [i t]; unfold is_none; cbn. intros ->. apply andb_false_r. Qed.

(* ---- consequences of [covers] ---- *)
Lemma covers_fields_nodup : forall T V c, covers T V = true -> NoDup (map fst (cfields (tget T c))).
Proof.
  intros T V c H. unfold covers in H.
  apply andb_true_iff in H as [H _]. apply andb_true_iff in H as [H _]. apply andb_true_iff in H as [_ H].
  unfold tget. destruct (alookup c T) as [ci|] eqn:E; [|constructor].
  apply alookup_In in E. rewrite forallb_forall in H. apply nodupN_NoDup. exact (H _ E).
Qed.
Lemma covers_keyed : forall T V c a, covers T V = true -> In a (vget V c) -> keyed (tget T c) a = true.
Proof.
  intros T V c a H Hi. unfold covers in H.
  apply andb_true_iff in H as [H _]. apply andb_true_iff in H as [H _]. apply andb_true_iff in H as [H _].
  unfold vget in Hi. destruct (alookup c V) as [l|] eqn:E; [|contradiction].
  apply alookup_In in E. rewrite forallb_forall in H. specialize (H _ E). cbn in H.
  rewrite forallb_forall in H. exact (H _ Hi).
Qed.
Lemma keyed_normal : forall ci a, ck ci = KNormal -> keyed ci a = true ->
  exists sh, In (a, sh) (cfields ci) /\ keyshape sh = true.
Proof.
  intros ci a Hk H. unfold keyed in H. rewrite Hk in H. apply existsb_exists in H as [[a' sh] [Hi Hb]].
  cbn in Hb. apply andb_true_iff in Hb as [He Hs]. apply N.eqb_eq in He. subst a'.
  exists sh. split; [exact Hi|]. destruct sh; try discriminate; reflexivity.
Qed.

(* ---- what the compiler sees is a function of the unpruned key ---- *)
Theorem view_restrict : forall T V, covers T V = true -> forall n, view T V n = restrict V (proj T n).
Proof.
  intros T V Hc. induction n as [lbl cls atoms kids IH] using node_ind'.
  cbn [view proj]. unfold view_body, proj_body.
  destruct (ck (tget T cls)) eqn:Ek; [| reflexivity |].
  2: { (* a class that is not cacheable has no V entry unless covers fails *)
       cbn [restrict]. f_equal.
       - apply flat_map_ext_in. intros a Ha. pose proof (covers_keyed T V cls a Hc Ha) as Hk.
         unfold keyed in Hk. rewrite Ek in Hk. discriminate.
       - apply flat_map_ext_in. intros a Ha. pose proof (covers_keyed T V cls a Hc Ha) as Hk.
         unfold keyed in Hk. rewrite Ek in Hk. discriminate. }
  cbn [restrict]. pose proof (covers_fields_nodup T V cls Hc) as Hnd.
  f_equal.
  - apply flat_map_ext_in. intros a Ha.
    destruct (keyed_normal _ a Ek (covers_keyed T V cls a Hc Ha)) as [sh [Hi Hs]].
    rewrite (sel_atoms_lookup _ atoms a sh Hnd Hi).
    destruct (atruthy (aget a atoms)) eqn:Et.
    + assert (atom_rule sh (aget a atoms) = true) as ->.
      { destruct sh; try discriminate; cbn; try exact Et. rewrite (truthy_not_none _ Et); reflexivity. }
      rewrite Et; reflexivity.
    + destruct (atom_rule sh (aget a atoms)); [rewrite Et|]; reflexivity.
  - apply flat_map_ext_in. intros a Ha.
    destruct (keyed_normal _ a Ek (covers_keyed T V cls a Hc Ha)) as [sh [Hi Hs]].
    rewrite (kget_map (restrict V)). rewrite (sel_kids_lookup _ _ a sh Hnd Hi Hs).
    rewrite (kget_map (proj T)), (kget_map (view T V)), map_map.
    assert (map (view T V) (kget a kids) = map (fun x => restrict V (proj T x)) (kget a kids)) as ->; [|reflexivity].
    apply map_ext_in. intros x Hx. unfold kget in Hx. destruct (alookup a kids) as [l|] eqn:El; [|contradiction].
    apply alookup_In in El. rewrite Forall_forall in IH. specialize (IH _ El). cbn in IH.
    rewrite Forall_forall in IH. exact (IH _ Hx).
Qed.

(* ---- equal keys: equal projections, hence equal views ---- *)
Lemma wf_unprune : forall T s k bs, wf T s = true -> gen_key T s = Some (k, bs) -> fst (unprune k []) = proj T s.
Proof.
  intros T s k bs Hw Hk. unfold wf in Hw. rewrite Hk in Hw.
  apply andb_true_iff in Hw as [Hw _]. apply andb_true_iff in Hw as [Hw _]. apply ktree_eqb_eq, Hw.
Qed.
Theorem key_determines_proj : forall T s1 s2 k b1 b2, wf T s1 = true -> wf T s2 = true ->
  gen_key T s1 = Some (k, b1) -> gen_key T s2 = Some (k, b2) -> proj T s1 = proj T s2.
Proof.
  intros T s1 s2 k b1 b2 H1 H2 K1 K2.
  rewrite <- (wf_unprune T s1 k b1 H1 K1), <- (wf_unprune T s2 k b2 H2 K2). reflexivity.
Qed.
Theorem key_determines_view : forall T V, covers T V = true -> forall s1 s2 k b1 b2,
  wf T s1 = true -> wf T s2 = true -> gen_key T s1 = Some (k, b1) -> gen_key T s2 = Some (k, b2) ->
  view T V s1 = view T V s2.
Proof.
  intros T V Hc s1 s2 k b1 b2 H1 H2 K1 K2.
  rewrite (view_restrict T V Hc s1), (view_restrict T V Hc s2), (key_determines_proj T s1 s2 k b1 b2 H1 H2 K1 K2).
  reflexivity.
Qed.
