(* C56 - concrete witnesses: the three regions where the implementation leaves the insert-or-update model,
   and non-vacuity examples for the guarded theorems. *)
From Coq Require Import List ZArith Bool Lia Permutation.
Import ListNotations.
From SAV.sql Require Import Upsert UpsertAsm UpsertParse UpsertSpec.
Open Scope Z_scope.

Definition w_cols : list coldesc := [mkcol 0 0; mkcol 9 1; mkcol 2 2; mkcol 3 3].
Definition w_ixs : list uindex := [mkix 8 [0%nat] None; mkix 6 [1%nat] None].
Definition w_gt_w0 (inl : bool) : pred := Pred CGt (EAtom (ACol 3)) (EAtom (AConst inl 0)).
Definition w_ixs_partial : list uindex :=
  [mkix 8 [0%nat] None; mkix 6 [1%nat] None; mkix 7 [2%nat; 3%nat] (Some (w_gt_w0 true))].

Ltac nodupZ := repeat (constructor; [simpl; intuition lia|]); constructor.
Ltac nodupN := repeat (constructor; [simpl; intuition lia|]); constructor.

Lemma w_cols_wf : wf_cols w_cols.
Proof. split; simpl; nodupZ. Qed.

Definition idf (l : list row) : list row := l.
Lemma idf_perm : forall l, Permutation (idf l) l.
Proof. intros; apply Permutation_refl. Qed.

(* (a) bindparam() in DO UPDATE ... WHERE, RETURNING without sort_by_parameter_order: formerly batched with the
   first parameter set's value (finding C56-where-bindparam-batched, fixed by e3b606f); now row at a time *)
Definition wa_sa : list sa_clause :=
  [SAUpdate (STElems [TECol 0] None) [(KStr 3, EAtom (AExc 2))]
            (Some (Pred CLt (EAtom (ACol 2)) (EAtom (APar 0))))].
Definition wa_t : table := [[Some 1; Some 0; Some 1; Some 0]; [Some 2; Some 1; Some 2; Some 0]].
Definition wa_ps : list prow :=
  [([Some 1; None; Some 5; None], [Some 9; None]); ([Some 2; None; Some 7; None], [Some 0; None])].

Example where_bindparam_unsorted_ok :
  exists cls, spec_of w_cols wa_sa = Some cls /\
    batched false true false (length wa_ps) wa_sa = false /\
    exec_impl idf true false w_cols w_ixs wa_sa true false 1000 wa_t wa_ps = upsert_spec w_ixs cls wa_t wa_ps /\
    upsert_spec w_ixs cls wa_t wa_ps =
      Ok ([[Some 1; Some 0; Some 1; Some 5]; [Some 2; Some 1; Some 2; Some 0]], [[Some 1; Some 0; Some 1; Some 5]]).
Proof. eexists. split; [vm_compute; reflexivity|]. split; [reflexivity|]. split; vm_compute; reflexivity. Qed.

(* the same executemany with sort_by_parameter_order=True is executed row by row and agrees *)
Example where_bindparam_sorted_ok :
  exists cls, spec_of w_cols wa_sa = Some cls /\
    exec_impl idf true false w_cols w_ixs wa_sa true true 1000 wa_t wa_ps = upsert_spec w_ixs cls wa_t wa_ps /\
    upsert_spec w_ixs cls wa_t wa_ps =
      Ok ([[Some 1; Some 0; Some 1; Some 5]; [Some 2; Some 1; Some 2; Some 0]], [[Some 1; Some 0; Some 1; Some 5]]).
Proof. eexists. split; [vm_compute; reflexivity|]. split; vm_compute; reflexivity. Qed.

(* (b) SQLite: a bound literal inside index_where makes every executemany fail *)
Definition wb_sa : list sa_clause := [SANothing (STElems [TECol 2; TECol 3] (Some (w_gt_w0 false)))].
Definition wb_ps : list prow :=
  [([Some 1; None; Some 1; Some 1], [None; None]); ([Some 2; None; Some 1; Some 1], [None; None])].

Lemma index_where_literal_executemany_refuted :
  exists cls, spec_of w_cols wb_sa = Some cls /\ Forall sets_nodup cls /\ chain_ok wb_sa = true /\
    batch_safe wb_sa = true /\
    exec_impl idf true false w_cols w_ixs_partial wb_sa false false 1000 [] wb_ps = Err EInvalidRequest /\
    upsert_spec w_ixs_partial cls [] wb_ps = Ok ([[Some 1; None; Some 1; Some 1]], [[Some 1; None; Some 1; Some 1]]).
Proof.
  eexists. split; [vm_compute; reflexivity|]. split; [repeat constructor|].
  split; [reflexivity|]. split; [reflexivity|]. split; vm_compute; reflexivity.
Qed.

(* one parameter set at a time the same statement works *)
Example index_where_literal_single_ok :
  exists cls, spec_of w_cols wb_sa = Some cls /\
    exec_impl idf true false w_cols w_ixs_partial wb_sa false false 1000 [] (firstn 1 wb_ps)
    = upsert_spec w_ixs_partial cls [] (firstn 1 wb_ps).
Proof. eexists. split; vm_compute; reflexivity. Qed.

(* (c) PostgreSQL with an embedded VALUES counter: bindparam() in a SET value, sort_by_parameter_order:
   still batched, one SET parameter for all rows *)
Definition wc_sa : list sa_clause :=
  [SAUpdate (STElems [TECol 1] None) [(KStr 3, EAtom (APar 0))] None].
Definition wc_t : table := [[Some 1; Some 1; Some 0; Some 0]; [Some 2; Some 2; Some 0; Some 0]].
Definition wc_ps : list prow :=
  [([Some 7; Some 1; Some 0; Some 0], [Some 5; None]); ([Some 8; Some 2; Some 0; Some 0], [Some 6; None])].

Lemma pg_embedded_counter_set_bindparam_refuted :
  exists cls, spec_of w_cols wc_sa = Some cls /\ Forall sets_nodup cls /\ chain_ok wc_sa = true /\
    ~ res_equiv (exec_impl idf false true w_cols w_ixs wc_sa true true 1000 wc_t wc_ps)
                (upsert_spec w_ixs cls wc_t wc_ps).
Proof.
  eexists. split; [vm_compute; reflexivity|]. split; [repeat constructor; simpl; intuition|].
  split; [reflexivity|].
  intros H. vm_compute in H. destruct H as [H _]. discriminate H.
Qed.

(* without the embedded counter the same executemany is downgraded to row-at-a-time and agrees *)
Example pg_set_bindparam_no_counter_ok :
  exists cls, spec_of w_cols wc_sa = Some cls /\
    exec_impl idf false false w_cols w_ixs wc_sa true true 1000 wc_t wc_ps = upsert_spec w_ixs cls wc_t wc_ps /\
    upsert_spec w_ixs cls wc_t wc_ps =
      Ok ([[Some 1; Some 1; Some 0; Some 5]; [Some 2; Some 2; Some 0; Some 6]],
          [[Some 1; Some 1; Some 0; Some 5]; [Some 2; Some 2; Some 0; Some 6]]).
Proof. eexists. split; [vm_compute; reflexivity|]. split; vm_compute; reflexivity. Qed.

(* non-vacuity of the guarded main theorem: a batched, two-clause upsert with a partial index, duplicates
   inside the executemany, SET keys given as column key / Column object / column name *)
Definition wd_cols : list coldesc := [mkcol 0 0; mkcol 1 1; mkcol 4 2; mkcol 3 3].
Definition wd_sa : list sa_clause :=
  [SANothing (STElems [TECol 3; TEStr 2] (Some (w_gt_w0 true)));
   SAUpdate (STElems [TECol 0] None)
            [(KStr 3, EAdd (ACol 3) (AConst false 1)); (KStr 2, EAtom (AExc 2)); (KCol 1, EAtom ANull)]
            (Some (Pred CLt (EAtom (ACol 2)) (EAtom (AExc 2))))].
Definition wd_t : table := [[Some 1; Some 1; Some 1; Some 0]; [Some 2; Some 2; Some 5; Some 1]].
Definition wd_ps : list prow :=
  [([Some 1; Some 7; Some 3; Some 0], []); ([Some 3; Some 8; Some 5; Some 1], []);
   ([Some 1; Some 9; Some 4; Some 0], []); ([Some 4; Some 1; Some 0; Some 0], [])].

Example guarded_batched_example :
  exists cls, spec_of wd_cols wd_sa = Some cls /\ Forall sets_nodup cls /\ chain_ok wd_sa = true /\
    wf_cols wd_cols /\ batched false true false (length wd_ps) wd_sa = true /\ batch_safe wd_sa = true /\
    exec_impl idf true false wd_cols w_ixs_partial wd_sa true false 2 wd_t wd_ps =
      Ok ([[Some 1; None; Some 4; Some 2]; [Some 2; Some 2; Some 5; Some 1]; [Some 4; Some 1; Some 0; Some 0]],
          [[Some 1; None; Some 3; Some 1]; [Some 1; None; Some 4; Some 2]; [Some 4; Some 1; Some 0; Some 0]]).
Proof.
  eexists. split; [vm_compute; reflexivity|].
  split; [repeat constructor; simpl; intuition lia|]. split; [reflexivity|].
  split; [split; simpl; nodupZ|]. split; [reflexivity|]. split; [reflexivity|]. vm_compute. reflexivity.
Qed.

(* MySQL: ordered list vs dict *)
Example mysql_ordered_example :
  r_mysql wd_cols false (my_asm wd_cols true [(3, EAtom (AExc 2)); (5, EAtom ANull); (1, EAdd (ACol 1) (AExc 1))])
  = [TKw KON; TKw KDUPLICATE; TKw KKEY; TKw KUPDATE;
     TId 3; TEq; TKw KVALUES; TLp; TId 2; TRp; TComma;
     TId 1; TEq; TLp; TId ID_T; TDot; TId 1; TPlus; TKw KVALUES; TLp; TId 1; TRp; TRp].
Proof. vm_compute. reflexivity. Qed.
