(* executable entry point for the correspondence check of C16 *)
From Coq Require Import List ZArith Bool.
Import ListNotations.
From SAV.base Require Import Tree.
From SAV.sql Require Import SchemaTr.
Open Scope Z_scope.

Definition as_str (t : tree) : option str := as_list_of as_Z t.
(* [] = None, [s] = Some s *)
Definition as_ostr (t : tree) : option (option str) :=
  match t with
  | L [] => Some None
  | L [x] => match as_str x with Some s => Some (Some s) | None => None end
  | _ => None
  end.
(* 0 = no quote flag, 1 = quote=True, 2 = quote=False *)
Definition as_force (t : tree) : option (option bool) :=
  match t with
  | I 0 => Some None | I 1 => Some (Some true) | I 2 => Some (Some false) | _ => None
  end.
Definition as_item (t : tree) : option item :=
  match t with
  | L [I 0; x] => match as_str x with Some s => Some (Txt s) | None => None end
  | L [I 1; mp; nm; fc] =>
      match as_bool mp, as_ostr nm, as_force fc with
      | Some b, Some n, Some f => Some (Sch {| r_map := b; r_name := n; r_force := f |})
      | _, _, _ => None
      end
  | _ => None
  end.
Definition as_map (t : tree) : option smap := as_list_of (as_pair_of as_ostr as_ostr) t.
Definition as_op (t : tree) : option op :=
  match t with
  | L [I 0; sid; m] => match as_nat sid, as_map m with Some a, Some b => Some (Exec a b) | _, _ => None end
  | L [I 1; sid; m] => match as_nat sid, as_map m with Some a, Some b => Some (Ddl a b) | _, _ => None end
  | L [I 3; sid; dsid; m] =>
      match as_nat sid, as_nat dsid, as_map m with
      | Some a, Some d, Some b => Some (ScalarDefault a d b) | _, _, _ => None end
  | L [I 2; sids] => match as_list_of as_nat sids with Some l => Some (Evict l) | None => None end
  | _ => None
  end.
Definition as_qent (t : tree) : option (option bool * str * str) :=
  match t with
  | L [f; n; q] => match as_force f, as_str n, as_str q with
                   | Some a, Some b, Some c => Some (a, b, c) | _, _, _ => None end
  | _ => None
  end.

Definition force_eqb (a b : option bool) : bool :=
  match a, b with
  | None, None => true
  | Some x, Some y => Bool.eqb x y
  | _, _ => false
  end.
(* IdentifierPreparer.quote as measured on the implementation for the names of this case *)
Fixpoint quote_tab (tab : list (option bool * str * str)) (f : option bool) (n : str) : str :=
  match tab with
  | [] => n
  | (f', n', q) :: r => if force_eqb f f' && str_eqb n n' then q else quote_tab r f n
  end.

(* SQL texts are compared by a 61-bit polynomial hash (the case files stay small); the implementation side
   computes the same hash *)
Definition hash_str (s : str) : Z :=
  fold_left (fun h c => (h * 1000003 + c + 1) mod 2305843009213693951) s 7.
Definition of_str (s : str) : tree := I (hash_str s).
Definition err_code (e : err) : Z :=
  match e with ENoneAdded => 1 | ENoneRemoved => 2 | EBracket => 3 | ENoDefault => 6 end.

Section R.
Variable quote : option bool -> str -> str.
Variable dflt : str.
Variable attached : list str.
Variable stmts : nat -> stmt.

(* the schema each reference of the emitted statement names (for the database: no schema = default) *)
Definition name_or_default (o : option str) : str :=
  match truthy o with Some n => n | None => dflt end.
Definition eff_names (inc : bool) (m : smap) (s : stmt) : list str :=
  flat_map (fun i => match i with
                     | Txt _ => []
                     | Sch r =>
                         if symbolic inc r then
                           match effective dflt m (or_none (r_name r)) with Ok n => [n] | Err _ => [] end
                         else [name_or_default (r_name r)]
                     end) s.
Definition plain_names (s : stmt) : list str :=
  flat_map (fun i => match i with Txt _ => [] | Sch r => [name_or_default (r_name r)] end) s.

Definition db_obs (text : str) (names : list str) : tree :=
  if forallb (fun n => existsb (str_eqb n) attached) names
  then L [I 0; of_str text; L (map (fun a => of_bool (existsb (str_eqb a) names)) attached)]
  else L [I 4; of_str text].

Definition names_for (c' : cache) (sid : nat) (m : smap) (ddl : bool) : list str :=
  if is_empty m then plain_names (stmts sid)
  else if ddl then eff_names (has_none m) m (stmts sid)
  else match lookup sid c' with
       | Some (inc, _) => eff_names inc m (stmts sid)
       | None => []
       end.

Definition obs_of (c' : cache) (o : op) (r : option (result str)) : tree :=
  match r with
  | None => L [I 9]
  | Some (Err e) => L [I (err_code e)]
  | Some (Ok text) =>
      match o with
      | Exec sid m => db_obs text (names_for c' sid m false)
      | Ddl sid m => db_obs text (names_for c' sid m true)
      | ScalarDefault _ _ _ => L [I 5; of_str text]
      | Evict _ => L [I 9]
      end
  end.
Fixpoint run_ops (c : cache) (ops : list op) : list tree :=
  match ops with
  | [] => []
  | o :: r => let '(c', out) := step quote dflt stmts c o in obs_of c' o out :: run_ops c' r
  end.
End R.

(* input  L [I 1; desc; dflt; qtab; attached; stmts; ops]   (desc is for the implementation side only)
   output L [obs per operation] (sql = hash of the text):  [0; sql; touched flags per attached schema] | [4; sql] (a schema is not
   attached) | [5; sql] (pre-executed default) | [1] [2] [3] [6] (errors) | [9] (eviction) *)
Definition run_case (t : tree) : tree :=
  match t with
  | L [I 1; _; td; tq; ta; ts; to] =>
      match as_str td, as_list_of as_qent tq, as_list_of as_str ta,
            as_list_of (as_list_of as_item) ts, as_list_of as_op to with
      | Some d, Some q, Some a, Some ss, Some ops =>
          L (run_ops (quote_tab q) d a (fun k => nth k ss []) [] ops)
      | _, _, _, _, _ => bad_input
      end
  | _ => bad_input
  end.
