(* C14 - metadata histories (Table(...), MetaData.remove, extend_existing): what they preserve, and
   that the plans are functions of the metadata the history leaves behind *)
From Coq Require Import List NArith Bool Lia Permutation.
Import ListNotations.
From SAV.util Require Import Topo Cycles TopoProofs TopoCycle TopoExtra CyclesSound CyclesComplete CyclesExact.
From SAV.sql Require Import DDLOrder DDLOrderBase DDLOrderSort DDLOrderExec DDLOrderCreate DDLOrderDrop DDLOrderSorted.

Lemma insert_fk_perm f l : Permutation (insert_fk f l) (f :: l).
Proof. induction l as [|g l IH]; simpl; [apply Permutation_refl|].
  destruct (N.leb (fk_id f) (fk_id g)); [apply Permutation_refl|].
  etransitivity; [apply perm_skip; exact IH|apply perm_swap]. Qed.

Lemma sort_fks_perm l : Permutation (sort_fks l) l.
Proof. unfold sort_fks. induction l as [|f l IH]; simpl; [constructor|].
  etransitivity; [apply insert_fk_perm|]. constructor. exact IH. Qed.

(* extend_existing: the re-specified constraints win, the others stay; ids stay distinct *)
Lemma In_extend_fks old new f : In f (extend_fks old new) <->
  In f new \/ (In f old /\ has_fk (fk_id f) new = false).
Proof. unfold extend_fks. split.
  - intros H. apply (Permutation_in _ (sort_fks_perm _)) in H. apply in_app_or in H. destruct H as [H|H]; [right|left; exact H].
    apply filter_In in H. destruct H as [H1 H2]. apply negb_true_iff in H2. tauto.
  - intros H. apply (Permutation_in _ (Permutation_sym (sort_fks_perm _))). apply in_or_app. destruct H as [H|[H1 H2]]; [right; exact H|left].
    apply filter_In. split; [exact H1|]. rewrite H2. reflexivity. Qed.

Lemma extend_fks_nodup old new : NoDup (map fk_id old) -> NoDup (map fk_id new) ->
  NoDup (map fk_id (extend_fks old new)).
Proof. intros Ho Hn. unfold extend_fks.
  eapply Permutation_NoDup; [apply Permutation_map; apply Permutation_sym; apply sort_fks_perm|].
  rewrite map_app. apply NoDup_app_intro; [apply NoDup_map_filter; exact Ho|exact Hn|].
  intros i H1 H2. apply in_map_iff in H1. destruct H1 as [f [<- Hf]]. apply filter_In in Hf. destruct Hf as [_ Hf].
  apply negb_true_iff in Hf. apply has_fk_In in H2. congruence. Qed.

(* every table a history mentions has distinct constraints *)
Definition step_ok (s : step) : Prop :=
  match s with Define t | Extend t => NoDup (map fk_id (t_fks t)) | Remove _ => True end.

Definition md_ok (md : metadata) : Prop :=
  NoDup (names md) /\ forall t, In t md -> NoDup (map fk_id (t_fks t)).

Lemma names_app (a b : metadata) : names (a ++ b) = names a ++ names b.
Proof. unfold names. apply map_app. Qed.

Lemma apply_step_ok md s md' : md_ok md -> step_ok s -> apply_step md s = Some md' -> md_ok md'.
Proof.
  intros [Hn Hi] Hs. destruct s as [t|n|t]; simpl.
  - destruct (memb (t_name t) (names md)) eqn:M; [discriminate|]. intros H; inversion H; subst md'. split.
    + rewrite names_app. apply NoDup_app_intro; [exact Hn|simpl; constructor; [intros []|constructor]|].
      intros x Hx [<-|[]]. apply memb_false in M. contradiction.
    + intros u Hu. apply in_app_or in Hu. destruct Hu as [Hu|[<-|[]]]; [apply Hi; exact Hu|exact Hs].
  - intros H; inversion H; subst md'. split.
    + unfold names. apply NoDup_map_filter. exact Hn.
    + intros u Hu. apply filter_In in Hu. apply Hi. tauto.
  - destruct (memb (t_name t) (names md)) eqn:M.
    + intros H; inversion H; subst md'. split.
      * unfold names. rewrite map_map.
        replace (map _ md) with (map t_name md); [exact Hn|]. apply map_ext. intros u.
        destruct (N.eqb (t_name u) (t_name t)); reflexivity.
      * intros u Hu. apply in_map_iff in Hu. destruct Hu as [v [Hv1 Hv2]].
        destruct (N.eqb (t_name v) (t_name t)); subst u; [|apply Hi; exact Hv2].
        simpl. apply extend_fks_nodup; [apply Hi; exact Hv2|exact Hs].
    + intros H; inversion H; subst md'. split.
      * rewrite names_app. apply NoDup_app_intro; [exact Hn|simpl; constructor; [intros []|constructor]|].
        intros x Hx [<-|[]]. apply memb_false in M. contradiction.
      * intros u Hu. apply in_app_or in Hu. destruct Hu as [Hu|[<-|[]]]; [apply Hi; exact Hu|exact Hs]. Qed.

Theorem run_history_ok : forall h md md', md_ok md -> Forall step_ok h -> run_history md h = Some md' -> md_ok md'.
Proof. induction h as [|s h IH]; intros md md' Hm Hf; simpl.
  - intros H; inversion H; subst; exact Hm.
  - inversion Hf as [|s' h' Hs Hf']; subst. destruct (apply_step md s) as [md1|] eqn:E; [|discriminate].
    apply IH; [eapply apply_step_ok; eassumption|exact Hf']. Qed.

(* whatever the history, the metadata it leaves is well-formed as soon as its foreign keys resolve
   against the tables it contains NOW *)
Theorem history_wf h md : Forall step_ok h -> current h = Some md ->
  (forall t f, In t md -> In f (t_fks t) -> In (fk_ref f) (names md)) -> wf md.
Proof. intros Hf Hc Hr. assert (Hok : md_ok md).
  { eapply run_history_ok; [|exact Hf|exact Hc]. split; [constructor|intros t []]. }
  destruct Hok as [H1 H2]. split; [exact H1|]. split; [exact Hr|exact H2]. Qed.

(* the plans after a history: computed from the metadata it leaves behind, and from nothing else *)
Definition create_after (existing : list N) (checkfirst : bool) (h : list step) : option outcome :=
  option_map (create_plan existing checkfirst) (current h).
Definition drop_after (existing : list N) (checkfirst : bool) (h : list step) : option outcome :=
  option_map (drop_plan existing checkfirst) (current h).
Definition sorted_after (h : list step) : option (res (list node * bool)) :=
  option_map sorted_tables (current h).

Theorem plans_depend_on_current_only h h' : current h = current h' ->
  (forall ex cf, create_after ex cf h = create_after ex cf h') /\
  (forall ex cf, drop_after ex cf h = drop_after ex cf h') /\
  sorted_after h = sorted_after h'.
Proof. intros E. unfold create_after, drop_after, sorted_after. rewrite E. repeat split. Qed.

(* create_all after any history: accepted, and the catalog is the CURRENT metadata *)
Theorem create_all_after_history h md db0 checkfirst :
  Forall step_ok h -> current h = Some md ->
  (forall t f, In t md -> In f (t_fks t) -> In (fk_ref f) (names md)) ->
  consistent db0 md -> (checkfirst = false -> db0 = []) ->
  ~ (exists w, cycle (fixed md) w /\ incl w (names md)) ->
  exists o u, create_after (map fst db0) checkfirst h = Some (Plan o u) /\
    forall u', Permutation u' u -> exists db', exec db0 (o ++ u') = Some db' /\ cat_equiv db' md.
Proof. intros Hf Hc Hr Hcons Hcf Hfix. pose proof (history_wf h md Hf Hc Hr) as Hwf.
  destruct (create_all_succeeds_main md db0 checkfirst Hwf Hcons Hcf Hfix) as [o [u [Hp Hex]]].
  exists o, u. split; [|exact Hex]. unfold create_after. rewrite Hc. simpl. rewrite Hp. reflexivity. Qed.

(* redefining a referred table: the referring table still comes after it *)
Example history_redefine_parent :
  let h := [Define (mktable 0 [] []); Define (mktable 1 [mkfk 0 0 false false] []);
            Remove 0; Define (mktable 0 [] [])]%N in
  current h = Some [mktable 1 [mkfk 0 0 false false] []; mktable 0 [] []]%N /\
  create_after [] false h = Some (Plan [CreateT 0 []; CreateT 1 [mkfk 0 0 false false]]%N []) /\
  drop_after [] false h = Some (Plan [DropT 1; DropT 0]%N []) /\
  sorted_after h = Some (Ok ([0; 1]%N, false)).
Proof. vm_compute. repeat split. Qed.
