(* C56 - reference semantics of upsert statements (spec side; no proofs here).

   A table is a list of rows (insertion order), a row a list of nullable integers, the uniqueness
   constraints (primary key included) a list of unique indexes, each possibly partial.  A statement
   INSERT ... [ON CONFLICT target action]*  is executed one parameter set at a time by [upsert_one]:
   the ON CONFLICT clauses are tried in order, a clause fires when the proposed row clashes with an
   existing row on the index its conflict target designates (a target-less clause: on any index);
   DO NOTHING skips the row, DO UPDATE rewrites the clashing row (all right-hand sides read the OLD
   row and the proposed row [excluded]) provided its WHERE holds, and must itself keep every index
   unique; a clash no clause captures is an integrity error; otherwise the row is inserted.
   NULLs never clash (SQL unique semantics).  The SQLite instance of this definition is validated
   against the live engine on every run (specs/c56.py); for PostgreSQL and MySQL it is trusted. *)
From Coq Require Import List ZArith Bool.
Import ListNotations.

Definition row := list (option Z).
Definition table := list row.

(* SQL expressions of the conflict clause: constants (bound literal [inl=false] or rendered inline),
   NULL, a column of the target row, a column of the proposed row (excluded / inserted), a per-row
   bound parameter *)
Inductive atom : Type :=
  | AConst (inl : bool) (z : Z) | ANull | ACol (i : nat) | AExc (i : nat) | APar (k : nat).
Inductive expr : Type := EAtom (a : atom) | EAdd (a b : atom).
Inductive cmp : Type := CLt | CEq | CGt.
Inductive pred : Type := Pred (c : cmp) (l r : expr).

Record env : Type := mkenv { e_old : row; e_exc : row; e_bp : list (option Z) }.

Definition getv (r : list (option Z)) (i : nat) : option Z := nth i r None.

Definition ev_atom (en : env) (a : atom) : option Z :=
  match a with
  | AConst _ z => Some z
  | ANull => None
  | ACol i => getv (e_old en) i
  | AExc i => getv (e_exc en) i
  | APar k => getv (e_bp en) k
  end.

Definition ev_expr (en : env) (e : expr) : option Z :=
  match e with
  | EAtom a => ev_atom en a
  | EAdd a b =>
      match ev_atom en a, ev_atom en b with
      | Some x, Some y => Some (x + y)%Z
      | _, _ => None
      end
  end.

Definition cmp_holds (c : cmp) (x y : Z) : bool :=
  match c with CLt => Z.ltb x y | CEq => Z.eqb x y | CGt => Z.ltb y x end.

(* a WHERE condition holds only when it is TRUE (NULL operand -> unknown -> not satisfied) *)
Definition ev_pred (en : env) (p : pred) : bool :=
  match p with
  | Pred c l r =>
      match ev_expr en l, ev_expr en r with
      | Some x, Some y => cmp_holds c x y
      | _, _ => false
      end
  end.

(* ---- syntactic equality, up to the way a constant is transmitted ---- *)
Definition atom_eqb (a b : atom) : bool :=
  match a, b with
  | AConst _ x, AConst _ y => Z.eqb x y
  | ANull, ANull => true
  | ACol i, ACol j => Nat.eqb i j
  | AExc i, AExc j => Nat.eqb i j
  | APar i, APar j => Nat.eqb i j
  | _, _ => false
  end.
Definition expr_eqb (a b : expr) : bool :=
  match a, b with
  | EAtom x, EAtom y => atom_eqb x y
  | EAdd x1 x2, EAdd y1 y2 => atom_eqb x1 y1 && atom_eqb x2 y2
  | _, _ => false
  end.
Definition cmp_eqb (a b : cmp) : bool :=
  match a, b with CLt, CLt => true | CEq, CEq => true | CGt, CGt => true | _, _ => false end.
Definition pred_eqb (p q : pred) : bool :=
  match p, q with Pred c l r, Pred c' l' r' => cmp_eqb c c' && expr_eqb l l' && expr_eqb r r' end.

(* ---- unique indexes ---- *)
Record uindex : Type := mkix { iname : Z; icols : list nat; ipred : option pred }.

Definition applies (ix : uindex) (r : row) : bool :=
  match ipred ix with None => true | Some p => ev_pred (mkenv r r []) p end.

Fixpoint key_of (cols : list nat) (r : row) : option (list Z) :=
  match cols with
  | [] => Some []
  | c :: cs =>
      match getv r c, key_of cs r with
      | Some z, Some k => Some (z :: k)
      | _, _ => None
      end
  end.

Fixpoint zlist_eqb (a b : list Z) : bool :=
  match a, b with
  | [], [] => true
  | x :: a', y :: b' => Z.eqb x y && zlist_eqb a' b'
  | _, _ => false
  end.

(* two rows may not coexist under index [ix] *)
Definition clash (ix : uindex) (a b : row) : bool :=
  applies ix a && applies ix b &&
  match key_of (icols ix) a, key_of (icols ix) b with
  | Some x, Some y => zlist_eqb x y
  | _, _ => false
  end.

Fixpoint find_clash (ix : uindex) (r : row) (t : table) : option nat :=
  match t with
  | [] => None
  | x :: t' => if clash ix r x then Some 0 else option_map S (find_clash ix r t')
  end.

Fixpoint first_clash (ixs : list uindex) (r : row) (t : table) : option nat :=
  match ixs with
  | [] => None
  | ix :: rest => match find_clash ix r t with Some h => Some h | None => first_clash rest r t end
  end.

Definition any_clash (ixs : list uindex) (r : row) (t : table) : bool :=
  match first_clash ixs r t with Some _ => true | None => false end.

(* ---- conflict targets ---- *)
Inductive target : Type := TCols (cols : list nat) (w : option pred) | TName (n : Z).

Definition nat_mem (x : nat) (l : list nat) : bool := existsb (Nat.eqb x) l.
Definition same_cols (a b : list nat) : bool :=
  Nat.eqb (length a) (length b) && forallb (fun x => nat_mem x b) a && forallb (fun x => nat_mem x a) b.

(* index inference: the column sets agree; a partial index is only designated by a target carrying the
   same predicate (SQLite compares the expressions; for PostgreSQL - implication - this is trusted) *)
Definition target_matches (t : target) (ix : uindex) : bool :=
  match t with
  | TName n => Z.eqb n (iname ix)
  | TCols cols w =>
      same_cols cols (icols ix) &&
      match ipred ix with
      | None => true
      | Some p => match w with Some q => pred_eqb p q | None => false end
      end
  end.

Fixpoint resolve (ixs : list uindex) (t : target) : option uindex :=
  match ixs with
  | [] => None
  | ix :: rest => if target_matches t ix then Some ix else resolve rest t
  end.

(* ---- clauses ---- *)
Inductive action : Type := DoNothing | DoUpdate (sets : list (nat * expr)) (w : option pred).
Definition clause : Type := (option target * action)%type.

Inductive err : Type := EIntegrity | EOperational | EInvalidRequest.
Inductive res (A : Type) : Type := Ok (a : A) | Err (e : err).
Arguments Ok {A} a.
Arguments Err {A} e.

Fixpoint set_nth (i : nat) (v : option Z) (r : row) : row :=
  match r, i with
  | [], _ => []
  | _ :: r', O => v :: r'
  | x :: r', S i' => x :: set_nth i' v r'
  end.

(* SQL UPDATE SET (SQLite, PostgreSQL): every right-hand side reads the old row *)
Definition assign_simul (sets : list (nat * expr)) (old exc : row) (bp : list (option Z)) : row :=
  fold_left (fun acc ce => set_nth (fst ce) (ev_expr (mkenv old exc bp) (snd ce)) acc) sets old.

(* MySQL ON DUPLICATE KEY UPDATE: assignments are evaluated left to right, each sees the earlier ones *)
Definition assign_seq (sets : list (nat * expr)) (old exc : row) (bp : list (option Z)) : row :=
  fold_left (fun acc ce => set_nth (fst ce) (ev_expr (mkenv acc exc bp) (snd ce)) acc) sets old.

Definition remove_nth {A} (n : nat) (l : list A) : list A := firstn n l ++ skipn (S n) l.
Fixpoint replace_nth {A} (n : nat) (x : A) (l : list A) : list A :=
  match l, n with
  | [], _ => []
  | _ :: l', O => x :: l'
  | y :: l', S n' => y :: replace_nth n' x l'
  end.

Definition opt_holds (w : option pred) (en : env) : bool :=
  match w with None => true | Some p => ev_pred en p end.

Definition do_update (seq : bool) (ixs : list uindex) (sets : list (nat * expr)) (w : option pred)
    (t : table) (hit : nat) (newr : row) (bp : list (option Z)) : res (table * option row) :=
  let old := nth hit t [] in
  if opt_holds w (mkenv old newr bp) then
    let upd := (if seq then assign_seq else assign_simul) sets old newr bp in
    if any_clash ixs upd (remove_nth hit t) then Err EIntegrity
    else Ok (replace_nth hit upd t, Some upd)
  else Ok (t, None).

Definition do_action (ixs : list uindex) (a : action) (t : table) (hit : nat) (newr : row)
    (bp : list (option Z)) : res (table * option row) :=
  match a with
  | DoNothing => Ok (t, None)
  | DoUpdate sets w => do_update false ixs sets w t hit newr bp
  end.

Definition clause_hit (ixs : list uindex) (tg : option target) (newr : row) (t : table) : option nat :=
  match tg with
  | Some tg' => match resolve ixs tg' with Some ix => find_clash ix newr t | None => None end
  | None => first_clash ixs newr t
  end.

(* the first clause (in statement order) whose target captures a clash fires *)
Fixpoint run_clauses (ixs : list uindex) (cls : list clause) (t : table) (newr : row)
    (bp : list (option Z)) : option (res (table * option row)) :=
  match cls with
  | [] => None
  | (tg, a) :: rest =>
      match clause_hit ixs tg newr t with
      | Some h => Some (do_action ixs a t h newr bp)
      | None => run_clauses ixs rest t newr bp
      end
  end.

(* one parameter set: the new table and the affected row (None: the row was skipped) *)
Definition upsert_one (ixs : list uindex) (cls : list clause) (t : table) (newr : row)
    (bp : list (option Z)) : res (table * option row) :=
  match run_clauses ixs cls t newr bp with
  | Some r => r
  | None => if any_clash ixs newr t then Err EIntegrity else Ok (t ++ [newr], Some newr)
  end.

(* MySQL: any unique key; sequential assignment *)
Definition my_upsert_one (ixs : list uindex) (sets : list (nat * expr)) (t : table) (newr : row)
    (bp : list (option Z)) : res (table * option row) :=
  match first_clash ixs newr t with
  | Some h => do_update true ixs sets None t h newr bp
  | None => Ok (t ++ [newr], Some newr)
  end.

Definition opt_cons {A} (o : option A) (l : list A) : list A :=
  match o with Some x => x :: l | None => l end.

Definition prow : Type := (row * list (option Z))%type.

(* THE insert-or-update model of an executemany: fold over the parameter sets in order; the first error
   aborts; the affected rows are collected in parameter order *)
Fixpoint fold_rows (step : table -> row -> list (option Z) -> res (table * option row))
    (t : table) (ps : list prow) : res (table * list row) :=
  match ps with
  | [] => Ok (t, [])
  | (r, bp) :: rest =>
      match step t r bp with
      | Err e => Err e
      | Ok (t', o) =>
          match fold_rows step t' rest with
          | Err e => Err e
          | Ok (t'', rs) => Ok (t'', opt_cons o rs)
          end
      end
  end.

Definition targets_ok (ixs : list uindex) (cls : list clause) : bool :=
  forallb (fun c => match fst c with
                    | Some tg => match resolve ixs tg with Some _ => true | None => false end
                    | None => true end) cls.

Definition upsert_spec (ixs : list uindex) (cls : list clause) (t : table) (ps : list prow)
    : res (table * list row) :=
  if targets_ok ixs cls then fold_rows (upsert_one ixs cls) t ps else Err EOperational.

Definition my_upsert_spec (ixs : list uindex) (sets : list (nat * expr)) (t : table) (ps : list prow)
    : res (table * list row) :=
  fold_rows (my_upsert_one ixs sets) t ps.
