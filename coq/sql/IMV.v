(* Model of "insertmanyvalues" (bulk INSERT .. RETURNING):
     lib/sqlalchemy/sql/compiler.py   SQLCompiler._deliver_insertmanyvalues_batches
     lib/sqlalchemy/engine/default.py DefaultDialect._deliver_insertmanyvalues_batches
     lib/sqlalchemy/engine/base.py    Connection._exec_insertmany_context  (drives the generator: one
                                      cursor.execute per yielded batch, in order)
   Definitions only.  The database is a function parameter [fetch] (which rows come back for the
   k-th statement, in which order); theorems quantify over it. *)
From Coq Require Import List ZArith Bool.
Import ListNotations.
Open Scope Z_scope.

Inductive exn :=
| ZeroDivisionError      (* lenparams // batch_size with batch_size = 0 *)
| IndexError             (* batch[0] on an empty batch *)
| AssertionError         (* assert imv.sentinel_param_keys / assert not composite_sentinel *)
| RowCountMismatch       (* InvalidRequestError "Sentinel-keyed result set did not produce correct number of rows" *)
| SentinelKeyError.      (* InvalidRequestError "Can't match sentinel values in result set to parameter sets" *)

Inductive result (A : Type) : Type := Ok (a : A) | Raise (e : exn) | OutOfFuel.
Arguments Ok {A} a. Arguments Raise {A} e. Arguments OutOfFuel {A}.

Definition bind {A B} (r : result A) (f : A -> result B) : result B :=
  match r with Ok a => f a | Raise e => Raise e | OutOfFuel => OutOfFuel end.

(* Python truthiness of an int *)
Definition truthy (z : Z) : bool := negb (z =? 0).

(* ------------------------------------------------------------------------------------------ *)
(* 1. mode decision (compiler.py: the if / elif / elif / else chain)                           *)
Record flags := mkFlags {
  is_default_expr : bool;               (* imv.is_default_expr *)
  supports_default_metavalue : bool;    (* self.dialect.supports_default_metavalue *)
  supports_multivalues_insert : bool;   (* self.dialect.supports_multivalues_insert *)
  result_columns : bool;                (* bool(self._result_columns) *)
  sentinel_columns_none : bool;         (* imv.sentinel_columns is None *)
  includes_upsert_behaviors : bool;     (* imv.includes_upsert_behaviors *)
  embed_values_counter : bool;          (* imv.embed_values_counter *)
  has_upsert_bound_parameters : bool    (* imv.has_upsert_bound_parameters *)
}.

Definition mode_cond1 (f : flags) : bool :=
  is_default_expr f && negb (supports_default_metavalue f).
Definition mode_cond2 (sbo : bool) (f : flags) : bool :=
  negb (supports_multivalues_insert f)
  || (sbo && result_columns f
      && (sentinel_columns_none f || (includes_upsert_behaviors f && negb (embed_values_counter f)))).
Definition mode_cond3 (f : flags) : bool :=
  has_upsert_bound_parameters f && negb (embed_values_counter f) && result_columns f.

(* (use_row_at_a_time, downgraded) *)
Definition decide_mode (sbo : bool) (f : flags) : bool * bool :=
  if mode_cond1 f then (true, false)
  else if mode_cond2 sbo f then (true, true)
  else if mode_cond3 f then (true, true)
  else (false, false).

(* ------------------------------------------------------------------------------------------ *)
(* 2. batch size arithmetic                                                                     *)
(* min(batch_size, (max_params - num_params_outside_of_batch) // num_params_per_batch) *)
Definition clamp_expr (batch_size max_params total_num_of_params num_params_per_batch : Z) : Z :=
  Z.min batch_size ((max_params - (total_num_of_params - num_params_per_batch)) / num_params_per_batch).

Definition clamp (batch_size max_params total_num_of_params num_params_per_batch : Z) : result Z :=
  if truthy max_params then
    if num_params_per_batch =? 0 then Raise ZeroDivisionError
    else Ok (clamp_expr batch_size max_params total_num_of_params num_params_per_batch)
  else Ok batch_size.

(* lenparams // batch_size + (1 if lenparams % batch_size else 0) *)
Definition total_batches_expr (lenparams batch_size : Z) : Z :=
  lenparams / batch_size + (if truthy (lenparams mod batch_size) then 1 else 0).
Definition total_batches (lenparams batch_size : Z) : result Z :=
  if batch_size =? 0 then Raise ZeroDivisionError else Ok (total_batches_expr lenparams batch_size).

(* ------------------------------------------------------------------------------------------ *)
(* 3. the slice-and-delete loop                                                                 *)
(* normalised stop index of l[0:stop] for a list of length len (CPython PySlice_AdjustIndices) *)
Definition py_stop (len : nat) (stop : Z) : nat :=
  if stop <? 0 then Z.to_nat (Z.max 0 (Z.of_nat len + stop)) else Z.to_nat (Z.min stop (Z.of_nat len)).

Section Split.
Context {A : Type}.
Definition take_front (n : Z) (l : list A) : list A := firstn (py_stop (length l) n) l.  (* l[0:n] *)
Definition drop_front (n : Z) (l : list A) : list A := skipn (py_stop (length l) n) l.   (* l[0:n] = [] *)

(* while batches: batch = batches[0:batch_size]; batches[0:batch_size] = [];
                  current_batch_size = batch_size if batches else len(batch)            *)
Fixpoint split_loop (fuel : nat) (bs : Z) (l : list A) : result (list (list A * Z)) :=
  match l with
  | [] => Ok []
  | _ :: _ =>
    match fuel with
    | O => OutOfFuel
    | S f =>
      let batch := take_front bs l in
      let rest := drop_front bs l in
      let cbs := match rest with [] => Z.of_nat (length batch) | _ :: _ => bs end in
      bind (split_loop f bs rest) (fun r => Ok ((batch, cbs) :: r))
    end
  end.
End Split.

(* _InsertManyValuesBatch, without the rendered statement (see section 5 for its parameters) *)
Record batch (P : Type) := mkBatch {
  b_items : list P;        (* .batch (and, zipped with it, the compiled parameters -> .sentinel_values) *)
  b_cbs : Z;               (* .current_batch_size *)
  b_num : Z;               (* .batchnum *)
  b_total : Z;             (* .total_batches *)
  b_sorted : bool;         (* .rows_sorted *)
  b_downgraded : bool      (* .is_downgraded *)
}.
Arguments mkBatch {P}. Arguments b_items {P}. Arguments b_cbs {P}. Arguments b_num {P}.
Arguments b_total {P}. Arguments b_sorted {P}. Arguments b_downgraded {P}.

Record config := mkConfig {
  c_flags : flags;
  c_batch_size : Z;          (* execution option insertmanyvalues_page_size / dialect default *)
  c_max_params : Z;          (* dialect.insertmanyvalues_max_parameters (None = 0) *)
  c_total_params : Z;        (* len(self.bind_names) *)
  c_params_per_batch : Z;    (* len(imv.insert_crud_params) : the VALUES elements *)
  c_values_binds : Z;        (* sum(len(elem[3]) for elem in imv.insert_crud_params) : the bound
                                parameters inside VALUES *)
  c_is_returning : bool;     (* bool(compiled.effective_returning) *)
  c_imv_sbo : bool;          (* imv.sort_by_parameter_order *)
  c_num_sentinel : Z;        (* imv.num_sentinel_columns *)
  c_implicit : bool;         (* imv.implicit_sentinel *)
  c_has_keys : bool;         (* bool(imv.sentinel_param_keys) *)
  c_named : bool             (* not self.positional *)
}.

(* num_params_per_batch = max(len(imv.insert_crud_params), sum(len(elem[3]) for elem in ...)) *)
Definition params_per_batch_expr (num_elements num_values_binds : Z) : Z := Z.max num_elements num_values_binds.
Definition c_per_batch (c : config) : Z := params_per_batch_expr (c_params_per_batch c) (c_values_binds c).

(* sort_by_parameter_order as passed down by the dialect-level function *)
Definition c_sbo (c : config) : bool := if c_is_returning c then c_imv_sbo c else false.

Section Plan.
Context {P : Type}.

(* enumerate(zip(parameters, compiled_parameters), 1) -> one batch per parameter set *)
Fixpoint row_batches (n total : Z) (sorted dg : bool) (ps : list P) : list (batch P) :=
  match ps with
  | [] => []
  | p :: r => mkBatch [p] 1 n total sorted dg :: row_batches (n + 1) total sorted dg r
  end.

Fixpoint number_batches (n total : Z) (sorted : bool) (chunks : list (list P * Z)) : list (batch P) :=
  match chunks with
  | [] => []
  | (items, cbs) :: r => mkBatch items cbs n total sorted false :: number_batches (n + 1) total sorted r
  end.

(* the sequence of batches SQLCompiler._deliver_insertmanyvalues_batches yields *)
Definition plan (c : config) (ps : list P) : result (list (batch P)) :=
  let lenparams := Z.of_nat (length ps) in
  match decide_mode (c_sbo c) (c_flags c) with
  | (true, downgraded) => Ok (row_batches 1 lenparams (c_sbo c) downgraded ps)
  | (false, _) =>
    bind (clamp (c_batch_size c) (c_max_params c) (c_total_params c) (c_per_batch c)) (fun bs =>
    bind (total_batches lenparams bs) (fun total =>
    bind (split_loop (length ps) bs ps) (fun chunks =>
    Ok (number_batches 1 total (c_sbo c) chunks))))
  end.
End Plan.

(* ------------------------------------------------------------------------------------------ *)
(* 4. the dialect-level merge of the fetched rows                                               *)
(* if imv.num_sentinel_columns and not imv_batch.is_downgraded *)
Definition merge_guard (num_sentinel_columns : Z) (is_downgraded : bool) : bool :=
  truthy num_sentinel_columns && negb is_downgraded.
(* composite_sentinel = imv.num_sentinel_columns > 1 *)
Definition composite_sentinel (num_sentinel_columns : Z) : bool := num_sentinel_columns >? 1.
(* len(rows_by_sentinel) != len(imv_batch.batch) *)
Definition rowcount_differs (dict_len batch_len : nat) : bool := negb (Nat.eqb dict_len batch_len).

Section Merge.
Context {P K R : Type}.
Variable key_eqb : K -> K -> bool.
Variable sent_of_param : P -> K.     (* _sentinel_from_params(compiled_param) *)
Variable sent_of_row : R -> K.       (* row[-1] / tuple(row[-nsc:]) through the result processors *)
Variable sort_key : R -> Z.          (* operator.itemgetter(-1) on an integer autoincrement column *)

(* sorted(rows, key=itemgetter(-1)) : stable *)
Fixpoint insert_row (r : R) (l : list R) : list R :=
  match l with
  | [] => [r]
  | x :: t => if sort_key r <=? sort_key x then r :: l else x :: insert_row r t
  end.
Definition sort_rows (rows : list R) : list R := fold_right insert_row [] rows.

(* rows_by_sentinel = {sent(row): row for row in rows} : a later row replaces an earlier one *)
Fixpoint dict_get (k : K) (rows : list R) : option R :=
  match rows with
  | [] => None
  | r :: t => match dict_get k t with
              | Some x => Some x
              | None => if key_eqb (sent_of_row r) k then Some r else None
              end
  end.
Fixpoint distinct_keys (ks : list K) : list K :=
  match ks with
  | [] => []
  | k :: t => if existsb (key_eqb k) t then distinct_keys t else k :: distinct_keys t
  end.
Definition dict_len (rows : list R) : nat := length (distinct_keys (map sent_of_row rows)).

(* [rows_by_sentinel[k] for k in imv_batch.sentinel_values] ; None = KeyError *)
Fixpoint lookup_all (keys : list K) (rows : list R) : option (list R) :=
  match keys with
  | [] => Some []
  | k :: t => match dict_get k rows, lookup_all t rows with
              | Some r, Some rs => Some (r :: rs)
              | _, _ => None
              end
  end.

Definition merge_rows (c : config) (b : batch P) (rows : list R) : result (list R) :=
  if merge_guard (c_num_sentinel c) (b_downgraded b) then
    if c_implicit c then
      if composite_sentinel (c_num_sentinel c) then Raise AssertionError else Ok (sort_rows rows)
    else if negb (c_has_keys c) then Raise AssertionError
    else if rowcount_differs (dict_len rows) (length (b_items b)) then Raise RowCountMismatch
    else match lookup_all (map sent_of_param (b_items b)) rows with
         | Some ordered => Ok ordered
         | None => Raise SentinelKeyError
         end
  else Ok rows.

(* ------------------------------------------------------------------------------------------ *)
(* 5. the whole executemany: Connection._exec_insertmany_context consuming the two generators   *)
Context {X : Type}.
Variable ext : P -> X.   (* the bound parameters of a parameter set that are NOT inside VALUES *)
(* the database: rows fetched after executing the k-th statement, which carries the non-VALUES
   parameters [x] (None: no parameter set to take them from) and the VALUES rows of [items] *)
Variable fetch : nat -> option X -> list P -> list R.

(* which parameter set supplies the non-VALUES parameters of a batch statement:
   positional: batch[0][:lower] / batch[0][upper:]   named: parameters[0] (base_parameters) *)
Definition stmt_ext (c : config) (all : list P) (b : batch P) : option X :=
  (* row-at-a-time: replaced_parameters is the parameter set itself, in every paramstyle *)
  let rowmode := fst (decide_mode (c_sbo c) (c_flags c)) in
  option_map ext (hd_error (if c_named c && negb rowmode then all else b_items b)).

Record outcome := mkOutcome {
  o_executed : list (batch P);     (* statements sent to the database, in order *)
  o_result : result (list R)       (* context._insertmanyvalues_rows, or the exception *)
}.

Fixpoint deliver (c : config) (all : list P) (k : nat) (bl : list (batch P)) (done : list (batch P))
                 (acc : list R) : outcome :=
  match bl with
  | [] => mkOutcome (rev done) (Ok acc)
  | b :: r =>
    if c_is_returning c then
      match merge_rows c b (fetch k (stmt_ext c all b) (b_items b)) with
      | Ok rows => deliver c all (S k) r (b :: done) (acc ++ rows)
      | Raise e => mkOutcome (rev (b :: done)) (Raise e)
      | OutOfFuel => mkOutcome (rev (b :: done)) OutOfFuel
      end
    else deliver c all (S k) r (b :: done) acc
  end.

Definition execute (c : config) (ps : list P) : outcome :=
  match plan c ps with
  | Ok bl => deliver c ps 0 bl [] []
  | Raise e => mkOutcome [] (Raise e)
  | OutOfFuel => mkOutcome [] OutOfFuel
  end.
End Merge.

(* ------------------------------------------------------------------------------------------ *)
(* 6. parameter expansion of one batch (what is bound to which placeholder)                     *)
Definition ptuple := list Z.   (* one DBAPI parameter set, positional: in positiontup order;
                                  named: in a fixed order of the dictionary keys *)

Fixpoint positions_from (i : nat) (mask : list bool) : list nat :=
  match mask with
  | [] => []
  | true :: t => i :: positions_from (S i) t
  | false :: t => positions_from (S i) t
  end.
(* all_expand_positions = {idx for idx, name in enumerate(positiontup) if name in all_names_we_will_expand} *)
Definition expand_positions (mask : list bool) : list nat := positions_from 0 mask.
(* expand_pos_lower_index = min(..) ; expand_pos_upper_index = max(..) + 1 ; both 0 if there is none *)
Definition lower_index (mask : list bool) : nat :=
  match expand_positions mask with [] => O | x :: r => fold_left Nat.min r x end.
Definition upper_index (mask : list bool) : nat :=
  match expand_positions mask with [] => O | x :: r => S (fold_left Nat.max r x) end.

Definition slice {A} (lo hi : nat) (l : list A) : list A := firstn (hi - lo) (skipn lo l).  (* l[lo:hi] *)

Fixpoint zrange (start : Z) (n : nat) : list Z :=
  match n with O => [] | S m => start :: zrange (start + 1) m end.
(* range(start, end) *)
Definition py_range (start stop : Z) : list Z := zrange start (Z.to_nat (stop - start)).

(* if self._numeric_binds and num_ins_params > 0 *)
Definition numeric_guard (numeric_binds : bool) (num_ins_params : Z) : bool := numeric_binds && (num_ins_params >? 0).
Definition numeric_start (lower : Z) : Z := lower + 1.
Definition numeric_end (num_ins_params cbs start : Z) : Z := num_ins_params * cbs + start.

Record layout := mkLayout {
  l_mask : list bool;      (* per position of positiontup: is the name one of the VALUES names *)
  l_num_ins : Z;           (* imv.num_positional_params_counted *)
  l_numeric : bool;        (* self._numeric_binds *)
  l_embed : bool           (* imv.embed_values_counter *)
}.

Record expanded := mkExpanded {
  e_params : list Z;       (* replaced_parameters *)
  e_groups : Z;            (* number of "(...)" groups rendered into the VALUES clause *)
  e_numbers : list Z;      (* numeric paramstyle: the numbers written into the VALUES placeholders, in order *)
  e_counters : list Z      (* the values substituted for _IMV_VALUES_COUNTER, one per group *)
}.

Definition expand_positional (ly : layout) (items : list ptuple) (cbs : Z) : result expanded :=
  match items with
  | [] => Raise IndexError
  | b0 :: _ =>
    let lo := lower_index (l_mask ly) in
    let hi := upper_index (l_mask ly) in
    let '(xl, xr, it) :=
      if l_num_ins ly =? Z.of_nat (length b0) then ([], [], items)
      else (firstn lo b0, skipn hi b0, map (slice lo hi) items) in
    let start := numeric_start (Z.of_nat lo) in
    Ok (mkExpanded
          (xl ++ concat it ++ xr)
          (if l_embed ly then Z.of_nat (length items) else cbs)
          (if numeric_guard (l_numeric ly) (l_num_ins ly)
           then py_range start (numeric_end (l_num_ins ly) cbs start) else [])
          (if l_embed ly then zrange 0 (length items) else []))
  end.

(* named paramstyle: replaced_parameters as (key index, None | Some i, value) *)
Definition select_mask {A} (want : bool) (mask : list bool) (l : list A) : list (nat * A) :=
  (fix go (j : nat) (mask : list bool) (l : list A) : list (nat * A) :=
     match mask, l with
     | m :: mt, x :: lt => if Bool.eqb m want then (j, x) :: go (S j) mt lt else go (S j) mt lt
     | _, _ => []
     end) O mask l.

Fixpoint named_updates (mask : list bool) (i : nat) (items : list ptuple) : list (nat * option nat * Z) :=
  match items with
  | [] => []
  | p :: r => map (fun jv => (fst jv, Some i, snd jv)) (select_mask true mask p)
              ++ named_updates mask (S i) r
  end.

(* mask: per key of parameters[0], is it in keys_to_replace *)
Definition expand_named (mask : list bool) (first : ptuple) (items : list ptuple)
  : list (nat * option nat * Z) :=
  map (fun jv => (fst jv, None, snd jv)) (select_mask false mask first) ++ named_updates mask O items.

(* named paramstyle: one rendered "(...)" group per enumerate(batch), the counter is the index *)
Definition named_groups (items : list ptuple) : Z := Z.of_nat (length items).
Definition named_counters (embed : bool) (items : list ptuple) : list Z :=
  if embed then zrange 0 (length items) else [].

(* ------------------------------------------------------------------------------------------ *)
(* 7. ORM bulk INSERT with an ORM-enabled insert() statement:
      orm/persistence.py _emit_insert_statements(.., use_orm_insert_stmt=stmt) - one executemany per
      run of consecutive records with the same key set, results spliced in the order of execution *)
Section Orm.
Context {A K R : Type}.
Variable key_eqb : K -> K -> bool.
Variable key : A -> K.      (* (connection, set(parameter keys), has value params, has_all_pks, has_all_defaults) *)

(* itertools.groupby(insert, key): maximal runs of consecutive records with equal keys *)
Fixpoint group_by (l : list A) : list (list A) :=
  match l with
  | [] => []
  | x :: r => match group_by r with
              | (y :: g) :: gs => if key_eqb (key x) (key y) then (x :: y :: g) :: gs
                                  else [x] :: (y :: g) :: gs
              | [] :: gs => [x] :: gs       (* (no group is ever empty) *)
              | [] => [[x]]
              end
  end.

(* return_result = None
   for each group: return_result = result if return_result is None
                                   else return_result.splice_vertically(result)
   None at the end = null_dml_result() *)
Definition splice_step (acc : option (list R)) (result : list R) : option (list R) :=
  match acc with None => Some result | Some rows => Some (rows ++ result) end.
Definition splice_results (results : list (list R)) : option (list R) := fold_left splice_step results None.

Variable exec_group : list A -> list R.   (* connection.execute(statement, multiparams).all() of one group *)
Definition orm_bulk_insert (records : list A) : option (list R) :=
  splice_results (map exec_group (group_by records)).
End Orm.
