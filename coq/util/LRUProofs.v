(* C54 - LRUCache: lookups return only what was stored, the size bound holds after every
   __setitem__ whose trim is not skipped, a trim keeps exactly the most recently used entries. *)
From Coq Require Import List ZArith Bool Lia Permutation Sorted.
Import ListNotations.
From SAV.util Require Import OrderedSet OrderedSetProofs LRU.
Open Scope Z_scope.

(* ---------- sorting by counter ---------- *)
Definition ge_c (a b : entry) : Prop := ec b <= ec a.
Lemma insert_desc_perm : forall x l, Permutation (insert_desc x l) (x :: l).
Proof.
  induction l as [|y r IH]; simpl; [apply Permutation_refl|].
  destruct (ec y <=? ec x); [apply Permutation_refl|].
  eapply Permutation_trans; [apply perm_skip, IH|apply perm_swap].
Qed.
Lemma sort_desc_perm : forall l, Permutation (sort_desc l) l.
Proof.
  induction l as [|x l IH]; simpl; [constructor|].
  eapply Permutation_trans; [apply insert_desc_perm|apply perm_skip, IH].
Qed.
Lemma insert_desc_sorted : forall x l, StronglySorted ge_c l -> StronglySorted ge_c (insert_desc x l).
Proof.
  induction l as [|y r IH]; intros H; simpl; [repeat constructor|].
  inversion H as [|? ? Hr Hy]; subst. destruct (ec y <=? ec x) eqn:E.
  - apply Z.leb_le in E. constructor; [exact H|]. constructor; [exact E|].
    rewrite Forall_forall in *. intros z Hz. specialize (Hy z Hz). unfold ge_c in *. lia.
  - apply Z.leb_gt in E. constructor; [apply IH, Hr|].
    rewrite Forall_forall in *. intros z Hz.
    apply (Permutation_in _ (insert_desc_perm x r)) in Hz. destruct Hz as [<-|Hz].
    + unfold ge_c. lia.
    + apply Hy, Hz.
Qed.
Lemma sort_desc_sorted : forall l, StronglySorted ge_c (sort_desc l).
Proof. induction l; simpl; [constructor|apply insert_desc_sorted; assumption]. Qed.
Lemma sorted_app : forall l1 l2, StronglySorted ge_c (l1 ++ l2) ->
  forall a b, In a l1 -> In b l2 -> ec b <= ec a.
Proof.
  induction l1 as [|x l1 IH]; intros l2 H a b Ha Hb; [destruct Ha|].
  simpl in H. inversion H as [|? ? Hr Hx]; subst. destruct Ha as [<-|Ha].
  - rewrite Forall_forall in Hx. apply (Hx b). apply in_or_app. right. exact Hb.
  - exact (IH l2 Hr a b Ha Hb).
Qed.

(* ---------- the trim ---------- *)
Lemma fold_del : forall victims d,
  fold_left (fun d item => del_key (ek item) d) victims d
  = filter (fun e => negb (memz (ek e) (map ek victims))) d.
Proof.
  induction victims as [|v r IH]; intros d; simpl.
  - symmetry. clear. induction d; simpl; congruence.
  - rewrite IH. unfold del_key. clear IH. induction d as [|e d IHd]; simpl; [reflexivity|].
    unfold memz at 2. simpl. fold (memz (ek e) (map ek r)).
    destruct (ek e =? ek v); simpl; [exact IHd|].
    destruct (memz (ek e) (map ek r)); simpl; rewrite IHd; reflexivity.
Qed.
Lemma NoDup_map_inj : forall (f : entry -> Z) l a b, NoDup (map f l) -> In a l -> In b l -> f a = f b -> a = b.
Proof.
  induction l as [|x l IH]; intros a b Hn Ha Hb E; [destruct Ha|]. simpl in Hn. inversion Hn; subst.
  destruct Ha as [<-|Ha], Hb as [<-|Hb]; auto.
  - exfalso. apply H1. rewrite E. apply in_map, Hb.
  - exfalso. apply H1. rewrite <- E. apply in_map, Ha.
Qed.
Lemma NoDup_of_map : forall (f : entry -> Z) l, NoDup (map f l) -> NoDup l.
Proof.
  induction l as [|x l IH]; intros H; [constructor|]. simpl in H. inversion H; subst.
  constructor; [intros Hi; apply H2, in_map, Hi|apply IH, H3].
Qed.
Lemma NoDup_map_filter : forall (f : entry -> Z) p l, NoDup (map f l) -> NoDup (map f (filter p l)).
Proof.
  induction l as [|x l IH]; intros H; simpl; [constructor|]. simpl in H. inversion H; subst.
  destruct (p x); simpl; [|apply IH, H3]. constructor; [|apply IH, H3].
  rewrite in_map_iff. intros [y [Ey Hy]]. apply filter_In in Hy. apply H2. rewrite <- Ey.
  apply in_map. tauto.
Qed.

Section Trim.
Variable c : lru.
Hypothesis Hkeys : NoDup (map ek (data c)).
Let n := Z.to_nat (cap c).
Let sl := sort_desc (data c).

Lemma trim_once_In : forall e, In e (trim_once c) <-> In e (firstn n sl).
Proof.
  intros e. unfold trim_once. fold sl. fold n. rewrite fold_del, filter_In, negb_true_iff, memz_false.
  pose proof (sort_desc_perm (data c)) as Hp. fold sl in Hp.
  assert (Hnd : NoDup sl) by (apply (Permutation_NoDup (Permutation_sym Hp)), (NoDup_of_map ek), Hkeys).
  rewrite <- (firstn_skipn n sl) in Hnd. split.
  - intros [Hd Hv]. apply (Permutation_in _ (Permutation_sym Hp)) in Hd.
    rewrite <- (firstn_skipn n sl) in Hd. apply in_app_or in Hd. destruct Hd as [Hd|Hd]; [exact Hd|].
    exfalso. apply Hv, in_map, Hd.
  - intros Hf. assert (Hd : In e (data c)).
    { apply (Permutation_in _ Hp). rewrite <- (firstn_skipn n sl). apply in_or_app. left. exact Hf. }
    split; [exact Hd|]. rewrite in_map_iff. intros [v [Ev Hv]].
    assert (Hvd : In v (data c)).
    { apply (Permutation_in _ Hp). rewrite <- (firstn_skipn n sl). apply in_or_app. right. exact Hv. }
    pose proof (NoDup_map_inj ek (data c) v e Hkeys Hvd Hd Ev) as ->.
    revert Hnd Hf Hv. generalize (firstn n sl) (skipn n sl). clear. intros l1 l2 Hnd H1 H2.
    induction l1 as [|x l1 IH]; [destruct H1|]. simpl in Hnd. inversion Hnd; subst.
    destruct H1 as [->|H1]; [apply H3, in_or_app; right; exact H2|exact (IH H4 H1)].
Qed.
Lemma trim_once_filter : exists p, trim_once c = filter p (data c).
Proof. unfold trim_once. rewrite fold_del. eexists. reflexivity. Qed.
Lemma trim_once_length : length (trim_once c) = Nat.min n (length (data c)).
Proof.
  pose proof (sort_desc_perm (data c)) as Hp. fold sl in Hp.
  assert (Hnd : NoDup sl) by (apply (Permutation_NoDup (Permutation_sym Hp)), (NoDup_of_map ek), Hkeys).
  assert (Hn1 : NoDup (trim_once c)).
  { destruct trim_once_filter as [p ->]. apply (NoDup_of_map ek), NoDup_map_filter, Hkeys. }
  assert (Hn2 : NoDup (firstn n sl)).
  { rewrite <- (firstn_skipn n sl) in Hnd. revert Hnd. generalize (firstn n sl) (skipn n sl). clear.
    induction l as [|x l IH]; intros l2 H; [constructor|]. simpl in H. inversion H; subst.
    constructor; [intros Hi; apply H2, in_or_app; left; exact Hi|exact (IH l2 H3)]. }
  rewrite <- (Permutation_length Hp), <- firstn_length.
  apply Nat.le_antisymm; apply NoDup_incl_length; try assumption; intros e He; apply trim_once_In, He.
Qed.
(* every survivor was used more recently than every victim *)
Lemma trim_once_recent : NoDup (map ec (data c)) ->
  forall s e, In s (trim_once c) -> In e (data c) -> ~ In e (trim_once c) -> ec e < ec s.
Proof.
  intros Hc s e Hs He Hne. pose proof (sort_desc_perm (data c)) as Hp. fold sl in Hp.
  apply trim_once_In in Hs. rewrite trim_once_In in Hne.
  assert (Hv : In e (skipn n sl)).
  { apply (Permutation_in _ (Permutation_sym Hp)) in He. rewrite <- (firstn_skipn n sl) in He.
    apply in_app_or in He. tauto. }
  pose proof (sort_desc_sorted (data c)) as Hso. fold sl in Hso. rewrite <- (firstn_skipn n sl) in Hso.
  pose proof (sorted_app _ _ Hso s e Hs Hv) as Hle.
  assert (ec e <> ec s); [|lia]. intros E.
  assert (Hsd : In s (data c)).
  { apply (Permutation_in _ Hp). rewrite <- (firstn_skipn n sl). apply in_or_app. left. exact Hs. }
  pose proof (NoDup_map_inj ec (data c) e s Hc He Hsd E). subst. tauto.
Qed.
End Trim.

(* ---------- _manage_size terminates and re-establishes the bound ---------- *)
Lemma over_false_within : forall c, over c = false <-> within c.
Proof. intros. unfold over, within. rewrite Z.ltb_ge. tauto. Qed.
Lemma trimmed_within : forall c, wf c -> NoDup (map ek (data c)) ->
  within (with_data c (trim_once c) (counter c)).
Proof.
  intros c [H1 [H2 H3]] Hk. unfold within. simpl. rewrite (trim_once_length c Hk).
  assert (Z.of_nat (Nat.min (Z.to_nat (cap c)) (length (data c))) <= cap c) by lia. nia.
Qed.
Lemma manage_spec : forall c al, wf c -> NoDup (map ek (data c)) ->
  manage 2 c al false =
    if over c then Some (with_data c (trim_once c) (counter c), al) else Some (c, false).
Proof.
  intros c al Hw Hk. simpl. destruct (over c) eqn:E; [|reflexivity].
  pose proof (trimmed_within c Hw Hk) as Hin. apply over_false_within in Hin. rewrite Hin. reflexivity.
Qed.

(* ---------- the dict primitives ---------- *)
Lemma find_In : forall k d e, find k d = Some e -> In e d /\ ek e = k.
Proof.
  induction d as [|x r IH]; intros e H; simpl in H; [discriminate|].
  destruct (ek x =? k) eqn:E.
  - inversion H; subst. apply Z.eqb_eq in E. simpl. tauto.
  - destruct (IH e H). simpl. tauto.
Qed.
Lemma find_None : forall k d, find k d = None -> forall e, In e d -> ek e <> k.
Proof.
  induction d as [|x r IH]; intros H e He; [destruct He|]. simpl in H.
  destruct (ek x =? k) eqn:E; [discriminate|]. apply Z.eqb_neq in E.
  destruct He as [<-|He]; [exact E|exact (IH H e He)].
Qed.
Lemma In_store : forall e d y, NoDup (map ek d) -> In y (store e d) ->
  y = e \/ (In y d /\ ek y <> ek e).
Proof.
  induction d as [|x r IH]; intros y Hn Hy; simpl in *; [destruct Hy as [<-|[]]; tauto|]. inversion Hn; subst.
  destruct (ek x =? ek e) eqn:E.
  - apply Z.eqb_eq in E. destruct Hy as [<-|Hy]; [tauto|]. right. split; [tauto|].
    intros E2. apply H1. rewrite E, <- E2. apply in_map, Hy.
  - apply Z.eqb_neq in E. destruct Hy as [<-|Hy]; [tauto|]. destruct (IH y H2 Hy); tauto.
Qed.
Lemma store_In_new : forall e d, In e (store e d).
Proof. induction d as [|x r IH]; simpl; [tauto|]. destruct (ek x =? ek e); simpl; tauto. Qed.
Lemma store_keys : forall e d, map ek (store e d) = r_add (map ek d) (ek e).
Proof.
  induction d as [|x r IH]; [reflexivity|]. simpl. unfold r_add, memz. simpl.
  rewrite (Z.eqb_sym (ek e) (ek x)). destruct (ek x =? ek e) eqn:E; simpl.
  - apply Z.eqb_eq in E. rewrite E. reflexivity.
  - rewrite IH. unfold r_add, memz. destruct (existsb (Z.eqb (ek e)) (map ek r)); reflexivity.
Qed.
Lemma store_length_le : forall e d, (length (store e d) <= S (length d))%nat.
Proof. induction d as [|x r IH]; simpl; [lia|]. destruct (ek x =? ek e); simpl; lia. Qed.

Lemma In_store_weak : forall e d y, In y (store e d) -> y = e \/ In y d.
Proof.
  induction d as [|z r IH]; intros y Hy; simpl in *; [destruct Hy as [<-|[]]; tauto|].
  destruct (ek z =? ek e); simpl in *; [destruct Hy as [<-|Hy]; tauto|].
  destruct Hy as [<-|Hy]; [tauto|]. destruct (IH y Hy); tauto.
Qed.
Lemma store_counters : forall k v n d, NoDup (map ec d) -> (forall e, In e d -> ec e <= n) ->
  NoDup (map ec (store (mke k v (n + 1)) d)).
Proof.
  intros k v n. induction d as [|x r IH]; intros H2 H3; simpl; [repeat constructor; simpl; tauto|].
  simpl in H2. inversion H2; subst.
  assert (Hr : forall y, In y r -> ec y <= n) by (intros; apply H3; right; assumption).
  destruct (ek x =? k); simpl.
  - constructor; [|assumption]. rewrite in_map_iff. intros [y [Ey Hy]]. specialize (Hr y Hy). lia.
  - constructor; [|apply IH; assumption]. rewrite in_map_iff. intros [y [Ey Hy]].
    destruct (In_store_weak _ _ _ Hy) as [->|Hy'].
    + simpl in Ey. specialize (H3 x (or_introl eq_refl)). lia.
    + apply H1. rewrite <- Ey. apply in_map, Hy'.
Qed.
Lemma store_cinv : forall c k v, cinv c ->
  cinv (with_data c (store (mke k v (counter c + 1)) (data c)) (counter c + 1)).
Proof.
  intros c k v [H1 [H2 H3]]. set (e := mke k v (counter c + 1)). unfold cinv. simpl.
  assert (Hin : forall y, In y (store e (data c)) -> y = e \/ In y (data c) /\ ek y <> ek e)
    by (intros y; apply In_store, H1).
  split; [rewrite store_keys; exact (rstep_NoDup _ (OAdd (ek e)) H1)|]. split.
  - apply store_counters; assumption.
  - intros y Hy. destruct (Hin y Hy) as [->|[Hd _]]; [simpl; lia|]. specialize (H3 y Hd). lia.
Qed.
Lemma filter_cinv : forall c p, cinv c -> cinv (with_data c (filter p (data c)) (counter c)).
Proof.
  intros c p [H1 [H2 H3]]. unfold cinv. simpl. split; [apply NoDup_map_filter, H1|].
  split; [apply NoDup_map_filter, H2|]. intros e He. apply filter_In in He. apply H3. tauto.
Qed.

Lemma set_state : forall c k v locked, wf c -> cinv c ->
  let c1 := with_data c (store (mke k v (counter c + 1)) (data c)) (counter c + 1) in
  lstep c (LSet k v locked) =
    if locked then (c1, WSet false)
    else if over c1 then (with_data c1 (trim_once c1) (counter c1), WSet (alert c))
    else (c1, WSet false).
Proof.
  intros c k v locked Hw Hc c1. cbn [lstep]. fold c1. destruct locked; [reflexivity|].
  pose proof (store_cinv c k v Hc) as [Hk _]. fold c1 in Hk.
  rewrite (manage_spec c1 (alert c1) Hw Hk). destruct (over c1); reflexivity.
Qed.

Definition same_params (c c' : lru) : Prop :=
  cap c' = cap c /\ tnum c' = tnum c /\ tden c' = tden c /\ alert c' = alert c.
Lemma manage_params : forall fuel c al f c' fired,
  manage fuel c al f = Some (c', fired) -> same_params c c'.
Proof.
  induction fuel as [|fuel IH]; intros c al f c' fired H; simpl in H.
  - destruct (over c); [discriminate|]. inversion H; subst. repeat split.
  - destruct (over c); [|inversion H; subst; repeat split].
    destruct (IH _ _ _ _ _ H) as [? [? [? ?]]]. simpl in *. repeat split; assumption.
Qed.
Lemma lstep_params : forall c op, same_params c (fst (lstep c op)).
Proof.
  intros c op. destruct op; cbn [lstep];
    try (destruct (find k (data c)); simpl; repeat split; fail); try (repeat split; fail).
  destruct locked; [repeat split|].
  destruct (manage 2 _ _ false) as [[c2 fired]|] eqn:E; [|repeat split].
  exact (manage_params _ _ _ _ _ _ E).
Qed.
Lemma lstep_wf : forall c op, wf c -> wf (fst (lstep c op)).
Proof.
  intros c op H. destruct (lstep_params c op) as [H1 [H2 [H3 _]]]. unfold wf. rewrite H1, H2, H3. exact H.
Qed.
Lemma lstep_cinv : forall c op, wf c -> cinv c -> cinv (fst (lstep c op)).
Proof.
  intros c op Hw Hc. destruct op.
  - rewrite (set_state c k v locked Hw Hc). pose proof (store_cinv c k v Hc) as H1.
    destruct locked; simpl; [exact H1|]. destruct (over _); simpl; [|exact H1].
    destruct (trim_once_filter (with_data c (store (mke k v (counter c + 1)) (data c)) (counter c + 1)))
      as [p ->]. apply (filter_cinv _ p H1).
  - cbn [lstep]. destruct (find k (data c)) as [e|]; simpl; [apply store_cinv, Hc|exact Hc].
  - cbn [lstep]. destruct (find k (data c)) as [e|]; simpl; [apply store_cinv, Hc|exact Hc].
  - cbn [lstep]. destruct (find k (data c)) as [e|]; simpl; [apply store_cinv, Hc|exact Hc].
  - cbn [lstep]. destruct (find k (data c)) as [e|]; simpl; [apply filter_cinv, Hc|exact Hc].
  - exact Hc.
Qed.

(* ---------- size bound ---------- *)
Theorem set_within : forall c k v, wf c -> cinv c -> within (fst (lstep c (LSet k v false))).
Proof.
  intros c k v Hw Hc. rewrite (set_state c k v false Hw Hc). cbv zeta.
  set (c1 := with_data c _ _). destruct (over c1) eqn:E; simpl.
  - apply (trimmed_within c1 Hw). apply (store_cinv c k v Hc).
  - apply over_false_within, E.
Qed.
Lemma filter_length_le' : forall (p : entry -> bool) l, (length (filter p l) <= length l)%nat.
Proof. induction l; simpl; [lia|]. destruct (p a); simpl; lia. Qed.
Lemma store_same_length : forall e d x, find (ek e) d = Some x -> length (store e d) = length d.
Proof.
  induction d as [|y r IH]; intros x H; simpl in *; [discriminate|].
  destruct (ek y =? ek e); simpl; [reflexivity|]. f_equal. exact (IH x H).
Qed.
Lemma lstep_within : forall c op, wf c -> cinv c -> unlocked op = true -> within c ->
  within (fst (lstep c op)).
Proof.
  intros c op Hw Hc Hu Hin. destruct op.
  - destruct locked; [discriminate|]. apply set_within; assumption.
  - cbn [lstep]. destruct (find k (data c)) as [e|] eqn:E; simpl; [|exact Hin].
    unfold within in *. simpl. destruct (find_In _ _ _ E) as [_ Ek].
    rewrite (store_same_length (mke (ek e) (ev e) (counter c + 1)) (data c) e); [exact Hin|].
    simpl. rewrite Ek. exact E.
  - cbn [lstep]. destruct (find k (data c)) as [e|] eqn:E; simpl; [|exact Hin].
    unfold within in *. simpl. destruct (find_In _ _ _ E) as [_ Ek].
    rewrite (store_same_length (mke (ek e) (ev e) (counter c + 1)) (data c) e); [exact Hin|].
    simpl. rewrite Ek. exact E.
  - cbn [lstep]. destruct (find k (data c)) as [e|] eqn:E; simpl; [|exact Hin].
    unfold within in *. simpl. destruct (find_In _ _ _ E) as [_ Ek].
    rewrite (store_same_length (mke (ek e) (ev e) (counter c + 1)) (data c) e); [exact Hin|].
    simpl. rewrite Ek. exact E.
  - cbn [lstep]. destruct (find k (data c)) as [e|] eqn:E; simpl; [|exact Hin].
    unfold within in *. simpl. unfold del_key.
    pose proof (filter_length_le' (fun e0 => negb (ek e0 =? k)) (data c)). destruct Hw as [? [? ?]]. nia.
  - exact Hin.
Qed.

(* all reachable states: from a state satisfying the invariants, along any history *)
Theorem lrun_inv : forall ops c, wf c -> cinv c ->
  wf (fst (lrun c ops)) /\ cinv (fst (lrun c ops)).
Proof.
  induction ops as [|op ops IH]; intros c Hw Hc; simpl; [tauto|].
  pose proof (lstep_wf c op Hw). pose proof (lstep_cinv c op Hw Hc).
  destruct (lstep c op) as [c1 o]. simpl in *. specialize (IH c1 H H0).
  destruct (lrun c1 ops). exact IH.
Qed.
Theorem lrun_within : forall ops c, wf c -> cinv c -> within c -> forallb unlocked ops = true ->
  within (fst (lrun c ops)).
Proof.
  induction ops as [|op ops IH]; intros c Hw Hc Hin Hu; simpl; [exact Hin|]. simpl in Hu.
  apply andb_true_iff in Hu. destruct Hu as [Hu1 Hu2].
  pose proof (lstep_wf c op Hw). pose proof (lstep_cinv c op Hw Hc).
  pose proof (lstep_within c op Hw Hc Hu1 Hin).
  destruct (lstep c op) as [c1 o]. simpl in *. specialize (IH c1 H H0 H1 Hu2).
  destruct (lrun c1 ops). exact IH.
Qed.
(* the while loop always terminates *)
Theorem lstep_no_loop : forall c op, wf c -> cinv c -> snd (lstep c op) <> WLoop.
Proof.
  intros c op Hw Hc. destruct op; try (cbn [lstep]; destruct (find k (data c)); discriminate);
    try discriminate.
  rewrite (set_state c k v locked Hw Hc). destruct locked; [discriminate|].
  destruct (over _); discriminate.
Qed.

(* ---------- lookups return only stored values ---------- *)
Lemma last_set_app : forall k a b acc, last_set k (a ++ b) acc = last_set k b (last_set k a acc).
Proof.
  induction a as [|op a IH]; intros b acc; simpl; [reflexivity|]. destruct op; apply IH.
Qed.
Definition stored_inv (h : list lop) (c : lru) : Prop :=
  forall e, In e (data c) -> last_set (ek e) h None = Some (ev e).

Lemma touch_stored : forall h c k e op, cinv c -> stored_inv h c -> find k (data c) = Some e ->
  (forall k' acc, last_set k' [op] acc = acc) ->
  stored_inv (h ++ [op]) (touch c e).
Proof.
  intros h c k e op [Hk _] Hs Hf Hop y Hy. rewrite last_set_app, Hop. simpl in Hy.
  destruct (find_In _ _ _ Hf) as [He _].
  destruct (In_store _ _ _ Hk Hy) as [->|[Hd _]]; [simpl; apply Hs, He|apply Hs, Hd].
Qed.
Lemma lstep_stored : forall h c op, wf c -> cinv c -> stored_inv h c ->
  stored_inv (h ++ [op]) (fst (lstep c op)).
Proof.
  intros h c op Hw Hc Hs. pose proof Hc as [Hk _]. destruct op.
  - assert (Hst : forall y, In y (store (mke k v (counter c + 1)) (data c)) ->
                  last_set (ek y) (h ++ [LSet k v locked]) None = Some (ev y)).
    { intros y Hy. rewrite last_set_app. simpl.
      destruct (In_store _ _ _ Hk Hy) as [->|[Hd Hne]]; simpl in *.
      - rewrite Z.eqb_refl. reflexivity.
      - replace (k =? ek y) with false by (symmetry; apply Z.eqb_neq; congruence). apply Hs, Hd. }
    rewrite (set_state c k v locked Hw Hc). cbv zeta. destruct locked; [exact Hst|].
    destruct (over _); [|exact Hst]. intros y Hy. simpl in Hy.
    destruct (trim_once_filter (with_data c (store (mke k v (counter c + 1)) (data c)) (counter c + 1)))
      as [p Hp]. rewrite Hp in Hy. apply filter_In in Hy. apply Hst. tauto.
  - cbn [lstep]. destruct (find k (data c)) as [e|] eqn:E; simpl.
    + apply (touch_stored h c k e); auto.
    + intros y Hy. rewrite last_set_app. simpl. apply Hs, Hy.
  - cbn [lstep]. destruct (find k (data c)) as [e|] eqn:E; simpl.
    + apply (touch_stored h c k e); auto.
    + intros y Hy. rewrite last_set_app. simpl. apply Hs, Hy.
  - cbn [lstep]. destruct (find k (data c)) as [e|] eqn:E; simpl.
    + apply (touch_stored h c k e); auto.
    + intros y Hy. rewrite last_set_app. simpl. apply Hs, Hy.
  - cbn [lstep]. destruct (find k (data c)) as [e|] eqn:E; simpl.
    + intros y Hy. simpl in Hy. unfold del_key in Hy. apply filter_In in Hy. destruct Hy as [Hd Hne].
      apply negb_true_iff, Z.eqb_neq in Hne. rewrite last_set_app. simpl.
      replace (k =? ek y) with false by (symmetry; apply Z.eqb_neq; congruence). apply Hs, Hd.
    + intros y Hy. rewrite last_set_app. simpl. pose proof (find_None _ _ E y Hy) as Hne.
      replace (k =? ek y) with false by (symmetry; apply Z.eqb_neq; congruence). apply Hs, Hy.
  - intros y Hy. rewrite last_set_app. simpl. apply Hs, Hy.
Qed.
Lemma lrun_stored : forall ops h c, wf c -> cinv c -> stored_inv h c ->
  stored_inv (h ++ ops) (fst (lrun c ops)).
Proof.
  induction ops as [|op ops IH]; intros h c Hw Hc Hs; simpl; [rewrite app_nil_r; exact Hs|].
  pose proof (lstep_wf c op Hw). pose proof (lstep_cinv c op Hw Hc).
  pose proof (lstep_stored h c op Hw Hc Hs).
  destruct (lstep c op) as [c1 o]. simpl in *. specialize (IH (h ++ [op]) c1 H H0 H1).
  rewrite <- app_assoc in IH. simpl in IH. destruct (lrun c1 ops). exact IH.
Qed.

Definition empty_cache (c : lru) : Prop := data c = [] /\ 0 <= counter c.
Lemma empty_cinv : forall c, empty_cache c -> cinv c.
Proof. intros c [H _]. unfold cinv. rewrite H. simpl. repeat split; try constructor. intros e []. Qed.

(* after ANY history on an initially empty cache: get / [] / in answer from what was stored *)
Theorem lookup_only_stored : forall c0 ops k, wf c0 -> empty_cache c0 ->
  let c := fst (lrun c0 ops) in
  (forall dflt v, snd (lstep c (LGet k dflt)) = WVal v -> v = dflt \/ last_set k ops None = Some v) /\
  (forall v, snd (lstep c (LGetitem k)) = WVal v -> last_set k ops None = Some v) /\
  (snd (lstep c (LGetitem k)) = WExc KeyError \/ exists v, snd (lstep c (LGetitem k)) = WVal v).
Proof.
  intros c0 ops k Hw He c.
  assert (Hs : stored_inv ops c).
  { apply (lrun_stored ops [] c0 Hw (empty_cinv c0 He)). intros e Hin. destruct He as [Hd _].
    rewrite Hd in Hin. destruct Hin. }
  cbn [lstep]. destruct (find k (data c)) as [e|] eqn:E; simpl.
  - destruct (find_In _ _ _ E) as [Hin Hk]. pose proof (Hs e Hin) as H. rewrite Hk in H.
    split; [intros dflt v Hv; inversion Hv; subst; right; exact H|].
    split; [intros v Hv; inversion Hv; subst; exact H|right; exists (ev e); reflexivity].
  - split; [intros dflt v Hv; inversion Hv; left; reflexivity|]. split; [discriminate|left; reflexivity].
Qed.

(* ---------- recency ---------- *)
(* a use (get / [] / in / store) gives the entry the strictly largest counter *)
Theorem use_is_most_recent : forall c k v, cinv c ->
  let c' := with_data c (store (mke k v (counter c + 1)) (data c)) (counter c + 1) in
  In (mke k v (counter c' )) (data c') /\
  forall y, In y (data c') -> y <> mke k v (counter c') -> ec y < counter c'.
Proof.
  intros c k v [Hk [_ Hc]] c'. simpl. split; [apply store_In_new|].
  intros y Hy Hne. destruct (In_store _ _ _ Hk Hy) as [->|[Hd _]]; [congruence|]. specialize (Hc y Hd). lia.
Qed.
(* a trim keeps exactly [capacity] entries: the ones used most recently, in their dict order *)
Theorem trim_keeps_most_recent : forall c, wf c -> cinv c -> over c = true ->
  let d' := trim_once c in
  length d' = Z.to_nat (cap c) /\
  (exists p, d' = filter p (data c)) /\
  (forall s e, In s d' -> In e (data c) -> ~ In e d' -> ec e < ec s).
Proof.
  intros c [H1 [H2 H3]] [Hk [Hc _]] Ho d'. split; [|split].
  - unfold d'. rewrite (trim_once_length c Hk). unfold over in Ho. apply Z.ltb_lt in Ho.
    apply Nat.min_l. nia.
  - apply trim_once_filter.
  - apply (trim_once_recent c Hk Hc).
Qed.

(* ---------- statements over whole histories from an empty cache ---------- *)
Lemma empty_within : forall c, wf c -> empty_cache c -> within c.
Proof. intros c [H1 [H2 H3]] [Hd _]. unfold within. rewrite Hd. simpl. nia. Qed.
Theorem history_bound : forall c0 ops, wf c0 -> empty_cache c0 -> forallb unlocked ops = true ->
  within (fst (lrun c0 ops)).
Proof.
  intros c0 ops Hw He Hu. apply lrun_within; auto using empty_cinv, empty_within.
Qed.
(* ... and whatever happened before (including skipped trims), an unskipped __setitem__ restores it *)
Theorem set_bound_after_any_history : forall c0 ops k v, wf c0 -> empty_cache c0 ->
  within (fst (lstep (fst (lrun c0 ops)) (LSet k v false))).
Proof.
  intros c0 ops k v Hw He. destruct (lrun_inv ops c0 Hw (empty_cinv c0 He)) as [H1 H2].
  apply set_within; assumption.
Qed.
Theorem set_trims : forall c k v, wf c -> cinv c ->
  let c1 := with_data c (store (mke k v (counter c + 1)) (data c)) (counter c + 1) in
  cinv c1 /\
  (over c1 = true -> data (fst (lstep c (LSet k v false))) = trim_once c1) /\
  (over c1 = false -> fst (lstep c (LSet k v false)) = c1).
Proof.
  intros c k v Hw Hc c1. split; [apply store_cinv, Hc|].
  rewrite (set_state c k v false Hw Hc). fold c1. cbv zeta.
  split; intros Ho; rewrite Ho; reflexivity.
Qed.
