From Coq Require Import List NArith Bool Lia Arith.
Import ListNotations.
From SAV.util Require Import Topo TopoProofs Cycles CyclesSound.

Section Complete.
Variable ts : list edge.
Variable ord : node -> list node.
Hypothesis ord_spec : forall a b, In b (ord a) <-> In (a, b) ts.
Variable starts : list node.
Hypothesis starts_spec : forall a, In a starts <-> exists b, In (a, b) ts.

Notation reach := (reach ts).
Notation req := (req ts).
Notation on_cycle := (on_cycle ts).

Lemma In_minus x l c : In x (minus l c) <-> In x l /\ ~ In x c.
Proof. unfold minus. rewrite filter_In, negb_true_iff, memb_false. tauto. Qed.

Lemma upto_has n st : In n st -> In n (upto n st).
Proof. induction st as [|y r IH]; simpl; [tauto|]. destruct (N.eqb y n) eqn:E.
  - apply N.eqb_eq in E. subst. intros _. left; reflexivity.
  - intros [->|H]; [rewrite N.eqb_refl in E; discriminate|right; auto]. Qed.

(* ---- facts about one run of the inner for-loop ---- *)
Lemma scan_mono st : forall cs todo out res todo' out',
  scan cs st todo out = (res, todo', out') -> incl todo' todo /\ incl out out'.
Proof.
  induction cs as [|n cs IH]; intros todo out res todo' out' H; cbn [scan] in H.
  - inversion H; subst. split; apply incl_refl.
  - set (cyc := if memb n st then upto n st else []) in *.
    destruct (memb n (minus todo cyc)) eqn:M.
    + inversion H; subst. split.
      * intros x Hx. apply In_minus in Hx. destruct Hx as [Hx _]. apply In_minus in Hx. tauto.
      * intros x Hx. apply in_or_app. right. exact Hx.
    + destruct (IH _ _ _ _ _ H) as [H1 H2]. split.
      * intros x Hx. apply H1 in Hx. apply In_minus in Hx. tauto.
      * intros x Hx. apply H2. apply in_or_app. right. exact Hx. Qed.

Lemma scan_some st : forall cs todo out n todo' out',
  scan cs st todo out = (Some n, todo', out') -> In n cs /\ In n todo /\ ~ In n todo'.
Proof.
  induction cs as [|c cs IH]; intros todo out n todo' out' H; cbn [scan] in H; [inversion H|].
  set (cyc := if memb c st then upto c st else []) in *.
  destruct (memb c (minus todo cyc)) eqn:M.
  - inversion H; subst. apply memb_In in M. apply In_minus in M. split; [left; reflexivity|]. split; [tauto|].
    intros Hx. apply In_minus in Hx. destruct Hx as [_ Hx]. apply Hx. left; reflexivity.
  - destruct (IH _ _ _ _ _ H) as [H1 [H2 H3]]. split; [right; exact H1|]. split; [|exact H3].
    apply In_minus in H2. tauto. Qed.

Lemma scan_none st : forall cs todo out todo' out',
  scan cs st todo out = (None, todo', out') ->
  forall c, In c cs -> ~ In c todo' /\ (In c st -> In c out').
Proof.
  induction cs as [|n cs IH]; intros todo out todo' out' H c Hc; [destruct Hc|]. cbn [scan] in H.
  set (cyc := if memb n st then upto n st else []) in *.
  destruct (memb n (minus todo cyc)) eqn:M; [inversion H|].
  destruct (scan_mono st _ _ _ _ _ _ H) as [Hm1 Hm2].
  destruct Hc as [->|Hc]; [|eapply IH; eassumption].
  split.
  - intros Hin. apply Hm1 in Hin. apply memb_false in M. contradiction.
  - intros Hst. apply Hm2. apply in_or_app. left. unfold cyc.
    assert (memb c st = true) by (apply memb_In; exact Hst). rewrite H0. apply upto_has. exact Hst. Qed.

Lemma upto_incl' n st x : In x (upto n st) -> In x st.
Proof. induction st as [|y r IH]; simpl; [tauto|]. destruct (N.eqb y n); simpl; intros [->|H]; auto. destruct H. Qed.

(* todo only ever loses stack members and the pushed child *)
Lemma scan_keeps st : forall cs todo out res todo' out',
  scan cs st todo out = (res, todo', out') ->
  forall x, In x todo -> ~ In x st -> res <> Some x -> In x todo'.
Proof.
  induction cs as [|n cs IH]; intros todo out res todo' out' H x Hx Hst Hres; cbn [scan] in H.
  - inversion H; subst. exact Hx.
  - set (cyc := if memb n st then upto n st else []) in *.
    assert (Hx1 : In x (minus todo cyc)).
    { apply In_minus. split; [exact Hx|]. intros Hc. apply Hst. unfold cyc in Hc.
      destruct (memb n st); [eapply upto_incl'; exact Hc|destruct Hc]. }
    destruct (memb n (minus todo cyc)) eqn:M.
    + inversion H; subst. apply In_minus. split; [exact Hx1|]. intros [->|[]]. apply Hres. reflexivity.
    + eapply IH; eassumption. Qed.

(* ---- the invariant for the DFS started at v ---- *)
Variable v : node.

Definition finished_ok (st todo out : list node) : Prop :=
  forall x, In x starts -> ~ In x todo -> ~ In x st ->
    (forall y, In (x, y) ts -> In y starts -> ~ In y todo) /\ (In (x, v) ts -> In v out).

Definition Inv (st todo out : list node) : Prop :=
  (st <> [] -> last st v = v /\ In v st) /\
  (forall x, In x st -> ~ In x todo) /\
  ~ In v todo /\
  finished_ok st todo out.

Lemma last_cons_ne (x : node) l d : l <> [] -> last (x :: l) d = last l d.
Proof. destruct l; [congruence|reflexivity]. Qed.

Theorem dfs_inv : forall fuel st todo out todo' out', Inv st todo out ->
  dfs ord fuel st todo out = Some (todo', out') -> Inv [] todo' out' /\ incl out out'.
Proof.
  induction fuel as [|f IH]; intros st todo out todo' out' HI H.
  - destruct st; simpl in H; [inversion H; subst; split; [exact HI|apply incl_refl]|discriminate].
  - destruct st as [|top r]; [simpl in H; inversion H; subst; split; [exact HI|apply incl_refl]|].
    cbn [dfs] in H. destruct (scan (ord top) (top :: r) todo out) as [[res t1] o1] eqn:S.
    destruct HI as [Ha [Hb [Hv Hf]]]. destruct (Ha ltac:(discriminate)) as [Hlast Hvin].
    destruct (scan_mono _ _ _ _ _ _ _ S) as [Hm1 Hm2].
    destruct res as [n|].
    + (* push n *)
      destruct (scan_some _ _ _ _ _ _ _ S) as [Hn1 [Hn2 Hn3]].
      assert (HI' : Inv (n :: top :: r) t1 o1).
      { split; [intros _; split; [rewrite last_cons_ne by discriminate; exact Hlast|right; exact Hvin]|].
        split; [intros x [->|Hx]; [exact Hn3|intros Hc; apply Hm1 in Hc; exact (Hb x Hx Hc)]|].
        split; [intros Hc; apply Hm1 in Hc; contradiction|].
        intros x Hxs Hxt Hxst.
        assert (Hxn : x <> n) by (intros ->; apply Hxst; left; reflexivity).
        assert (Hxst0 : ~ In x (top :: r)) by (intros Hc; apply Hxst; right; exact Hc).
        assert (Hxt0 : ~ In x todo).
        { intros Hc. apply Hxt. eapply scan_keeps; [exact S|exact Hc|exact Hxst0|]. intros E. inversion E. congruence. }
        destruct (Hf x Hxs Hxt0 Hxst0) as [F1 F2]. split.
        - intros y Hy Hys Hc. apply Hm1 in Hc. exact (F1 y Hy Hys Hc).
        - intros He. apply Hm2. exact (F2 He). }
      destruct (IH _ _ _ _ _ HI' H) as [R1 R2]. split; [exact R1|]. intros x Hx. apply R2, Hm2, Hx.
    + (* pop top : top becomes finished *)
      pose proof (scan_none _ _ _ _ _ _ S) as Hnone.
      assert (HI' : Inv r t1 o1).
      { split.
        { intros Hr. destruct r as [|a r']; [congruence|]. rewrite last_cons_ne in Hlast by discriminate.
          split; [exact Hlast|].
          (* v is the last element of a :: r', hence a member *)
          clear -Hlast. revert a Hlast. induction r' as [|b r'' IHr]; intros a Hl; simpl in *; [left; exact Hl|].
          right. apply IHr. exact Hl. }
        split; [intros x Hx Hc; apply Hm1 in Hc; exact (Hb x (or_intror Hx) Hc)|].
        split; [intros Hc; apply Hm1 in Hc; contradiction|].
        intros x Hxs Hxt Hxst.
        destruct (N.eq_dec x top) as [->|Hne].
        - (* the node just popped *)
          split.
          + intros y Hy Hys. apply (Hnone y). apply ord_spec. exact Hy.
          + intros He. apply (Hnone v); [apply ord_spec; exact He|exact Hvin].
        - assert (Hxst0 : ~ In x (top :: r)) by (intros [E|Hc]; [congruence|contradiction]).
          assert (Hxt0 : ~ In x todo).
          { intros Hc. apply Hxt. eapply scan_keeps; [exact S|exact Hc|exact Hxst0|discriminate]. }
          destruct (Hf x Hxs Hxt0 Hxst0) as [F1 F2]. split.
          + intros y Hy Hys Hc. apply Hm1 in Hc. exact (F1 y Hy Hys Hc).
          + intros He. apply Hm2. exact (F2 He). }
      destruct (IH _ _ _ _ _ HI' H) as [R1 R2]. split; [exact R1|]. intros x Hx. apply R2, Hm2, Hx.
Qed.

(* after the DFS from v, if v lies on a cycle it has been recorded *)
Lemma reach_last a b : reach a b -> exists x, req a x /\ In (x, b) ts.
Proof. induction 1 as [a b He|a b c He Hr [x [Hx1 Hx2]]].
  - exists a. split; [left; reflexivity|exact He].
  - exists x. split; [|exact Hx2]. right. destruct Hx1 as [<-|Hx1]; [apply r1; exact He|eapply rS; eassumption]. Qed.

Lemma final_closed todo out : Inv [] todo out ->
  forall a b, reach a b -> In a starts -> ~ In a todo -> In b starts -> ~ In b todo.
Proof.
  intros [_ [_ [_ Hf]]]. induction 1 as [a b He|a b c He Hr IHr]; intros Ha Hat Hb.
  - exact (proj1 (Hf a Ha Hat (fun x => x)) b He Hb).
  - assert (Hbs : In b starts). { apply starts_spec. inversion Hr; subst; eauto. }
    apply IHr; [exact Hbs| |exact Hb]. exact (proj1 (Hf a Ha Hat (fun x => x)) b He Hbs). Qed.

Theorem dfs_complete : forall fuel todo0 out0 todo out,
  In v starts -> ~ In v todo0 ->
  (forall x, In x starts -> x <> v -> In x todo0) ->
  dfs ord fuel [v] todo0 out0 = Some (todo, out) ->
  incl out0 out /\ (on_cycle v -> In v out).
Proof.
  intros fuel todo0 out0 todo out Hvs Hvt Hall H.
  assert (HI : Inv [v] todo0 out0).
  { split; [intros _; split; [reflexivity|left; reflexivity]|].
    split; [intros x [->|[]]; exact Hvt|]. split; [exact Hvt|].
    intros x Hxs Hxt Hxst. exfalso. apply Hxt. apply Hall; [exact Hxs|]. intros ->. apply Hxst. left; reflexivity. }
  destruct (dfs_inv _ _ _ _ _ _ HI H) as [HF Hinc]. split; [exact Hinc|].
  intros Hcyc. destruct (reach_last _ _ Hcyc) as [x [Hx1 Hx2]].
  pose proof HF as [_ [_ [Hvt' Hf]]].
  assert (Hxs : In x starts) by (apply starts_spec; eauto).
  assert (Hxt : ~ In x todo).
  { destruct Hx1 as [<-|Hx1]; [exact Hvt'|]. eapply final_closed; [exact HF|exact Hx1|exact Hvs|exact Hvt'|exact Hxs]. }
  exact (proj2 (Hf x Hxs Hxt (fun z => z)) Hx2).
Qed.
End Complete.
