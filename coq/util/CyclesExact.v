From Coq Require Import List NArith Bool Lia Arith.
Import ListNotations.
From SAV.util Require Import Topo TopoProofs Cycles CyclesSound CyclesComplete.

Section Exact.
Variable ts : list edge.
Variable ord : node -> list node.
Hypothesis ord_spec : forall a b, In b (ord a) <-> In (a, b) ts.
Variable starts : list node.
Hypothesis starts_spec : forall a, In a starts <-> exists b, In (a, b) ts.

Lemma minus_len l c : length (minus l c) <= length l.
Proof. unfold minus. induction l as [|a l IH]; simpl; [lia|]. destruct (negb (memb a c)); simpl; lia. Qed.

Lemma minus_len_lt l n : In n l -> length (minus l [n]) < length l.
Proof. unfold minus. induction l as [|a l IH]; [intros []|]. intros Hin.
  cbn [filter]. destruct (memb a [n]) eqn:M; cbn [negb length].
  - pose proof (minus_len l [n]) as HL. unfold minus in HL. lia.
  - destruct Hin as [->|Hin].
    + exfalso. apply memb_false in M. apply M. left; reflexivity.
    + specialize (IH Hin). lia. Qed.

Lemma scan_len st : forall cs todo out res todo' out',
  scan cs st todo out = (res, todo', out') ->
  length todo' <= length todo /\ (forall n, res = Some n -> length todo' < length todo).
Proof.
  induction cs as [|c cs IH]; intros todo out res todo' out' H; cbn [scan] in H.
  - inversion H; subst. split; [lia|discriminate].
  - set (cyc := if memb c st then upto c st else []) in *.
    pose proof (minus_len todo cyc) as L1.
    destruct (memb c (minus todo cyc)) eqn:M.
    + inversion H; subst. apply memb_In in M. pose proof (minus_len_lt _ _ M). split; [lia|intros; lia].
    + destruct (IH _ _ _ _ _ H) as [H1 H2]. split; [lia|]. intros n Hn. specialize (H2 n Hn). lia. Qed.

Theorem dfs_fuel : forall fuel st todo out, 2 * length todo + length st < fuel + 1 ->
  dfs ord fuel st todo out <> None.
Proof.
  induction fuel as [|f IH]; intros st todo out Hm.
  - destruct st; simpl in *; [discriminate|lia].
  - destruct st as [|top r]; [simpl; discriminate|].
    cbn [dfs]. destruct (scan (ord top) (top :: r) todo out) as [[res t1] o1] eqn:S.
    destruct (scan_len _ _ _ _ _ _ _ S) as [L1 L2].
    destruct res as [n|].
    + specialize (L2 n eq_refl). apply IH. simpl in *. lia.
    + apply IH. simpl in *. lia. Qed.

Notation on_cycle := (on_cycle ts).

Lemma outer_spec : forall ss out0 ,
  incl ss starts ->
  exists out, outer ord starts ss out0 = Some out /\ incl out0 out /\
              (forall v, In v ss -> on_cycle v -> In v out).
Proof.
  induction ss as [|v ss IH]; intros out0 Hi; simpl.
  - exists out0. split; [reflexivity|]. split; [apply incl_refl|intros v []].
  - set (todo := minus starts [v]).
    destruct (dfs ord (fuel_for todo [v]) [v] todo out0) as [[t o]|] eqn:D.
    + assert (Hvs : In v starts) by (apply Hi; left; reflexivity).
      destruct (dfs_complete ts ord ord_spec starts starts_spec v (fuel_for todo [v]) todo out0 t o Hvs) as [Hinc Hcyc]; try exact D.
      * unfold todo. intros Hc. apply In_minus in Hc. destruct Hc as [_ Hc]. apply Hc. left; reflexivity.
      * intros x Hx Hne. unfold todo. apply In_minus. split; [exact Hx|]. intros [->|[]]. congruence.
      * destruct (IH o (fun x Hx => Hi x (or_intror Hx))) as [out [H1 [H2 H3]]].
        exists out. split; [exact H1|]. split; [intros x Hx; apply H2, Hinc, Hx|].
        intros w [->|Hw] Hc; [apply H2, Hcyc, Hc|apply H3; assumption].
    + exfalso. eapply dfs_fuel; [|exact D]. unfold fuel_for. simpl. lia. Qed.

(* C19, second half: cycle detection returns precisely the items that lie on some cycle,
   whatever the iteration orders of the sets involved *)
Theorem find_cycles_exact :
  exists out, find_cycles ord starts = Some out /\ forall x, In x out <-> on_cycle x.
Proof.
  destruct (outer_spec starts [] (incl_refl _)) as [out [H1 [_ H3]]].
  exists out. split; [exact H1|]. intros x. split.
  - intros Hx. eapply find_cycles_sound; eassumption.
  - intros Hc. apply H3; [|exact Hc]. apply starts_spec. inversion Hc; subst; eauto. Qed.
End Exact.
