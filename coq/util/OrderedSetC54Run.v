(* executable entry point for the correspondence check of C54: one [run_case] for the four
   collections (OrderedSet, IdentitySet, immutabledict, LRUCache).
   input   L [I family; payload]          (formats below)
   output  observation tree, or [bad_input] *)
From Coq Require Import List ZArith Bool.
Import ListNotations.
From SAV.base Require Import Tree.
From SAV.util Require Import OrderedSet IdentitySet ImmDict LRU.
Open Scope Z_scope.

Definition bind {A B} (o : option A) (f : A -> option B) : option B :=
  match o with Some a => f a | None => None end.
Notation "x <- o ;; k" := (bind o (fun x => k)) (at level 61, o at next level, right associativity).

Fixpoint insert_sorted (x : Z) (l : list Z) : list Z :=
  match l with [] => [x] | y :: r => if x <=? y then x :: l else y :: insert_sorted x r end.
Definition sortz (l : list Z) : list Z := fold_right insert_sorted [] l.
Definition of_zs (l : list Z) : tree := L (map I l).
Definition as_zs : tree -> option (list Z) := as_list_of as_Z.
Definition exn_code (e : exn) : Z :=
  match e with KeyError => 1 | IndexError => 2 | ValueError => 3 | TypeError => 4 end.
Fixpoint nodupb (l : list Z) : bool :=
  match l with [] => true | x :: r => negb (memz x r) && nodupb r end.

(* ======================= family 0: OrderedSet =======================
   payload L [init; L ops]; init = L [] (no argument) | arg;  arg = L [I kind; L elems]
   kind 0 set, 1 dict (elems = iteration order, duplicate-free), 2 list, 3 iterator, 4 OrderedSet(list),
   5 the receiver itself.  ops: see [as_oop].  The trailing [form] of an op says whether the harness
   used the method or the operator alias; the model maps both to the same definition. *)
Definition as_akind (z : Z) : option akind :=
  match z with 0 => Some KSet | 1 => Some KDict | 2 => Some KList | 3 => Some KIter
             | 4 => Some KOSet | 5 => Some KSelf | _ => None end.
Definition as_arg (t : tree) : option arg :=
  match t with
  | L [I k; te] =>
      kd <- as_akind k ;; e <- as_zs te ;;
      match kd with
      | KSet | KDict => if nodupb e then Some (mka kd e) else None
      | _ => Some (mka kd e)
      end
  | _ => None
  end.
Definition as_args : tree -> option (list arg) := as_list_of as_arg.
Definition as_form (t : tree) : option unit :=
  match t with I 0 | I 1 | I 2 => Some tt | _ => None end.

Definition as_oop (t : tree) : option oop :=
  match t with
  | L [I 0; I x] => Some (OAdd x)
  | L [I 1; I x] => Some (ORemove x)
  | L [I 2] => Some OPop
  | L [I 3; I pos; I x] => Some (OInsert pos x)
  | L [I 4; I x] => Some (ODiscard x)
  | L [I 5] => Some OClear
  | L [I 6; I k] => Some (OGetitem k)
  | L [I 7; I x] => Some (OContains x)
  | L [I 8] => Some OLen
  | L [I 9; ta; f] => _ <- as_form f ;; a <- as_args ta ;; Some (OUpdate a)
  | L [I 10; ta; f] => _ <- as_form f ;; a <- as_args ta ;; Some (OInterUpd a)
  | L [I 11; ta; f] => _ <- as_form f ;; a <- as_args ta ;; Some (ODiffUpd a)
  | L [I 12; ta; f] => _ <- as_form f ;; a <- as_arg ta ;; Some (OSymUpd a)
  | L [I 13; ad] => b <- as_bool ad ;; Some (OCopy b)
  | L [I 14; ad; ta; f] => _ <- as_form f ;; b <- as_bool ad ;; a <- as_args ta ;; Some (OUnion b a)
  | L [I 15; ad; ta; f] => _ <- as_form f ;; b <- as_bool ad ;; a <- as_args ta ;; Some (OInter b a)
  | L [I 16; ad; ta; f] => _ <- as_form f ;; b <- as_bool ad ;; a <- as_args ta ;; Some (ODiff b a)
  | L [I 17; ad; ta; f] => _ <- as_form f ;; b <- as_bool ad ;; a <- as_arg ta ;; Some (OSym b a)
  | _ => None
  end.

Definition dump_oset (o : oset) : tree := L [of_zs (ol o); of_zs (sortz (os o))].
Definition of_oret (r : oret) : tree :=
  match r with
  | RNone => L [I 0]
  | RVal z => L [I 1; I z]
  | RBool b => L [I 2; of_bool b]
  | RExc e => L [I 3; I (exn_code e)]
  | RSet o => L [I 4; dump_oset o]
  end.
(* every step reports its return value and the receiver afterwards *)
Fixpoint otrace (st : oset) (ops : list oop) : list tree :=
  match ops with
  | [] => []
  | op :: r => let '(st1, o) := ostep st op in L [of_oret o; dump_oset st1] :: otrace st1 r
  end.
Definition run_oset (t : tree) : tree :=
  match t with
  | L [ti; tops] =>
      match (match ti with L [] => Some None | _ => a <- as_arg ti ;; Some (Some a) end),
            as_list_of as_oop tops with
      | Some d, Some ops =>
          match d with
          | Some (mka KSelf _) => bad_input
          | _ => let st := oinit d in L [dump_oset st; L (otrace st ops); I 1]
          end
      | _, _ => bad_input
      end
  | _ => bad_input
  end.

(* ======================= family 1: IdentitySet =======================
   payload L [L values; L init_objs; L ops]; an object is its index into [values] (its identity);
   values[i] is what == / hash see.  arg = L [I kind; L objs], kind 0 IdentitySet(list), 1 list,
   2 iterator, 3 the receiver itself. *)
Definition as_ikind (z : Z) : option ikind :=
  match z with 0 => Some IKISet | 1 => Some IKList | 2 => Some IKIter | 3 => Some IKSelf | _ => None end.
Definition as_iarg (t : tree) : option iarg :=
  match t with L [I k; te] => kd <- as_ikind k ;; e <- as_zs te ;; Some (mkia kd e) | _ => None end.
Definition as_bop (z : Z) : option bop :=
  match z with 0 => Some BUnion | 1 => Some BDiff | 2 => Some BInter | 3 => Some BSym | _ => None end.
Definition as_bform (z : Z) : option bform :=
  match z with 0 => Some FMethod | 1 => Some FOperator | 2 => Some FInMethod | 3 => Some FInOperator
             | _ => None end.
Definition as_cmp (z : Z) : option cmp :=
  match z with 0 => Some CSubset | 1 => Some CSuperset | 2 => Some CLe | 3 => Some CLt | 4 => Some CGe
             | 5 => Some CGt | 6 => Some CEq | 7 => Some CNe | _ => None end.
Definition as_iop (t : tree) : option iop :=
  match t with
  | L [I 0; I o] => Some (IAdd o)
  | L [I 1; I o] => Some (IContains o)
  | L [I 2; I o] => Some (IRemove o)
  | L [I 3; I o] => Some (IDiscard o)
  | L [I 4] => Some IPop
  | L [I 5] => Some IClear
  | L [I 6] => Some ILen
  | L [I 7; ad] => b <- as_bool ad ;; Some (ICopy b)
  | L [I 8; I b; I f; ad; ta] =>
      b' <- as_bop b ;; f' <- as_bform f ;; ad' <- as_bool ad ;; a <- as_iarg ta ;; Some (IBin b' f' ad' a)
  | L [I 9; I c; ta] => c' <- as_cmp c ;; a <- as_iarg ta ;; Some (ICmp c' a)
  | _ => None
  end.
Definition dump_imap (m : imap) : tree := L [of_zs (map fst m); of_zs (map snd m)].
Definition of_iret (r : iret) : tree :=
  match r with
  | JNone => L [I 0]
  | JVal o => L [I 1; I o]
  | JBool b => L [I 2; of_bool b]
  | JExc e => L [I 3; I (exn_code e)]
  | JSet m => L [I 4; dump_imap m]
  | JNum n => L [I 5; I n]
  end.
Fixpoint itrace (valof : Z -> Z) (m : imap) (ops : list iop) : list tree :=
  match ops with
  | [] => []
  | op :: r => let '(m1, o) := istep valof m op in L [of_iret o; dump_imap m1] :: itrace valof m1 r
  end.
Definition run_iset (t : tree) : tree :=
  match t with
  | L [tv; ti; tops] =>
      match as_zs tv, as_zs ti, as_list_of as_iop tops with
      | Some vals, Some objs, Some ops =>
          let valof := fun o => nth (Z.to_nat o) vals 0 in
          let m := i_init objs in L [dump_imap m; L (itrace valof m ops); I 1]
      | _, _, _ => bad_input
      end
  | _ => bad_input
  end.

(* ======================= family 2: immutabledict =======================
   payload L [L pairs; L ops]; the receiver is immutabledict(pairs);
   darg = L [I kind; L pairs], kind 0 None, 1 dict(pairs), 2 immutabledict(pairs), 3 the list of pairs *)
Definition as_pairs : tree -> option (list (Z * Z)) := as_list_of (as_pair_of as_Z as_Z).
Definition as_dkind (z : Z) : option dkind :=
  match z with 0 => Some DNone | 1 => Some DDict | 2 => Some DImm | 3 => Some DPairs | _ => None end.
Definition as_darg (t : tree) : option darg :=
  match t with L [I k; tp] => kd <- as_dkind k ;; p <- as_pairs tp ;; Some (mkd kd p) | _ => None end.
Definition as_dop (t : tree) : option dop :=
  match t with
  | L [I 0; I which; I _; I _] => if (0 <=? which) && (which <=? 8) then Some (DMutate which) else None
  | L [I 1; ad; I _; ta] => b <- as_bool ad ;; a <- as_list_of as_darg ta ;; Some (DUnion b a)
  | L [I 2; ad; ta] => b <- as_bool ad ;; a <- as_darg ta ;; Some (DOr b a)
  | L [I 3; ad; ta] => b <- as_bool ad ;; a <- as_darg ta ;; Some (DRor b a)
  | L [I 4] => Some DCopy
  | L [I 5; I k] => Some (DGet k)
  | L [I 6] => Some DLen
  | _ => None
  end.
Definition of_pairs (d : list (Z * Z)) : tree := L (map (fun e => L [I (fst e); I (snd e)]) d).
Definition of_dret (r : dret) : tree :=
  match r with
  | VNone => L [I 0]
  | VVal z => L [I 1; I z]
  | VExc e => L [I 3; I (exn_code e)]
  | VDict d who => L [I 4; of_pairs d; I who]
  end.
Fixpoint dtrace (d : dict) (ops : list dop) : list tree :=
  match ops with
  | [] => []
  | op :: r => let '(d1, o) := dstep d op in L [of_dret o; of_pairs d1] :: dtrace d1 r
  end.
Definition run_idict (t : tree) : tree :=
  match t with
  | L [tp; tops] =>
      match as_pairs tp, as_list_of as_dop tops with
      | Some p, Some ops => let d := merge [] p in L [of_pairs d; L (dtrace d ops); I 1]
      | _, _ => bad_input
      end
  | _ => bad_input
  end.

(* ======================= family 3: LRUCache =======================
   payload L [I capacity; I tnum; I tden; I alert; L ops]   (threshold = tnum/tden) *)
Definition as_lop (t : tree) : option lop :=
  match t with
  | L [I 0; I k; I v; lk] => b <- as_bool lk ;; Some (LSet k v b)
  | L [I 1; I k; I d] => Some (LGet k d)
  | L [I 2; I k] => Some (LGetitem k)
  | L [I 3; I k] => Some (LContains k)
  | L [I 4; I k] => Some (LDel k)
  | L [I 5] => Some LLen
  | _ => None
  end.
Definition of_lret (r : lret) : tree :=
  match r with
  | WNone => L [I 0]
  | WVal z => L [I 1; I z]
  | WBool b => L [I 2; of_bool b]
  | WExc e => L [I 3; I (exn_code e)]
  | WSet fired => L [I 6; of_bool fired]
  | WLoop => L [I 7]
  end.
Definition dump_lru (c : lru) : tree :=
  L [L (map (fun e => L [I (ek e); I (ev e); I (ec e)]) (data c)); I (counter c)].
Fixpoint ltrace (c : lru) (ops : list lop) : list tree :=
  match ops with
  | [] => []
  | op :: r => let '(c1, o) := lstep c op in L [of_lret o; dump_lru c1] :: ltrace c1 r
  end.
Definition run_lru (t : tree) : tree :=
  match t with
  | L [I cp; I tn; I td; ta; tops] =>
      match as_bool ta, as_list_of as_lop tops with
      | Some al, Some ops =>
          if (0 <=? cp) && (0 <=? tn) && (0 <? td) then L (ltrace (mkl cp tn td al [] 0) ops)
          else bad_input
      | _, _ => bad_input
      end
  | _ => bad_input
  end.

Definition run_case (t : tree) : tree :=
  match t with
  | L [I 0; p] => run_oset p
  | L [I 1; p] => run_iset p
  | L [I 2; p] => run_idict p
  | L [I 3; p] => run_lru p
  | _ => bad_input
  end.
