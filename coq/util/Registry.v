(* C52: interleaving model of util.ScopedRegistry (__call__ / has / clear) as used by
   orm.scoped_session (__call__ / remove).  Dict operations are single atomic steps (CPython
   guarantee, trusted); createfunc() is a separate step; any thread may move at any time. *)
From Coq Require Import List Arith Bool.
Import ListNotations.

Definition key := nat.
Definition sess := nat.

Inductive ctx := InCall | InRemove.
Inductive pc :=
| Idle
| C1 (x : ctx)            (* about to evaluate registry[key]            *)
| C2 (x : ctx)            (* KeyError: about to run createfunc()        *)
| C3 (x : ctx) (v : sess) (* about to registry.setdefault(key, v)       *)
| RH                      (* remove(): about to evaluate registry.has() *)
| RC (v : sess)           (* remove(): about to close v                 *)
| RD.                     (* remove(): about to del registry[key]       *)

Record shared := { reg : list (key * sess); closed : list sess; created : list (sess * key) }.
Definition state := (shared * list pc)%type.

Inductive ev :=
| EStartCall (i : nat) | EStartRemove (i : nat)
| EHas (i : nat) (b : bool)
| ELookup (i : nat) (r : option sess)
| ECreate (i : nat) (v : sess)
| ESetdefault (i : nat) (r : sess)
| EClose (i : nat) (v : sess)
| EDel (i : nat).

Fixpoint lookup (k : key) (r : list (key * sess)) : option sess :=
  match r with [] => None | (k', v) :: t => if Nat.eqb k' k then Some v else lookup k t end.
Definition rdel (k : key) (r : list (key * sess)) := filter (fun p => negb (Nat.eqb (fst p) k)) r.

Fixpoint upd (ts : list pc) (i : nat) (p : pc) : list pc :=
  match ts, i with [], _ => [] | _ :: r, O => p :: r | x :: r, S j => x :: upd r j p end.

Section M.
Variable keys : list key.          (* keys[i] = scopefunc() in thread i *)
Definition keyof (i : nat) : key := nth i keys 0.

Definition after (x : ctx) (v : sess) : pc := match x with InCall => Idle | InRemove => RC v end.

Definition stepf (st : state) (e : ev) : option state :=
  let (s, ts) := st in
  match e with
  | EStartCall i => match nth_error ts i with Some Idle => Some (s, upd ts i (C1 InCall)) | _ => None end
  | EStartRemove i => match nth_error ts i with Some Idle => Some (s, upd ts i RH) | _ => None end
  | EHas i b =>
      match nth_error ts i with
      | Some RH =>
          match lookup (keyof i) (reg s), b with
          | Some _, true => Some (s, upd ts i (C1 InRemove))
          | None, false => Some (s, upd ts i RD)
          | _, _ => None end
      | _ => None end
  | ELookup i r =>
      match nth_error ts i with
      | Some (C1 x) =>
          match lookup (keyof i) (reg s), r with
          | Some v, Some w => if Nat.eqb v w then Some (s, upd ts i (after x v)) else None
          | None, None => Some (s, upd ts i (C2 x))
          | _, _ => None end
      | _ => None end
  | ECreate i v =>
      match nth_error ts i with
      | Some (C2 x) =>
          if existsb (fun p => Nat.eqb (fst p) v) (created s) then None
          else Some ({| reg := reg s; closed := closed s; created := (v, keyof i) :: created s |}, upd ts i (C3 x v))
      | _ => None end
  | ESetdefault i r =>
      match nth_error ts i with
      | Some (C3 x v) =>
          match lookup (keyof i) (reg s) with
          | Some w => if Nat.eqb w r then Some (s, upd ts i (after x w)) else None
          | None => if Nat.eqb v r
                    then Some ({| reg := (keyof i, v) :: reg s; closed := closed s; created := created s |},
                               upd ts i (after x v))
                    else None
          end
      | _ => None end
  | EClose i v =>
      match nth_error ts i with
      | Some (RC w) => if Nat.eqb v w
                       then Some ({| reg := reg s; closed := v :: closed s; created := created s |}, upd ts i RD)
                       else None
      | _ => None end
  | EDel i =>
      match nth_error ts i with
      | Some RD => Some ({| reg := rdel (keyof i) (reg s); closed := closed s; created := created s |}, upd ts i Idle)
      | _ => None end
  end.

Fixpoint run (st : state) (tr : list ev) : option state :=
  match tr with [] => Some st | e :: r => match stepf st e with Some st' => run st' r | None => None end end.

Definition init : state := ({| reg := []; closed := []; created := [] |}, repeat Idle (length keys)).
Definition reach (st : state) : Prop := exists tr, run init tr = Some st.

Definition actor (e : ev) : nat :=
  match e with
  | EStartCall i | EStartRemove i | EHas i _ | ELookup i _ | ECreate i _ | ESetdefault i _ | EClose i _ | EDel i => i
  end.
(* the session a __call__ step hands back to its caller, if this step ends a __call__ *)
Definition returned (e : ev) : option sess :=
  match e with ELookup _ (Some v) => Some v | ESetdefault _ v => Some v | _ => None end.
End M.
