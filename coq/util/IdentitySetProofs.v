(* C54 - IdentitySet: the dict-of-ids model refines the duplicate-free list of identities. *)
From Coq Require Import List ZArith Bool Lia Arith.
Import ListNotations.
From SAV.util Require Import OrderedSet OrderedSetProofs IdentitySet.
Open Scope Z_scope.

Lemma lift_fst : forall l, map fst (lift l) = l.
Proof. unfold lift, get_id. induction l; simpl; congruence. Qed.
Lemma lift_snd : forall l, map snd (lift l) = l.
Proof. unfold lift, get_id. induction l; simpl; congruence. Qed.
Lemma lift_length : forall l, length (lift l) = length l.
Proof. intros. unfold lift. apply map_length. Qed.
Lemma lift_app : forall a b, lift (a ++ b) = lift a ++ lift b.
Proof. intros. unfold lift. apply map_app. Qed.
Lemma lift_rev : forall l, rev (lift l) = lift (rev l).
Proof. intros. unfold lift. symmetry. apply map_rev. Qed.
Lemma iinv_lift : forall l, NoDup l -> iinv (lift l).
Proof. intros l H. unfold iinv. rewrite lift_snd. tauto. Qed.

Lemma d_has_lift : forall k l, d_has k (lift l) = memz k l.
Proof. intros. unfold d_has. rewrite lift_fst. reflexivity. Qed.
Lemma d_get_lift : forall k l, d_get k (lift l) = if memz k l then Some k else None.
Proof.
  induction l as [|y l IH]; simpl; [reflexivity|]. unfold get_id, memz. simpl. rewrite (Z.eqb_sym k y).
  destruct (y =? k) eqn:E; simpl; [apply Z.eqb_eq in E; congruence|exact IH].
Qed.
Lemma d_set_lift : forall o l, d_set (get_id o) o (lift l) = lift (r_add l o).
Proof.
  intros o. unfold get_id. induction l as [|y l IH]; [reflexivity|].
  simpl. unfold get_id, r_add. unfold memz. simpl. rewrite (Z.eqb_sym o y).
  destruct (y =? o) eqn:E; simpl.
  - apply Z.eqb_eq in E. subst. reflexivity.
  - fold (lift l). rewrite IH. unfold r_add, memz. destruct (existsb (Z.eqb o) l); reflexivity.
Qed.
Lemma d_of_objs_lift : forall objs l, d_of_objs (lift l) objs = lift (fold_left r_add objs l).
Proof.
  unfold d_of_objs. induction objs as [|o objs IH]; intros l; simpl; [reflexivity|].
  rewrite d_set_lift. apply IH.
Qed.
Lemma d_update_lift : forall l2 l, d_update (lift l) (lift l2) = lift (fold_left r_add l2 l).
Proof.
  unfold d_update. induction l2 as [|o l2 IH]; intros l; simpl; [reflexivity|].
  rewrite d_set_lift. apply IH.
Qed.
Lemma filter_lift : forall (P : Z -> bool) l, filter (fun e => P (fst e)) (lift l) = lift (filter P l).
Proof.
  induction l as [|y l IH]; simpl; [reflexivity|]. unfold get_id at 1.
  destruct (P y); simpl; rewrite IH; reflexivity.
Qed.
Lemma keys_le_lift : forall l1 l2, keys_le (lift l1) (lift l2) = subset l1 l2.
Proof.
  intros. unfold keys_le, subset, d_keys. rewrite lift_fst.
  induction l1 as [|x l1 IH]; simpl; [reflexivity|]. rewrite d_has_lift, IH. reflexivity.
Qed.

(* ---------- unique_list is invisible to the reference operations ---------- *)
Lemma uniq_from_unique : forall s c, uniq_from s (unique_list c) = uniq_from s c.
Proof.
  intros.
  assert (H : forall c0, uniq_from s c0 = uniq_from [] (filter (fun a => negb (memz a s)) c0))
    by (intros c0; exact (uniq_from_app_seen c0 [] s)).
  rewrite (H (unique_list c)), (H c). unfold unique_list. rewrite filter_uniq_from.
  apply (uniq_from_id _ []); [apply uniq_from_NoDup|intros x _ []].
Qed.
Lemma fold_r_add_unique : forall c l, fold_left r_add (unique_list c) l = fold_left r_add c l.
Proof. intros. rewrite !r_update_fold, uniq_from_unique. reflexivity. Qed.
Lemma fold_r_add_nil : forall c, fold_left r_add c [] = unique_list c.
Proof. intros. rewrite r_update_fold. reflexivity. Qed.
Lemma subset_spec : forall l1 l2, subset l1 l2 = true <-> incl l1 l2.
Proof.
  intros. unfold subset. rewrite forallb_forall. unfold incl.
  split; intros H x Hx; [apply memz_In|apply memz_In]; auto.
Qed.
Lemma subset_ext : forall a a' b b', (forall x, In x a <-> In x a') -> (forall x, In x b <-> In x b') ->
  subset a b = subset a' b'.
Proof.
  intros a a' b b' Ha Hb. destruct (subset a b) eqn:E1, (subset a' b') eqn:E2; auto.
  - apply subset_spec in E1. assert (incl a' b') by (intros x Hx; apply Hb, E1, Ha, Hx).
    apply subset_spec in H. congruence.
  - apply subset_spec in E2. assert (incl a b) by (intros x Hx; apply Hb, E2, Ha, Hx).
    apply subset_spec in H. congruence.
Qed.
Lemma subset_unique_r : forall l c, subset l (unique_list c) = subset l c.
Proof. intros. apply subset_ext; [tauto|apply unique_list_In]. Qed.
Lemma subset_unique_l : forall l c, subset (unique_list c) l = subset c l.
Proof. intros. apply subset_ext; [apply unique_list_In|tauto]. Qed.

(* ---------- arguments ---------- *)
Lemma i_init_lift : forall objs, i_init objs = lift (unique_list objs).
Proof. intros. unfold i_init. change (@nil (Z * Z)) with (lift []). rewrite d_of_objs_lift, fold_r_add_nil. reflexivity. Qed.
Lemma amembers_lift : forall l a, NoDup l -> amembers (lift l) a = lift (unique_list (aobjs l a)).
Proof.
  intros l [k objs] Hn. unfold amembers, aobjs. destruct k; simpl; try apply i_init_lift.
  rewrite (unique_list_id l Hn). reflexivity.
Qed.
Lemma aobjs_nonself : forall l a, is_iset a = false -> aobjs l a = io a.
Proof. intros l [k objs]. destruct k; unfold is_iset, aobjs; simpl; intros H; try discriminate H; reflexivity. Qed.
Lemma other_keys_mem : forall l a, NoDup l -> forall x, memz x (other_keys (lift l) a) = memz x (aobjs l a).
Proof.
  intros l a Hn x. unfold other_keys. destruct (is_iset a) eqn:E.
  - unfold d_keys. rewrite (amembers_lift l a Hn), lift_fst. apply memz_ext, unique_list_In.
  - rewrite (aobjs_nonself l a E). unfold get_id. rewrite map_id. reflexivity.
Qed.

(* ---------- the four binary operations ---------- *)
Lemma i_update_lift : forall l a, NoDup l -> i_update (lift l) a = lift (r_update l [aobjs l a]).
Proof.
  intros l a Hn. unfold i_update, r_update. simpl concat. rewrite app_nil_r.
  destruct (is_iset a) eqn:E.
  - rewrite (amembers_lift l a Hn), d_update_lift, fold_r_add_unique. reflexivity.
  - rewrite (aobjs_nonself l a E). apply d_of_objs_lift.
Qed.
Lemma i_bin_lift : forall b l a, NoDup l -> i_bin b (lift l) a = lift (q_bin b l (aobjs l a)).
Proof.
  intros b l a Hn. destruct b; unfold i_bin, q_bin.
  - unfold i_union. change (@nil (Z * Z)) with (lift []).
    rewrite (d_update_lift l []), fold_r_add_nil, (unique_list_id l Hn).
    apply i_update_lift, Hn.
  - unfold i_difference, r_diff.
    rewrite (filter_lift (fun k => negb (memz k (other_keys (lift l) a)))). f_equal. apply filter_ext_In. intros x _.
    rewrite (other_keys_mem l a Hn). unfold in_none. simpl. rewrite orb_false_r. reflexivity.
  - unfold i_intersection, r_inter.
    rewrite (filter_lift (fun k => memz k (other_keys (lift l) a))). f_equal. apply filter_ext_In. intros x _.
    rewrite (other_keys_mem l a Hn). unfold in_all. simpl. rewrite andb_true_r. reflexivity.
  - unfold i_symmetric_difference.
    assert (Ho : (if is_iset a then amembers (lift l) a else d_of_objs [] (io a))
                 = lift (unique_list (aobjs l a))).
    { destruct (is_iset a) eqn:E; [apply amembers_lift, Hn|].
      rewrite (aobjs_nonself l a E). apply i_init_lift. }
    rewrite Ho. set (c := aobjs l a).
    rewrite (filter_ext _ (fun e => negb (memz (fst e) (unique_list c))))
      by (intros e; rewrite d_has_lift; reflexivity).
    rewrite (filter_lift (fun k => negb (memz k (unique_list c)))).
    rewrite (filter_ext (fun e => negb (d_has (fst e) (lift l))) (fun e => negb (memz (fst e) l)))
      by (intros e; rewrite d_has_lift; reflexivity).
    rewrite (filter_lift (fun k => negb (memz k l))).
    rewrite d_update_lift, r_update_fold. unfold r_sym. f_equal. f_equal.
    + apply filter_ext_In. intros x _. f_equal. apply memz_ext, unique_list_In.
    + transitivity (filter (fun k => negb (memz k l)) (unique_list c)).
      * apply uniq_from_id; [apply NoDup_filter, unique_list_NoDup|].
        intros x Hx. rewrite !filter_In, negb_true_iff, memz_false in *. tauto.
      * unfold unique_list. apply filter_uniq_from.
Qed.
Lemma i_bin_update_lift : forall b l a, NoDup l ->
  i_bin_update b (lift l) a = lift (q_bin b l (aobjs l a)).
Proof.
  intros b l a Hn. destruct b; unfold i_bin_update; try apply i_bin_lift; try assumption.
  apply i_update_lift, Hn.
Qed.
Lemma q_bin_NoDup : forall b l c, NoDup l -> NoDup (q_bin b l c).
Proof.
  intros b l c Hn. destruct b; simpl.
  - apply r_update_NoDup, Hn.
  - apply NoDup_filter, Hn.
  - apply NoDup_filter, Hn.
  - apply r_sym_NoDup, Hn.
Qed.

(* ---------- comparisons ---------- *)
Section Cmp.
Variable valof : Z -> Z.
Lemma d_eq_lift : forall l1 l2, NoDup l1 -> NoDup l2 ->
  d_eq valof (lift l1) (lift l2) = subset l1 l2 && subset l2 l1.
Proof.
  intros l1 l2 H1 H2. unfold d_eq. rewrite !lift_length.
  assert (Hf : forallb (fun e => match d_get (fst e) (lift l2) with
                                 | Some v => obj_eq valof (snd e) v | None => false end) (lift l1)
               = subset l1 l2).
  { unfold subset. clear H1. induction l1 as [|x l1 IH]; simpl; [reflexivity|]. unfold get_id at 1.
    rewrite d_get_lift, IH. destruct (memz x l2); [|reflexivity]. unfold obj_eq.
    rewrite Z.eqb_refl. reflexivity. }
  rewrite Hf. destruct (subset l1 l2) eqn:E12; [|apply andb_false_r]. rewrite andb_true_r. simpl.
  apply subset_spec in E12. destruct (subset l2 l1) eqn:E21.
  - apply subset_spec in E21. apply Nat.eqb_eq. apply Nat.le_antisymm; apply NoDup_incl_length; assumption.
  - apply Nat.eqb_neq. intros El. assert (incl l2 l1) by (apply NoDup_length_incl; [assumption|lia|assumption]).
    apply subset_spec in H. congruence.
Qed.
Lemma lt_lift : forall l1 l2, NoDup l1 -> NoDup l2 ->
  Nat.ltb (length l1) (length l2) && subset l1 l2 = subset l1 l2 && negb (subset l2 l1).
Proof.
  intros l1 l2 H1 H2. destruct (subset l1 l2) eqn:E12; [|apply andb_false_r]. rewrite andb_true_r. simpl.
  apply subset_spec in E12. pose proof (NoDup_incl_length H1 E12) as Hle.
  destruct (subset l2 l1) eqn:E21; simpl.
  - apply subset_spec in E21. pose proof (NoDup_incl_length H2 E21). apply Nat.ltb_ge. lia.
  - apply Nat.ltb_lt. destruct (Nat.eq_dec (length l1) (length l2)) as [El|]; [|lia].
    assert (incl l2 l1) by (apply NoDup_length_incl; [assumption|lia|assumption]).
    apply subset_spec in H. congruence.
Qed.

Lemma i_cmp_lift : forall c l a, NoDup l ->
  abs_iret (i_cmp valof c (lift l) a) = q_cmp c (is_iset a) l (aobjs l a).
Proof.
  intros c l a Hn. unfold i_cmp, q_cmp, i_issubset, i_issuperset.
  rewrite (amembers_lift l a Hn), !keys_le_lift, !lift_length.
  set (o := aobjs l a). pose proof (unique_list_NoDup o) as Ho.
  rewrite <- (subset_unique_r l o), <- (subset_unique_l l o).
  destruct c; simpl; try reflexivity; destruct (is_iset a); simpl; try reflexivity;
    rewrite ?d_eq_lift, ?lt_lift by assumption; reflexivity.
Qed.

(* ---------- one step, then every history ---------- *)
Lemma istep_ref : forall l op, NoDup l ->
  let '(m', r) := istep valof (lift l) op in
  let '(l', r') := qstep l op in
  m' = lift l' /\ NoDup l' /\ abs_iret r = r' /\ iret_inv r.
Proof.
  intros l op Hn.
  assert (Hdrop : forall o, d_drop (get_id o) (lift l) = lift (r_del l o)).
  { intros o. unfold d_drop, r_del, get_id.
    rewrite (filter_ext _ (fun e => negb (o =? fst e))) by (intros e; rewrite Z.eqb_sym; reflexivity).
    apply (filter_lift (fun y => negb (o =? y))). }
  destruct op; cbn [istep qstep].
  - (* add *) rewrite d_set_lift. split; [reflexivity|]. split; [exact (rstep_NoDup l (OAdd o) Hn)|].
    split; [reflexivity|exact I].
  - (* contains *) unfold get_id at 1. rewrite d_has_lift. repeat split; auto.
  - (* remove *) unfold get_id at 1. rewrite d_has_lift. destruct (memz o l); [|repeat split; auto].
    rewrite Hdrop. repeat split; auto. apply NoDup_filter, Hn.
  - (* discard *) unfold get_id at 1. rewrite d_has_lift. destruct (memz o l) eqn:E.
    + rewrite Hdrop. repeat split; auto. apply NoDup_filter, Hn.
    + apply memz_false in E. rewrite (r_del_notin l o E). repeat split; auto.
  - (* pop *) rewrite lift_rev. pose proof (rstep_NoDup l OPop Hn) as Hp. cbn [rstep] in Hp.
    destruct (rev l) as [|v r] eqn:E; simpl; [repeat split; auto|].
    unfold get_id. rewrite lift_rev. repeat split; auto.
  - (* clear *) repeat split; auto. constructor.
  - (* len *) rewrite lift_length. repeat split; auto.
  - (* copy *) destruct adopt; simpl; rewrite lift_snd; repeat split; auto; apply iinv_lift, Hn.
  - (* binary operations *)
    pose proof (q_bin_NoDup b l (aobjs l a) Hn) as Hq.
    destruct f; [| destruct (is_iset a) | | destruct (is_iset a)];
      rewrite ?i_bin_lift, ?i_bin_update_lift by assumption;
      try (destruct adopt); simpl; rewrite ?lift_snd; repeat split; auto; apply iinv_lift; assumption.
  - (* comparisons *) split; [reflexivity|]. split; [assumption|]. split; [apply i_cmp_lift, Hn|].
    unfold i_cmp. destruct c; simpl; try exact I; destruct (is_iset a); exact I.
Qed.

Lemma irun_ref : forall ops l, NoDup l ->
  let '(m', rs) := irun valof (lift l) ops in
  let '(l', rs') := qrun l ops in
  m' = lift l' /\ NoDup l' /\ map abs_iret rs = rs' /\ Forall iret_inv rs.
Proof.
  induction ops as [|op ops IH]; intros l Hn; simpl; [repeat split; auto|].
  pose proof (istep_ref l op Hn) as Hs.
  destruct (istep valof (lift l) op) as [m1 r]. destruct (qstep l op) as [l1 r'].
  destruct Hs as [-> [Hn1 [Hr Hi]]]. pose proof (IH l1 Hn1) as Hr2.
  destruct (irun valof (lift l1) ops) as [m2 rs]. destruct (qrun l1 ops) as [l2 rs'].
  destruct Hr2 as [-> [Hn2 [Hrs His]]]. repeat split; auto. simpl. congruence.
Qed.
End Cmp.

(* a whole history starting at the constructor IdentitySet(objs); the member *values* play no role *)
Theorem iset_history : forall valof objs ops,
  let '(m, outs) := irun valof (i_init objs) ops in
  let '(l, outs') := qrun (unique_list objs) ops in
  iinv m /\ map snd m = l /\ map abs_iret outs = outs' /\ Forall iret_inv outs.
Proof.
  intros valof objs ops. rewrite i_init_lift.
  pose proof (irun_ref valof ops (unique_list objs) (unique_list_NoDup objs)) as H.
  destruct (irun valof (lift (unique_list objs)) ops) as [m outs].
  destruct (qrun (unique_list objs) ops) as [l outs'].
  destruct H as [-> [Hn [Ho Hi]]]. rewrite lift_snd.
  split; [apply iinv_lift, Hn|]. split; [reflexivity|]. split; assumption.
Qed.

(* the values of the members (their == and hash) never influence a history: only identities do *)
Lemma istep_values_irrelevant : forall valof valof' l op, NoDup l ->
  istep valof (lift l) op = istep valof' (lift l) op.
Proof.
  intros valof valof' l op Hn. destruct op; try reflexivity. cbn [istep]. f_equal.
  destruct c; try reflexivity; unfold i_cmp; destruct (is_iset a); try reflexivity;
    rewrite (amembers_lift l a Hn), !d_eq_lift by (assumption || apply unique_list_NoDup); reflexivity.
Qed.
Theorem iset_values_irrelevant : forall valof valof' objs ops,
  irun valof (i_init objs) ops = irun valof' (i_init objs) ops.
Proof.
  intros valof valof' objs ops. rewrite i_init_lift.
  generalize (unique_list_NoDup objs). generalize (unique_list objs).
  induction ops as [|op ops IH]; intros l Hn; simpl; [reflexivity|].
  rewrite (istep_values_irrelevant valof valof' l op Hn).
  pose proof (istep_ref valof' l op Hn) as Hs.
  destruct (istep valof' (lift l) op) as [m1 r]. destruct (qstep l op) as [l1 r'].
  destruct Hs as [-> [Hn1 _]]. rewrite (IH l1 Hn1). reflexivity.
Qed.
