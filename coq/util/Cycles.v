(* Model of topological.find_cycles.  The Python stack [s0; ...; top] is kept reversed (top first);
   the stack never holds duplicates (proved), so stack[stack.index(n):] is the prefix of the reversed
   stack up to and including n. *)
From Coq Require Import List NArith Bool Lia Arith.
Import ListNotations.
From SAV.util Require Import Topo.

Section FindCycles.
Variable ts : list edge.                    (* (parent, child) *)
Variable ord : node -> list node.           (* iteration order of edges[top] : arbitrary *)
Hypothesis ord_spec : forall a b, In b (ord a) <-> In (a, b) ts.
Variable starts : list node.                (* iteration order of nodes_to_test = set(edges) : arbitrary *)
Hypothesis starts_spec : forall a, In a starts <-> exists b, In (a, b) ts.

Fixpoint upto (n : node) (st : list node) : list node :=
  match st with [] => [] | x :: r => if N.eqb x n then [x] else x :: upto n r end.

Definition minus (l cyc : list node) := filter (fun x => negb (memb x cyc)) l.

(* the [for node in edges[top]] loop; returns (pushed child or None, todo, out) *)
Fixpoint scan (cs st todo out : list node) : option node * list node * list node :=
  match cs with
  | [] => (None, todo, out)
  | n :: cs' =>
    let cyc := if memb n st then upto n st else [] in
    let todo1 := minus todo cyc in
    let out1 := cyc ++ out in
    if memb n todo1 then (Some n, minus todo1 [n], out1) else scan cs' st todo1 out1
  end.

Fixpoint dfs (fuel : nat) (st todo out : list node) : option (list node * list node) :=
  match st with
  | [] => Some (todo, out)
  | top :: rest =>
    match fuel with
    | O => None
    | S f =>
      match scan (ord top) st todo out with
      | (Some n, todo', out') => dfs f (n :: st) todo' out'
      | (None, todo', out') => dfs f rest todo' out'
      end
    end
  end.

Definition fuel_for (todo st : list node) := 2 * length todo + length st + 1.

Fixpoint outer (ss : list node) (out : list node) : option (list node) :=
  match ss with
  | [] => Some out
  | v :: ss' =>
    let todo := minus starts [v] in
    match dfs (fuel_for todo [v]) [v] todo out with
    | Some (_, out') => outer ss' out'
    | None => None
    end
  end.

Definition find_cycles : option (list node) := outer starts [].
End FindCycles.
