(* C54 - OrderedSet (util/_collections_cy.py): executable model as written (a builtin set plus the
   [_list] attribute, updated separately by every method) and the reference model (a duplicate-free
   list = "a set whose iteration order is first insertion").  Definitions only. *)
From Coq Require Import List ZArith Bool.
Import ListNotations.
Open Scope Z_scope.

Definition memz (x : Z) (l : list Z) : bool := existsb (Z.eqb x) l.

(* ---- builtin set: a list whose order is never observed by the code below ---- *)
Definition set_add (x : Z) (s : list Z) : list Z := if memz x s then s else x :: s.
Definition set_del (x : Z) (s : list Z) : list Z := filter (fun y => negb (Z.eqb x y)) s.
Definition set_update (s l : list Z) : list Z := fold_left (fun s x => set_add x s) l s.
(* set.symmetric_difference_update(s, t): every (distinct) element of t is toggled *)
Definition set_toggle (s t : list Z) : list Z :=
  filter (fun a => negb (memz a t)) s ++ filter (fun a => negb (memz a s)) t.

(* ---- unique_list (compiled branch; the pure branch list(dict.fromkeys(seq)) is the same function) ---- *)
Fixpoint uniq_from (seen l : list Z) : list Z :=
  match l with
  | [] => []
  | x :: r => if memz x seen then uniq_from seen r else x :: uniq_from (x :: seen) r
  end.
Definition unique_list (l : list Z) : list Z := uniq_from [] l.

(* ---- Python list primitives ---- *)
Fixpoint list_remove (x : Z) (l : list Z) : option (list Z) :=     (* None = ValueError *)
  match l with
  | [] => None
  | y :: r => if Z.eqb x y then Some r
              else match list_remove x r with Some r' => Some (y :: r') | None => None end
  end.
Definition list_insert (pos x : Z) (l : list Z) : list Z :=
  let n := Z.of_nat (length l) in
  let p := if pos <? 0 then Z.max 0 (pos + n) else Z.min pos n in
  firstn (Z.to_nat p) l ++ x :: skipn (Z.to_nat p) l.
Definition list_index (k : Z) (l : list Z) : option Z :=           (* None = IndexError *)
  let n := Z.of_nat (length l) in
  let i := if k <? 0 then k + n else k in
  if (0 <=? i) && (i <? n) then nth_error l (Z.to_nat i) else None.

(* ---- the object ---- *)
Record oset := mk { ol : list Z; os : list Z }.      (* _list, the underlying builtin set *)

Inductive exn := KeyError | IndexError | ValueError | TypeError.
Inductive oret := RNone | RVal (z : Z) | RBool (b : bool) | RExc (e : exn) | RSet (o : oset).

(* argument kinds.  KSet/KDict: [ae] is the iteration order of the set / dict keys (duplicate-free);
   KList/KIter: the sequence, duplicates allowed; KOSet: OrderedSet(list ae); KSelf: the receiver *)
Inductive akind := KSet | KDict | KList | KIter | KOSet | KSelf.
Record arg := mka { ak : akind; ae : list Z }.

(* _from_list: new._list = new_list; set.update(new, new_list) *)
Definition from_list (l : list Z) : oset := mk l (set_update [] l).

(* __init__(d), d given as (is it a set/dict?, iteration sequence) *)
Definition oinit_seq (fast : bool) (l : list Z) : oset :=
  from_list (if fast then l else unique_list l).

(* what Python-level iteration over the argument yields *)
Definition aseq (st : oset) (a : arg) : list Z :=
  match ak a with
  | KOSet => ol (oinit_seq false (ae a))
  | KSelf => ol st
  | _ => ae a
  end.
(* the set the C-level set methods see: the hash table of a set (subclass) argument, set(iterable) else *)
Definition aset (st : oset) (a : arg) : list Z :=
  match ak a with
  | KOSet => os (oinit_seq false (ae a))
  | KSelf => os st
  | KSet | KDict => ae a
  | KList | KIter => set_update [] (ae a)
  end.

Definition oinit (d : option arg) : oset :=
  match d with
  | None => mk [] []
  | Some a =>
      match ak a with
      | KSet | KDict | KOSet | KSelf => oinit_seq true (aseq (mk [] []) a)   (* isinstance(d, set|dict) *)
      | KList | KIter => oinit_seq false (ae a)
      end
  end.

Definition o_add (st : oset) (x : Z) : oset :=
  if memz x (os st) then st else mk (ol st ++ [x]) (set_add x (os st)).

Definition o_remove (st : oset) (x : Z) : oset * oret :=
  if memz x (os st) then
    let s' := set_del x (os st) in
    match list_remove x (ol st) with
    | Some l' => (mk l' s', RNone)
    | None => (mk (ol st) s', RExc ValueError)
    end
  else (st, RExc KeyError).

Definition o_pop (st : oset) : oset * oret :=
  match rev (ol st) with
  | [] => (st, RExc KeyError)
  | v :: r =>
      let l' := rev r in
      if memz v (os st) then (mk l' (set_del v (os st)), RVal v)
      else (mk l' (os st), RExc KeyError)
  end.

Definition o_insert (st : oset) (pos x : Z) : oset :=
  if memz x (os st) then st else mk (list_insert pos x (ol st)) (set_add x (os st)).

Definition o_discard (st : oset) (x : Z) : oset * oret :=
  if memz x (os st) then o_remove st x else (st, RNone).

Definition o_update (st : oset) (seqs : list (list Z)) : oset := fold_left o_add (concat seqs) st.

Definition o_union (st : oset) (seqs : list (list Z)) : oset := o_update (from_list (ol st)) seqs.

Definition in_all (sets : list (list Z)) (a : Z) : bool := forallb (memz a) sets.
Definition in_none (sets : list (list Z)) (a : Z) : bool := negb (existsb (memz a) sets).

Definition o_intersection (st : oset) (sets : list (list Z)) : oset :=
  let other_set := filter (in_all sets) (os st) in
  from_list (filter (fun a => memz a other_set) (ol st)).

Definition o_difference (st : oset) (sets : list (list Z)) : oset :=
  let other_set := filter (in_none sets) (os st) in
  from_list (filter (fun a => memz a other_set) (ol st)).

(* the three isinstance/hasattr branches differ only in how [collection]/[other_set] are obtained *)
Definition o_symmetric_difference (st : oset) (collection other_set : list Z) : oset :=
  let result := from_list (filter (fun a => negb (memz a other_set)) (ol st)) in
  o_update result [filter (fun a => negb (memz a (os st))) collection].

Definition o_intersection_update (st : oset) (sets : list (list Z)) : oset :=
  let s' := filter (in_all sets) (os st) in
  mk (filter (fun a => memz a s') (ol st)) s'.

Definition o_difference_update (st : oset) (sets : list (list Z)) : oset :=
  let s' := filter (in_none sets) (os st) in
  mk (filter (fun a => memz a s') (ol st)) s'.

Definition o_symmetric_difference_update (st : oset) (collection cset : list Z) : oset :=
  let s' := set_toggle (os st) cset in
  mk (filter (fun a => memz a s') (ol st) ++ filter (fun a => memz a s') (unique_list collection)) s'.

(* operations of a history.  Methods returning a new OrderedSet carry [adopt]: continue the history
   on the result (true) or on the receiver (false).  Operator forms (| & - ^ + |= &= -= ^=) are the
   aliases the source defines, so they share the constructor of their method. *)
Inductive oop :=
| OAdd (x : Z) | ORemove (x : Z) | OPop | OInsert (pos x : Z) | ODiscard (x : Z) | OClear
| OGetitem (k : Z) | OContains (x : Z) | OLen
| OUpdate (args : list arg) | OInterUpd (args : list arg) | ODiffUpd (args : list arg)
| OSymUpd (a : arg)
| OCopy (adopt : bool) | OUnion (adopt : bool) (args : list arg) | OInter (adopt : bool) (args : list arg)
| ODiff (adopt : bool) (args : list arg) | OSym (adopt : bool) (a : arg).

Definition pure (st : oset) (adopt : bool) (r : oset) : oset * oret :=
  (if adopt then r else st, RSet r).

Definition ostep (st : oset) (op : oop) : oset * oret :=
  match op with
  | OAdd x => (o_add st x, RNone)
  | ORemove x => o_remove st x
  | OPop => o_pop st
  | OInsert pos x => (o_insert st pos x, RNone)
  | ODiscard x => o_discard st x
  | OClear => (mk [] [], RNone)
  | OGetitem k => (st, match list_index k (ol st) with Some v => RVal v | None => RExc IndexError end)
  | OContains x => (st, RBool (memz x (os st)))
  | OLen => (st, RVal (Z.of_nat (length (os st))))
  | OUpdate args => (o_update st (map (aseq st) args), RNone)
  | OInterUpd args => (o_intersection_update st (map (aset st) args), RNone)
  | ODiffUpd args => (o_difference_update st (map (aset st) args), RNone)
  | OSymUpd a => (o_symmetric_difference_update st (aseq st a) (aset st a), RNone)
  | OCopy ad => pure st ad (from_list (ol st))
  | OUnion ad args => pure st ad (o_union st (map (aseq st) args))
  | OInter ad args => pure st ad (o_intersection st (map (aset st) args))
  | ODiff ad args => pure st ad (o_difference st (map (aset st) args))
  | OSym ad a => pure st ad (o_symmetric_difference st (aseq st a) (aset st a))
  end.

Fixpoint orun (st : oset) (ops : list oop) : oset * list oret :=
  match ops with
  | [] => (st, [])
  | op :: r => let '(st1, o) := ostep st op in let '(st2, os) := orun st1 r in (st2, o :: os)
  end.

(* ================= reference model: a duplicate-free list ================= *)
Inductive rret := QNone | QVal (z : Z) | QBool (b : bool) | QExc (e : exn) | QSet (l : list Z).

Definition r_add (l : list Z) (x : Z) : list Z := if memz x l then l else l ++ [x].
Definition r_update (l : list Z) (seqs : list (list Z)) : list Z := fold_left r_add (concat seqs) l.
Definition r_inter (l : list Z) (sets : list (list Z)) : list Z := filter (in_all sets) l.
Definition r_diff (l : list Z) (sets : list (list Z)) : list Z := filter (in_none sets) l.
Definition r_sym (l c : list Z) : list Z :=
  filter (fun a => negb (memz a c)) l ++ unique_list (filter (fun a => negb (memz a l)) c).
Definition r_del (l : list Z) (x : Z) : list Z := filter (fun y => negb (Z.eqb x y)) l.

(* an argument is just the sequence of its elements *)
Definition rseq (l : list Z) (a : arg) : list Z :=
  match ak a with KOSet => unique_list (ae a) | KSelf => l | _ => ae a end.

Definition rinit (d : option arg) : list Z :=
  match d with None => [] | Some a => unique_list (rseq [] a) end.

Definition rpure (l : list Z) (adopt : bool) (r : list Z) : list Z * rret :=
  (if adopt then r else l, QSet r).

Definition rstep (l : list Z) (op : oop) : list Z * rret :=
  match op with
  | OAdd x => (r_add l x, QNone)
  | ORemove x => if memz x l then (r_del l x, QNone) else (l, QExc KeyError)
  | OPop => match rev l with [] => (l, QExc KeyError) | v :: r => (rev r, QVal v) end
  | OInsert pos x => (if memz x l then l else list_insert pos x l, QNone)
  | ODiscard x => (r_del l x, QNone)
  | OClear => ([], QNone)
  | OGetitem k => (l, match list_index k l with Some v => QVal v | None => QExc IndexError end)
  | OContains x => (l, QBool (memz x l))
  | OLen => (l, QVal (Z.of_nat (length l)))
  | OUpdate args => (r_update l (map (rseq l) args), QNone)
  | OInterUpd args => (r_inter l (map (rseq l) args), QNone)
  | ODiffUpd args => (r_diff l (map (rseq l) args), QNone)
  | OSymUpd a => (r_sym l (rseq l a), QNone)
  | OCopy ad => rpure l ad l
  | OUnion ad args => rpure l ad (r_update l (map (rseq l) args))
  | OInter ad args => rpure l ad (r_inter l (map (rseq l) args))
  | ODiff ad args => rpure l ad (r_diff l (map (rseq l) args))
  | OSym ad a => rpure l ad (r_sym l (rseq l a))
  end.

Fixpoint rrun (l : list Z) (ops : list oop) : list Z * list rret :=
  match ops with
  | [] => (l, [])
  | op :: r => let '(l1, o) := rstep l op in let '(l2, os) := rrun l1 r in (l2, o :: os)
  end.

(* ---- what the theorems say ---- *)
Definition same_elems (l s : list Z) : Prop := forall x, In x l <-> In x s.
Definition inv (st : oset) : Prop := NoDup (ol st) /\ NoDup (os st) /\ same_elems (ol st) (os st).

Definition wf_arg (a : arg) : Prop :=
  match ak a with KSet | KDict => NoDup (ae a) | _ => True end.
Definition op_args (op : oop) : list arg :=
  match op with
  | OUpdate a | OInterUpd a | ODiffUpd a | OUnion _ a | OInter _ a | ODiff _ a => a
  | OSymUpd a | OSym _ a => [a]
  | _ => []
  end.
Definition wf_op (op : oop) : Prop := Forall wf_arg (op_args op).

Definition abs_ret (r : oret) : rret :=
  match r with
  | RNone => QNone | RVal z => QVal z | RBool b => QBool b | RExc e => QExc e | RSet o => QSet (ol o)
  end.
Definition ret_inv (r : oret) : Prop := match r with RSet o => inv o | _ => True end.
