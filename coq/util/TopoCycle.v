From Coq Require Import List NArith Bool Lia Permutation Arith.
Import ListNotations.
From SAV.util Require Import Topo TopoProofs.

(* A "stuck" set: non-empty, every member has a parent inside the set. *)
Definition stuck (ts : list edge) (C : list node) : Prop :=
  C <> [] /\ forall c, In c C -> exists p, In p C /\ In (p, c) ts.

(* Circular is raised only on a stuck set of remaining items *)
Theorem circular_gives_stuck fuel ts : forall todo,
  subsets fuel ts todo = Circular -> exists C, incl C todo /\ stuck ts C.
Proof.
  induction fuel as [|f IH]; intros todo H.
  - destruct todo; simpl in H; discriminate.
  - destruct todo as [|t0 todo0]; [simpl in H; discriminate|].
    cbn [subsets] in H. set (todo := t0 :: todo0) in *.
    destruct (ready ts todo) as [|o out] eqn:Hr.
    + exists todo. split; [apply incl_refl|]. split; [discriminate|].
      intros c Hc. destruct (blocked ts todo c) eqn:B.
      * apply blocked_true in B. destruct B as [p [H1 H2]]. exists p. split; assumption.
      * assert (In c (ready ts todo)) by (apply In_ready; split; assumption). rewrite Hr in H0. destruct H0.
    + rewrite <- Hr in H. destruct (subsets f ts _) as [r'| |] eqn:Hs; try discriminate.
      destruct (IH _ Hs) as [C [Hi Hst]]. exists C. split; [|exact Hst].
      intros x Hx. apply Hi in Hx. apply filter_In in Hx. tauto. Qed.

(* a stuck subset of the items can never be emitted: the sort cannot succeed *)
Theorem stuck_blocks_ok ts C : stuck ts C -> forall fuel todo r, incl C todo -> subsets fuel ts todo <> Ok r.
Proof.
  intros [Hne Hst]. induction fuel as [|f IH]; intros todo r Hi H.
  - destruct todo; simpl in H; [|discriminate]. destruct C; [congruence|]. apply (Hi n). left; reflexivity.
  - destruct todo as [|t0 todo0].
    + destruct C; [congruence|]. apply (Hi n). left; reflexivity.
    + cbn [subsets] in H. set (todo := t0 :: todo0) in *.
      destruct (ready ts todo) as [|o out] eqn:Hr; [discriminate|]. rewrite <- Hr in H.
      destruct (subsets f ts _) as [r'| |] eqn:Hs; try discriminate.
      refine (IH _ r' _ Hs).
      intros c Hc. apply filter_In. split; [apply Hi; exact Hc|].
      apply negb_true_iff, memb_false. intros Hin. apply In_ready in Hin. destruct Hin as [_ Hb].
      destruct (Hst c Hc) as [p [Hp He]].
      assert (blocked ts todo c = true) by (apply blocked_true; exists p; split; [exact He|apply Hi; exact Hp]).
      congruence. Qed.

(* ---- stuck set <-> an actual cycle (pigeonhole) ---- *)
(* backward walk: each element is a parent of the previous one *)
Inductive bwalk (ts : list edge) : list node -> Prop :=
| bw1 x : bwalk ts [x]
| bwS x y l : In (y, x) ts -> bwalk ts (y :: l) -> bwalk ts (x :: y :: l).

Lemma stuck_walk ts C : stuck ts C -> forall k c, In c C ->
  exists w, length w = S k /\ hd_error w = Some c /\ bwalk ts w /\ incl w C.
Proof.
  intros [_ Hst]. induction k as [|k IH]; intros c Hc.
  - exists [c]. repeat split; [constructor|]. intros x [->|[]]. exact Hc.
  - destruct (Hst c Hc) as [p [Hp He]]. destruct (IH p Hp) as [w [Hl [Hh [Hw Hi]]]].
    destruct w as [|y w']; [discriminate|]. simpl in Hh. inversion Hh; subst y.
    exists (c :: p :: w'). repeat split; simpl in *; [lia| constructor; assumption |].
    intros x [->|Hx]; [exact Hc|apply Hi; exact Hx]. Qed.

Lemma not_NoDup_split (l : list node) : ~ NoDup l -> exists x l1 l2 l3, l = l1 ++ x :: l2 ++ x :: l3.
Proof.
  induction l as [|a l IH]; intros H.
  - exfalso. apply H. constructor.
  - destruct (in_dec N.eq_dec a l) as [Hin|Hnin].
    + apply in_split in Hin. destruct Hin as [l2 [l3 ->]]. exists a, [], l2, l3. reflexivity.
    + assert (~ NoDup l) by (intros Hn; apply H; constructor; assumption).
      destruct (IH H0) as [x [l1 [l2 [l3 ->]]]]. exists x, (a :: l1), l2, l3. reflexivity. Qed.

(* a cycle: a backward walk of length >= 2 from x back to x *)
Definition cycle (ts : list edge) (w : list node) : Prop :=
  exists x m, w = x :: m ++ [x] /\ bwalk ts w.

Lemma bwalk_app_r ts l1 l2 : bwalk ts (l1 ++ l2) -> l2 <> [] -> bwalk ts l2.
Proof. induction l1 as [|a l1 IH]; simpl; intros H Hn; [exact H|].
  destruct (l1 ++ l2) as [|b r] eqn:E.
  - destruct l1; simpl in E; [subst; congruence|discriminate].
  - inversion H; subst. apply IH; assumption. Qed.

Lemma bwalk_app_l ts l1 x l2 : bwalk ts (l1 ++ x :: l2) -> bwalk ts (l1 ++ [x]).
Proof. induction l1 as [|a l1 IH]; simpl; intros H; [constructor|].
  destruct l1 as [|b l1']; simpl in *.
  - inversion H; subst. constructor; [assumption|constructor].
  - inversion H; subst. constructor; [assumption|]. apply IH. assumption. Qed.

Theorem stuck_has_cycle ts C : stuck ts C -> exists w, cycle ts w /\ incl w C.
Proof.
  intros Hst. pose proof Hst as [Hne _]. destruct C as [|c0 C']; [congruence|].
  set (C := c0 :: C') in *.
  destruct (stuck_walk ts C Hst (length (nodup N.eq_dec C)) c0 (or_introl eq_refl)) as [w [Hl [_ [Hw Hi]]]].
  assert (Hnd : ~ NoDup w).
  { intros Hn. assert (incl w (nodup N.eq_dec C)) by (intros x Hx; apply nodup_In; apply Hi; exact Hx).
    pose proof (NoDup_incl_length Hn H) as HL. rewrite Hl in HL. exact (Nat.nle_succ_diag_l _ HL). }
  destruct (not_NoDup_split w Hnd) as [x [l1 [l2 [l3 E]]]]. subst w.
  exists (x :: l2 ++ [x]). split.
  - exists x, l2. split; [reflexivity|].
    apply bwalk_app_r in Hw; [|discriminate].
    change (x :: l2 ++ x :: l3) with ((x :: l2) ++ x :: l3) in Hw.
    apply bwalk_app_l in Hw. exact Hw.
  - intros y Hy. apply Hi. apply in_or_app. right. simpl in Hy. destruct Hy as [->|Hy]; [left; reflexivity|].
    right. apply in_app_or in Hy. apply in_or_app. destruct Hy as [Hy|[->|[]]]; [left; exact Hy|right; left; reflexivity]. Qed.

Lemma cycle_is_stuck ts w : cycle ts w -> stuck ts w.
Proof.
  intros [x [m [-> Hw]]]. split; [discriminate|].
  (* every element of a bwalk except the last has its parent as successor; the last is x whose parent is found from the head *)
  assert (G : forall l, bwalk ts l -> forall c, In c (removelast l) -> exists p, In p l /\ In (p, c) ts).
  { induction 1 as [x0 | x0 y l He Hb IH]; intros c Hc; simpl in Hc; [destruct Hc|].
    destruct Hc as [->|Hc].
    - exists y. split; [right; left; reflexivity|exact He].
    - destruct (IH c Hc) as [p [Hp Hpe]]. exists p. split; [right; exact Hp|exact Hpe]. }
  intros c Hc. 
  assert (Hrl : removelast (x :: m ++ [x]) = x :: m).
  { change (x :: m ++ [x]) with ((x :: m) ++ [x]). apply removelast_last. }
  destruct (in_dec N.eq_dec c (x :: m)) as [Hin|Hnin].
  - apply (G _ Hw). rewrite Hrl. exact Hin.
  - (* c is the final x, which also is the head *)
    assert (c = x).
    { simpl in Hc. destruct Hc as [->|Hc]; [reflexivity|]. apply in_app_or in Hc. destruct Hc as [Hc|[->|[]]]; [|reflexivity].
      exfalso. apply Hnin. right. exact Hc. }
    subst c. exfalso. apply Hnin. left. reflexivity. Qed.

(* ---- the property-level statement for sort_as_subsets ---- *)
Theorem sort_fails_iff_cycle ts items :
  sort_as_subsets ts items = Circular <-> exists w, cycle ts w /\ incl w items.
Proof.
  unfold sort_as_subsets. split.
  - intros H. destruct (circular_gives_stuck _ _ _ H) as [C [Hi Hst]].
    destruct (stuck_has_cycle _ _ Hst) as [w [Hc Hw]]. exists w. split; [exact Hc|].
    intros x Hx. apply Hi, Hw, Hx.
  - intros [w [Hc Hi]]. pose proof (cycle_is_stuck _ _ Hc) as Hst.
    destruct (subsets (length items) ts items) as [r| |] eqn:E; [|reflexivity|].
    + exfalso. exact (stuck_blocks_ok _ _ Hst _ _ r Hi E).
    + exfalso. exact (subsets_fuel_ok _ ts items (le_n _) E). Qed.
