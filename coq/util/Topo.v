(* Model of lib/sqlalchemy/util/topological.py : sort_as_subsets / sort *)
From Coq Require Import List NArith Bool Lia Permutation Arith.
Import ListNotations.

Definition node := N.
Definition edge := (node * node)%type.          (* (parent, child) : parent must come first *)

Inductive res (A : Type) := Ok (a : A) | Circular | OutOfFuel.
Arguments Ok {A} a. Arguments Circular {A}. Arguments OutOfFuel {A}.

Definition memb (x : node) (l : list node) : bool := existsb (N.eqb x) l.

(* edges[child] : the set of parents of [n] *)
Definition parents_of (ts : list edge) (n : node) : list node :=
  map fst (filter (fun e => N.eqb (snd e) n) ts).

(* not todo_set.isdisjoint(edges[node]) *)
Definition blocked (ts : list edge) (todo : list node) (n : node) : bool :=
  existsb (fun p => memb p todo) (parents_of ts n).

Definition ready (ts : list edge) (todo : list node) : list node :=
  filter (fun n => negb (blocked ts todo n)) todo.

Fixpoint subsets (fuel : nat) (ts : list edge) (todo : list node) : res (list (list node)) :=
  match todo with
  | [] => Ok []
  | _ :: _ =>
    match fuel with
    | O => OutOfFuel
    | S f =>
      match ready ts todo with
      | [] => Circular
      | out =>
        match subsets f ts (filter (fun t => negb (memb t out)) todo) with
        | Ok r => Ok (out :: r)
        | Circular => Circular
        | OutOfFuel => OutOfFuel
        end
      end
    end
  end.

Definition sort_as_subsets (ts : list edge) (items : list node) := subsets (length items) ts items.
Definition sort (ts : list edge) (items : list node) : res (list node) :=
  match sort_as_subsets ts items with Ok r => Ok (concat r) | Circular => Circular | OutOfFuel => OutOfFuel end.
