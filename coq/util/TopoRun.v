(* executable entry point for the correspondence check of C19 *)
From Coq Require Import List NArith ZArith Bool.
Import ListNotations.
From SAV.base Require Import Tree.
From SAV.util Require Import Topo Cycles.

Definition as_edge (t : tree) : option edge := as_pair_of as_N as_N t.

Definition dedup (l : list node) : list node :=
  fold_right (fun x acc => if memb x acc then acc else x :: acc) [] l.

Fixpoint insert_sorted (x : N) (l : list N) : list N :=
  match l with [] => [x] | y :: r => if N.leb x y then x :: l else y :: insert_sorted x r end.
Definition sort_nodes (l : list N) : list N := fold_right insert_sorted [] l.

(* canonical iteration orders for the Section variables of Cycles: the theorems hold for every order *)
Definition ord_of (ts : list edge) (a : node) : list node :=
  dedup (map snd (filter (fun e => N.eqb (fst e) a) ts)).
Definition starts_of (ts : list edge) : list node := dedup (map fst ts).

Definition cycles_of (ts : list edge) : option (list node) :=
  find_cycles (ord_of ts) (starts_of ts).

(* input  L [I op; L edges; L items]   op 0 = sort, 1 = sort_as_subsets, 2 = find_cycles
   output L [I 0; result]  |  L [I 1]  (CircularDependencyError)  |  L [I 2] (out of fuel: never) *)
Definition run_case (t : tree) : tree :=
  match t with
  | L [I op; te; ti] =>
    match as_list_of as_edge te, as_list_of as_N ti with
    | Some ts, Some items =>
      if Z.eqb op 0 then
        match sort ts items with
        | Ok r => L [I 0; of_list of_N r]
        | Circular => L [I 1]
        | OutOfFuel => L [I 2]
        end
      else if Z.eqb op 1 then
        match sort_as_subsets ts items with
        | Ok r => L [I 0; of_list (of_list of_N) r]
        | Circular => L [I 1]
        | OutOfFuel => L [I 2]
        end
      else
        match cycles_of ts with
        | Some out => L [I 0; of_list of_N (sort_nodes (dedup out))]
        | None => L [I 2]
        end
    | _, _ => bad_input
    end
  | _ => bad_input
  end.
