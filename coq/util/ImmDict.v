(* C54 - immutabledict (util/_immutabledict_cy.py): executable model.  A dict is an association list
   in insertion order with unique keys.  Definitions only. *)
From Coq Require Import List ZArith Bool.
Import ListNotations.
From SAV.util Require Import OrderedSet.
Open Scope Z_scope.

Definition dict := list (Z * Z).

Fixpoint lookup (k : Z) (d : dict) : option Z :=
  match d with [] => None | (k', v) :: r => if Z.eqb k' k then Some v else lookup k r end.
(* d[k] = v : an existing key keeps its position, a new key goes last *)
Fixpoint put (k v : Z) (d : dict) : dict :=
  match d with
  | [] => [(k, v)]
  | (k', v') :: r => if Z.eqb k' k then (k', v) :: r else (k', v') :: put k v r
  end.
(* dict.update(d, pairs) / PyDict_Update *)
Definition merge (d : dict) (pairs : list (Z * Z)) : dict :=
  fold_left (fun d e => put (fst e) (snd e) d) pairs d.

(* arguments of union / merge_with / | : None, a plain dict, an immutabledict, or a non-dict iterable
   of pairs (duplicate keys allowed) *)
Inductive dkind := DNone | DDict | DImm | DPairs.
Record darg := mkd { dk : dkind; dp : list (Z * Z) }.
Definition content (a : darg) : list (Z * Z) :=
  match dk a with DNone => [] | DPairs => dp a | _ => merge [] (dp a) end.   (* dict(pairs) *)
Definition falsy (a : darg) : bool := match content a with [] => true | _ => false end.
Definition is_dict (a : darg) : bool := match dk a with DDict | DImm => true | _ => false end.

(* the tri-state [only_one]: False, None, or an immutabledict (which object: 0 = self,
   i+1 = others[i]; and its content) *)
Inductive only := OFalse | ONone | OObj (who : Z) (c : dict).

Fixpoint scan (oo : only) (i : Z) (others : list darg) : only :=
  match others with
  | [] => oo
  | d :: r =>
      if falsy d then scan oo (i + 1) r
      else match oo, dk d with
           | OFalse, DImm => scan (OObj (i + 1) (content d)) (i + 1) r
           | _, _ => ONone                                  (* break *)
           end
  end.

(* result: content and identity (0 = self, i+1 = others[i], -1 = a new immutabledict) *)
Definition union_other (self : dict) (others : list darg) : dict * Z :=
  match others with
  | [] => (self, 0)
  | _ =>
    let self_is_empty := match self with [] => true | _ => false end in
    match scan (if self_is_empty then OFalse else OObj 0 self) 0 others with
    | OFalse => (self, 0)
    | OObj who c => (c, who)
    | ONone =>
        let result := if self_is_empty then [] else merge [] self in
        (fold_left (fun res d => if falsy d then res else merge res (content d)) others result, -1)
    end
  end.

Inductive dop :=
| DMutate (which : Z)                    (* __delitem__ __setitem__ __setattr__ clear pop popitem
                                            setdefault update __ior__ : all _immutable_fn(self) *)
| DUnion (adopt : bool) (others : list darg)      (* union / merge_with (alias) *)
| DOr (adopt : bool) (a : darg) | DRor (adopt : bool) (a : darg)
| DCopy | DGet (k : Z) | DLen.

Inductive dret := VNone | VVal (z : Z) | VExc (e : exn) | VDict (d : dict) (who : Z).

Definition dstep (self : dict) (op : dop) : dict * dret :=
  match op with
  | DMutate _ => (self, VExc TypeError)
  | DUnion ad others => let '(r, who) := union_other self others in (if ad then r else self, VDict r who)
  | DOr ad a =>
      if is_dict a then let r := merge (merge [] self) (content a) in (if ad then r else self, VDict r (-1))
      else (self, VExc TypeError)
  | DRor ad a =>
      if is_dict a then let r := merge (merge [] (content a)) self in (if ad then r else self, VDict r (-1))
      else (self, VExc TypeError)
  | DCopy => (self, VDict self 0)
  | DGet k => (self, match lookup k self with Some v => VVal v | None => VExc KeyError end)
  | DLen => (self, VVal (Z.of_nat (length self)))
  end.

Fixpoint drun (d : dict) (ops : list dop) : dict * list dret :=
  match ops with
  | [] => (d, [])
  | op :: r => let '(d1, o) := dstep d op in let '(d2, outs) := drun d1 r in (d2, o :: outs)
  end.

(* ---- specification side ---- *)
Definition keys (d : dict) : list Z := map fst d.
Definition wf_dict (d : dict) : Prop := NoDup (keys d).
(* the value a sequence of pairs finally assigns to k: the last pair with key k *)
Definition last_of (k : Z) (pairs : list (Z * Z)) : option Z := lookup k (rev pairs).
Definition adopts (op : dop) : bool :=
  match op with DUnion ad _ | DOr ad _ | DRor ad _ => ad | _ => false end.
