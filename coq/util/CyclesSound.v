From Coq Require Import List NArith Bool Lia Arith.
Import ListNotations.
From SAV.util Require Import Topo TopoProofs Cycles.

Section Sound.
Variable ts : list edge.
Variable ord : node -> list node.
Hypothesis ord_spec : forall a b, In b (ord a) <-> In (a, b) ts.
Variable starts : list node.

Inductive reach : node -> node -> Prop :=
| r1 a b : In (a, b) ts -> reach a b
| rS a b c : In (a, b) ts -> reach b c -> reach a c.
Definition on_cycle (x : node) := reach x x.
Definition req (a b : node) := a = b \/ reach a b.

Lemma reach_trans a b c : reach a b -> reach b c -> reach a c.
Proof. induction 1; intros; [eapply rS; eassumption | eapply rS; [eassumption|auto]]. Qed.
Lemma req_reach a b c : req a b -> reach b c -> reach a c.
Proof. intros [->|H] H2; [exact H2|eapply reach_trans; eassumption]. Qed.
Lemma reach_req a b c : reach a b -> req b c -> reach a c.
Proof. intros H [<-|H2]; [exact H|eapply reach_trans; eassumption]. Qed.
Lemma req_trans a b c : req a b -> req b c -> req a c.
Proof. intros [->|H] H2; [exact H2|]. right. eapply reach_req; eassumption. Qed.

(* stack, top first: each element is a child of the one below it *)
Fixpoint chain (st : list node) : Prop :=
  match st with
  | b :: ((a :: _) as r) => In (a, b) ts /\ chain r
  | _ => True
  end.

Lemma upto_incl n st x : In x (upto n st) -> In x st.
Proof. induction st as [|y r IH]; simpl; [tauto|]. destruct (N.eqb y n); simpl; intros [->|H]; auto. destruct H. Qed.

Lemma upto_head n y r : In n (y :: r) -> exists l, upto n (y :: r) = y :: l.
Proof. intros _. simpl. destruct (N.eqb y n); eauto. Qed.

(* every element of the recorded segment is reachable from n (or is n) *)
Lemma upto_from_n n : forall st, chain st -> In n st -> forall x, In x (upto n st) -> req n x.
Proof.
  induction st as [|y r IH]; intros Hc Hn x Hx; [destruct Hn|].
  simpl in Hx. destruct (N.eqb y n) eqn:E.
  - apply N.eqb_eq in E. subst y. destruct Hx as [->|[]]. left; reflexivity.
  - assert (Hnr : In n r). { destruct Hn as [->|Hn]; [rewrite N.eqb_refl in E; discriminate|exact Hn]. }
    destruct r as [|a r']; [destruct Hnr|].
    destruct Hc as [He Hc'].
    destruct Hx as [->|Hx].
    + (* x = y, child of a; a is the head of upto n (a::r') *)
      destruct (upto_head n a r' Hnr) as [l Hl].
      assert (req n a) by (apply (IH Hc' Hnr); rewrite Hl; left; reflexivity).
      right. eapply req_reach; [exact H|]. apply r1. exact He.
    + apply (IH Hc' Hnr). exact Hx. Qed.

(* every element of the stack reaches the top (or is the top) *)
Lemma stack_to_top : forall st top r, st = top :: r -> chain st -> forall x, In x st -> req x top.
Proof.
  induction st as [|y r IH]; intros top r0 E Hc x Hx; [discriminate|]. inversion E; subst y r0; clear E.
  destruct Hx as [->|Hx]; [left; reflexivity|].
  destruct r as [|a r']; [destruct Hx|]. destruct Hc as [He Hc'].
  assert (req x a) by (eapply IH; [reflexivity|exact Hc'|exact Hx]).
  right. eapply req_reach; [exact H|]. apply r1. exact He. Qed.

Lemma segment_on_cycle st top r n : st = top :: r -> chain st -> In n st -> In (top, n) ts ->
  forall x, In x (upto n st) -> on_cycle x.
Proof.
  intros E Hc Hn He x Hx. unfold on_cycle.
  assert (H1 : req x top) by (eapply stack_to_top; [exact E|exact Hc|eapply upto_incl; exact Hx]).
  assert (H2 : req n x) by (eapply upto_from_n; eassumption).
  eapply req_reach; [exact H1|]. eapply reach_req; [apply r1; exact He|exact H2]. Qed.

Definition out_ok (out : list node) := forall x, In x out -> on_cycle x.

Lemma scan_sound st top r : st = top :: r -> chain st ->
  forall cs todo out res todo' out', (forall c, In c cs -> In (top, c) ts) -> out_ok out ->
  scan cs st todo out = (res, todo', out') ->
  out_ok out' /\ (forall n, res = Some n -> In (top, n) ts).
Proof.
  intros E Hc. induction cs as [|n cs IH]; intros todo out res todo' out' Hcs Hok H.
  - simpl in H. inversion H; subst. split; [exact Hok|discriminate].
  - cbn [scan] in H.
    set (cyc := if memb n st then upto n st else []) in *.
    assert (Hok1 : out_ok (cyc ++ out)).
    { intros x Hx. apply in_app_or in Hx. destruct Hx as [Hx|Hx]; [|apply Hok; exact Hx].
      unfold cyc in Hx. destruct (memb n st) eqn:M; [|destruct Hx].
      apply memb_In in M. eapply segment_on_cycle; try eassumption. apply Hcs. left; reflexivity. }
    destruct (memb n (minus todo cyc)) eqn:M2.
    + inversion H; subst. split; [exact Hok1|]. intros n0 Hn0. inversion Hn0; subst. apply Hcs. left; reflexivity.
    + eapply IH; [|exact Hok1|exact H]. intros c Hc0. apply Hcs. right. exact Hc0. Qed.

Theorem dfs_sound : forall fuel st todo out todo' out', chain st -> out_ok out ->
  dfs ord fuel st todo out = Some (todo', out') -> out_ok out'.
Proof.
  induction fuel as [|f IH]; intros st todo out todo' out' Hc Hok H.
  - destruct st; simpl in H; [inversion H; subst; exact Hok|discriminate].
  - destruct st as [|top r]; [simpl in H; inversion H; subst; exact Hok|].
    cbn [dfs] in H. destruct (scan (ord top) (top :: r) todo out) as [[res t1] o1] eqn:S.
    destruct (scan_sound (top :: r) top r eq_refl Hc _ _ _ _ _ _ (fun c Hc0 => proj1 (ord_spec top c) Hc0) Hok S) as [Hok1 Hres].
    destruct res as [n|].
    + eapply IH; [|exact Hok1|exact H]. simpl. split; [apply Hres; reflexivity|exact Hc].
    + eapply IH; [|exact Hok1|exact H]. destruct r as [|a r']; simpl in *; [exact I|tauto]. Qed.

Theorem find_cycles_sound : forall out, find_cycles ord starts = Some out -> forall x, In x out -> on_cycle x.
Proof.
  unfold find_cycles. assert (G : forall ss out0 out, out_ok out0 -> outer ord starts ss out0 = Some out -> out_ok out).
  { induction ss as [|v ss IH]; intros out0 out Hok H; simpl in H; [inversion H; subst; exact Hok|].
    destruct (dfs ord _ [v] _ out0) as [[t o]|] eqn:D; [|discriminate].
    eapply IH; [|exact H]. eapply dfs_sound; [|exact Hok|exact D]. exact I. }
  intros out H. eapply G; [|exact H]. intros x []. Qed.
End Sound.
