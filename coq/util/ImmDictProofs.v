(* C54 - immutabledict: union/merge_with/| are the right-biased merge whatever path _union_other
   takes; nothing ever changes the receiver. *)
From Coq Require Import List ZArith Bool Lia.
Import ListNotations.
From SAV.util Require Import OrderedSet OrderedSetProofs ImmDict.
Open Scope Z_scope.

Lemma lookup_put : forall d k v k', lookup k' (put k v d) = if Z.eqb k k' then Some v else lookup k' d.
Proof.
  induction d as [|[a b] d IH]; intros k v k'; simpl; [reflexivity|].
  destruct (a =? k) eqn:E; simpl.
  - apply Z.eqb_eq in E. subst a. destruct (k =? k'); reflexivity.
  - rewrite IH. destruct (a =? k') eqn:E2; [|reflexivity].
    apply Z.eqb_eq in E2. subst a. rewrite Z.eqb_sym, E. reflexivity.
Qed.
Lemma keys_put : forall d k v, keys (put k v d) = r_add (keys d) k.
Proof.
  unfold keys. induction d as [|[a b] d IH]; intros k v; [reflexivity|]. simpl.
  unfold r_add, memz. simpl. rewrite (Z.eqb_sym k a). destruct (a =? k) eqn:E; simpl; [reflexivity|].
  rewrite IH. unfold r_add, memz. destruct (existsb (Z.eqb k) (map fst d)); reflexivity.
Qed.
Lemma keys_merge : forall pairs d, keys (merge d pairs) = fold_left r_add (map fst pairs) (keys d).
Proof.
  unfold merge. induction pairs as [|e r IH]; intros d; simpl; [reflexivity|]. rewrite IH, keys_put. reflexivity.
Qed.
Lemma r_add_NoDup : forall l x, NoDup l -> NoDup (r_add l x).
Proof. intros l x H. exact (rstep_NoDup l (OAdd x) H). Qed.
Lemma wf_put : forall d k v, wf_dict d -> wf_dict (put k v d).
Proof. intros. unfold wf_dict. rewrite keys_put. apply r_add_NoDup, H. Qed.
Lemma wf_merge : forall pairs d, wf_dict d -> wf_dict (merge d pairs).
Proof.
  unfold merge. induction pairs as [|e r IH]; intros d H; simpl; [exact H|]. apply IH, wf_put, H.
Qed.
Lemma lookup_app : forall a b k,
  lookup k (a ++ b) = match lookup k a with Some v => Some v | None => lookup k b end.
Proof.
  induction a as [|[x y] a IH]; intros b k; simpl; [reflexivity|]. destruct (x =? k); [reflexivity|apply IH].
Qed.
(* right-biased: the last pair for k wins, otherwise the old value stays *)
Lemma lookup_merge : forall pairs d k,
  lookup k (merge d pairs) = match last_of k pairs with Some v => Some v | None => lookup k d end.
Proof.
  unfold merge, last_of. induction pairs as [|[a b] r IH]; intros d k; simpl; [reflexivity|].
  rewrite IH, lookup_app. destruct (lookup k (rev r)); [reflexivity|]. simpl. rewrite lookup_put.
  destruct (a =? k); reflexivity.
Qed.
Lemma put_notin : forall d k v, ~ In k (keys d) -> put k v d = d ++ [(k, v)].
Proof.
  induction d as [|[a b] d IH]; intros k v H; simpl; [reflexivity|]. simpl in H.
  destruct (a =? k) eqn:E; [apply Z.eqb_eq in E; tauto|]. rewrite IH; [reflexivity|tauto].
Qed.
Lemma merge_app_id : forall d a, wf_dict (a ++ d) -> merge a d = a ++ d.
Proof.
  unfold merge. induction d as [|[k v] d IH]; intros a H; simpl; [rewrite app_nil_r; reflexivity|].
  unfold wf_dict, keys in H. rewrite map_app in H. simpl in H.
  pose proof (NoDup_remove_2 _ _ _ H) as Hk. rewrite put_notin.
  - rewrite IH; [rewrite <- app_assoc; reflexivity|]. unfold wf_dict, keys.
    rewrite <- app_assoc, map_app. exact H.
  - intros Hi. apply Hk. apply in_or_app. left. exact Hi.
Qed.
Lemma merge_nil_id : forall d, wf_dict d -> merge [] d = d.
Proof. intros d H. apply (merge_app_id d [] H). Qed.
Lemma merge_nil_r : forall d, merge d [] = d.
Proof. reflexivity. Qed.

Lemma wf_content : forall a, is_dict a = true -> wf_dict (content a).
Proof.
  intros [k p]. unfold is_dict, content. destruct k; simpl; try discriminate; intros _;
    apply wf_merge; constructor.
Qed.
Lemma falsy_content : forall a, falsy a = true -> content a = [].
Proof. intros a. unfold falsy. destruct (content a); [reflexivity|discriminate]. Qed.

Definition merge_all (self : dict) (others : list darg) : dict :=
  fold_left merge (map content others) self.

Lemma merge_all_falsy : forall others d, forallb falsy others = true -> merge_all d others = d.
Proof.
  unfold merge_all. induction others as [|a r IH]; intros d H; simpl; [reflexivity|]. simpl in H.
  apply andb_true_iff in H. destruct H as [H1 H2]. rewrite (falsy_content a H1). apply IH, H2.
Qed.
Lemma scan_obj : forall others i w c,
  match scan (OObj w c) i others with
  | OFalse => False
  | OObj w' c' => w' = w /\ c' = c /\ forallb falsy others = true
  | ONone => True
  end.
Proof.
  induction others as [|a r IH]; intros i w c; simpl; [auto|].
  destruct (falsy a); simpl; [apply IH|exact I].
Qed.
Lemma scan_false : forall others i,
  match scan OFalse i others with
  | OFalse => forallb falsy others = true
  | OObj w c => merge_all [] others = c
  | ONone => True
  end.
Proof.
  induction others as [|a r IH]; intros i; simpl; [reflexivity|].
  destruct (falsy a) eqn:Ef; simpl.
  - specialize (IH (i + 1)). destruct (scan OFalse (i + 1) r); auto.
    unfold merge_all in *. simpl. rewrite (falsy_content a Ef). exact IH.
  - destruct (dk a) eqn:Ek; try exact I.
    pose proof (scan_obj r (i + 1) (i + 1) (content a)) as H.
    destruct (scan (OObj (i + 1) (content a)) (i + 1) r); auto. destruct H as [_ [-> Hf]].
    unfold merge_all. simpl. fold (merge_all (merge [] (content a)) r). rewrite (merge_all_falsy r _ Hf).
    apply merge_nil_id, wf_content. unfold is_dict. rewrite Ek. reflexivity.
Qed.
Lemma final_loop : forall others d,
  fold_left (fun res a => if falsy a then res else merge res (content a)) others d = merge_all d others.
Proof.
  unfold merge_all. induction others as [|a r IH]; intros d; simpl; [reflexivity|].
  destruct (falsy a) eqn:E; [rewrite (falsy_content a E)|]; apply IH.
Qed.

Theorem union_other_is_merge : forall self others, wf_dict self ->
  fst (union_other self others) = merge_all self others.
Proof.
  intros self others Hw. unfold union_other. destruct others as [|a r]; [reflexivity|].
  set (os := a :: r). destruct self as [|e s]; cbv zeta.
  - pose proof (scan_false os 0) as H. destruct (scan OFalse 0 os); cbn [fst].
    + symmetry. apply merge_all_falsy, H.
    + apply final_loop.
    + symmetry. exact H.
  - pose proof (scan_obj os 0 0 (e :: s)) as H. destruct (scan (OObj 0 (e :: s)) 0 os); cbn [fst].
    + destruct H.
    + rewrite (merge_nil_id _ Hw). apply final_loop.
    + destruct H as [_ [-> Hf]]. symmetry. apply merge_all_falsy, Hf.
Qed.
Lemma wf_merge_all : forall others d, wf_dict d -> wf_dict (merge_all d others).
Proof.
  unfold merge_all. induction others as [|a r IH]; intros d H; simpl; [exact H|]. apply IH, wf_merge, H.
Qed.

Lemma dstep_wf : forall d op, wf_dict d -> wf_dict (fst (dstep d op)).
Proof.
  intros d op H. destruct op; simpl; try exact H.
  - pose proof (union_other_is_merge d others H) as E. destruct (union_other d others) as [r who].
    simpl in *. destruct adopt; simpl; [subst r; apply wf_merge_all, H|exact H].
  - destruct (is_dict a); simpl; [|exact H]. destruct adopt; simpl; [|exact H].
    apply wf_merge, wf_merge. constructor.
  - destruct (is_dict a); simpl; [|exact H]. destruct adopt; simpl; [|exact H].
    apply wf_merge, wf_merge. constructor.
Qed.

(* every mutator raises TypeError and leaves the dict as it was *)
Theorem mutators_raise : forall d which, dstep d (DMutate which) = (d, VExc TypeError).
Proof. reflexivity. Qed.
(* no operation whatsoever changes the receiver: unless the history moves on to a result
   ([adopt]), the dict is the same after any history *)
Theorem never_mutated : forall ops d, forallb (fun op => negb (adopts op)) ops = true ->
  fst (drun d ops) = d.
Proof.
  induction ops as [|op ops IH]; intros d H; simpl; [reflexivity|]. simpl in H.
  apply andb_true_iff in H. destruct H as [H1 H2]. apply negb_true_iff in H1.
  assert (Hs : fst (dstep d op) = d).
  { destruct op; simpl in *; try reflexivity.
    - destruct (union_other d others). subst adopt. reflexivity.
    - subst adopt. destruct (is_dict a); reflexivity.
    - subst adopt. destruct (is_dict a); reflexivity. }
  destruct (dstep d op) as [d1 o]. simpl in Hs. subst d1. specialize (IH d H2).
  destruct (drun d ops). exact IH.
Qed.
Theorem drun_wf : forall ops d, wf_dict d -> wf_dict (fst (drun d ops)).
Proof.
  induction ops as [|op ops IH]; intros d H; simpl; [exact H|].
  pose proof (dstep_wf d op H) as H1. destruct (dstep d op) as [d1 o]. specialize (IH d1 H1).
  destruct (drun d1 ops). exact IH.
Qed.

(* what | and the reflected | return *)
Theorem or_is_merge : forall d ad a, wf_dict d -> is_dict a = true ->
  snd (dstep d (DOr ad a)) = VDict (merge d (content a)) (-1) /\
  snd (dstep d (DRor ad a)) = VDict (merge (content a) d) (-1).
Proof.
  intros d ad a Hw Ha. simpl. rewrite Ha. simpl. rewrite (merge_nil_id d Hw).
  rewrite (merge_nil_id _ (wf_content a Ha)). split; reflexivity.
Qed.
(* iteration order of a merge: the old keys keep their places, new keys follow in the order of their
   first occurrence *)
Theorem merge_keys : forall d pairs,
  keys (merge d pairs) = keys d ++ unique_list (filter (fun k => negb (memz k (keys d))) (map fst pairs)).
Proof.
  intros. rewrite keys_merge. pose proof (r_update_closed (keys d) [map fst pairs]) as H.
  unfold r_update in H. simpl in H. rewrite app_nil_r in H. exact H.
Qed.
