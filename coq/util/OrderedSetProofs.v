(* C54 - OrderedSet: the (list, set) model refines the duplicate-free-list reference model and keeps
   its invariant, for every method, every argument kind and every history. *)
From Coq Require Import List ZArith Bool Lia.
Import ListNotations.
From SAV.util Require Import OrderedSet.
Open Scope Z_scope.

(* ---------- membership ---------- *)
Lemma memz_In : forall x l, memz x l = true <-> In x l.
Proof.
  intros x l. unfold memz. rewrite existsb_exists. split.
  - intros [y [Hy He]]. apply Z.eqb_eq in He. subst. exact Hy.
  - intros H. exists x. split; [exact H|apply Z.eqb_refl].
Qed.
Lemma memz_false : forall x l, memz x l = false <-> ~ In x l.
Proof. intros. rewrite <- memz_In. destruct (memz x l); split; congruence. Qed.
Lemma memz_ext : forall l1 l2, (forall x, In x l1 <-> In x l2) -> forall x, memz x l1 = memz x l2.
Proof.
  intros l1 l2 H x. destruct (memz x l1) eqn:E1, (memz x l2) eqn:E2; auto.
  - apply memz_In, H, memz_In in E1. congruence.
  - apply memz_In, H, memz_In in E2. congruence.
Qed.
Lemma memz_app : forall x a b, memz x (a ++ b) = memz x a || memz x b.
Proof. intros. unfold memz. apply existsb_app. Qed.

Lemma filter_ext_In : forall (f g : Z -> bool) l,
  (forall a, In a l -> f a = g a) -> filter f l = filter g l.
Proof.
  induction l as [|a l IH]; intros H; simpl; [reflexivity|].
  rewrite (H a (or_introl eq_refl)), IH; [reflexivity|]. intros; apply H; right; assumption.
Qed.
Lemma NoDup_filter : forall (f : Z -> bool) l, NoDup l -> NoDup (filter f l).
Proof.
  induction l as [|a l IH]; intros H; simpl; [constructor|]. inversion H; subst.
  destruct (f a); [constructor; [rewrite filter_In; tauto|auto]|auto].
Qed.
Lemma NoDup_app_disj : forall (a b : list Z), NoDup a -> NoDup b ->
  (forall x, In x a -> ~ In x b) -> NoDup (a ++ b).
Proof.
  induction a as [|x a IH]; intros b Ha Hb Hd; simpl; [exact Hb|]. inversion Ha; subst.
  constructor.
  - rewrite in_app_iff. intros [H|H]; [tauto|]. apply (Hd x); [left; reflexivity|exact H].
  - apply IH; auto. intros y Hy. apply Hd. right; exact Hy.
Qed.

(* ---------- builtin set ---------- *)
Lemma set_add_In : forall x s y, In y (set_add x s) <-> y = x \/ In y s.
Proof.
  intros. unfold set_add. destruct (memz x s) eqn:E; simpl.
  - apply memz_In in E. split; [tauto|]. intros [->|H]; auto.
  - split; intros [H|H]; auto.
Qed.
Lemma set_add_NoDup : forall x s, NoDup s -> NoDup (set_add x s).
Proof.
  intros. unfold set_add. destruct (memz x s) eqn:E; [assumption|].
  constructor; [apply memz_false; exact E|assumption].
Qed.
Lemma set_update_In : forall l s y, In y (set_update s l) <-> In y s \/ In y l.
Proof.
  unfold set_update. induction l as [|x l IH]; intros s y; simpl; [tauto|].
  rewrite IH, set_add_In. split; intros H; intuition.
Qed.
Lemma set_update_NoDup : forall l s, NoDup s -> NoDup (set_update s l).
Proof.
  unfold set_update. induction l as [|x l IH]; intros s H; simpl; [exact H|].
  apply IH, set_add_NoDup, H.
Qed.
Lemma set_del_In : forall x s y, In y (set_del x s) <-> In y s /\ y <> x.
Proof.
  intros. unfold set_del. rewrite filter_In. rewrite negb_true_iff, Z.eqb_neq. intuition.
Qed.
Lemma set_toggle_In : forall s t y,
  In y (set_toggle s t) <-> (In y s /\ ~ In y t) \/ (In y t /\ ~ In y s).
Proof.
  intros. unfold set_toggle. rewrite in_app_iff, !filter_In, !negb_true_iff, !memz_false. tauto.
Qed.
Lemma set_toggle_NoDup : forall s t, NoDup s -> NoDup t -> NoDup (set_toggle s t).
Proof.
  intros. unfold set_toggle. apply NoDup_app_disj; try (apply NoDup_filter; assumption).
  intros x. rewrite !filter_In, !negb_true_iff, !memz_false. tauto.
Qed.

(* ---------- unique_list ---------- *)
Lemma uniq_from_ext : forall l s1 s2, (forall y, memz y s1 = memz y s2) ->
  uniq_from s1 l = uniq_from s2 l.
Proof.
  induction l as [|x l IH]; intros s1 s2 H; simpl; [reflexivity|]. rewrite (H x).
  destruct (memz x s2); [apply IH, H|]. f_equal. apply IH. intros y.
  unfold memz in *. simpl. rewrite (H y). reflexivity.
Qed.
Lemma uniq_from_In : forall l s y, In y (uniq_from s l) <-> In y l /\ ~ In y s.
Proof.
  induction l as [|x l IH]; intros s y; simpl; [tauto|].
  destruct (memz x s) eqn:E.
  - apply memz_In in E. rewrite IH. split; [tauto|]. intros [[->|H] Hn]; tauto.
  - apply memz_false in E. simpl. rewrite IH. simpl. split.
    + intros [->|[H Hn]]; tauto.
    + intros [[->|H] Hn]; [tauto|]. destruct (Z.eq_dec x y); [tauto|right; tauto].
Qed.
Lemma uniq_from_NoDup : forall l s, NoDup (uniq_from s l).
Proof.
  induction l as [|x l IH]; intros s; simpl; [constructor|].
  destruct (memz x s); [apply IH|]. constructor; [|apply IH].
  rewrite uniq_from_In. simpl. tauto.
Qed.
Lemma uniq_from_id : forall l s, NoDup l -> (forall x, In x l -> ~ In x s) -> uniq_from s l = l.
Proof.
  induction l as [|x l IH]; intros s Hn Hd; simpl; [reflexivity|]. inversion Hn; subst.
  destruct (memz x s) eqn:E; [apply memz_In in E; exfalso; apply (Hd x); simpl; auto|].
  f_equal. apply IH; [assumption|]. intros y Hy [->|H]; [tauto|]. apply (Hd y); simpl; auto.
Qed.
Lemma unique_list_In : forall l y, In y (unique_list l) <-> In y l.
Proof. intros. unfold unique_list. rewrite uniq_from_In. simpl. tauto. Qed.
Lemma unique_list_NoDup : forall l, NoDup (unique_list l).
Proof. intros. apply uniq_from_NoDup. Qed.
Lemma unique_list_id : forall l, NoDup l -> unique_list l = l.
Proof. intros. apply uniq_from_id; auto. Qed.
Lemma uniq_from_skip : forall l s x, ~ In x l -> uniq_from (x :: s) l = uniq_from s l.
Proof.
  induction l as [|y l IH]; intros s x H; simpl; [reflexivity|].
  assert (Hxy : x <> y) by (intros ->; apply H; left; reflexivity).
  assert (Hl : ~ In x l) by (intros H1; apply H; right; exact H1).
  unfold memz at 1. simpl. fold (memz y s). replace (y =? x) with false
    by (symmetry; apply Z.eqb_neq; congruence). simpl.
  destruct (memz y s); [apply IH, Hl|]. f_equal.
  rewrite (uniq_from_ext l (y :: x :: s) (x :: y :: s)); [apply IH, Hl|].
  intros z. unfold memz. simpl. destruct (z =? y), (z =? x); reflexivity.
Qed.
Lemma filter_uniq_from : forall (P : Z -> bool) l s,
  filter P (uniq_from s l) = uniq_from s (filter P l).
Proof.
  induction l as [|x l IH]; intros s; simpl; [reflexivity|].
  destruct (P x) eqn:EP; simpl.
  - destruct (memz x s); [apply IH|]. simpl. rewrite EP. f_equal. apply IH.
  - destruct (memz x s); [apply IH|]. simpl. rewrite EP, IH. apply uniq_from_skip.
    rewrite filter_In. intros [_ H]. congruence.
Qed.
Lemma uniq_from_app_seen : forall c s l,
  uniq_from (s ++ l) c = uniq_from s (filter (fun a => negb (memz a l)) c).
Proof.
  induction c as [|x c IH]; intros s l; simpl; [reflexivity|].
  rewrite memz_app. destruct (memz x l) eqn:El; simpl.
  - rewrite orb_true_r. apply IH.
  - rewrite orb_false_r. destruct (memz x s); [apply IH|]. f_equal. apply (IH (x :: s) l).
Qed.

(* ---------- reference model: closed forms and set semantics ---------- *)
Lemma r_update_fold : forall c l, fold_left r_add c l = l ++ uniq_from l c.
Proof.
  induction c as [|x c IH]; intros l; simpl; [rewrite app_nil_r; reflexivity|].
  unfold r_add at 2. destruct (memz x l) eqn:E; [apply IH|].
  rewrite IH, <- app_assoc. simpl. do 2 f_equal. apply uniq_from_ext.
  intros y. rewrite memz_app. unfold memz. simpl. rewrite orb_false_r. apply orb_comm.
Qed.
(* order = first insertion: the old elements keep their places, the new ones follow in the order of
   their first occurrence in the arguments *)
Lemma r_update_closed : forall l seqs,
  r_update l seqs = l ++ unique_list (filter (fun a => negb (memz a l)) (concat seqs)).
Proof.
  intros. unfold r_update. rewrite r_update_fold. f_equal. unfold unique_list.
  rewrite <- (uniq_from_app_seen (concat seqs) [] l). reflexivity.
Qed.
Lemma r_update_In : forall l seqs x,
  In x (r_update l seqs) <-> In x l \/ exists s, In s seqs /\ In x s.
Proof.
  intros. rewrite r_update_closed, in_app_iff, unique_list_In, filter_In, negb_true_iff, memz_false.
  rewrite in_concat. split.
  - intros [H|[[s [H1 H2]] _]]; [left; exact H|right; exists s; tauto].
  - intros [H|[s [H1 H2]]]; [left; exact H|]. destruct (in_dec Z.eq_dec x l); [left; assumption|].
    right. split; [exists s; tauto|assumption].
Qed.
Lemma r_update_NoDup : forall l seqs, NoDup l -> NoDup (r_update l seqs).
Proof.
  intros. rewrite r_update_closed. apply NoDup_app_disj; [assumption|apply unique_list_NoDup|].
  intros x Hx. rewrite unique_list_In, filter_In, negb_true_iff, memz_false. tauto.
Qed.
Lemma in_all_spec : forall sets a, in_all sets a = true <-> forall s, In s sets -> In a s.
Proof.
  intros. unfold in_all. rewrite forallb_forall. split; intros H s Hs.
  - apply memz_In, H, Hs.
  - apply memz_In, H, Hs.
Qed.
Lemma in_none_spec : forall sets a, in_none sets a = true <-> forall s, In s sets -> ~ In a s.
Proof.
  intros. unfold in_none. rewrite negb_true_iff. split.
  - intros H s Hs Ha. assert (existsb (memz a) sets = true); [|congruence].
    apply existsb_exists. exists s. split; [exact Hs|apply memz_In, Ha].
  - intros H. destruct (existsb (memz a) sets) eqn:E; [|reflexivity].
    apply existsb_exists in E. destruct E as [s [Hs Ha]]. apply memz_In in Ha.
    exfalso. exact (H s Hs Ha).
Qed.
Lemma r_inter_In : forall l sets x,
  In x (r_inter l sets) <-> In x l /\ forall s, In s sets -> In x s.
Proof. intros. unfold r_inter. rewrite filter_In, in_all_spec. tauto. Qed.
Lemma r_diff_In : forall l sets x,
  In x (r_diff l sets) <-> In x l /\ forall s, In s sets -> ~ In x s.
Proof. intros. unfold r_diff. rewrite filter_In, in_none_spec. tauto. Qed.
Lemma r_sym_In : forall l c x,
  In x (r_sym l c) <-> (In x l /\ ~ In x c) \/ (In x c /\ ~ In x l).
Proof.
  intros. unfold r_sym.
  rewrite in_app_iff, unique_list_In, !filter_In, !negb_true_iff, !memz_false. tauto.
Qed.
Lemma r_sym_NoDup : forall l c, NoDup l -> NoDup (r_sym l c).
Proof.
  intros. unfold r_sym. apply NoDup_app_disj; [apply NoDup_filter; assumption|apply unique_list_NoDup|].
  intros x. rewrite unique_list_In, !filter_In, !negb_true_iff, !memz_false. tauto.
Qed.
Lemma r_del_In : forall l x y, In y (r_del l x) <-> In y l /\ y <> x.
Proof. intros. unfold r_del. rewrite filter_In, negb_true_iff, Z.eqb_neq. intuition. Qed.

(* ---------- Python list primitives under NoDup ---------- *)
Lemma list_remove_NoDup : forall x l, NoDup l -> In x l -> list_remove x l = Some (r_del l x).
Proof.
  induction l as [|y l IH]; intros Hn Hi; [destruct Hi|]. inversion Hn; subst. simpl.
  destruct (x =? y) eqn:E; simpl.
  - apply Z.eqb_eq in E. subst y. f_equal. symmetry. unfold r_del.
    rewrite (filter_ext_In _ (fun _ => true)).
    + clear. induction l; simpl; congruence.
    + intros a Ha. apply negb_true_iff, Z.eqb_neq. intros ->. tauto.
  - apply Z.eqb_neq in E. destruct Hi as [->|Hi]; [congruence|]. rewrite (IH H2 Hi). reflexivity.
Qed.
Lemma list_insert_In : forall pos x l y, In y (list_insert pos x l) <-> y = x \/ In y l.
Proof.
  intros. unfold list_insert. set (p := Z.to_nat _).
  assert (Hs : In y l <-> In y (firstn p l) \/ In y (skipn p l))
    by (rewrite <- in_app_iff, firstn_skipn; tauto).
  rewrite in_app_iff. simpl. rewrite Hs. split; intros H; intuition.
Qed.
Lemma list_insert_NoDup : forall pos x l, NoDup l -> ~ In x l -> NoDup (list_insert pos x l).
Proof.
  intros pos x l Hn Hx. unfold list_insert. set (p := Z.to_nat _).
  rewrite <- (firstn_skipn p l) in Hn, Hx. apply (NoDup_Add (Add_app x _ _)). split; assumption.
Qed.

(* ---------- the methods of the model ---------- *)
Lemma from_list_inv : forall l, NoDup l -> inv (from_list l).
Proof.
  intros l H. unfold inv, from_list; simpl. split; [exact H|]. split.
  - apply set_update_NoDup. constructor.
  - intros x. rewrite set_update_In. simpl. tauto.
Qed.
Lemma inv_mem : forall st x, inv st -> memz x (os st) = memz x (ol st).
Proof. intros st x [_ [_ H]]. apply memz_ext. intros y. symmetry. apply H. Qed.
Lemma memz_filter : forall (P : Z -> bool) s a, memz a (filter P s) = memz a s && P a.
Proof.
  intros. destruct (memz a (filter P s)) eqn:E.
  - apply memz_In, filter_In in E. destruct E as [E1 E2]. apply memz_In in E1. rewrite E1, E2. reflexivity.
  - destruct (memz a s) eqn:E1, (P a) eqn:E2; try reflexivity.
    apply memz_In in E1. assert (In a (filter P s)) by (apply filter_In; tauto).
    apply memz_In in H. congruence.
Qed.

Lemma o_add_ref : forall st x, inv st -> inv (o_add st x) /\ ol (o_add st x) = r_add (ol st) x.
Proof.
  intros st x Hi. unfold o_add, r_add. rewrite (inv_mem st x Hi).
  destruct (memz x (ol st)) eqn:E; [tauto|]. simpl. split; [|reflexivity].
  destruct Hi as [H1 [H2 H3]]. apply memz_false in E. unfold inv; simpl. repeat split.
  - apply NoDup_app_disj; auto.
    + constructor; [simpl; tauto|constructor].
    + intros y Hy [->|[]]. tauto.
  - apply set_add_NoDup; auto.
  - rewrite in_app_iff, set_add_In; simpl. intros [H|[->|[]]]; [right; apply H3; auto|left; auto].
  - rewrite in_app_iff, set_add_In; simpl. intros [->|H]; [right; left; auto|left; apply H3; auto].
Qed.
Lemma o_update_ref : forall seqs st, inv st ->
  inv (o_update st seqs) /\ ol (o_update st seqs) = r_update (ol st) seqs.
Proof.
  intros seqs. unfold o_update, r_update. induction (concat seqs) as [|x c IH]; intros st Hi; simpl.
  - tauto.
  - destruct (o_add_ref st x Hi) as [Hi' He]. rewrite <- He. apply IH, Hi'.
Qed.

Definition mem_eq (s s' : list Z) : Prop := forall x, memz x s = memz x s'.
Lemma in_all_cong : forall sets sets' a, Forall2 mem_eq sets sets' -> in_all sets a = in_all sets' a.
Proof.
  intros sets sets' a H. unfold in_all. induction H; simpl; [reflexivity|]. rewrite (H a), IHForall2. reflexivity.
Qed.
Lemma in_none_cong : forall sets sets' a, Forall2 mem_eq sets sets' -> in_none sets a = in_none sets' a.
Proof.
  intros sets sets' a H. unfold in_none. f_equal. induction H; simpl; [reflexivity|].
  rewrite (H a), IHForall2. reflexivity.
Qed.

(* shared core of intersection / difference and their _update forms *)
Lemma filter_set_list : forall (P P' : Z -> bool) st, inv st -> (forall a, P a = P' a) ->
  filter (fun a => memz a (filter P (os st))) (ol st) = filter P' (ol st).
Proof.
  intros P P' st Hi He. apply filter_ext_In. intros a Ha. rewrite memz_filter, (inv_mem st a Hi).
  apply memz_In in Ha. rewrite Ha, He. reflexivity.
Qed.
Lemma filter_update_inv : forall (P : Z -> bool) st, inv st ->
  inv (mk (filter (fun a => memz a (filter P (os st))) (ol st)) (filter P (os st))).
Proof.
  intros P st Hi. pose proof Hi as [H1 [H2 H3]]. unfold inv; simpl.
  split; [apply NoDup_filter, H1|]. split; [apply NoDup_filter, H2|].
  intros x. rewrite !filter_In, memz_In, filter_In. split.
  - tauto.
  - intros [Ha Hp]. split; [apply H3, Ha|tauto].
Qed.

Lemma o_intersection_ref : forall st sets sets', inv st -> Forall2 mem_eq sets sets' ->
  inv (o_intersection st sets) /\ ol (o_intersection st sets) = r_inter (ol st) sets'.
Proof.
  intros st sets sets' Hi Hs. unfold o_intersection, r_inter.
  rewrite (filter_set_list (in_all sets) (in_all sets') st Hi (fun a => in_all_cong _ _ a Hs)).
  split; [apply from_list_inv, NoDup_filter, Hi|reflexivity].
Qed.
Lemma o_difference_ref : forall st sets sets', inv st -> Forall2 mem_eq sets sets' ->
  inv (o_difference st sets) /\ ol (o_difference st sets) = r_diff (ol st) sets'.
Proof.
  intros st sets sets' Hi Hs. unfold o_difference, r_diff.
  rewrite (filter_set_list (in_none sets) (in_none sets') st Hi (fun a => in_none_cong _ _ a Hs)).
  split; [apply from_list_inv, NoDup_filter, Hi|reflexivity].
Qed.
Lemma o_intersection_update_ref : forall st sets sets', inv st -> Forall2 mem_eq sets sets' ->
  inv (o_intersection_update st sets) /\ ol (o_intersection_update st sets) = r_inter (ol st) sets'.
Proof.
  intros st sets sets' Hi Hs. unfold o_intersection_update, r_inter. split.
  - apply filter_update_inv, Hi.
  - simpl. apply filter_set_list; [exact Hi|]. intros a. apply in_all_cong, Hs.
Qed.
Lemma o_difference_update_ref : forall st sets sets', inv st -> Forall2 mem_eq sets sets' ->
  inv (o_difference_update st sets) /\ ol (o_difference_update st sets) = r_diff (ol st) sets'.
Proof.
  intros st sets sets' Hi Hs. unfold o_difference_update, r_diff. split.
  - apply filter_update_inv, Hi.
  - simpl. apply filter_set_list; [exact Hi|]. intros a. apply in_none_cong, Hs.
Qed.

Lemma o_symmetric_difference_ref : forall st c cs, inv st -> mem_eq cs c ->
  inv (o_symmetric_difference st c cs) /\ ol (o_symmetric_difference st c cs) = r_sym (ol st) c.
Proof.
  intros st c cs Hi Hc. unfold o_symmetric_difference.
  set (l0 := filter (fun a => negb (memz a cs)) (ol st)).
  assert (Hi0 : inv (from_list l0)) by (apply from_list_inv, NoDup_filter, Hi).
  destruct (o_update_ref [filter (fun a => negb (memz a (os st))) c] (from_list l0) Hi0) as [Hi1 He].
  split; [exact Hi1|]. rewrite He. simpl ol. rewrite r_update_closed. simpl concat. rewrite app_nil_r.
  unfold r_sym. subst l0. f_equal.
  - apply filter_ext_In. intros a _. rewrite (Hc a). reflexivity.
  - f_equal. rewrite (filter_ext_In (fun a => negb (memz a (os st))) (fun a => negb (memz a (ol st))))
      by (intros a _; rewrite (inv_mem st a Hi); reflexivity).
    rewrite (filter_ext_In _ (fun _ => true)).
    + clear. induction (filter _ c); simpl; congruence.
    + intros a Ha. apply filter_In in Ha. destruct Ha as [_ Ha].
      apply negb_true_iff. apply negb_true_iff in Ha. rewrite memz_filter, Ha. reflexivity.
Qed.

Lemma o_symmetric_difference_update_ref : forall st c cs, inv st -> mem_eq cs c -> NoDup cs ->
  inv (o_symmetric_difference_update st c cs) /\
  ol (o_symmetric_difference_update st c cs) = r_sym (ol st) c.
Proof.
  intros st c cs Hi Hc Hn. pose proof Hi as [H1 [H2 H3]]. unfold o_symmetric_difference_update.
  set (s' := set_toggle (os st) cs).
  assert (Hm : forall a, memz a s' = xorb (memz a (ol st)) (memz a c)).
  { intros a. rewrite <- (Hc a), <- (inv_mem st a Hi). subst s'.
    destruct (memz a (set_toggle (os st) cs)) eqn:E.
    - apply memz_In, set_toggle_In in E. rewrite <- !memz_false, <- !memz_In in E.
      destruct E as [[-> ->]|[-> ->]]; reflexivity.
    - destruct (memz a (os st)) eqn:Ea, (memz a cs) eqn:Eb; try reflexivity; exfalso;
        apply memz_false in E; apply E, set_toggle_In; rewrite <- !memz_false, <- !memz_In; tauto. }
  assert (Hl : filter (fun a => memz a s') (ol st) ++ filter (fun a => memz a s') (unique_list c)
               = r_sym (ol st) c).
  { unfold r_sym. f_equal.
    - apply filter_ext_In. intros a Ha. apply memz_In in Ha. rewrite Hm, Ha. reflexivity.
    - unfold unique_list. rewrite <- filter_uniq_from. apply filter_ext_In. intros a Ha.
      apply uniq_from_In in Ha. destruct Ha as [Ha _]. apply memz_In in Ha. rewrite Hm, Ha.
      apply xorb_true_r. }
  split; [|exact Hl]. unfold inv. simpl ol. simpl os. rewrite Hl. split; [apply r_sym_NoDup, H1|].
  split; [apply set_toggle_NoDup; assumption|].
  intros x. rewrite r_sym_In. subst s'. rewrite set_toggle_In.
  rewrite <- (H3 x). rewrite <- !memz_false, <- !memz_In, (Hc x). tauto.
Qed.

(* ---------- arguments ---------- *)
Lemma aseq_rseq : forall st a, aseq st a = rseq (ol st) a.
Proof. intros st [k e]. destruct k; reflexivity. Qed.
Lemma aset_mem : forall st a, inv st -> mem_eq (aset st a) (rseq (ol st) a).
Proof.
  intros st [k e] Hi x. destruct k; unfold aset, rseq; simpl; try reflexivity.
  - apply memz_ext. intros y. rewrite set_update_In. simpl. tauto.
  - apply memz_ext. intros y. rewrite set_update_In. simpl. tauto.
  - apply memz_ext. intros y. rewrite set_update_In. simpl. tauto.
  - apply inv_mem, Hi.
Qed.
Lemma aset_NoDup : forall st a, inv st -> wf_arg a -> NoDup (aset st a).
Proof.
  intros st [k e] Hi Hw. destruct k; unfold aset; simpl; try exact Hw;
    try (apply set_update_NoDup; constructor). apply Hi.
Qed.
Lemma asets_mem : forall st args, inv st ->
  Forall2 mem_eq (map (aset st) args) (map (rseq (ol st)) args).
Proof. intros st args Hi. induction args; simpl; constructor; [apply aset_mem, Hi|assumption]. Qed.

Lemma oinit_ref : forall d, match d with Some a => wf_arg a | None => True end ->
  inv (oinit d) /\ ol (oinit d) = rinit d.
Proof.
  intros [[k e]|] Hw; [|split; [repeat constructor; simpl; tauto|reflexivity]].
  unfold oinit, oinit_seq, rinit, aseq, rseq; destruct k; simpl in *;
    try (rewrite (unique_list_id e Hw); split; [apply from_list_inv, Hw|reflexivity]);
    try (split; [apply from_list_inv, unique_list_NoDup|reflexivity]).
  - rewrite (unique_list_id (unique_list e) (unique_list_NoDup e)).
    split; [apply from_list_inv, unique_list_NoDup|reflexivity].
  - split; [apply from_list_inv; constructor|reflexivity].
Qed.

(* ---------- one step, then every history ---------- *)
Lemma r_del_notin : forall l x, ~ In x l -> r_del l x = l.
Proof.
  intros l x H. unfold r_del. rewrite (filter_ext_In _ (fun _ => true)).
  - clear. induction l; simpl; congruence.
  - intros a Ha. apply negb_true_iff, Z.eqb_neq. intros ->. tauto.
Qed.
Lemma remove_inv : forall st x, inv st -> In x (ol st) ->
  inv (mk (r_del (ol st) x) (set_del x (os st))).
Proof.
  intros st x [H1 [H2 H3]] Hx. unfold inv; simpl. split; [apply NoDup_filter, H1|].
  split; [apply NoDup_filter, H2|]. intros y. rewrite r_del_In, set_del_In, (H3 y). tauto.
Qed.
Lemma o_remove_ref : forall st x, inv st -> In x (ol st) ->
  o_remove st x = (mk (r_del (ol st) x) (set_del x (os st)), RNone).
Proof.
  intros st x Hi Hx. unfold o_remove. rewrite (inv_mem st x Hi).
  replace (memz x (ol st)) with true by (symmetry; apply memz_In, Hx).
  rewrite (list_remove_NoDup x (ol st)); [reflexivity|apply Hi|exact Hx].
Qed.

Lemma rev_cons_NoDup : forall (l r : list Z) v, rev l = v :: r -> l = rev r ++ [v].
Proof. intros l r v H. rewrite <- (rev_involutive l), H. reflexivity. Qed.

Lemma ostep_ref : forall st op, inv st -> wf_op op ->
  inv (fst (ostep st op)) /\ ol (fst (ostep st op)) = fst (rstep (ol st) op) /\
  abs_ret (snd (ostep st op)) = snd (rstep (ol st) op) /\ ret_inv (snd (ostep st op)).
Proof.
  intros st op Hi Hw. pose proof Hi as [H1 [H2 H3]].
  destruct op; unfold wf_op in Hw; simpl op_args in Hw; cbn [ostep rstep].
  - (* add *) destruct (o_add_ref st x Hi). simpl. tauto.
  - (* remove *) destruct (memz x (ol st)) eqn:E.
    + apply memz_In in E. rewrite (o_remove_ref st x Hi E). simpl.
      split; [apply remove_inv; assumption|tauto].
    + unfold o_remove. rewrite (inv_mem st x Hi), E. simpl. tauto.
  - (* pop *) unfold o_pop. destruct (rev (ol st)) as [|v r] eqn:E; [simpl; tauto|].
    pose proof (rev_cons_NoDup _ _ _ E) as El.
    assert (Hv : In v (ol st)) by (rewrite El, in_app_iff; simpl; tauto).
    rewrite (inv_mem st v Hi). replace (memz v (ol st)) with true by (symmetry; apply memz_In, Hv).
    simpl. split; [|tauto]. rewrite El in H1. unfold inv; simpl.
    assert (Hnv : ~ In v (rev r)).
    { apply NoDup_remove_2 in H1. rewrite app_nil_r in H1. exact H1. }
    split; [apply NoDup_remove_1 in H1; rewrite app_nil_r in H1; exact H1|].
    split; [apply NoDup_filter, H2|]. intros y. rewrite set_del_In, <- (H3 y), El, in_app_iff. simpl.
    split; [intros H; split; [tauto|intros ->; tauto]|]. intros [[H|[->|[]]] Hne]; tauto.
  - (* insert *) unfold o_insert. rewrite (inv_mem st x Hi).
    destruct (memz x (ol st)) eqn:E; simpl; [tauto|]. apply memz_false in E.
    split; [|tauto]. unfold inv; simpl. split; [apply list_insert_NoDup; assumption|].
    split; [apply set_add_NoDup, H2|]. intros y. rewrite list_insert_In, set_add_In, (H3 y). tauto.
  - (* discard *) unfold o_discard. rewrite (inv_mem st x Hi). destruct (memz x (ol st)) eqn:E.
    + apply memz_In in E. rewrite (o_remove_ref st x Hi E). simpl.
      split; [apply remove_inv; assumption|tauto].
    + apply memz_false in E. simpl. rewrite (r_del_notin _ _ E). tauto.
  - (* clear *) simpl. split; [repeat constructor; simpl; tauto|tauto].
  - (* getitem *) simpl. destruct (list_index k (ol st)); simpl; tauto.
  - (* contains *) simpl. rewrite (inv_mem st x Hi). tauto.
  - (* len *) simpl. split; [exact Hi|]. split; [reflexivity|]. split; [|exact I]. do 2 f_equal.
    apply Nat.le_antisymm; apply NoDup_incl_length; auto; intros y; apply H3.
  - (* update *) simpl. destruct (o_update_ref (map (aseq st) args) st Hi) as [Ha Hb].
    rewrite (map_ext _ _ (aseq_rseq st)) in Hb. tauto.
  - (* intersection_update *) simpl.
    destruct (o_intersection_update_ref st _ _ Hi (asets_mem st args Hi)). tauto.
  - (* difference_update *) simpl.
    destruct (o_difference_update_ref st _ _ Hi (asets_mem st args Hi)). tauto.
  - (* symmetric_difference_update *) simpl. rewrite aseq_rseq.
    destruct (o_symmetric_difference_update_ref st (rseq (ol st) a) (aset st a) Hi (aset_mem st a Hi))
      as [Ha Hb]; [apply aset_NoDup; [exact Hi|inversion Hw; assumption]|]. tauto.
  - (* copy *) assert (inv (from_list (ol st))) by (apply from_list_inv, H1).
    destruct adopt; cbn [pure rpure fst snd abs_ret ret_inv]; intuition congruence.
  - (* union *) unfold o_union.
    destruct (o_update_ref (map (aseq st) args) (from_list (ol st)) (from_list_inv _ H1)) as [Ha Hb].
    rewrite (map_ext _ _ (aseq_rseq st)) in Hb. simpl ol in Hb.
    rewrite (map_ext _ _ (aseq_rseq st)) in Ha. rewrite (map_ext _ _ (aseq_rseq st)).
    destruct adopt; cbn [pure rpure fst snd abs_ret ret_inv]; intuition congruence.
  - (* intersection *)
    destruct (o_intersection_ref st _ _ Hi (asets_mem st args Hi)). destruct adopt; cbn [pure rpure fst snd abs_ret ret_inv]; intuition congruence.
  - (* difference *)
    destruct (o_difference_ref st _ _ Hi (asets_mem st args Hi)). destruct adopt; cbn [pure rpure fst snd abs_ret ret_inv]; intuition congruence.
  - (* symmetric_difference *) rewrite aseq_rseq.
    destruct (o_symmetric_difference_ref st (rseq (ol st) a) (aset st a) Hi (aset_mem st a Hi)).
    destruct adopt; cbn [pure rpure fst snd abs_ret ret_inv]; intuition congruence.
Qed.

Lemma orun_ref : forall ops st, inv st -> Forall wf_op ops ->
  inv (fst (orun st ops)) /\ ol (fst (orun st ops)) = fst (rrun (ol st) ops) /\
  map abs_ret (snd (orun st ops)) = snd (rrun (ol st) ops) /\ Forall ret_inv (snd (orun st ops)).
Proof.
  induction ops as [|op ops IH]; intros st Hi Hw; simpl; [split; [exact Hi|]; split; [reflexivity|]; split; [reflexivity|constructor]|].
  pose proof (Forall_inv Hw) as Hw1. pose proof (Forall_inv_tail Hw) as Hw2.
  destruct (ostep_ref st op Hi Hw1) as [Ha [Hb [Hc Hd]]].
  destruct (ostep st op) as [st1 o]. destruct (rstep (ol st) op) as [l1 o']. simpl in *. subst l1.
  destruct (IH st1 Ha Hw2) as [Ia [Ib [Ic Id]]].
  destruct (orun st1 ops) as [st2 os']. destruct (rrun (ol st1) ops) as [l2 os'']. simpl in *.
  split; [exact Ia|]. split; [exact Ib|]. split; [congruence|constructor; assumption].
Qed.

(* a whole history starting at the constructor *)
Theorem oset_history : forall d ops,
  match d with Some a => wf_arg a | None => True end -> Forall wf_op ops ->
  let '(st, outs) := orun (oinit d) ops in
  let '(l, outs') := rrun (rinit d) ops in
  inv st /\ ol st = l /\ map abs_ret outs = outs' /\ Forall ret_inv outs.
Proof.
  intros d ops Hd Hw. destruct (oinit_ref d Hd) as [Hi He].
  pose proof (orun_ref ops (oinit d) Hi Hw) as H. rewrite He in H.
  destruct (orun (oinit d) ops), (rrun (rinit d) ops). exact H.
Qed.

(* the reference model never leaves the duplicate-free lists, and never raises ValueError (so the
   model cannot either: list.remove after set.remove always finds its element) *)
Lemma rstep_NoDup : forall l op, NoDup l -> NoDup (fst (rstep l op)).
Proof.
  intros l op H. destruct op; cbn [rstep]; simpl; try assumption;
    try (destruct adopt; simpl; try assumption);
    try (apply NoDup_filter; assumption); try (apply r_update_NoDup; assumption);
    try (apply r_sym_NoDup; assumption); try constructor.
  - unfold r_add. destruct (memz x l) eqn:E; [assumption|]. apply memz_false in E.
    apply NoDup_app_disj; auto; [repeat constructor; simpl; tauto|]. intros y Hy [->|[]]. tauto.
  - destruct (memz x l); simpl; [apply NoDup_filter|]; assumption.
  - destruct (rev l) as [|v r] eqn:E; simpl; [assumption|]. apply rev_cons_NoDup in E. rewrite E in H.
    apply NoDup_remove_1 in H. rewrite app_nil_r in H. exact H.
  - destruct (memz x l) eqn:E; [assumption|]. apply list_insert_NoDup; [assumption|apply memz_false, E].
Qed.
Lemma rstep_no_internal_error : forall l op, snd (rstep l op) <> QExc ValueError /\ snd (rstep l op) <> QExc TypeError.
Proof.
  intros l op. destruct op; cbn [rstep]; simpl; try (split; discriminate);
    try (destruct adopt; split; discriminate).
  - destruct (memz x l); split; discriminate.
  - destruct (rev l); split; discriminate.
  - destruct (list_index k l); split; discriminate.
Qed.
Lemma ostep_no_internal_error : forall st op, inv st -> wf_op op ->
  snd (ostep st op) <> RExc ValueError /\ snd (ostep st op) <> RExc TypeError.
Proof.
  intros st op Hi Hw. destruct (ostep_ref st op Hi Hw) as [_ [_ [H _]]].
  destruct (rstep_no_internal_error (ol st) op) as [H1 H2].
  split; intros E; rewrite E in H; simpl in H; congruence.
Qed.
