(* C54 - IdentitySet (util/_collections_cy.py): executable model as written: [_members] is an
   insertion-ordered dict  id(obj) -> obj.  An object is its identity (the integer id() returns);
   its *value* (what == and hash look at) is [valof oid], so two distinct identities may carry equal
   values.  The reference model is the OrderedSet reference model over identities. Definitions only. *)
From Coq Require Import List ZArith Bool.
Import ListNotations.
From SAV.util Require Import OrderedSet.
Open Scope Z_scope.

Definition imap := list (Z * Z).          (* insertion-ordered dict, unique keys *)

Definition get_id (o : Z) : Z := o.
Definition d_has (k : Z) (m : imap) : bool := memz k (map fst m).
Fixpoint d_get (k : Z) (m : imap) : option Z :=
  match m with [] => None | (k', v) :: r => if Z.eqb k' k then Some v else d_get k r end.
(* m[k] = v : an existing key keeps its position *)
Fixpoint d_set (k v : Z) (m : imap) : imap :=
  match m with
  | [] => [(k, v)]
  | (k', v') :: r => if Z.eqb k' k then (k', v) :: r else (k', v') :: d_set k v r
  end.
Definition d_drop (k : Z) (m : imap) : imap := filter (fun e => negb (Z.eqb (fst e) k)) m.
Definition d_update (m m2 : imap) : imap := fold_left (fun m e => d_set (fst e) (snd e) m) m2 m.
(* for obj in iterable: members[_get_id(obj)] = obj   /   {_get_id(obj): obj for obj in iterable} *)
Definition d_of_objs (m : imap) (objs : list Z) : imap :=
  fold_left (fun m o => d_set (get_id o) o m) objs m.
Definition d_keys (m : imap) : list Z := map fst m.
Definition keys_le (m1 m2 : imap) : bool := forallb (fun k => d_has k m2) (d_keys m1).

Section WithValues.
Variable valof : Z -> Z.
(* PyObject_RichCompare(a, b, Py_EQ) as used by dict ==: identity shortcut, then __eq__ *)
Definition obj_eq (a b : Z) : bool := Z.eqb a b || Z.eqb (valof a) (valof b).
Definition d_eq (m1 m2 : imap) : bool :=
  Nat.eqb (length m1) (length m2) &&
  forallb (fun e => match d_get (fst e) m2 with Some v => obj_eq (snd e) v | None => false end) m1.

Inductive ikind := IKISet | IKList | IKIter | IKSelf.
Record iarg := mkia { ik : ikind; io : list Z }.
Definition is_iset (a : iarg) : bool := match ik a with IKISet | IKSelf => true | _ => false end.

(* IdentitySet(iterable): the [if iterable:] guard only skips an update that would do nothing *)
Definition i_init (objs : list Z) : imap := d_of_objs [] objs.
(* ._members of an argument that is an IdentitySet *)
Definition amembers (m : imap) (a : iarg) : imap :=
  match ik a with IKSelf => m | _ => i_init (io a) end.

Definition i_update (m : imap) (a : iarg) : imap :=
  if is_iset a then d_update m (amembers m a) else d_of_objs m (io a).
Definition i_union (m : imap) (a : iarg) : imap := i_update (d_update [] m) a.
Definition other_keys (m : imap) (a : iarg) : list Z :=
  if is_iset a then d_keys (amembers m a) else map get_id (io a).
Definition i_difference (m : imap) (a : iarg) : imap :=
  let other := other_keys m a in filter (fun e => negb (memz (fst e) other)) m.
Definition i_intersection (m : imap) (a : iarg) : imap :=
  let other := other_keys m a in filter (fun e => memz (fst e) other) m.
Definition i_symmetric_difference (m : imap) (a : iarg) : imap :=
  let other := if is_iset a then amembers m a else d_of_objs [] (io a) in
  let res := filter (fun e => negb (d_has (fst e) other)) m in
  d_update res (filter (fun e => negb (d_has (fst e) m)) other).
(* issubset / issuperset build IdentitySet(iterable) for a non-IdentitySet argument *)
Definition i_issubset (m : imap) (a : iarg) : bool := keys_le m (amembers m a).
Definition i_issuperset (m : imap) (a : iarg) : bool := keys_le (amembers m a) m.

Inductive bop := BUnion | BDiff | BInter | BSym.
Inductive bform := FMethod | FOperator | FInMethod | FInOperator.
Inductive cmp := CSubset | CSuperset | CLe | CLt | CGe | CGt | CEq | CNe.

Inductive iop :=
| IAdd (o : Z) | IContains (o : Z) | IRemove (o : Z) | IDiscard (o : Z) | IPop | IClear | ILen
| ICopy (adopt : bool)
| IBin (b : bop) (f : bform) (adopt : bool) (a : iarg)
| ICmp (c : cmp) (a : iarg).

Inductive iret := JNone | JVal (o : Z) | JBool (b : bool) | JNum (n : Z) | JExc (e : exn) | JSet (m : imap).

Definition i_bin (b : bop) (m : imap) (a : iarg) : imap :=
  match b with
  | BUnion => i_union m a
  | BDiff => i_difference m a
  | BInter => i_intersection m a
  | BSym => i_symmetric_difference m a
  end.
(* update mutates the dict in place; the other three _update methods install the result's dict *)
Definition i_bin_update (b : bop) (m : imap) (a : iarg) : imap :=
  match b with BUnion => i_update m a | _ => i_bin b m a end.

Definition i_cmp (c : cmp) (m : imap) (a : iarg) : iret :=
  let other := amembers m a in
  match c with
  | CSubset => JBool (i_issubset m a)
  | CSuperset => JBool (i_issuperset m a)
  | CEq => JBool (if is_iset a then d_eq m other else false)
  | CNe => JBool (if is_iset a then negb (d_eq m other) else true)
  | _ =>
    if is_iset a then
      match c with
      | CLe => JBool (i_issubset m a)
      | CLt => JBool (Nat.ltb (length m) (length other) && i_issubset m a)
      | CGe => JBool (i_issuperset m a)
      | _ => JBool (Nat.ltb (length other) (length m) && i_issuperset m a)
      end
    else JExc TypeError                        (* NotImplemented on both sides *)
  end.

Definition istep (m : imap) (op : iop) : imap * iret :=
  match op with
  | IAdd o => (d_set (get_id o) o m, JNone)
  | IContains o => (m, JBool (d_has (get_id o) m))
  | IRemove o => if d_has (get_id o) m then (d_drop (get_id o) m, JNone) else (m, JExc KeyError)
  | IDiscard o => if d_has (get_id o) m then (d_drop (get_id o) m, JNone) else (m, JNone)
  | IPop => match rev m with [] => (m, JExc KeyError) | (k, v) :: r => (rev r, JVal v) end
  | IClear => ([], JNone)
  | ILen => (m, JNum (Z.of_nat (length m)))
  | ICopy ad => let r := m in (if ad then r else m, JSet r)
  | IBin b f ad a =>
      match f with
      | FMethod => let r := i_bin b m a in (if ad then r else m, JSet r)
      | FOperator =>
          if is_iset a then let r := i_bin b m a in (if ad then r else m, JSet r)
          else (m, JExc TypeError)
      | FInMethod => (i_bin_update b m a, JNone)
      | FInOperator => if is_iset a then (i_bin_update b m a, JNone) else (m, JExc TypeError)
      end
  | ICmp c a => (m, i_cmp c m a)
  end.

Fixpoint irun (m : imap) (ops : list iop) : imap * list iret :=
  match ops with
  | [] => (m, [])
  | op :: r => let '(m1, o) := istep m op in let '(m2, outs) := irun m1 r in (m2, o :: outs)
  end.

(* ================= reference model: duplicate-free list of identities ================= *)
Definition aobjs (l : list Z) (a : iarg) : list Z := match ik a with IKSelf => l | _ => io a end.
Definition subset (l1 l2 : list Z) : bool := forallb (fun x => memz x l2) l1.

Definition q_bin (b : bop) (l c : list Z) : list Z :=
  match b with
  | BUnion => r_update l [c]
  | BDiff => r_diff l [c]
  | BInter => r_inter l [c]
  | BSym => r_sym l c
  end.
Definition q_cmp (c : cmp) (iset : bool) (l o : list Z) : rret :=
  match c with
  | CSubset => QBool (subset l o)
  | CSuperset => QBool (subset o l)
  | CEq => QBool (iset && subset l o && subset o l)
  | CNe => QBool (negb (iset && subset l o && subset o l))
  | _ =>
    if iset then
      match c with
      | CLe => QBool (subset l o)
      | CLt => QBool (subset l o && negb (subset o l))
      | CGe => QBool (subset o l)
      | _ => QBool (subset o l && negb (subset l o))
      end
    else QExc TypeError
  end.

Definition qstep (l : list Z) (op : iop) : list Z * rret :=
  match op with
  | IAdd o => (r_add l o, QNone)
  | IContains o => (l, QBool (memz o l))
  | IRemove o => if memz o l then (r_del l o, QNone) else (l, QExc KeyError)
  | IDiscard o => (r_del l o, QNone)
  | IPop => match rev l with [] => (l, QExc KeyError) | v :: r => (rev r, QVal v) end
  | IClear => ([], QNone)
  | ILen => (l, QVal (Z.of_nat (length l)))
  | ICopy ad => (l, QSet l)
  | IBin b f ad a =>
      let r := q_bin b l (aobjs l a) in
      match f with
      | FMethod => (if ad then r else l, QSet r)
      | FOperator => if is_iset a then (if ad then r else l, QSet r) else (l, QExc TypeError)
      | FInMethod => (r, QNone)
      | FInOperator => if is_iset a then (r, QNone) else (l, QExc TypeError)
      end
  | ICmp c a => (l, q_cmp c (is_iset a) l (aobjs l a))
  end.

Fixpoint qrun (l : list Z) (ops : list iop) : list Z * list rret :=
  match ops with
  | [] => (l, [])
  | op :: r => let '(l1, o) := qstep l op in let '(l2, outs) := qrun l1 r in (l2, o :: outs)
  end.

Definition lift (l : list Z) : imap := map (fun o => (get_id o, o)) l.
(* every key is the identity of the object stored under it, and no identity occurs twice *)
Definition iinv (m : imap) : Prop := NoDup (map snd m) /\ m = lift (map snd m).
Definition abs_iret (r : iret) : rret :=
  match r with
  | JNone => QNone | JVal o => QVal o | JBool b => QBool b | JNum n => QVal n | JExc e => QExc e
  | JSet m => QSet (map snd m)
  end.
Definition iret_inv (r : iret) : Prop := match r with JSet m => iinv m | _ => True end.
End WithValues.
