From Coq Require Import List NArith Bool Lia Permutation Arith.
Import ListNotations.
From SAV.util Require Import Topo.

Lemma memb_In x l : memb x l = true <-> In x l.
Proof. unfold memb. rewrite existsb_exists. split.
 - intros [y [Hy He]]. apply N.eqb_eq in He. subst. exact Hy.
 - intros H. exists x. split; [exact H| apply N.eqb_refl]. Qed.

Lemma memb_false x l : memb x l = false <-> ~ In x l.
Proof. split.
 - intros H Hin. apply memb_In in Hin. congruence.
 - intros H. destruct (memb x l) eqn:E; [|reflexivity]. exfalso. apply H. apply memb_In. exact E. Qed.

Lemma In_parents ts n p : In p (parents_of ts n) <-> In (p, n) ts.
Proof. unfold parents_of. rewrite in_map_iff. split.
 - intros [[a b] [H1 H2]]. simpl in H1; subst. apply filter_In in H2. destruct H2 as [H2 H3].
   simpl in H3. apply N.eqb_eq in H3. subst. exact H2.
 - intros H. exists (p, n). split; [reflexivity|]. apply filter_In. split; [exact H|]. simpl. apply N.eqb_refl. Qed.

Lemma blocked_true ts todo n : blocked ts todo n = true <-> exists p, In (p, n) ts /\ In p todo.
Proof. unfold blocked. rewrite existsb_exists. split.
 - intros [p [H1 H2]]. exists p. split; [apply In_parents; exact H1 | apply memb_In; exact H2].
 - intros [p [H1 H2]]. exists p. split; [apply In_parents; exact H1 | apply memb_In; exact H2]. Qed.

Lemma In_ready ts todo n : In n (ready ts todo) <-> In n todo /\ blocked ts todo n = false.
Proof. unfold ready. rewrite filter_In. rewrite negb_true_iff. tauto. Qed.

Lemma filter_split_perm (f : node -> bool) l :
  Permutation (filter f l ++ filter (fun x => negb (f x)) l) l.
Proof. induction l as [|a l IH]; simpl; [constructor|].
  destruct (f a); simpl.
  - constructor. exact IH.
  - eapply Permutation_trans; [apply Permutation_sym, Permutation_middle|]. constructor. exact IH. Qed.

Lemma filter_ext_in' (f g : node -> bool) l : (forall x, In x l -> f x = g x) -> filter f l = filter g l.
Proof. intros H. induction l as [|a l IH]; simpl; [reflexivity|].
  rewrite (H a) by (left; reflexivity). rewrite IH; [reflexivity|]. intros x Hx. apply H. right. exact Hx. Qed.

(* the elements of todo that are in [ready] are exactly [ready] (duplicates included) *)
Lemma ready_is_filter_memb ts todo :
  filter (fun t => memb t (ready ts todo)) todo = ready ts todo.
Proof. unfold ready at 2. apply filter_ext_in'. intros x Hx.
  destruct (blocked ts todo x) eqn:B; simpl.
  - apply memb_false. intros H. apply In_ready in H. destruct H as [_ H]. congruence.
  - apply memb_In. apply In_ready. split; assumption. Qed.

Lemma step_perm ts todo :
  Permutation (ready ts todo ++ filter (fun t => negb (memb t (ready ts todo))) todo) todo.
Proof. rewrite <- (ready_is_filter_memb ts todo) at 1. apply filter_split_perm. Qed.

(* T1 : every item exactly once (as a multiset), no matter what the edges are *)
Theorem subsets_perm fuel ts : forall todo r, subsets fuel ts todo = Ok r -> Permutation (concat r) todo.
Proof.
  induction fuel as [|f IH]; intros todo r H.
  - destruct todo; simpl in H; [inversion H; constructor | discriminate].
  - destruct todo as [|t0 todo0]; [simpl in H; inversion H; constructor|].
    cbn [subsets] in H. set (todo := t0 :: todo0) in *.
    destruct (ready ts todo) as [|o out] eqn:Hr; [discriminate|]. rewrite <- Hr in H.
    destruct (subsets f ts _) as [r'| |] eqn:Hs; try discriminate. inversion H; subst r; clear H.
    apply IH in Hs. cbn [concat].
    eapply Permutation_trans; [apply Permutation_app_head; exact Hs|]. apply step_perm. Qed.

(* T3 : fuel = length items always suffices *)
Lemma filter_length_le' (f : node -> bool) l : length (filter f l) <= length l.
Proof. induction l as [|a l IH]; simpl; [lia|]. destruct (f a); simpl; lia. Qed.

Lemma filter_length_lt (f : node -> bool) l x : In x l -> f x = false -> length (filter f l) < length l.
Proof. induction l as [|a l IH]; simpl; [tauto|]. intros [->|Hx] Hf.
  - rewrite Hf. pose proof (filter_length_le' f l). lia.
  - destruct (f a); simpl; [apply IH in Hx; auto; lia | pose proof (filter_length_le' f l); lia]. Qed.

Theorem subsets_fuel_ok fuel ts : forall todo, length todo <= fuel -> subsets fuel ts todo <> OutOfFuel.
Proof.
  induction fuel as [|f IH]; intros todo Hlen.
  - destruct todo; simpl in *; [discriminate|lia].
  - destruct todo as [|t0 todo0]; [simpl; discriminate|].
    cbn [subsets]. set (todo := t0 :: todo0) in *.
    destruct (ready ts todo) as [|o out] eqn:Hr; [discriminate|]. rewrite <- Hr.
    assert (Hlt : length (filter (fun t => negb (memb t (ready ts todo))) todo) <= f).
    { assert (Ho : In o (ready ts todo)) by (rewrite Hr; left; reflexivity).
      pose proof (proj1 (In_ready _ _ _) Ho) as [Hot _].
      pose proof (filter_length_lt (fun t => negb (memb t (ready ts todo))) todo o Hot) as HH.
      assert (negb (memb o (ready ts todo)) = false) by (apply negb_false_iff, memb_In; exact Ho).
      specialize (HH H). lia. }
    specialize (IH _ Hlt). destruct (subsets f ts _); try discriminate. exfalso; apply IH; reflexivity. Qed.

(* T2 : every dependency (p before c) is respected, strictly across layers *)
Definition earlier (r : list (list node)) (p c : node) : Prop :=
  exists r1 L r2, r = r1 ++ L :: r2 /\ In c L /\ In p (concat r1).

Theorem subsets_order fuel ts : forall todo r, subsets fuel ts todo = Ok r ->
  forall p c, In (p, c) ts -> In p todo -> In c todo -> earlier r p c.
Proof.
  induction fuel as [|f IH]; intros todo r H p c He Hp Hc.
  - destruct todo; simpl in H; [destruct Hp | discriminate].
  - destruct todo as [|t0 todo0]; [destruct Hp|].
    cbn [subsets] in H. set (todo := t0 :: todo0) in *.
    destruct (ready ts todo) as [|o out] eqn:Hr; [discriminate|]. rewrite <- Hr in H.
    destruct (subsets f ts _) as [r'| |] eqn:Hs; try discriminate. inversion H; subst r; clear H.
    set (todo' := filter (fun t => negb (memb t (ready ts todo))) todo) in *.
    (* c cannot be in the first layer: it is blocked by p *)
    assert (Hcn : ~ In c (ready ts todo)).
    { intros Hin. apply In_ready in Hin. destruct Hin as [_ Hb].
      assert (blocked ts todo c = true) by (apply blocked_true; exists p; split; assumption). congruence. }
    assert (Hc' : In c todo').
    { unfold todo'. apply filter_In. split; [exact Hc|]. apply negb_true_iff, memb_false. exact Hcn. }
    destruct (memb p (ready ts todo)) eqn:Hpm.
    + (* p in first layer; c somewhere later *)
      apply memb_In in Hpm.
      pose proof (subsets_perm _ _ _ _ Hs) as Pm.
      assert (Hcr : In c (concat r')) by (eapply Permutation_in; [apply Permutation_sym; exact Pm|exact Hc']).
      apply in_concat in Hcr. destruct Hcr as [L [HL HcL]]. apply in_split in HL. destruct HL as [ra [rb ->]].
      exists (ready ts todo :: ra), L, rb. split; [reflexivity|]. split; [exact HcL|]. simpl. apply in_or_app. left. exact Hpm.
    + assert (Hp' : In p todo').
      { unfold todo'. apply filter_In. split; [exact Hp|]. rewrite Hpm. reflexivity. }
      destruct (IH _ _ Hs p c He Hp' Hc') as [r1 [L [r2 [-> [H1 H2]]]]].
      exists (ready ts todo :: r1), L, r2. split; [reflexivity|]. split; [exact H1|]. simpl. apply in_or_app. right. exact H2. Qed.

