(* C52 proofs, for every schedule of any number of threads and any assignment of scope keys *)
From Coq Require Import List Arith Bool Lia.
Import ListNotations.
From SAV.util Require Import Registry.

Lemma nth_error_upd ts : forall i j p,
  nth_error (upd ts i p) j =
  if Nat.eqb j i then (match nth_error ts i with Some _ => Some p | None => None end) else nth_error ts j.
Proof.
  induction ts as [|x r IH]; intros i j p.
  - destruct i, j; cbn; try reflexivity; destruct (Nat.eqb _ _); reflexivity.
  - destruct i as [|i], j as [|j]; cbn; try reflexivity. apply IH.
Qed.

Lemma lookup_rdel k k' r : lookup k (rdel k' r) = if Nat.eqb k k' then None else lookup k r.
Proof.
  induction r as [|[a v] r IH]; cbn [rdel filter lookup fst].
  - destruct (Nat.eqb k k'); reflexivity.
  - destruct (Nat.eqb_spec a k') as [->|Hn]; cbn [negb].
    + fold (rdel k' r). rewrite IH. destruct (Nat.eqb_spec k k') as [->|]; [reflexivity|].
      destruct (Nat.eqb_spec k' k); [congruence|reflexivity].
    + cbn [lookup]. fold (rdel k' r). rewrite IH.
      destruct (Nat.eqb_spec a k) as [->|]; [|reflexivity].
      destruct (Nat.eqb_spec k k'); [congruence|reflexivity].
Qed.

Lemma fst_functional {A B} (l : list (A * B)) a b b' :
  NoDup (map fst l) -> In (a, b) l -> In (a, b') l -> b = b'.
Proof.
  induction l as [|[x y] l IH]; intros Hn H1 H2; [destruct H1|].
  cbn [map fst] in Hn. inversion Hn as [|? ? Hx Hn']; subst.
  destruct H1 as [E1|H1], H2 as [E2|H2].
  - congruence.
  - inversion E1; subst. exfalso. apply Hx. apply in_map_iff. exists (a, b'). split; [reflexivity|exact H2].
  - inversion E2; subst. exfalso. apply Hx. apply in_map_iff. exists (a, b). split; [reflexivity|exact H1].
  - apply IH; assumption.
Qed.

Section P.
Variable keys : list key.
Notation keyof := (keyof keys).
Notation stepf := (stepf keys).
Notation run := (run keys).

Definition carries (p : option pc) (v : sess) : Prop :=
  match p with Some (C3 _ w) | Some (RC w) => w = v | _ => False end.

Definition Inv (st : state) : Prop :=
  let (s, ts) := st in
  (forall k v, lookup k (reg s) = Some v -> In (v, k) (created s)) /\
  NoDup (map fst (created s)) /\
  (forall i v, carries (nth_error ts i) v -> In (v, keyof i) (created s)).

Lemma carries_repeat n : forall i v, ~ carries (nth_error (repeat Idle n) i) v.
Proof. induction n as [|n IH]; intros [|i] v; cbn; auto. Qed.

Lemma Inv_init : Inv (init keys).
Proof.
  cbn. split; [intros k v H; discriminate|]. split; [constructor|].
  intros i v H. exfalso. exact (carries_repeat _ _ _ H).
Qed.

Ltac upd_cases j i := rewrite nth_error_upd; destruct (Nat.eqb_spec j i) as [->|].

Lemma carries_other ts i p s_created s_created' :
  (forall x, In x s_created -> In x s_created') ->
  (forall j v, carries (nth_error ts j) v -> In (v, keyof j) s_created) ->
  forall q, nth_error ts i = Some q ->
  (forall v, carries (Some p) v -> In (v, keyof i) s_created') ->
  forall j v, carries (nth_error (upd ts i p) j) v -> In (v, keyof j) s_created'.
Proof.
  intros Hsub H q Hq Hp j v. upd_cases j i.
  - rewrite Hq. apply Hp.
  - intros Hc. apply Hsub. apply H. exact Hc.
Qed.

Theorem stepf_inv st e st' : Inv st -> stepf st e = Some st' -> Inv st'.
Proof.
  destruct st as [s ts]. intros [H1 [H2 H4]] Hs. unfold Registry.stepf in Hs. destruct e.
  - destruct (nth_error ts i) as [[]|] eqn:En; try discriminate. inversion Hs; subst.
    split; [exact H1|]. split; [exact H2|]. eapply carries_other; eauto. intros v [].
  - destruct (nth_error ts i) as [[]|] eqn:En; try discriminate. inversion Hs; subst.
    split; [exact H1|]. split; [exact H2|]. eapply carries_other; eauto. intros v [].
  - destruct (nth_error ts i) as [[]|] eqn:En; try discriminate.
    destruct (lookup (keyof i) (reg s)) eqn:El; destruct b; try discriminate; inversion Hs; subst;
      (split; [exact H1|]); (split; [exact H2|]); eapply carries_other; eauto; intros v [].
  - destruct (nth_error ts i) as [[]|] eqn:En; try discriminate.
    destruct (lookup (keyof i) (reg s)) as [v|] eqn:El; destruct r as [w|]; try discriminate.
    + destruct (Nat.eqb_spec v w) as [->|]; [|discriminate]. inversion Hs; subst.
      split; [exact H1|]. split; [exact H2|]. eapply carries_other; eauto.
      intros v Hc. destruct x; cbn in Hc; [destruct Hc|]. subst. apply H1. exact El.
    + inversion Hs; subst. split; [exact H1|]. split; [exact H2|]. eapply carries_other; eauto. intros v [].
  - destruct (nth_error ts i) as [[]|] eqn:En; try discriminate.
    destruct (existsb (fun p => Nat.eqb (fst p) v) (created s)) eqn:Ex; [discriminate|]. inversion Hs; subst. cbn.
    split; [intros k w Hl; right; apply H1; exact Hl|]. split.
    + cbn. constructor; [|exact H2]. intros Hin. apply in_map_iff in Hin. destruct Hin as [[a b] [Ea Hin]]. cbn in Ea. subst a.
      assert (existsb (fun p => Nat.eqb (fst p) v) (created s) = true).
      { apply existsb_exists. exists (v, b). split; [exact Hin|apply Nat.eqb_refl]. } congruence.
    + apply (carries_other ts i (C3 x v) (created s) ((v, keyof i) :: created s)
               (fun y Hy => or_intror Hy) H4 (C2 x) En).
      intros w Hc. cbn in Hc. subst. left; reflexivity.
  - destruct (nth_error ts i) as [[]|] eqn:En; try discriminate.
    destruct (lookup (keyof i) (reg s)) as [w|] eqn:El.
    + destruct (Nat.eqb_spec w r) as [->|]; [|discriminate]. inversion Hs; subst.
      split; [exact H1|]. split; [exact H2|]. eapply carries_other; eauto.
      intros u Hc. destruct x; cbn in Hc; [destruct Hc|]. subst. apply H1. exact El.
    + destruct (Nat.eqb_spec v r) as [->|]; [|discriminate]. inversion Hs; subst. cbn.
      assert (Hv : In (r, keyof i) (created s)) by (apply H4; rewrite En; reflexivity).
      split.
      * intros k w Hl. cbn [lookup] in Hl. destruct (Nat.eqb_spec (keyof i) k) as [<-|]; [inversion Hl; subst; exact Hv|].
        apply H1. exact Hl.
      * split; [exact H2|]. eapply carries_other; eauto. intros u Hc. destruct x; cbn in Hc; [destruct Hc|]. subst. exact Hv.
  - destruct (nth_error ts i) as [[]|] eqn:En; try discriminate.
    destruct (Nat.eqb v v0); [|discriminate]. inversion Hs; subst. cbn.
    split; [exact H1|]. split; [exact H2|]. eapply carries_other; eauto. intros u [].
  - destruct (nth_error ts i) as [[]|] eqn:En; try discriminate. inversion Hs; subst. cbn.
    split.
    + intros k v Hl. rewrite lookup_rdel in Hl. destruct (Nat.eqb k (keyof i)); [discriminate|]. apply H1. exact Hl.
    + split; [exact H2|]. eapply carries_other; eauto. intros u [].
Qed.

Theorem reach_inv st : reach keys st -> Inv st.
Proof.
  intros [tr H]. revert H. generalize (init keys), Inv_init. induction tr as [|e tr IH]; intros st0 Hi Hr; cbn in Hr.
  - inversion Hr; subst. exact Hi.
  - destruct (stepf st0 e) as [st1|] eqn:E; [|discriminate]. eapply IH; [|exact Hr]. eapply stepf_inv; eassumption.
Qed.

(* different scopes hold different Sessions *)
Theorem distinct_scopes_distinct_sessions s ts : reach keys (s, ts) ->
  forall k1 k2 v, lookup k1 (reg s) = Some v -> lookup k2 (reg s) = Some v -> k1 = k2.
Proof.
  intros Hr k1 k2 v L1 L2. apply reach_inv in Hr. destruct Hr as [H1 [H2 _]].
  eapply fst_functional; [exact H2|apply H1; exact L1|apply H1; exact L2].
Qed.

(* frame: a step of a thread of another scope leaves this scope's entry untouched *)
Theorem other_scopes_untouched st e st' k : stepf st e = Some st' ->
  keyof (actor e) <> k -> lookup k (reg (fst st')) = lookup k (reg (fst st)).
Proof.
  destruct st as [s ts]. intros Hs Hk. unfold Registry.stepf in Hs. destruct e; cbn [actor] in Hk;
    destruct (nth_error ts i) as [[]|]; try discriminate.
  - inversion Hs; reflexivity.
  - inversion Hs; reflexivity.
  - destruct (lookup (keyof i) (reg s)); destruct b; try discriminate; inversion Hs; reflexivity.
  - destruct (lookup (keyof i) (reg s)); destruct r; try discriminate.
    + destruct (Nat.eqb _ _); [|discriminate]. inversion Hs; reflexivity.
    + inversion Hs; reflexivity.
  - destruct (existsb _ _); [discriminate|]. inversion Hs; reflexivity.
  - destruct (lookup (keyof i) (reg s)).
    + destruct (Nat.eqb _ _); [|discriminate]. inversion Hs; reflexivity.
    + destruct (Nat.eqb _ _); [|discriminate]. inversion Hs; subst. cbn [fst reg lookup].
      destruct (Nat.eqb_spec (keyof i) k); [contradiction|reflexivity].
  - destruct (Nat.eqb _ _); [|discriminate]. inversion Hs; reflexivity.
  - inversion Hs; subst. cbn [fst reg]. rewrite lookup_rdel. destruct (Nat.eqb_spec k (keyof i)); [congruence|reflexivity].
Qed.

Definition is_del (e : ev) : bool := match e with EDel _ => true | _ => false end.

(* repeated calls within one scope return the same Session: as long as no remove() of that scope
   deletes the entry, the entry stays and every __call__ of that scope returns it - whatever the
   other threads do in between *)
Theorem same_scope_same_session k v : forall tr st st',
  lookup k (reg (fst st)) = Some v -> run st tr = Some st' ->
  (forall e, In e tr -> is_del e = true -> keyof (actor e) <> k) ->
  lookup k (reg (fst st')) = Some v /\
  forall e w, In e tr -> keyof (actor e) = k -> returned e = Some w -> w = v.
Proof.
  induction tr as [|e tr IH]; intros st st' Hl Hr Hnd; cbn in Hr.
  - inversion Hr; subst. split; [exact Hl|]. intros e w [].
  - destruct (stepf st e) as [st1|] eqn:E; [|discriminate].
    assert (Hstep : lookup k (reg (fst st1)) = Some v /\ (forall w, keyof (actor e) = k -> returned e = Some w -> w = v)).
    { destruct (Nat.eq_dec (keyof (actor e)) k) as [Hk|Hk].
      - destruct st as [s ts]. cbn [fst] in Hl. unfold Registry.stepf in E.
        destruct e; cbn [actor returned] in *; destruct (nth_error ts i) as [[]|]; try discriminate.
        + inversion E; subst. split; [exact Hl|intros; discriminate].
        + inversion E; subst. split; [exact Hl|intros; discriminate].
        + destruct (lookup (keyof i) (reg s)); destruct b; try discriminate; inversion E; subst; (split; [exact Hl|intros; discriminate]).
        + rewrite Hk in E. rewrite Hl in E. destruct r as [w0|]; [|discriminate].
          destruct (Nat.eqb_spec v w0) as [->|]; [|discriminate]. inversion E; subst.
          split; [exact Hl|]. intros w _ Hw. inversion Hw; reflexivity.
        + destruct (existsb _ _); [discriminate|]. inversion E; subst. split; [exact Hl|intros; discriminate].
        + rewrite Hk in E. rewrite Hl in E. destruct (Nat.eqb_spec v r) as [->|]; [|discriminate]. inversion E; subst.
          split; [exact Hl|]. intros w _ Hw. inversion Hw; reflexivity.
        + destruct (Nat.eqb _ _); [|discriminate]. inversion E; subst. split; [exact Hl|intros; discriminate].
        + exfalso. apply (Hnd (EDel i)); [left; reflexivity|reflexivity|exact Hk].
      - split; [|intros w Hk'; contradiction]. rewrite (other_scopes_untouched st e st1 k E Hk). exact Hl. }
    destruct Hstep as [Hl1 Hret].
    destruct (IH st1 st' Hl1 Hr (fun e0 H0 => Hnd e0 (or_intror H0))) as [Hfin Hall].
    split; [exact Hfin|]. intros e0 w [<-|Hin] Hk Hw; [apply Hret; assumption|eapply Hall; eassumption].
Qed.

(* remove() closes only a Session of its own scope: the Session a remove() is about to close was
   created for the removing thread's scope and is not the Session registered under any other scope *)
Theorem remove_closes_own_scope_only s ts i v : reach keys (s, ts) -> nth_error ts i = Some (RC v) ->
  In (v, keyof i) (created s) /\ forall k', lookup k' (reg s) = Some v -> k' = keyof i.
Proof.
  intros Hr En. apply reach_inv in Hr. destruct Hr as [H1 [H2 H4]].
  assert (Hv : In (v, keyof i) (created s)) by (apply H4; rewrite En; reflexivity).
  split; [exact Hv|]. intros k' Hl. eapply fst_functional; [exact H2|apply H1; exact Hl|exact Hv].
Qed.
End P.
