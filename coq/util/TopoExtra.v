(* Extra statements for C19: the sort depends on the dependency pairs only as a set
   (so neither duplicates nor the hash order of Python sets can influence the result), and the
   flat [sort] inherits permutation / ordering from [sort_as_subsets]. *)
From Coq Require Import List NArith Bool Lia Permutation Arith.
Import ListNotations.
From SAV.util Require Import Topo TopoProofs TopoCycle.

Lemma bool_ext (a b : bool) : (a = true <-> b = true) -> a = b.
Proof. destruct a, b; intros [H1 H2]; try reflexivity; [symmetry; apply H1; reflexivity | apply H2; reflexivity]. Qed.

Lemma blocked_ext ts ts' todo n :
  (forall e, In e ts <-> In e ts') -> blocked ts todo n = blocked ts' todo n.
Proof.
  intros H. apply bool_ext. rewrite !blocked_true. split; intros [p [H1 H2]]; exists p; split; try assumption; apply H; assumption.
Qed.

Lemma ready_ext ts ts' todo : (forall e, In e ts <-> In e ts') -> ready ts todo = ready ts' todo.
Proof.
  intros H. unfold ready. apply filter_ext. intros n. rewrite (blocked_ext ts ts' todo n H). reflexivity.
Qed.

Theorem subsets_edge_set fuel ts ts' : (forall e, In e ts <-> In e ts') ->
  forall todo, subsets fuel ts todo = subsets fuel ts' todo.
Proof.
  intros H. induction fuel as [|f IH]; intros todo.
  - destruct todo; reflexivity.
  - destruct todo as [|t0 todo0]; [reflexivity|]. cbn [subsets].
    rewrite (ready_ext ts ts' _ H). destruct (ready ts' (t0 :: todo0)) as [|o out]; [reflexivity|].
    rewrite IH. reflexivity.
Qed.

Theorem sort_edge_set ts ts' items : (forall e, In e ts <-> In e ts') -> sort ts items = sort ts' items.
Proof. intros H. unfold sort, sort_as_subsets. rewrite (subsets_edge_set _ ts ts' H). reflexivity. Qed.

Theorem sort_perm ts items out : sort ts items = Ok out -> Permutation out items.
Proof.
  unfold sort, sort_as_subsets. destruct (subsets _ ts items) as [r| |] eqn:E; try discriminate.
  intros H; inversion H; subst. eapply subsets_perm; exact E.
Qed.

Theorem sort_nodup ts items out : NoDup items -> sort ts items = Ok out -> NoDup out.
Proof. intros Hn H. eapply Permutation_NoDup; [apply Permutation_sym, (sort_perm _ _ _ H)|exact Hn]. Qed.

(* in the flat order, p occurs strictly before c: out = l1 ++ l2 with p in l1, c in l2 *)
Theorem sort_order ts items out : sort ts items = Ok out ->
  forall p c, In (p, c) ts -> In p items -> In c items ->
  exists l1 l2, out = l1 ++ l2 /\ In p l1 /\ In c l2.
Proof.
  unfold sort, sort_as_subsets. destruct (subsets _ ts items) as [r| |] eqn:E; try discriminate.
  intros H p c He Hp Hc; inversion H; subst.
  destruct (subsets_order _ _ _ _ E p c He Hp Hc) as [r1 [Lc [r2 [-> [H1 H2]]]]].
  exists (concat r1), (concat (Lc :: r2)). split; [rewrite concat_app; reflexivity|].
  split; [exact H2|]. simpl. apply in_or_app. left. exact H1.
Qed.

Theorem sort_never_out_of_fuel ts items : sort ts items <> OutOfFuel.
Proof.
  unfold sort, sort_as_subsets. destruct (subsets _ ts items) eqn:E; try discriminate.
  exfalso. exact (subsets_fuel_ok _ ts items (le_n _) E).
Qed.

Theorem sort_circular_iff ts items :
  sort ts items = Circular <-> exists w, cycle ts w /\ incl w items.
Proof.
  rewrite <- sort_fails_iff_cycle. unfold sort. destruct (sort_as_subsets ts items); split; intros; try discriminate; reflexivity.
Qed.
