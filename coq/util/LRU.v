(* C54 - LRUCache (util/_collections.py): executable model.  [_data] is an insertion-ordered dict
   key -> (key, value, [counter]); the threshold is the exact rational tnum/tden.  Definitions only. *)
From Coq Require Import List ZArith Bool.
Import ListNotations.
From SAV.util Require Import OrderedSet.
Open Scope Z_scope.

Record entry := mke { ek : Z; ev : Z; ec : Z }.

Record lru := mkl {
  cap : Z;                    (* capacity *)
  tnum : Z; tden : Z;         (* threshold = tnum / tden *)
  alert : bool;               (* bool(self.size_alert) *)
  data : list entry;          (* _data, insertion order *)
  counter : Z                 (* _counter *)
}.

Definition with_data (c : lru) (d : list entry) (n : Z) : lru :=
  mkl (cap c) (tnum c) (tden c) (alert c) d n.

Fixpoint find (k : Z) (d : list entry) : option entry :=
  match d with [] => None | e :: r => if Z.eqb (ek e) k then Some e else find k r end.
(* _data[k] = e : an existing key keeps its position *)
Fixpoint store (e : entry) (d : list entry) : list entry :=
  match d with
  | [] => [e]
  | x :: r => if Z.eqb (ek x) (ek e) then e :: r else x :: store e r
  end.
Definition del_key (k : Z) (d : list entry) : list entry := filter (fun e => negb (Z.eqb (ek e) k)) d.

(* sorted(values, key=itemgetter(2), reverse=True): stable, descending by counter *)
Fixpoint insert_desc (x : entry) (l : list entry) : list entry :=
  match l with
  | [] => [x]
  | y :: r => if ec y <=? ec x then x :: l else y :: insert_desc x r
  end.
Definition sort_desc (l : list entry) : list entry := fold_right insert_desc [] l.

(* len(self) > self.capacity + self.capacity * self.threshold *)
Definition over (c : lru) : bool :=
  cap c * tden c + cap c * tnum c <? Z.of_nat (length (data c)) * tden c.

(* one pass of the while body: delete everything after the first [capacity] by descending counter *)
Definition trim_once (c : lru) : list entry :=
  let by_counter := sort_desc (data c) in
  fold_left (fun d item => del_key (ek item) d) (skipn (Z.to_nat (cap c)) by_counter) (data c).

(* _manage_size with the mutex free; [fired] = size_alert was called; None = the while loop did
   not terminate within the fuel *)
Fixpoint manage (fuel : nat) (c : lru) (size_alert fired : bool) : option (lru * bool) :=
  if over c then
    match fuel with
    | O => None
    | S f => manage f (with_data c (trim_once c) (counter c)) false (fired || size_alert)
    end
  else Some (c, fired).

Inductive lop :=
| LSet (k v : Z) (locked : bool)       (* locked: another thread holds _mutex, the trim is skipped *)
| LGet (k dflt : Z) | LGetitem (k : Z) | LContains (k : Z) | LDel (k : Z) | LLen.

Inductive lret := WNone | WVal (z : Z) | WBool (b : bool) | WExc (e : exn) | WSet (fired : bool) | WLoop.

(* item[2][0] = self._inc_counter() *)
Definition touch (c : lru) (e : entry) : lru :=
  let n := counter c + 1 in with_data c (store (mke (ek e) (ev e) n) (data c)) n.

Definition lstep (c : lru) (op : lop) : lru * lret :=
  match op with
  | LSet k v locked =>
      let n := counter c + 1 in
      let c1 := with_data c (store (mke k v n) (data c)) n in
      if locked then (c1, WSet false)
      else match manage 2 c1 (alert c1) false with
           | Some (c2, fired) => (c2, WSet fired)
           | None => (c1, WLoop)
           end
  | LGet k dflt =>
      match find k (data c) with Some e => (touch c e, WVal (ev e)) | None => (c, WVal dflt) end
  | LGetitem k =>
      match find k (data c) with Some e => (touch c e, WVal (ev e)) | None => (c, WExc KeyError) end
  | LContains k =>                                   (* Mapping.__contains__: try self[key] *)
      match find k (data c) with Some e => (touch c e, WBool true) | None => (c, WBool false) end
  | LDel k =>
      match find k (data c) with Some _ => (with_data c (del_key k (data c)) (counter c), WNone)
                            | None => (c, WExc KeyError) end
  | LLen => (c, WVal (Z.of_nat (length (data c))))
  end.

Fixpoint lrun (c : lru) (ops : list lop) : lru * list lret :=
  match ops with
  | [] => (c, [])
  | op :: r => let '(c1, o) := lstep c op in let '(c2, outs) := lrun c1 r in (c2, o :: outs)
  end.

(* ---- specification side ---- *)
Definition wf (c : lru) : Prop := 0 <= cap c /\ 0 <= tnum c /\ 0 < tden c.
(* len <= capacity + capacity * threshold *)
Definition within (c : lru) : Prop :=
  Z.of_nat (length (data c)) * tden c <= cap c * tden c + cap c * tnum c.
(* keys unique, counters unique, every counter was handed out already *)
Definition cinv (c : lru) : Prop :=
  NoDup (map ek (data c)) /\ NoDup (map ec (data c)) /\ forall e, In e (data c) -> ec e <= counter c.
(* the value most recently stored under k by a history (and not deleted since) *)
Fixpoint last_set (k : Z) (ops : list lop) (acc : option Z) : option Z :=
  match ops with
  | [] => acc
  | LSet k' v _ :: r => last_set k r (if Z.eqb k' k then Some v else acc)
  | LDel k' :: r => last_set k r (if Z.eqb k' k then None else acc)
  | _ :: r => last_set k r acc
  end.
Definition unlocked (op : lop) : bool := match op with LSet _ _ true => false | _ => true end.
