(* executable entry point for C52 trace acceptance *)
From Coq Require Import List ZArith Bool Arith.
Import ListNotations.
From SAV.base Require Import Tree.
From SAV.util Require Import Registry.
Open Scope Z_scope.

Definition dec_ev (t : tree) : option ev :=
  match t with
  | L [I 0; I i] => Some (EStartCall (Z.to_nat i))
  | L [I 1; I i] => Some (EStartRemove (Z.to_nat i))
  | L [I 2; I i; I b] => Some (EHas (Z.to_nat i) (negb (Z.eqb b 0)))
  | L [I 3; I i; L []] => Some (ELookup (Z.to_nat i) None)
  | L [I 3; I i; I v] => Some (ELookup (Z.to_nat i) (Some (Z.to_nat v)))
  | L [I 4; I i; I v] => Some (ECreate (Z.to_nat i) (Z.to_nat v))
  | L [I 5; I i; I v] => Some (ESetdefault (Z.to_nat i) (Z.to_nat v))
  | L [I 6; I i; I v] => Some (EClose (Z.to_nat i) (Z.to_nat v))
  | L [I 7; I i] => Some (EDel (Z.to_nat i))
  | _ => None
  end.

Fixpoint run_idx (keys : list key) (st : state) (tr : list ev) (k : Z) : Z * state :=
  match tr with
  | [] => (-1, st)
  | e :: r => match stepf keys st e with Some st' => run_idx keys st' r (k + 1) | None => (k, st) end
  end.

(* input [keys; events]; output [index of first rejected event or -1; registry (newest first); closed (newest first)] *)
Definition run_case (t : tree) : tree :=
  match t with
  | L [tk; L evs] =>
      match as_list_of as_nat tk, all_some (map dec_ev evs) with
      | Some keys, Some tr =>
          let '(k, (s, _)) := run_idx keys (init keys) tr 0 in
          L [I k; L (map (fun p => L [of_nat (fst p); of_nat (snd p)]) (reg s)); L (map of_nat (closed s))]
      | _, _ => bad_input
      end
  | _ => bad_input
  end.
