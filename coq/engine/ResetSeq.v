(* C24 - pooled connections carry no state from a previous checkout.

   Sequential model of ONE pooled DBAPI connection slot used by a sequence of "users" through the
   engine-level Connection API.  Transcribes (code as of commit 4102dab)
     engine/base.py   Connection.close / commit / rollback / begin / begin_nested /
                      execution_options, the autobegin + "inactive transaction" checks of
                      _execute_context, RootTransaction._do_commit / _do_rollback / _close_impl,
                      NestedTransaction.__init__ / _do_commit / _do_rollback / _do_close / _close_impl /
                      _cancel / _deactivate_from_connection, Engine.execution_options (option engine:
                      characteristics applied by an engine_connect listener at every checkout)
     engine/default.py set_connection_execution_options / _set_connection_characteristics (ONE finaliser
                      per call, covering all characteristics named in that call) / _reset_characteristics /
                      reset_isolation_level; characteristics.py (isolation_level is transactional and
                      touches the DBAPI connection, logging_token is local to the Connection)
     pool/base.py     _ConnectionFairy._reset, _finalize_fairy (explicit and GC path), the checkin
                      finaliser loop (every pending finaliser, last registered first),
                      invalidate-on-reset-error, NullPool close-on-return
   DBAPI commit()/rollback() consult a fault script (0 ok, 1 raises an ordinary DBAPI error and leaves
   the DBAPI transaction as it was); on the SQLite backend commit fails exactly when a deferred
   foreign-key violation is pending ([fkbad]) and autobegin emits BEGIN (pysqlite savepoint
   workaround) unless a transaction is already open.  Definitions only. *)
From Coq Require Import List ZArith Bool.
Import ListNotations.
Open Scope Z_scope.

Inductive rstyle := RRollback | RCommit | RNone.
Inductive pkind := PQueue | PNull | PStatic | PSingleton.

(* DBAPI connection state *)
Record db : Type := mkdb {
  cid : Z;            (* identity: creation index *)
  in_txn : bool;      (* a DBAPI transaction is open *)
  dirty : bool;       (* uncommitted writes *)
  fkbad : bool;       (* a deferred constraint is violated: COMMIT will fail (SQLite backend) *)
  iso : Z;            (* 0 = the default isolation level *)
  autoc : bool;       (* isolation_level="AUTOCOMMIT" *)
  sp : list (bool * bool) }.  (* open savepoints, oldest first: (dirty, fkbad) when each was taken *)

Definition pristine (d : db) : bool :=
  negb (in_txn d) && negb (dirty d) && (iso d =? 0) && negb (autoc d).

Record st : Type := mkst {
  idle : option db;       (* the connection kept by the pool, if any *)
  nconn : Z;
  faults : list Z;
  log : list Z;           (* DBAPI calls of the current user: 1 commit, 2 rollback, 3 set isolation level,
                             4 SAVEPOINT, 5 ROLLBACK TO SAVEPOINT, 6 RELEASE SAVEPOINT, 7 BEGIN *)
  twr_unsound : bool }.   (* ghost: transaction_was_reset=True reached _reset while the DBAPI transaction was open *)

Definition init (fl : list Z) : st :=
  {| idle := None; nconn := 0; faults := fl; log := []; twr_unsound := false |}.

Definition set_idle s v := mkst v (nconn s) (faults s) (log s) (twr_unsound s).
Definition set_faults s v := mkst (idle s) (nconn s) v (log s) (twr_unsound s).
Definition add_log s k := mkst (idle s) (nconn s) (faults s) (log s ++ [k]) (twr_unsound s).
Definition set_unsound s := mkst (idle s) (nconn s) (faults s) (log s) true.

Definition next_fault (s : st) : Z * st :=
  match faults s with [] => (0, s) | c :: r => (c, set_faults s r) end.

(* after COMMIT / ROLLBACK *)
Definition clean (d : db) : db := mkdb (cid d) false false false (iso d) (autoc d) [].

(* dbapi_connection.commit(): fails on a pending deferred violation or on script *)
Definition db_commit (d : db) (s : st) : bool * db * st :=
  let s1 := add_log s 1 in
  let (c, s2) := next_fault s1 in
  if fkbad d || (c =? 1) then (false, d, s2) else (true, clean d, s2).
(* dbapi_connection.rollback() *)
Definition db_rollback (d : db) (s : st) : bool * db * st :=
  let s1 := add_log s 2 in
  let (c, s2) := next_fault s1 in
  if c =? 1 then (false, d, s2) else (true, clean d, s2).
(* dialect.set_isolation_level: 1 = a non-default level, 2 = AUTOCOMMIT, 0 = the default *)
Definition db_set_iso (level : Z) (d : db) (s : st) : db * st :=
  (if level =? 2 then mkdb (cid d) (in_txn d) (dirty d) (fkbad d) (iso d) true (sp d)
   else mkdb (cid d) (in_txn d) (dirty d) (fkbad d) level false (sp d), add_log s 3).
(* a write statement *)
Definition db_write (bad : bool) (d : db) : db :=
  if autoc d then d else mkdb (cid d) true true (bad || fkbad d) (iso d) (autoc d) (sp d).
(* SAVEPOINT / ROLLBACK TO SAVEPOINT k / RELEASE SAVEPOINT k  (k = position in the savepoint stack) *)
Definition db_savepoint (d : db) (s : st) : db * st :=
  (mkdb (cid d) (in_txn d) (dirty d) (fkbad d) (iso d) (autoc d) (sp d ++ [(dirty d, fkbad d)]), add_log s 4).
Definition db_rollback_to (k : nat) (d : db) (s : st) : db * st :=
  (match nth_error (sp d) k with
   | Some (dr, fk) => mkdb (cid d) (in_txn d) dr fk (iso d) (autoc d) (firstn (S k) (sp d))
   | None => d
   end, add_log s 5).
Definition db_release (k : nat) (d : db) (s : st) : db * st :=
  (mkdb (cid d) (in_txn d) (dirty d) (fkbad d) (iso d) (autoc d) (firstn k (sp d)), add_log s 6).

Section Model.
Variable reset : rstyle.
Variable kind : pkind.
Variable begin_emits : bool.   (* the "begin" event listener emits BEGIN (SQLite backend) *)
Variable engine_iso : Z.       (* option engine: Engine.execution_options(isolation_level=...): 0 none, 1 level, 2 AUTOCOMMIT *)

(* record.finalize_callback: one entry per _set_connection_characteristics call; true = the call named
   isolation_level, so the finaliser calls reset_isolation_level.  checkin pops from the end. *)
Fixpoint run_finalizers (fins : list bool) (d : db) (s : st) : db * st :=
  match fins with
  | [] => (d, s)
  | b :: r => let (d1, s1) := if b then db_set_iso 0 d s else (d, s) in run_finalizers r d1 s1
  end.

(* _finalize_fairy(..., transaction_was_reset=twr) followed by _ConnectionRecord.checkin *)
Definition finalize (d : db) (fins : list bool) (twr : bool) (s : st) : st :=
  let s := if twr && in_txn d then set_unsound s else s in
  let '(ok, d1, s1) :=
    match reset with
    | RRollback => if twr then (true, d, s) else db_rollback d s
    | RCommit => db_commit d s
    | RNone => (true, d, s)
    end in
  if ok then
    let (d2, s2) := run_finalizers (rev fins) d1 s1 in
    set_idle s2 (match kind with PNull => None | _ => Some d2 end)
  else set_idle s1 None.

Inductive op :=
| OWrite | OCommit | ORollback | OFailStmt | OBegin | OFkWrite | OClose | ODrop | OInvalidate
| OOpts (level : Z) (token other : bool)      (* conn.execution_options(isolation_level=?, logging_token=?, stream_results=?) *)
| ONBegin | ONCommit | ONRollback | ONClose.  (* begin_nested(); commit/rollback/close of the LAST NestedTransaction made *)

(* a NestedTransaction object: is_active, _previous_nested, its savepoint (position in the DBAPI stack) *)
Record nobj : Type := mknobj { n_active : bool; n_prev : option nat; n_sp : nat }.

(* the engine-level Connection during one checkout:
   txn = None | Some true (active RootTransaction) | Some false (inactive, still attached);
   ntop = connection._nested_transaction; ns = every NestedTransaction made, in order *)
Record cst : Type := mkcst {
  cdb : db; txn : option bool; fins : list bool; ntop : option nat; ns : list nobj; done : bool }.

Definition set_cdb c d := mkcst d (txn c) (fins c) (ntop c) (ns c) (done c).
Definition set_txn c t := mkcst (cdb c) t (fins c) (ntop c) (ns c) (done c).

Fixpoint set_nth {A} (l : list A) (i : nat) (v : A) : list A :=
  match l, i with
  | [], _ => []
  | _ :: r, O => v :: r
  | x :: r, S j => x :: set_nth r j v
  end.
Definition deactivate (l : list nobj) (i : nat) : list nobj :=
  match nth_error l i with Some n => set_nth l i (mknobj false (n_prev n) (n_sp n)) | None => l end.

(* NestedTransaction._cancel along _previous_nested: everything inactive, nothing attached *)
Fixpoint cancel_from (fuel : nat) (o : option nat) (l : list nobj) : list nobj :=
  match fuel, o with
  | S f, Some i => cancel_from f (match nth_error l i with Some n => n_prev n | None => None end) (deactivate l i)
  | _, _ => l
  end.
Definition cancel_nested (c : cst) : cst :=
  match ntop c with
  | Some _ => mkcst (cdb c) (txn c) (fins c) None (cancel_from (length (ns c)) (ntop c) (ns c)) (done c)
  | None => c
  end.

(* _execute_context: a transaction / the current savepoint that is attached but inactive *)
Definition invalid_state (c : cst) : bool :=
  match txn c with
  | Some false => true
  | _ => match ntop c with
         | Some i => match nth_error (ns c) i with Some n => negb (n_active n) | None => false end
         | None => false
         end
  end.

(* self._autobegin(): RootTransaction(self); on the SQLite backend the "begin" listener emits BEGIN
   unless the DBAPI connection already is in a transaction *)
Definition autobegin (c : cst) (s : st) : cst * st :=
  match txn c with
  | Some _ => (c, s)
  | None =>
      if begin_emits && negb (in_txn (cdb c)) then
        let d := cdb c in
        (mkcst (mkdb (cid d) true (dirty d) (fkbad d) (iso d) (autoc d) (sp d)) (Some true) (fins c) (ntop c) (ns c) (done c),
         add_log s 7)
      else (set_txn c (Some true), s)
  end.

(* RootTransaction._close_impl: rollback if active; in [finally] (also when the rollback raised):
   cancel the savepoints, detach *)
Definition root_close (c : cst) (s : st) : bool * cst * st :=
  match txn c with
  | Some true =>
      let '(ok, d1, s1) := db_rollback (cdb c) s in
      (ok, cancel_nested (set_txn (set_cdb c d1) None), s1)
  | Some false => (true, set_txn (cancel_nested c) None, s)
  | None => (true, c, s)
  end.

(* one operation; result code 0 ok, 1 DBAPIError, 2 InvalidRequestError (incl. PendingRollbackError),
   9 skipped by the harness (no NestedTransaction made yet) *)
Definition do_op (o : op) (c : cst) (s : st) : Z * cst * st :=
  let d := cdb c in
  match o with
  | OWrite | OFailStmt | OFkWrite =>
      if invalid_state c then (2, c, s)                           (* _invalid_transaction() *)
      else
        let (c1, s1) := autobegin c s in
        match o with
        | OFailStmt => (1, c1, s1)
        | _ => (0, set_cdb c1 (db_write (match o with OFkWrite => true | _ => false end) (cdb c1)), s1)
        end
  | OCommit =>
      match txn c with
      | None => (0, c, s)
      | Some true =>
          (* RootTransaction._do_commit: in [finally]: cancel savepoints, deactivate; detach only when
             commit succeeded *)
          let '(ok, d1, s1) := db_commit d s in
          let c1 := cancel_nested (set_cdb c d1) in
          if ok then (0, set_txn c1 None, s1) else (1, set_txn c1 (Some false), s1)
      | Some false => (2, c, s)
      end
  | ORollback =>
      let '(ok, c1, s1) := root_close c s in ((if ok then 0 else 1), c1, s1)
  | OOpts level token other =>
      (* set_connection_execution_options: only isolation_level / logging_token are characteristics *)
      if negb (level =? 0) || token then
        if negb (level =? 0) && match txn c with Some true => true | _ => false end then (2, c, s)
        else
          let (d1, s1) := if level =? 0 then (d, s) else db_set_iso level d s in
          (0, mkcst d1 (txn c) (fins c ++ [negb (level =? 0)]) (ntop c) (ns c) false, s1)
      else (0, c, s)
  | OBegin =>
      match txn c with
      | None => let (c1, s1) := autobegin c s in (0, c1, s1)
      | Some _ => (2, c, s)
      end
  | ONBegin =>
      (* begin_nested(): autobegin, then NestedTransaction(self): SAVEPOINT goes through execute() *)
      let (c1, s1) := autobegin c s in
      if invalid_state c1 then (2, c1, s1)
      else
        let (d1, s2) := db_savepoint (cdb c1) s1 in
        let i := length (ns c1) in
        (0, mkcst d1 (txn c1) (fins c1) (Some i) (ns c1 ++ [mknobj true (ntop c1) (length (sp (cdb c1)))]) false, s2)
  | ONCommit =>
      match length (ns c) with
      | O => (9, c, s)
      | S i =>
          match nth_error (ns c) i with
          | Some n =>
              if n_active n then
                (* RELEASE goes through execute(): the inactive checks apply; is_active = False in [finally] *)
                if invalid_state c then (2, mkcst d (txn c) (fins c) (ntop c) (deactivate (ns c) i) false, s)
                else
                  let (d1, s1) := db_release (n_sp n) d s in
                  (0, mkcst d1 (txn c) (fins c)
                        (match ntop c with Some j => if Nat.eqb j i then n_prev n else ntop c | None => None end)
                        (deactivate (ns c) i) false, s1)
              else (2, c, s)
          | None => (9, c, s)
          end
      end
  | ONRollback | ONClose =>
      match length (ns c) with
      | O => (9, c, s)
      | S i =>
          match nth_error (ns c) i with
          | Some n =>
              (* _close_impl: ROLLBACK TO only when this and the root transaction are active *)
              let rb := n_active n && match txn c with Some true => true | _ => false end in
              if rb && invalid_state c then (2, mkcst d (txn c) (fins c)
                        (match ntop c with Some j => if Nat.eqb j i then n_prev n else ntop c | None => None end)
                        (deactivate (ns c) i) false, s)
              else
                let (d1, s1) := if rb then db_rollback_to (n_sp n) d s else (d, s) in
                (0, mkcst d1 (txn c) (fins c)
                      (match ntop c with Some j => if Nat.eqb j i then n_prev n else ntop c | None => None end)
                      (deactivate (ns c) i) false, s1)
          | None => (9, c, s)
          end
      end
  | OClose =>
      (* Connection.close(): if self._transaction: skip_reset = self._transaction.is_active (read before)
         self._transaction.close() *)
      match txn c with
      | Some active =>
          let '(ok, c1, s1) := root_close c s in
          if ok then (0, mkcst (cdb c1) None (fins c1) (ntop c1) (ns c1) true, finalize (cdb c1) (fins c1) active s1)
          else (1, c1, s1)                                          (* the error escapes close(); still checked out *)
      | None => (0, mkcst d None (fins c) (ntop c) (ns c) true, finalize d (fins c) false s)
      end
  | ODrop => (0, mkcst d (txn c) (fins c) (ntop c) (ns c) true, finalize d (fins c) false s)      (* weakref callback *)
  | OInvalidate => (0, mkcst d (txn c) (fins c) (ntop c) (ns c) true, set_idle s None)          (* connection closed and forgotten *)
  end.

Fixpoint do_ops (ops : list op) (c : cst) (s : st) (codes : list Z) : list Z * cst * st :=
  match ops with
  | [] => (rev codes, c, s)
  | o :: r =>
      let '(code, c1, s1) := do_op o c s in
      if done c1 then (rev (code :: codes), c1, s1) else do_ops r c1 s1 (code :: codes)
  end.

(* the pool hands out the pooled connection or a new one *)
Definition checkout (s : st) : db * st :=
  match idle s with
  | Some d => (d, set_idle s None)
  | None => (mkdb (nconn s) false false false 0 false [],
             mkst None (nconn s + 1) (faults s) (log s) (twr_unsound s))
  end.

(* engine.connect(): checkout, then the option engine's engine_connect listener applies its
   characteristics (one finaliser) *)
Definition connect (d : db) (s : st) : cst * st :=
  if engine_iso =? 0 then (mkcst d None [] None [] false, s)
  else let (d1, s1) := db_set_iso engine_iso d s in (mkcst d1 None [true] None [] false, s1).

(* one user: checkout, operations, and - when the user never returned it - the garbage collector *)
Definition user (ops : list op) (s : st) : db * list Z * st :=
  let (d, s0) := checkout s in
  let s1 := mkst (idle s0) (nconn s0) (faults s0) [] (twr_unsound s0) in
  let (c0, s2) := connect d s1 in
  let '(codes, c, s3) := do_ops ops c0 s2 [] in
  (d, codes, if done c then s3 else finalize (cdb c) (fins c) false s3).

Fixpoint run (us : list (list op)) (s : st) : st :=
  match us with [] => s | u :: r => run r (snd (user u s)) end.

(* what the next checkout would get *)
Definition next_checkout (s : st) : db := fst (checkout s).

End Model.
