(* C24 - pooled connections carry no state from a previous checkout.

   Sequential model of ONE pooled DBAPI connection slot used by a sequence of "users" through the
   engine-level Connection API.  Transcribes
     engine/base.py   Connection.close / commit / rollback / begin / execution_options(isolation_level),
                      the autobegin + "inactive transaction" checks of _execute_context,
                      RootTransaction._do_commit / _do_rollback / _close_impl / _do_close
     engine/default.py _set_connection_characteristics / _reset_characteristics / reset_isolation_level
     pool/base.py     _ConnectionFairy._reset, _finalize_fairy (explicit and GC path), checkin finalizers,
                      invalidate-on-reset-error, NullPool close-on-return
   DBAPI commit()/rollback() consult a fault script (0 ok, 1 raises an ordinary DBAPI error and leaves
   the DBAPI transaction as it was); on the SQLite backend commit fails exactly when a deferred
   foreign-key violation is pending ([fkbad]).  Definitions only. *)
From Coq Require Import List ZArith Bool.
Import ListNotations.
Open Scope Z_scope.

Inductive rstyle := RRollback | RCommit | RNone.
Inductive pkind := PQueue | PNull | PStatic | PSingleton.

(* DBAPI connection state *)
Record db : Type := mkdb {
  cid : Z;            (* identity: creation index *)
  in_txn : bool;      (* a DBAPI transaction is open *)
  dirty : bool;       (* uncommitted writes *)
  fkbad : bool;       (* a deferred constraint is violated: COMMIT will fail (SQLite backend) *)
  iso : Z;            (* 0 = the default isolation level *)
  autoc : bool }.     (* isolation_level="AUTOCOMMIT" *)

Definition pristine (d : db) : bool :=
  negb (in_txn d) && negb (dirty d) && (iso d =? 0) && negb (autoc d).

Record st : Type := mkst {
  idle : option db;       (* the connection kept by the pool, if any *)
  nconn : Z;
  faults : list Z;
  log : list Z;           (* DBAPI calls of the current user: 1 commit, 2 rollback, 3 set isolation level *)
  twr_unsound : bool }.   (* ghost: transaction_was_reset=True reached _reset while the DBAPI transaction was open *)

Definition init (fl : list Z) : st :=
  {| idle := None; nconn := 0; faults := fl; log := []; twr_unsound := false |}.

Definition set_idle s v := mkst v (nconn s) (faults s) (log s) (twr_unsound s).
Definition set_faults s v := mkst (idle s) (nconn s) v (log s) (twr_unsound s).
Definition add_log s k := mkst (idle s) (nconn s) (faults s) (log s ++ [k]) (twr_unsound s).
Definition set_unsound s := mkst (idle s) (nconn s) (faults s) (log s) true.

Definition next_fault (s : st) : Z * st :=
  match faults s with [] => (0, s) | c :: r => (c, set_faults s r) end.

Definition clean (d : db) : db := mkdb (cid d) false false false (iso d) (autoc d).

(* dbapi_connection.commit(): fails on a pending deferred violation or on script *)
Definition db_commit (d : db) (s : st) : bool * db * st :=
  let s1 := add_log s 1 in
  let (c, s2) := next_fault s1 in
  if fkbad d || (c =? 1) then (false, d, s2) else (true, clean d, s2).
(* dbapi_connection.rollback() *)
Definition db_rollback (d : db) (s : st) : bool * db * st :=
  let s1 := add_log s 2 in
  let (c, s2) := next_fault s1 in
  if c =? 1 then (false, d, s2) else (true, clean d, s2).
(* dialect.set_isolation_level: 1 = a non-default level, 2 = AUTOCOMMIT, 0 = the default *)
Definition db_set_iso (level : Z) (d : db) (s : st) : db * st :=
  (if level =? 2 then mkdb (cid d) (in_txn d) (dirty d) (fkbad d) (iso d) true
   else mkdb (cid d) (in_txn d) (dirty d) (fkbad d) level false, add_log s 3).

Section Model.
Variable reset : rstyle.
Variable kind : pkind.

Fixpoint run_finalizers (n : nat) (d : db) (s : st) : db * st :=
  match n with O => (d, s) | S k => let (d1, s1) := db_set_iso 0 d s in run_finalizers k d1 s1 end.

(* _finalize_fairy(..., transaction_was_reset=twr) followed by _ConnectionRecord.checkin:
   _reset; an error invalidates the record (connection closed, finalizers cleared); otherwise the
   pending characteristic finalizers run and the connection goes back to the pool (NullPool closes it) *)
Definition finalize (d : db) (nfin : nat) (twr : bool) (s : st) : st :=
  let s := if twr && in_txn d then set_unsound s else s in
  let '(ok, d1, s1) :=
    match reset with
    | RRollback => if twr then (true, d, s) else db_rollback d s
    | RCommit => db_commit d s
    | RNone => (true, d, s)
    end in
  if ok then
    let (d2, s2) := run_finalizers nfin d1 s1 in
    set_idle s2 (match kind with PNull => None | _ => Some d2 end)
  else set_idle s1 None.

Inductive op := OWrite | OCommit | ORollback | OIso | OAutoc | OFailStmt | OBegin | OFkWrite
              | OClose | ODrop | OInvalidate.

(* the engine-level Connection during one checkout:
   txn = None | Some true (active RootTransaction) | Some false (inactive, still attached) *)
Record cst : Type := mkcst { cdb : db; txn : option bool; nfin : nat; done : bool }.

(* one operation; result code 0 ok, 1 DBAPIError, 2 InvalidRequestError (incl. PendingRollbackError) *)
Definition do_op (o : op) (c : cst) (s : st) : Z * cst * st :=
  let d := cdb c in
  match o with
  | OWrite | OFailStmt | OFkWrite =>
      match txn c with
      | Some false => (2, c, s)                                   (* _invalid_transaction() *)
      | _ =>
          (* autobegin: RootTransaction(self); do_begin emits nothing *)
          match o with
          | OFailStmt => (1, mkcst d (Some true) (nfin c) false, s)
          | _ =>
              let bad := match o with OFkWrite => true | _ => fkbad d end in
              let d1 := if autoc d then d else mkdb (cid d) true true bad (iso d) (autoc d) in
              (0, mkcst d1 (Some true) (nfin c) false, s)
          end
      end
  | OCommit =>
      match txn c with
      | None => (0, c, s)
      | Some true =>
          (* RootTransaction._do_commit: deactivate in [finally]; detach only when commit succeeded *)
          let '(ok, d1, s1) := db_commit d s in
          if ok then (0, mkcst d1 None (nfin c) false, s1) else (1, mkcst d1 (Some false) (nfin c) false, s1)
      | Some false => (2, c, s)
      end
  | ORollback =>
      match txn c with
      | None => (0, c, s)
      | Some true =>
          (* _close_impl(try_deactivate=True): rollback if active; always detached afterwards *)
          let '(ok, d1, s1) := db_rollback d s in
          ((if ok then 0 else 1), mkcst d1 None (nfin c) false, s1)
      | Some false => (0, mkcst d None (nfin c) false, s)          (* no ROLLBACK is emitted *)
      end
  | OIso | OAutoc =>
      match txn c with
      | Some true => (2, c, s)                                      (* "may not be altered unless rollback() or commit()" *)
      | _ =>
          let (d1, s1) := db_set_iso (match o with OIso => 1 | _ => 2 end) d s in
          (0, mkcst d1 (txn c) (S (nfin c)) false, s1)              (* finalize_callback.append(_reset_characteristics) *)
      end
  | OBegin =>
      match txn c with
      | None => (0, mkcst d (Some true) (nfin c) false, s)
      | Some _ => (2, c, s)
      end
  | OClose =>
      (* Connection.close(): if self._transaction: skip_reset = self._transaction.is_active (read before)
         self._transaction.close(); a transaction left inactive by a failed commit gets the pool's reset *)
      match txn c with
      | Some active =>
          let '(ok, d1, s1) := if active then db_rollback d s else (true, d, s) in
          if ok then (0, mkcst d1 None (nfin c) true, finalize d1 (nfin c) active s1)
          else (1, mkcst d1 None (nfin c) false, s1)                (* the error escapes close(); still checked out *)
      | None => (0, mkcst d None (nfin c) true, finalize d (nfin c) false s)
      end
  | ODrop => (0, mkcst d (txn c) (nfin c) true, finalize d (nfin c) false s)      (* weakref callback *)
  | OInvalidate => (0, mkcst d (txn c) (nfin c) true, set_idle s None)          (* connection closed and forgotten *)
  end.

Fixpoint do_ops (ops : list op) (c : cst) (s : st) (codes : list Z) : list Z * cst * st :=
  match ops with
  | [] => (rev codes, c, s)
  | o :: r =>
      let '(code, c1, s1) := do_op o c s in
      if done c1 then (rev (code :: codes), c1, s1) else do_ops r c1 s1 (code :: codes)
  end.

(* one user: checkout (the pooled connection or a new one), operations, and - when the user never
   returned it - the garbage collector *)
Definition checkout (s : st) : db * st :=
  match idle s with
  | Some d => (d, set_idle s None)
  | None => (mkdb (nconn s) false false false 0 false,
             mkst None (nconn s + 1) (faults s) (log s) (twr_unsound s))
  end.

Definition user (ops : list op) (s : st) : db * list Z * st :=
  let (d, s0) := checkout s in
  let s1 := mkst (idle s0) (nconn s0) (faults s0) [] (twr_unsound s0) in
  let '(codes, c, s2) := do_ops ops (mkcst d None O false) s1 [] in
  (d, codes, if done c then s2 else finalize (cdb c) (nfin c) false s2).

Fixpoint run (us : list (list op)) (s : st) : st :=
  match us with [] => s | u :: r => run r (snd (user u s)) end.

(* what the next checkout would get *)
Definition next_checkout (s : st) : db := fst (checkout s).

End Model.
