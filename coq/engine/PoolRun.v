(* executable entry point for C25 trace acceptance *)
From Coq Require Import List ZArith Bool Arith.
Import ListNotations.
From SAV.base Require Import Tree.
From SAV.engine Require Import PoolConc.
Open Scope Z_scope.

Definition dec_ev (t : tree) : option ev :=
  match t with
  | L [I 0; I i] => Some (EStart (Z.to_nat i))
  | L [I 1; I i; I v] => Some (ERd1 (Z.to_nat i) v)
  | L [I 2; I i; I x] => Some (EQGet (Z.to_nat i) (Z.to_nat x))
  | L [I 3; I i] => Some (EQEmpty (Z.to_nat i))
  | L [I 4; I i] => Some (EQWait (Z.to_nat i))
  | L [I 5; I i; I v] => Some (ERd2 (Z.to_nat i) v)
  | L [I 6; I i; I b] => Some (EInc (Z.to_nat i) (negb (Z.eqb b 0)))
  | L [I 7; I i; I x; I ok] => Some (ECreate (Z.to_nat i) (Z.to_nat x) (negb (Z.eqb ok 0)))
  | L [I 8; I i] => Some (EDec (Z.to_nat i))
  | L [I 9; I i] => Some (ERelease (Z.to_nat i))
  | L [I 10; I i] => Some (EQPut (Z.to_nat i))
  | L [I 11; I i] => Some (EQFull (Z.to_nat i))
  | L [I 12; I i] => Some (EClose (Z.to_nat i))
  | L [I 13; I i; I v] => Some (EURd (Z.to_nat i) v)
  | L [I 14; I i; I v] => Some (EUWr (Z.to_nat i) v)
  | _ => None
  end.

(* index of the first rejected event (or -1), then the final queue length, overflow counter and number
   of held connections *)
Fixpoint run_idx (c : cfg) (st : state) (tr : list ev) (k : Z) : Z * state :=
  match tr with
  | [] => (-1, st)
  | e :: r => match stepf c st e with Some st' => run_idx c st' r (k + 1) | None => (k, st) end
  end.

Definition run_case (t : tree) : tree :=
  match t with
  | L [L [I ps; I mo; I lf]; I n; L evs] =>
      match all_some (map dec_ev evs) with
      | Some tr =>
          let c := {| pool_size := ps; max_overflow := mo; lifo := negb (Z.eqb lf 0) |} in
          let '(k, (s, ts)) := run_idx c (init c (Z.to_nat n)) tr 0 in
          L [I k; I (qlen s); I (overflow s); I (Z.of_nat (length (held s)))]
      | None => bad_input
      end
  | _ => bad_input
  end.
