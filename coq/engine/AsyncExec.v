(* C29 - execution lemmas: the event loop run of monadic code, one equation per combinator *)
From Coq Require Import List ZArith Bool Arith Lia.
Import ListNotations.
From SAV.engine Require Import Async AsyncConn.
Open Scope Z_scope.

Definition rl := run_loop io_step io_cancel_step io_suspends ECancelled (R := res).

(* result of running monadic code [m] from python state [s], world [w], decisions [cs] (trace dropped) *)
Definition exec (m : M) (s : pst) (w : world) (cs : list cdec) : outcome * pst * world * list cdec :=
  let '(r, w', cs', _) := rl (m s) w cs in (fst r, snd r, w', cs').

Lemma exec_ret v s w cs : exec (mret v) s w cs = (Ok v, s, w, cs).
Proof. reflexivity. Qed.
Lemma exec_raise e s w cs : exec (mraise e) s w cs = (Raise e, s, w, cs).
Proof. reflexivity. Qed.
Lemma exec_mod f s w cs : exec (mmod f) s w cs = (Ok VUnit, f s, w, cs).
Proof. reflexivity. Qed.
Lemma exec_get f s w cs : exec (mget f) s w cs = exec (f s) s w cs.
Proof. reflexivity. Qed.

Lemma exec_bind m f s w cs :
  exec (mbind m f) s w cs =
  match exec m s w cs with
  | (Ok v, s1, w1, cs1) => exec (f v) s1 w1 cs1
  | (Raise e, s1, w1, cs1) => (Raise e, s1, w1, cs1)
  end.
Proof.
  unfold exec, mbind, rl. rewrite run_loop_bind.
  destruct (run_loop io_step io_cancel_step io_suspends ECancelled (m s) w cs) as [[[[o s1] w1] cs1] t1].
  cbn [fst snd]. destruct o as [v | e].
  - destruct (run_loop io_step io_cancel_step io_suspends ECancelled (f v s1) w1 cs1) as [[[r2 w2] cs2] t2]. reflexivity.
  - reflexivity.
Qed.

Lemma exec_seq m n s w cs :
  exec (mseq m n) s w cs =
  match exec m s w cs with
  | (Ok _, s1, w1, cs1) => exec n s1 w1 cs1
  | (Raise e, s1, w1, cs1) => (Raise e, s1, w1, cs1)
  end.
Proof. unfold mseq. rewrite exec_bind. reflexivity. Qed.

Lemma exec_try m h s w cs :
  exec (mtry m h) s w cs =
  match exec m s w cs with
  | (Ok v, s1, w1, cs1) => (Ok v, s1, w1, cs1)
  | (Raise e, s1, w1, cs1) => exec (h e) s1 w1 cs1
  end.
Proof.
  unfold exec, mtry, rl. rewrite run_loop_bind.
  destruct (run_loop io_step io_cancel_step io_suspends ECancelled (m s) w cs) as [[[[o s1] w1] cs1] t1].
  cbn [fst snd]. destruct o as [v | e].
  - reflexivity.
  - destruct (run_loop io_step io_cancel_step io_suspends ECancelled (h e s1) w1 cs1) as [[[r2 w2] cs2] t2]. reflexivity.
Qed.

Lemma exec_finally m fin s w cs :
  exec (mfinally m fin) s w cs =
  match exec m s w cs with
  | (o, s1, w1, cs1) =>
      match exec fin s1 w1 cs1 with
      | (Ok _, s2, w2, cs2) => (o, s2, w2, cs2)
      | (Raise e, s2, w2, cs2) => (Raise e, s2, w2, cs2)
      end
  end.
Proof.
  unfold exec, mfinally, rl. rewrite run_loop_bind.
  destruct (run_loop io_step io_cancel_step io_suspends ECancelled (m s) w cs) as [[[[o s1] w1] cs1] t1].
  rewrite run_loop_bind. cbn [fst snd].
  destruct (run_loop io_step io_cancel_step io_suspends ECancelled (fin s1) w1 cs1) as [[[[o2 s2] w2] cs2] t2].
  cbn [fst snd]. destruct o2; reflexivity.
Qed.

Definition of_reply (x : val + exn) : outcome := match x with inl v => Ok v | inr e => Raise e end.

Lemma exec_await i s w cs :
  exec (await_ i) s w cs =
  if io_suspends i then
    match cs with
    | C eff :: cs1 => (Raise ECancelled, s, (if eff then io_cancel_step w i else w), cs1)
    | N :: cs1 => (of_reply (fst (io_step w i)), s, snd (io_step w i), cs1)
    | [] => (of_reply (fst (io_step w i)), s, snd (io_step w i), [])
    end
  else (of_reply (fst (io_step w i)), s, snd (io_step w i), cs).
Proof.
  unfold exec, await_, rl. cbn [run_loop].
  destruct (io_suspends i).
  - destruct cs as [|[|eff] cs1]; cbn; try (destruct (io_step w i) as [[v|e] w1]; reflexivity).
  - destruct (io_step w i) as [[v|e] w1]; reflexivity.
Qed.

(* greenlet_spawn around monadic code, as run by the event loop *)
Lemma exec_spawn_false m s w cs :
  exec (acall async_api false m) s w cs = exec m s w cs.
Proof.
  unfold exec, acall, rl. cbn [call async_api].
  rewrite (run_loop_peq _ _ _ _ _ _ _ _ _ _ _ (spawn_transparent _ _ _ _ no_await (m s))). reflexivity.
Qed.

(* with _require_await the only difference is the outcome of a call that returned without any await *)
Definition relabel (o : outcome) : outcome := match o with Ok _ => Raise EAwaitRequired | Raise e => Raise e end.
Lemma exec_spawn_true m s w cs :
  exec (acall async_api true m) s w cs = exec m s w cs \/
  (exists o s', m s = Ret (o, s') /\ exec (acall async_api true m) s w cs = (relabel o, s', w, cs)).
Proof.
  unfold exec, acall, rl. cbn [call async_api].
  destruct (m s) as [[o s'] | i k | inner k] eqn:E.
  - right. exists o, s'. split; [reflexivity|]. cbn. destruct o; reflexivity.
  - left. rewrite (run_loop_peq _ _ _ _ _ _ _ _ _ _ _ (spawn_transparent_require _ _ _ _ no_await (Await i k) I)). reflexivity.
  - left. rewrite (run_loop_peq _ _ _ _ _ _ _ _ _ _ _ (spawn_transparent_require _ _ _ _ no_await (Shield inner k) I)). reflexivity.
Qed.

Lemma exec_of_ret (m : M) s w cs o s' : m s = Ret (o, s') -> exec m s w cs = (o, s', w, cs).
Proof. unfold exec, rl. intros ->. reflexivity. Qed.

(* AsyncConnection.__aexit__: the shielded close always runs to completion (on the empty stream);
   the task itself is suspended once, on the shield *)
Lemma exec_aexit cf s w cs :
  exec (aexit cf async_api) s w cs =
  let '(o1, s1, w1, _) := exec (acall async_api false (conn_close cf)) s w [] in
  match cs with
  | C _ :: cs1 => (Raise ECancelled, s1, w1, cs1)
  | N :: cs1 => (o1, s1, w1, cs1)
  | [] => (o1, s1, w1, [])
  end.
Proof.
  unfold exec, aexit, rl. cbn [shielded async_api run_loop].
  destruct (run_loop io_step io_cancel_step io_suspends ECancelled (acall async_api false (conn_close cf) s) w [])
    as [[[[o1 s1] w1] c1] t1].
  destruct cs as [|[|eff] cs1]; reflexivity.
Qed.

(* the decision stream *)
Lemma quiet_nil : quiet [].
Proof. constructor. Qed.
Lemma single_tail_N cs : single (N :: cs) -> single cs.
Proof. unfold single. cbn. auto. Qed.
Lemma ncancel0_quiet cs : ncancel cs = 0%nat -> quiet cs.
Proof.
  induction cs as [|[|e] cs IH]; cbn; intros H.
  - constructor.
  - constructor; auto. apply IH; exact H.
  - discriminate.
Qed.
Lemma single_tail_C eff cs : single (C eff :: cs) -> quiet cs.
Proof. unfold single. cbn. intros H. apply ncancel0_quiet. lia. Qed.
Lemma quiet_single cs : quiet cs -> single cs.
Proof. unfold single. induction 1; cbn; subst; auto. Qed.
