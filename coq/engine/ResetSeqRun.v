(* executable entry point for the correspondence check of C24 *)
From Coq Require Import List ZArith Bool.
Import ListNotations.
From SAV.base Require Import Tree.
From SAV.engine Require Import ResetSeq.
Open Scope Z_scope.

Definition dec_reset (z : Z) : option rstyle :=
  if z =? 0 then Some RRollback else if z =? 1 then Some RCommit else if z =? 2 then Some RNone else None.
Definition dec_kind (z : Z) : option pkind :=
  if z =? 0 then Some PQueue else if z =? 1 then Some PNull else if z =? 2 then Some PStatic
  else if z =? 3 then Some PSingleton else None.
Definition dec_op (t : tree) : option op :=
  match t with
  | I 0 => Some OWrite | I 1 => Some OCommit | I 2 => Some ORollback | I 3 => Some OIso | I 4 => Some OAutoc
  | I 5 => Some OFailStmt | I 6 => Some OBegin | I 7 => Some OFkWrite | I 8 => Some OClose | I 9 => Some ODrop
  | I 10 => Some OInvalidate | _ => None
  end.

Definition enc_db (d : db) : tree :=
  L [I (cid d); of_bool (in_txn d); of_bool (dirty d); I (iso d); of_bool (autoc d)].

(* the observations of the successive users, then of one more (empty) checkout *)
Fixpoint run_obs (reset : rstyle) (kind : pkind) (withlog : bool) (us : list (list op)) (s : st) : list tree :=
  match us with
  | [] => []
  | u :: r =>
      let '(d, codes, s1) := user reset kind u s in
      L [enc_db d; L (map I codes); L (if withlog then map I (log s1) else [])] :: run_obs reset kind withlog r s1
  end.

(* input  L [L [backend; reset; kind]; L users; L faults]   backend 0 = fake DBAPI, 1 = SQLite *)
Definition run_case (t : tree) : tree :=
  match t with
  | L [L [I backend; I rs; I k]; L tus; tf] =>
      match dec_reset rs, dec_kind k, all_some (map (as_list_of dec_op) tus), as_list_of as_Z tf with
      | Some reset, Some kind, Some us, Some fl =>
          L (run_obs reset kind (backend =? 0) (us ++ [[]]) (init fl))
      | _, _, _, _ => bad_input
      end
  | _ => bad_input
  end.
