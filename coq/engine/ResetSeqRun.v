(* executable entry point for the correspondence check of C24 *)
From Coq Require Import List ZArith Bool.
Import ListNotations.
From SAV.base Require Import Tree.
From SAV.engine Require Import ResetSeq.
Open Scope Z_scope.

Definition dec_reset (z : Z) : option rstyle :=
  if z =? 0 then Some RRollback else if z =? 1 then Some RCommit else if z =? 2 then Some RNone else None.
Definition dec_kind (z : Z) : option pkind :=
  if z =? 0 then Some PQueue else if z =? 1 then Some PNull else if z =? 2 then Some PStatic
  else if z =? 3 then Some PSingleton else None.
Definition dec_op (t : tree) : option op :=
  match t with
  | I 0 => Some OWrite | I 1 => Some OCommit | I 2 => Some ORollback
  | I 3 => Some (OOpts 1 false false) | I 4 => Some (OOpts 2 false false)
  | I 5 => Some OFailStmt | I 6 => Some OBegin | I 7 => Some OFkWrite | I 8 => Some OClose | I 9 => Some ODrop
  | I 10 => Some OInvalidate
  | L [I 11; I lvl; I tok; I oth] =>
      if (0 <=? lvl) && (lvl <=? 2) then Some (OOpts lvl (negb (tok =? 0)) (negb (oth =? 0))) else None
  | I 12 => Some ONBegin | I 13 => Some ONCommit | I 14 => Some ONRollback | I 15 => Some ONClose
  | _ => None
  end.

Definition enc_db (d : db) : tree :=
  L [I (cid d); of_bool (in_txn d); of_bool (dirty d); I (iso d); of_bool (autoc d)].

(* the observations of the successive users, then of one more (empty) checkout *)
Fixpoint run_obs (reset : rstyle) (kind : pkind) (be : bool) (ei : Z) (withlog : bool) (us : list (list op)) (s : st) : list tree :=
  match us with
  | [] => []
  | u :: r =>
      let '(d, codes, s1) := user reset kind be ei u s in
      L [enc_db d; L (map I codes); L (if withlog then map I (log s1) else [])] :: run_obs reset kind be ei withlog r s1
  end.

(* input  L [L [backend; reset; kind; engine_iso]; L users; L faults]   backend 0 = fake DBAPI, 1 = SQLite *)
Definition run_case (t : tree) : tree :=
  match t with
  | L [L [I backend; I rs; I k; I ei]; L tus; tf] =>
      match dec_reset rs, dec_kind k, all_some (map (as_list_of dec_op) tus), as_list_of as_Z tf with
      | Some reset, Some kind, Some us, Some fl =>
          if (0 <=? ei) && (ei <=? 2) then
            L (run_obs reset kind (backend =? 1) ei (backend =? 0) (us ++ [[]]) (init fl))
          else bad_input
      | _, _, _, _ => bad_input
      end
  | _ => bad_input
  end.
