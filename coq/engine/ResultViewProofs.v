(* C10 - the row getters (_onerow_getter, _manyrow_getter with its re-fetch loop, _allrows, iteration,
   partitions) compute exactly [adeliver]: the first n not-yet-seen rows of the remaining list *)
From Coq Require Import List ZArith Bool Arith Lia.
Import ListNotations.
From SAV.engine Require Import ResultModel ResultSpec ResultFetchProofs.

(* ---------- seen-set heap ---------- *)
Lemma hset_length h : forall i s, length (hset h i s) = length h.
Proof. induction h; intros [|i] s; cbn; auto. Qed.
Lemma hget_hset_same h : forall i s, i < length h -> hget (hset h i s) i = s.
Proof.
  unfold hget. induction h; intros [|i] s Hl; cbn in *; try lia; auto. apply IHh. lia.
Qed.
Lemma hget_hset_other h : forall i j s, i <> j -> hget (hset h i s) j = hget h j.
Proof.
  unfold hget. induction h; intros [|i] [|j] s Hn; cbn; auto; try congruence; try (apply IHh; congruence).
Qed.
Lemma hset_hset h : forall i a b, hset (hset h i a) i b = hset h i b.
Proof. induction h; intros [|i] a0 b; cbn; auto. f_equal. apply IHh. Qed.
Lemma hset_hget h : forall i, hset h i (hget h i) = h.
Proof. unfold hget. induction h; intros [|i]; cbn; auto. f_equal. apply IHh. Qed.

(* ---------- take ---------- *)
Lemma take_zero st c rm seen : take st c rm 0 seen = ([], seen, rm).
Proof. destruct rm; reflexivity. Qed.

Lemma take_None c : forall rm n seen,
  take None c rm n seen = (map (project c) (firstn n rm), seen, skipn n rm).
Proof.
  induction rm as [|raw t IH]; intros n seen.
  - rewrite firstn_nil, skipn_nil. reflexivity.
  - destruct n; [reflexivity|]. cbn [take firstn skipn map]. rewrite IH. reflexivity.
Qed.

Lemma apply_unique_length st : forall rows seen, length (fst (apply_unique st rows seen)) <= length rows.
Proof.
  induction rows as [|p t IH]; intros seen; cbn [apply_unique]; [cbn; lia|].
  destruct (mem (key_of st p) seen).
  - specialize (IH seen). cbn [length]. lia.
  - specialize (IH (key_of st p :: seen)). destruct (apply_unique st t (key_of st p :: seen)). cbn in *. lia.
Qed.

(* reading a chunk of m <= n rows with _apply_unique_strategy, then going on, is [take] *)
Lemma take_chunk st c : forall rm n m seen d1 s1,
  m <= n ->
  apply_unique st (map (project c) (firstn m rm)) seen = (d1, s1) ->
  take (Some st) c rm n seen =
    (let '(d2, s2, r2) := take (Some st) c (skipn m rm) (n - length d1) s1 in (d1 ++ d2, s2, r2)).
Proof.
  induction rm as [|raw t IH]; intros n m seen d1 s1 Hm Ha.
  - rewrite firstn_nil in Ha. cbn in Ha. inversion Ha; subst. rewrite skipn_nil. reflexivity.
  - destruct m as [|m'].
    + cbn in Ha. inversion Ha; subst. cbn [skipn length app]. rewrite Nat.sub_0_r.
      destruct (take (Some st) c (raw :: t) n s1) as [[a b] r]. reflexivity.
    + destruct n as [|n']; [lia|].
      cbn [firstn map apply_unique] in Ha. cbn [take skipn].
      destruct (mem (key_of st (project c raw)) seen) eqn:M.
      * apply (IH (S n') m' seen d1 s1); [lia|exact Ha].
      * destruct (apply_unique st (map (project c) (firstn m' t)) (key_of st (project c raw) :: seen))
          as [d1' s1'] eqn:A. inversion Ha; subst.
        rewrite (IH n' m' _ d1' s1); [|lia|exact A].
        cbn [length]. replace (S n' - S (length d1')) with (n' - length d1') by lia.
        destruct (take (Some st) c (skipn m' t) (n' - length d1') s1) as [[a b] r]. reflexivity.
Qed.

(* one row, then k more = k+1 rows; when the first attempt finds nothing the list is used up *)
Lemma take_S st c : forall rm k seen,
  take st c rm (S k) seen =
    (let '(d1, s1, r1) := take st c rm 1 seen in
     match d1 with
     | [] => ([], s1, r1)
     | _ => let '(d2, s2, r2) := take st c r1 k s1 in (d1 ++ d2, s2, r2)
     end).
Proof.
  induction rm as [|raw t IH]; intros k seen.
  - reflexivity.
  - cbn [take]. destruct st as [s|].
    + destruct (mem (key_of s (project c raw)) seen).
      * apply IH.
      * rewrite take_zero. cbn [app].
        destruct (take (Some s) c t k (key_of s (project c raw) :: seen)) as [[a b] r]. reflexivity.
    + rewrite take_zero. cbn [app]. destruct (take None c t k seen) as [[a b] r]. reflexivity.
Qed.
Lemma take_1_nil st c : forall rm seen d s r, take st c rm 1 seen = (d, s, r) -> d = [] -> s = seen /\ r = [].
Proof.
  induction rm as [|raw t IH]; intros seen d s r H Hd.
  - cbn in H. inversion H; auto.
  - cbn [take] in H. destruct st as [k|].
    + destruct (mem (key_of k (project c raw)) seen).
      * apply (IH seen d s r H Hd).
      * rewrite take_zero in H. inversion H; subst. discriminate.
    + rewrite take_zero in H. inversion H; subst. discriminate.
Qed.
Lemma take_length st c : forall rm n seen, length (fst (fst (take st c rm n seen))) <= n.
Proof.
  induction rm as [|raw t IH]; intros n seen; [cbn; lia|].
  destruct n; [cbn; lia|]. cbn [take]. destruct st as [k|].
  - destruct (mem (key_of k (project c raw)) seen).
    + apply IH.
    + specialize (IH n (key_of k (project c raw) :: seen)).
      destruct (take (Some k) c t n (key_of k (project c raw) :: seen)) as [[a b] r]. cbn in *. lia.
  - specialize (IH n seen). destruct (take None c t n seen) as [[a b] r]. cbn in *. lia.
Qed.
(* fewer rows than asked for: the list is used up *)
Lemma take_short st c : forall rm n seen d s r,
  take st c rm n seen = (d, s, r) -> length d < n -> r = [].
Proof.
  induction rm as [|raw t IH]; intros n seen d s r H Hl.
  - cbn in H. inversion H; auto.
  - destruct n; [lia|]. cbn [take] in H. destruct st as [k|].
    + destruct (mem (key_of k (project c raw)) seen).
      * apply (IH (S n) seen d s r H Hl).
      * destruct (take (Some k) c t n (key_of k (project c raw) :: seen)) as [[a b] r'] eqn:T.
        inversion H; subst. cbn in Hl. apply (IH n _ a s r T). lia.
    + destruct (take None c t n seen) as [[a b] r'] eqn:T. inversion H; subst. cbn in Hl.
      apply (IH n _ a s r T). lia.
Qed.

(* ---------- adeliver ---------- *)
Definition u_ok (h : heap) (u : option ustate) : Prop :=
  match u with Some u => fst u < length h | None => True end.

Lemma adeliver_heap_length u c n rm h : length (snd (adeliver u c n rm h)) = length h.
Proof.
  unfold adeliver. destruct u as [u|].
  - destruct (take (Some (snd u)) c rm n (hget h (fst u))) as [[a b] r]. cbn. apply hset_length.
  - destruct (take None c rm n []) as [[a b] r]. reflexivity.
Qed.

(* ---------- _onerow_getter ---------- *)
Lemma onerow_loop_ok c u : forall rm fuel f h d seen r,
  remaining f = rm -> hardc f = false -> length rm < fuel ->
  take (Some (snd u)) c rm 1 (hget h (fst u)) = (d, seen, r) ->
  exists f', onerow_loop fuel c u f h = (f', hset h (fst u) seen, Ok (hd_error d)) /\
             remaining f' = r /\ hardc f' = false.
Proof.
  induction rm as [|raw t IH]; intros fuel f h d seen r Hr Hc Hf Ht.
  - destruct fuel; [cbn in Hf; lia|]. cbn in Ht. inversion Ht; subst.
    pose proof (fetchone_open false f Hc) as H. rewrite Hr in H. destruct H as [f' [E [R1 [W Hh]]]].
    exists f'. cbn [onerow_loop]. rewrite E. rewrite hset_hget. cbn in Hh. auto.
  - destruct fuel; [cbn in Hf; lia|].
    pose proof (fetchone_open false f Hc) as H. rewrite Hr in H. destruct H as [f' [E [R1 [Hc' _]]]].
    cbn [onerow_loop]. rewrite E. cbn [take] in Ht.
    destruct (mem (key_of (snd u) (project c raw)) (hget h (fst u))) eqn:M.
    + apply (IH fuel f' h d seen r R1 Hc'); [cbn in Hf; lia|exact Ht].
    + rewrite take_zero in Ht. inversion Ht; subst. exists f'. cbn [hd_error]. auto.
Qed.

Lemma onerow_ok cu c f h d r h' :
  hardc f = false -> adeliver cu c 1 (remaining f) h = (d, r, h') ->
  exists f', onerow cu c f h = (f', h', Ok (hd_error d)) /\ remaining f' = r /\ hardc f' = false.
Proof.
  intros Hc Ha. unfold adeliver in Ha. unfold onerow. destruct cu as [u|].
  - destruct (take (Some (snd u)) c (remaining f) 1 (hget h (fst u))) as [[d0 seen] r0] eqn:T.
    inversion Ha; subst. apply (onerow_loop_ok c u (remaining f) _ f h d seen r eq_refl Hc); [lia|exact T].
  - rewrite take_None in Ha. inversion Ha; subst.
    pose proof (fetchone_open false f Hc) as H. destruct (remaining f) as [|raw t].
    + destruct H as [f' [E [R1 [W Hh]]]]. exists f'. rewrite E. cbn in Hh. cbn. auto.
    + destruct H as [f' [E [R1 [Hc' _]]]]. exists f'. rewrite E. cbn. auto.
Qed.

Lemma onerow_closed cu c f h : fwf f -> hardc f = true -> onerow cu c f h = (f, h, Raise ResourceClosed).
Proof.
  intros W Hc. unfold onerow. destruct cu as [u|].
  - cbn [onerow_loop]. rewrite (fetchone_closed false f W Hc). reflexivity.
  - rewrite (fetchone_closed false f W Hc). reflexivity.
Qed.

(* ---------- _manyrow_getter ---------- *)
Lemma many_loop_S k c u num collect f h :
  many_loop (S k) c u num collect f h =
  (if (num - length collect) =? 0 then (f, h, Ok collect) else
   let '(f1, r) := fetchmany_impl (Some (num - length collect)) f in
   match r with
   | Ok [] => (f1, h, Ok collect)
   | Ok rows =>
       let '(d, s) := apply_unique (snd u) (map (project c) rows) (hget h (fst u)) in
       many_loop k c u num (collect ++ d) f1 (hset h (fst u) s)
   | Raise e => (f1, h, Raise e)
   | Fuel => (f1, h, Fuel)
   end).
Proof. reflexivity. Qed.

Lemma many_loop_ok c u num : forall fuel f h collect d seen r,
  hardc f = false -> length (remaining f) < fuel -> fst u < length h ->
  take (Some (snd u)) c (remaining f) (num - length collect) (hget h (fst u)) = (d, seen, r) ->
  exists f', many_loop fuel c u num collect f h = (f', hset h (fst u) seen, Ok (collect ++ d)) /\
             remaining f' = r /\ hardc f' = false.
Proof.
  induction fuel as [|k IH]; intros f h collect d seen r Hc Hf Hu Ht; [lia|].
  rewrite many_loop_S. destruct (num - length collect) as [|q] eqn:Q.
  - cbn [Nat.eqb]. rewrite take_zero in Ht. inversion Ht; subst.
    exists f. rewrite hset_hget, app_nil_r. auto.
  - cbn [Nat.eqb].
    destruct (fetchmany_open (S q) f Hc) as [f1 [E [R1 Hc1]]]; [lia|]. rewrite E.
    destruct (firstn (S q) (remaining f)) as [|x l] eqn:F.
    + assert (H0 : remaining f = []) by (apply (firstn_nil_inv (S q)); [lia|exact F]).
      rewrite H0 in Ht. cbn in Ht. inversion Ht; subst.
      exists f1. rewrite hset_hget, app_nil_r. rewrite R1, H0, skipn_nil. auto.
    + rewrite <- F.
      destruct (apply_unique (snd u) (map (project c) (firstn (S q) (remaining f))) (hget h (fst u)))
        as [d1 s1] eqn:A.
      rewrite (take_chunk (snd u) c (remaining f) (S q) (S q) _ d1 s1 (le_n _) A) in Ht.
      destruct (take (Some (snd u)) c (skipn (S q) (remaining f)) (S q - length d1) s1) as [[d2 s2] r2] eqn:T2.
      inversion Ht; subst.
      assert (Hlen : length (remaining f1) < k).
      { rewrite R1. rewrite skipn_length. destruct (remaining f); [discriminate|]. cbn [length] in *. lia. }
      destruct (IH f1 (hset h (fst u) s1) (collect ++ d1) d2 seen r Hc1 Hlen) as [f' [E' [R' Hc']]].
      * rewrite hset_length. exact Hu.
      * rewrite hget_hset_same by exact Hu. rewrite R1. rewrite app_length.
        replace (num - (length collect + length d1)) with (S q - length d1) by lia. exact T2.
      * exists f'. rewrite E'. rewrite hset_hset, app_assoc. auto.
Qed.

Lemma manyrows_some_ok cu ypv c n f h d r h' :
  hardc f = false -> 1 <= n -> u_ok h cu -> adeliver cu c n (remaining f) h = (d, r, h') ->
  exists f', manyrows cu ypv c (Some n) f h = (f', h', Ok d) /\ remaining f' = r /\ hardc f' = false.
Proof.
  intros Hc Hn Hu Ha. unfold adeliver in Ha. unfold manyrows. destruct cu as [u|].
  - destruct (take (Some (snd u)) c (remaining f) n (hget h (fst u))) as [[d0 seen] r0] eqn:T.
    inversion Ha; subst.
    destruct (many_loop_ok c u n (many_fuel f) f h [] d seen r Hc) as [f' [E H]];
      [unfold many_fuel; lia|exact Hu|cbn [length]; rewrite Nat.sub_0_r; exact T|].
    exists f'. rewrite E. auto.
  - rewrite take_None in Ha. inversion Ha; subst.
    destruct (fetchmany_open n f Hc Hn) as [f1 [E [R1 Hc1]]]. exists f1. rewrite E. auto.
Qed.
(* without a size, after yield_per(S y) *)
Lemma manyrows_none_ok cu y c f h d r h' :
  hardc f = false -> u_ok h cu -> adeliver cu c (S y) (remaining f) h = (d, r, h') ->
  exists f', manyrows cu (Some (S y)) c None f h = (f', h', Ok d) /\ remaining f' = r /\ hardc f' = false.
Proof.
  intros Hc Hu Ha.
  destruct (manyrows_some_ok cu (Some (S y)) c (S y) f h d r h' Hc) as [f' [E H]]; [lia|exact Hu|exact Ha|].
  exists f'. split; [|exact H]. rewrite <- E. unfold manyrows. destruct cu; reflexivity.
Qed.

Lemma manyrows_closed cu ypv c n f h : fwf f -> hardc f = true ->
  (match n, ypv with None, None | None, Some 0 => False | _, _ => True end) ->
  (match n with Some 0 => False | _ => True end) ->
  manyrows cu ypv c n f h = (f, h, Raise ResourceClosed).
Proof.
  intros W Hc Hd Hz. unfold manyrows. destruct cu as [u|].
  - destruct n as [[|n]|]; [contradiction| |].
    + unfold many_fuel. rewrite many_loop_S. cbn [length Nat.sub Nat.eqb].
      rewrite (fetchmany_closed _ f W Hc). reflexivity.
    + destruct ypv as [[|y]|]; try contradiction.
      unfold many_fuel. rewrite many_loop_S. cbn [length Nat.sub Nat.eqb].
      rewrite (fetchmany_closed _ f W Hc). reflexivity.
  - rewrite (fetchmany_closed _ f W Hc). reflexivity.
Qed.

(* ---------- _allrows ---------- *)
Lemma allrows_ok cu c f h d r h' :
  hardc f = false -> adeliver cu c (length (remaining f)) (remaining f) h = (d, r, h') ->
  exists f', allrows cu c f h = (f', h', Ok d) /\ remaining f' = r /\ r = [] /\ hardc f' = false.
Proof.
  intros Hc Ha. unfold adeliver in Ha. unfold allrows.
  destruct (fetchall_open f Hc) as [f1 [E [R1 Hc1]]]. rewrite E. destruct cu as [u|].
  - destruct (apply_unique (snd u) (map (project c) (remaining f)) (hget h (fst u))) as [d1 s1] eqn:A.
    assert (A' : apply_unique (snd u) (map (project c) (firstn (length (remaining f)) (remaining f)))
                   (hget h (fst u)) = (d1, s1)) by (rewrite firstn_all; exact A).
    rewrite (take_chunk (snd u) c (remaining f) _ _ _ d1 s1 (le_n _) A') in Ha.
    rewrite skipn_all in Ha. cbn [take] in Ha. inversion Ha; subst. rewrite app_nil_r.
    exists f1. auto.
  - rewrite take_None in Ha. rewrite firstn_all, skipn_all in Ha. inversion Ha; subst. exists f1. auto.
Qed.
Lemma allrows_closed cu c f h : fwf f -> hardc f = true -> allrows cu c f h = (f, h, Raise ResourceClosed).
Proof. intros W Hc. unfold allrows. rewrite (fetchall_closed f W Hc). reflexivity. Qed.

(* ---------- iteration ---------- *)
Lemma adeliver_S cu c k rm h : u_ok h cu ->
  adeliver cu c (S k) rm h =
    (let '(d1, r1, h1) := adeliver cu c 1 rm h in
     match d1 with
     | [] => ([], r1, h1)
     | _ => let '(d2, r2, h2) := adeliver cu c k r1 h1 in (d1 ++ d2, r2, h2)
     end).
Proof.
  intros Hu. unfold adeliver. destruct cu as [u|].
  - rewrite take_S. destruct (take (Some (snd u)) c rm 1 (hget h (fst u))) as [[d1 s1] r1].
    destruct d1 as [|p d1t]; [reflexivity|].
    rewrite hget_hset_same by exact Hu.
    destruct (take (Some (snd u)) c r1 k s1) as [[d2 s2] r2]. rewrite hset_hset. reflexivity.
  - rewrite take_S. rewrite (take_None c rm 1 []).
    destruct (map (project c) (firstn 1 rm)) as [|p d1t]; [reflexivity|].
    destruct (take None c (skipn 1 rm) k []) as [[d2 s2] r2]. reflexivity.
Qed.
Lemma adeliver_length cu c n rm h : length (fst (fst (adeliver cu c n rm h))) <= n.
Proof.
  unfold adeliver. destruct cu as [u|].
  - pose proof (take_length (Some (snd u)) c rm n (hget h (fst u))) as L.
    destruct (take (Some (snd u)) c rm n (hget h (fst u))) as [[a b] r]. exact L.
  - pose proof (take_length None c rm n []) as L. destruct (take None c rm n []) as [[a b] r]. exact L.
Qed.

Lemma iter_loop_ok cu c : forall k f h acc d r h',
  hardc f = false -> u_ok h cu -> adeliver cu c k (remaining f) h = (d, r, h') ->
  exists f', iter_loop k cu c f h acc = (f', h', Ok (acc ++ d, length d <? k)) /\
             remaining f' = r /\ hardc f' = false.
Proof.
  induction k as [|k IH]; intros f h acc d r h' Hc Hu Ha.
  - unfold adeliver in Ha. destruct cu as [u|]; rewrite take_zero in Ha; inversion Ha; subst;
      exists f; cbn [iter_loop]; rewrite ?hset_hget, app_nil_r; auto.
  - cbn [iter_loop]. rewrite (adeliver_S cu c k _ h Hu) in Ha.
    destruct (adeliver cu c 1 (remaining f) h) as [[d1 r1] h1] eqn:A1.
    destruct (onerow_ok cu c f h d1 r1 h1 Hc A1) as [f1 [E [R1 Hc1]]]. rewrite E.
    pose proof (adeliver_length cu c 1 (remaining f) h) as L1. rewrite A1 in L1. cbn [fst] in L1.
    assert (Hu1 : u_ok h1 cu).
    { pose proof (adeliver_heap_length cu c 1 (remaining f) h) as L. rewrite A1 in L. cbn in L.
      unfold u_ok in *. destruct cu; auto. lia. }
    destruct d1 as [|p d1t].
    + inversion Ha; subst. cbn [hd_error]. exists f1. rewrite app_nil_r. auto.
    + destruct d1t; [|cbn in L1; lia]. cbn [hd_error].
      destruct (adeliver cu c k r1 h1) as [[d2 r2] h2] eqn:A2. inversion Ha; subst.
      destruct (IH f1 h1 (acc ++ [p]) d2 r h' Hc1 Hu1 A2) as [f' [E' H']].
      exists f'. rewrite E'. rewrite <- app_assoc. cbn [app length]. auto.
Qed.
Lemma iter_loop_closed cu c k f h acc : fwf f -> hardc f = true ->
  iter_loop (S k) cu c f h acc = (f, h, Raise ResourceClosed).
Proof. intros W Hc. cbn [iter_loop]. rewrite (onerow_closed cu c f h W Hc). reflexivity. Qed.

(* ---------- partitions ---------- *)
(* the same loop on (remaining rows, seen-sets) *)
Fixpoint aparts (k : nat) (u : option ustate) (c : list (nat * nat)) (n : nat) (rm : list row) (h : heap)
  (acc : list (list row)) : list (list row) * bool * list row * heap :=
  match k with
  | 0 => (acc, false, rm, h)
  | S k' =>
      let '(d, r, h1) := adeliver u c n rm h in
      match d with
      | [] => (acc, true, r, h1)
      | _ => aparts k' u c n r h1 (acc ++ [d])
      end
  end.

Lemma parts_loop_ok cu ypv c num n : forall k f h acc ps stopped r h',
  hardc f = false -> u_ok h cu ->
  (forall f0 h0 d0 r0 h0', hardc f0 = false -> u_ok h0 cu -> adeliver cu c n (remaining f0) h0 = (d0, r0, h0') ->
     exists f', manyrows cu ypv c num f0 h0 = (f', h0', Ok d0) /\ remaining f' = r0 /\ hardc f' = false) ->
  aparts k cu c n (remaining f) h acc = (ps, stopped, r, h') ->
  exists f', parts_loop k cu ypv c num f h acc = (f', h', Ok (ps, stopped)) /\
             remaining f' = r /\ hardc f' = false.
Proof.
  induction k as [|k IH]; intros f h acc ps stopped r h' Hc Hu HM Ha.
  - cbn in Ha. inversion Ha; subst. exists f. auto.
  - cbn [aparts] in Ha. cbn [parts_loop].
    destruct (adeliver cu c n (remaining f) h) as [[d r1] h1] eqn:A.
    destruct (HM f h d r1 h1 Hc Hu A) as [f1 [E [R1 Hc1]]]. rewrite E.
    destruct d as [|p d'].
    + inversion Ha; subst. exists f1. auto.
    + assert (Hu1 : u_ok h1 cu).
      { pose proof (adeliver_heap_length cu c n (remaining f) h) as L. rewrite A in L. cbn in L.
        unfold u_ok in *. destruct cu; auto. lia. }
      rewrite <- R1 in Ha. apply (IH f1 h1 _ ps stopped r h' Hc1 Hu1 HM Ha).
Qed.
