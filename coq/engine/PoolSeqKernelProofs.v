(* C26 - the decision kernel of no_dead_reuse: _ConnectionRecord.get_connection hands back the
   connection the record already holds only when none of the three staleness tests fired *)
From Coq Require Import List ZArith Bool Arith Lia.
Import ListNotations.
From SAV.engine Require Import PoolSeq PoolSeqFrame.
Open Scope Z_scope.

Section Kernel.
Variable cf : cfg.

Lemma next_fault_nconns : forall s c s', next_fault s = (c, s') -> cn s' = cn s /\ rc s' = rc s /\ pl s' = pl s.
Proof. unfold next_fault; intros. dm H; inv H; auto. Qed.

Lemma rec_connect_nconns : forall r s x s', rec_connect cf r s = (x, s') ->
  match x with Ok _ => nconns s' = S (nconns s) | Raise _ => nconns s' = nconns s end.
Proof.
  unfold rec_connect, ext_connect; intros r s x s' H.
  destruct (now cf (set_r_dbc s (upd (r_dbc s) r None))) as [t s2] eqn:En.
  assert (N2 : nconns s2 = nconns s) by (unfold now in En; dm En; inv En; reflexivity).
  match type of H with context [next_fault ?s3] => destruct (next_fault s3) as [code s4] eqn:Ef end.
  apply next_fault_nconns in Ef. destruct Ef as (C4 & _ & _).
  assert (N4 : nconns s4 = nconns s) by (unfold nconns in *; rewrite C4; exact N2).
  destruct (raises code); inv H.
  - transitivity (nconns s4); [reflexivity|exact N4].
  - transitivity (S (nconns s4)); [reflexivity|rewrite N4; reflexivity].
Qed.

Lemma rec_close_nconns : forall r s x s', rec_close r s = (x, s') -> nconns s' = nconns s.
Proof.
  unfold rec_close, close_connection, ext_close; intros r s x s' H.
  destruct (r_dbc s r); [|inv H; auto].
  destruct (next_fault s) as [code s1] eqn:Ef. apply next_fault_nconns in Ef. destruct Ef as (C1 & _ & _).
  assert (N1 : nconns s1 = nconns s) by (unfold nconns; rewrite C1; reflexivity).
  destruct (raises code) as [e|]; cbn [fst snd] in H; [destruct (is_exception e)|]; inv H;
    (transitivity (nconns s1); [reflexivity|exact N1]).
Qed.

(* if no new DBAPI connection was made, the one handed out is the one the record had, and it passed
   the recycle / pool-invalidation / soft-invalidation tests (all three strict comparisons) *)
Theorem get_connection_kernel : forall r s c s',
  get_connection cf r s = (Ok c, s') -> nconns s' = nconns s ->
  r_dbc s r = Some c /\ r_dbc s' r = Some c /\
  ~ (r_start s' r < inv_time s') /\ ~ (r_start s' r < r_soft s' r) /\
  (-1 < recycle cf -> clock s' - r_start s' r <= recycle cf).
Proof.
  unfold get_connection; intros r s c s' H Hn.
  destruct (r_dbc s r) as [c0|] eqn:Ed.
  - match type of H with (let '(_, _) := ?e in _) = _ => destruct e as [rcy s1] eqn:E0 end.
    assert (S1 : nconns s1 = nconns s /\ r_dbc s1 = r_dbc s /\
                 (rcy = Some false -> ~ (r_start s1 r < inv_time s1) /\ ~ (r_start s1 r < r_soft s1 r) /\
                                      (-1 < recycle cf -> clock s1 - r_start s1 r <= recycle cf)) /\ rcy <> None).
    { destruct (-1 <? recycle cf) eqn:Er.
      - destruct (now cf s) as [t s0] eqn:En.
        assert (N0 : nconns s0 = nconns s /\ r_dbc s0 = r_dbc s /\ r_start s0 = r_start s /\ t = clock s0).
        { unfold now in En. dm En; inv En; auto. }
        destruct N0 as (N1 & N2 & N3 & N4).
        destruct (recycle cf <? t - r_start s0 r) eqn:E1; [inv E0; repeat split; auto; discriminate|].
        destruct (r_start s0 r <? inv_time s0) eqn:E2; [inv E0; repeat split; auto; discriminate|].
        destruct (r_start s0 r <? r_soft s0 r) eqn:E3; inv E0; repeat split; auto; try discriminate; try lia.
      - destruct (r_start s r <? inv_time s) eqn:E2; [inv E0; repeat split; auto; discriminate|].
        destruct (r_start s r <? r_soft s r) eqn:E3; inv E0; repeat split; auto; try discriminate; try lia. }
    destruct S1 as (N1 & D1 & G1 & G2).
    destruct rcy as [[|]|]; [| |congruence].
    + (* recycled: a new connection is made, contradiction *)
      exfalso. destruct (rec_close r s1) as [[|e] s2] eqn:Ec; [|inv H].
      apply rec_close_nconns in Ec.
      destruct (rec_connect cf r s2) as [[|e] s3] eqn:Er; [|inv H].
      apply rec_connect_nconns in Er. repeat dm H; inv H. lia.
    + rewrite D1, Ed in H. inv H. destruct (G1 eq_refl) as (A1 & A2 & A3).
      rewrite D1, Ed. auto.
  - (* no connection: __connect makes a new one, contradiction *)
    exfalso. destruct (rec_connect cf r s) as [[|e] s3] eqn:Er; [|inv H].
    apply rec_connect_nconns in Er. repeat dm H; inv H. lia.
Qed.

End Kernel.
