(* C10 - _only_one_row (first / one / one_or_none / scalar / scalar_one / scalar_one_or_none) against the
   list model, inside the guarded region (empty seen-set, strategy not yet soft-closed) *)
From Coq Require Import List ZArith Bool Arith Lia.
Import ListNotations.
From SAV.engine Require Import ResultModel ResultSpec ResultFetchProofs ResultViewProofs.

Lemma zs_eqb_sym : forall a b, zs_eqb a b = zs_eqb b a.
Proof. induction a; destruct b; cbn; auto. rewrite Z.eqb_sym, IHa. reflexivity. Qed.
Lemma val_eqb_sym a b : val_eqb a b = val_eqb b a.
Proof. destruct a, b; cbn; auto using Z.eqb_sym, zs_eqb_sym. Qed.
Lemma row_eqb_sym : forall a b, row_eqb a b = row_eqb b a.
Proof. induction a; destruct b; cbn; auto. rewrite val_eqb_sym, IHa. reflexivity. Qed.

(* the "look for a second, different row" loop *)
Lemma second_loop_ok c st first : forall rm fuel f d s r,
  remaining f = rm -> hardc f = false -> softc f = false -> length rm < fuel ->
  take (Some st) c rm 1 [key_of st first] = (d, s, r) ->
  exists f', second_loop fuel c st first f = (f', Ok (hd_error d)) /\
             match d with
             | [] => remaining f' = [] /\ hardc f' = true /\ fwf f'
             | _ => hardc f' = false
             end.
Proof.
  induction rm as [|raw t IH]; intros fuel f d s r Hr Hc Hs Hf Ht.
  - destruct fuel; [cbn in Hf; lia|]. cbn in Ht. inversion Ht; subst.
    pose proof (fetchone_open true f Hc) as H. rewrite Hr in H. destruct H as [f' [E [R1 [W Hh]]]].
    exists f'. cbn [second_loop]. rewrite E. rewrite Hs in Hh. cbn in Hh. cbn [hd_error]. auto.
  - destruct fuel; [cbn in Hf; lia|].
    pose proof (fetchone_open true f Hc) as H. rewrite Hr in H. destruct H as [f' [E [R1 [Hc' Hs']]]].
    cbn [second_loop]. rewrite E. cbn [take mem existsb] in Ht.
    rewrite orb_false_r in Ht. rewrite (row_eqb_sym (key_of st (project c raw))) in Ht.
    destruct (row_eqb (key_of st first) (key_of st (project c raw))) eqn:M.
    + apply (IH fuel f' d s r R1 Hc' Hs'); [cbn in Hf; lia|exact Ht].
    + rewrite take_zero in Ht. inversion Ht; subst. exists f'. cbn [hd_error]. auto.
Qed.

(* what the list model returns: decided by the first two rows the view would deliver *)
Definition only_one_spec (v : view) (second none scalar : bool) (d : list row) : res (option item) :=
  match d with
  | [] => if none then Raise NoResultFound else Ok None
  | p :: more =>
      match more, second with
      | _ :: _, true => Raise MultipleResultsFound
      | _, _ => Ok (Some (if scalar then IScalar (first_col p) else post (kind v) (cols v) p))
      end
  end.

Lemma only_one_ok v second none scalar f h :
  hardc f = false -> softc f = false ->
  seen_empty h v = true ->
  (second = true -> eff_u v = ufs v) ->
  exists f', only_one_row v second none scalar f =
               (f', only_one_spec v second none scalar (fst (fst (adeliver (ufs v) (cols v) 2 (remaining f) h)))) /\
             remaining f' = [] /\ hardc f' = true /\ fwf f'.
Proof.
  intros Hc Hs Hse Heff. unfold only_one_row.
  pose proof (fetchone_open true f Hc) as H. destruct (remaining f) as [|raw t] eqn:Hr.
  - destruct H as [f' [E [R1 [W Hh]]]]. rewrite E. rewrite Hs in Hh. cbn in Hh.
    exists f'. split; [|auto]. unfold adeliver. destruct (ufs v); reflexivity.
  - destruct H as [f1 [E [R1 [Hc1 Hs1]]]]. rewrite E.
    assert (W1 : fwf f1) by (apply fwf_open; exact Hc1).
    destruct (soft_close_hard f1 W1) as [C1 [C2 C3]].
    destruct second.
    + (* raise_for_second_row *)
      rewrite (Heff eq_refl). unfold adeliver, seen_empty in *. destruct (ufs v) as [u|].
      * destruct (hget h (fst u)) eqn:G; [|discriminate].
        cbn [take mem existsb].
        destruct (take (Some (snd u)) (cols v) t 1 [key_of (snd u) (project (cols v) raw)]) as [[d2 s2] r2] eqn:T.
        destruct (second_loop_ok (cols v) (snd u) (project (cols v) raw) t (S (length (remaining f1))) f1 d2 s2 r2 R1 Hc1 Hs1)
          as [f2 [E2 H2]]; [rewrite R1; lia|exact T|].
        rewrite E2. cbn [fst only_one_spec]. destruct d2 as [|x d2t]; cbn [hd_error].
        -- destruct H2 as [A [B C]]. exists f2. auto.
        -- assert (W2 : fwf f2) by (apply fwf_open; exact H2).
           destruct (soft_close_hard f2 W2) as [D1 [D2 D3]]. exists (soft_close true f2). auto.
      * rewrite take_None. cbn [firstn map fst only_one_spec].
        pose proof (fetchone_open true f1 Hc1) as H'. rewrite R1 in H'. destruct t as [|raw2 t'].
        -- destruct H' as [f2 [E2 [R2 [W2 Hh2]]]]. rewrite E2. rewrite Hs1 in Hh2. cbn in Hh2.
           cbn [map_res option_map firstn map]. exists f2. auto.
        -- destruct H' as [f2 [E2 [R2 [Hc2 Hs2]]]]. rewrite E2. cbn [map_res option_map firstn map].
           assert (W2 : fwf f2) by (apply fwf_open; exact Hc2).
           destruct (soft_close_hard f2 W2) as [D1 [D2 D3]]. exists (soft_close true f2). auto.
    + (* no second-row check: close right away *)
      exists (soft_close true f1). split; [|auto]. f_equal.
      unfold adeliver, seen_empty in *. destruct (ufs v) as [u|].
      * destruct (hget h (fst u)) eqn:G; [|discriminate]. cbn [take mem existsb].
        destruct (take (Some (snd u)) (cols v) t 1 [key_of (snd u) (project (cols v) raw)]) as [[d2 s2] r2].
        cbn [fst only_one_spec]. destruct d2; reflexivity.
      * rewrite take_None. destruct t; reflexivity.
Qed.

Lemma only_one_closed v second none scalar f : fwf f -> hardc f = true ->
  only_one_row v second none scalar f = (f, Raise ResourceClosed).
Proof. intros W Hc. unfold only_one_row. rewrite (fetchone_closed true f W Hc). reflexivity. Qed.
