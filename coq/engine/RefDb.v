(* Reference database with a snapshot stack (spec side for C23; written to be imported by other
   transaction properties).

   A database holds named tables (association list  table-name -> rows, rows in insertion order).
   It follows the PEP-249 transaction model that the sqlite3 driver implements with
   [autocommit=False]: a transaction is always open, [Begin] is only a marker, [Commit] publishes the
   working copy, [Rollback] restores the last committed copy, and both discard every savepoint.
   [Savepoint n] pushes a snapshot of the working copy; [RollbackTo n] restores the snapshot of the
   innermost savepoint called [n], discards the savepoints above it and KEEPS [n] itself;
   [Release n] discards the innermost savepoint called [n] and everything above it and keeps the work.
   [RollbackTo]/[Release] of a name the stack does not contain is rejected ([None]) and changes
   nothing ("no such savepoint").  Validated against SQLite on every run (specs/c23.py, kind "db"). *)
From Coq Require Import List ZArith NArith Bool.
Import ListNotations.

Definition row := list Z.
Definition table := list row.
Definition tables := list (N * table).

Inductive cmd : Type :=
  | Begin | Savepoint (n : N) | RollbackTo (n : N) | Release (n : N) | Commit | Rollback.

Record db : Type := mkDb {
  committed : tables;               (* what every other connection sees *)
  work : tables;                    (* what this connection sees *)
  saves : list (N * tables)         (* savepoints, innermost first, with the snapshot taken at creation *)
}.

Definition db_empty : db := mkDb [] [] [].

(* the suffix of the savepoint stack that starts at the innermost savepoint called [n] *)
Fixpoint drop_to (n : N) (s : list (N * tables)) : option (list (N * tables)) :=
  match s with
  | [] => None
  | (m, snap) :: r => if N.eqb m n then Some s else drop_to n r
  end.

Definition has_save (n : N) (d : db) : bool := existsb (fun e => N.eqb (fst e) n) (saves d).

Definition exec_cmd (d : db) (c : cmd) : option db :=
  match c with
  | Begin => Some d
  | Savepoint n => Some (mkDb (committed d) (work d) ((n, work d) :: saves d))
  | RollbackTo n =>
      match drop_to n (saves d) with
      | Some ((m, snap) :: r) => Some (mkDb (committed d) snap ((m, snap) :: r))
      | _ => None
      end
  | Release n =>
      match drop_to n (saves d) with
      | Some (_ :: r) => Some (mkDb (committed d) (work d) r)
      | _ => None
      end
  | Commit => Some (mkDb (work d) (work d) [])
  | Rollback => Some (mkDb (committed d) (committed d) [])
  end.

(* a whole command string is accepted when no command of it is rejected *)
Fixpoint exec_all (d : db) (cs : list cmd) : option db :=
  match cs with
  | [] => Some d
  | c :: r => match exec_cmd d c with Some d' => exec_all d' r | None => None end
  end.

(* ---- data statements (run inside the always-open transaction) ---- *)
Fixpoint tbl_insert (t : N) (r : row) (ts : tables) : tables :=
  match ts with
  | [] => [(t, [r])]
  | (u, rows) :: rest => if N.eqb u t then (u, rows ++ [r]) :: rest else (u, rows) :: tbl_insert t r rest
  end.

Fixpoint tbl_get (t : N) (ts : tables) : table :=
  match ts with
  | [] => []
  | (u, rows) :: rest => if N.eqb u t then rows else tbl_get t rest
  end.

Definition db_insert (t : N) (r : row) (d : db) : db :=
  mkDb (committed d) (tbl_insert t r (work d)) (saves d).

Definition db_delete_all (t : N) (d : db) : db :=
  mkDb (committed d) (filter (fun e => negb (N.eqb (fst e) t)) (work d)) (saves d).

Definition visible (t : N) (d : db) : table := tbl_get t (committed d).   (* other connections *)
Definition current (t : N) (d : db) : table := tbl_get t (work d).        (* this connection *)
