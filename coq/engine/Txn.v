(* Executable model of the transaction state machine of sqlalchemy.engine.base.Connection /
   RootTransaction / NestedTransaction and engine.util.TransactionalContext (C23).

   Faithful transcription (defects included) of:
     Connection.begin / begin_nested / _autobegin / commit / rollback / close / in_transaction /
       in_nested_transaction / get_transaction / get_nested_transaction,
     the transactional prologue of Connection._execute_context (every SQL statement, the SAVEPOINT
       statements included, passes through it),
     Transaction.commit / rollback / close,
     RootTransaction.__init__ / _deactivate_from_connection / _close_impl / _do_commit,
     NestedTransaction.__init__ / _deactivate_from_connection / _cancel / _close_impl / _do_commit,
     TransactionalContext._trans_ctx_check / __enter__ / __exit__.

   Python objects are numbered in creation order ([nat] index into [txns]); a method is a state
   transformer [M] returning [Ok], [Raise e] (Python exception) or [OutOfFuel] (proved unreachable).
   Commands reaching the DBAPI connection are interpreted at once by the reference database
   (RefDb): a rejected command ("no such savepoint") raises OperationalError at that point and the
   [finally] clauses of the code run, exactly as with a real database.

   Faults: the environment can install a `begin` event listener that raises (FBegin) and make the
   next DBAPI rollback() report an error (FRollback).
   Not modelled (outside the property): invalidation / disconnects, two-phase, a failing
   COMMIT/SAVEPOINT, [assert] statements. *)
From Coq Require Import List ZArith NArith Bool Arith.
Import ListNotations.
From SAV.engine Require Import RefDb.

Inductive exn : Type :=
  InvalidRequestError | PendingRollbackError | ResourceClosedError | OperationalError
  | ListenerError.   (* the exception a user's `begin` event listener raises *)
Inductive res : Type := Ok | Raise (e : exn) | OutOfFuel.

(* one Transaction object *)
Record txn : Type := mkT {
  t_root : bool;            (* RootTransaction / NestedTransaction *)
  t_active : bool;          (* is_active *)
  t_sp : N;                 (* _savepoint = "sa_savepoint_<n>" (nested only) *)
  t_prev : option nat;      (* _previous_nested *)
  t_subject : bool;         (* _trans_subject is set (between __enter__ and __exit__) *)
  t_outer : option nat      (* _outer_trans_ctx *)
}.

Record st : Type := mkS {
  txns : list txn;
  c_root : option nat;      (* Connection._transaction *)
  c_nested : option nat;    (* Connection._nested_transaction *)
  c_ctx : option nat;       (* Connection._trans_context_manager *)
  c_seq : N;                (* Connection.__savepoint_seq *)
  c_closed : bool;          (* _dbapi_connection is None and not __can_reconnect *)
  c_in_begin : bool;        (* Connection.__in_begin *)
  c_beginfail : N;          (* environment: a `begin` event listener that raises: 0 none, 1 once, 2 always *)
  c_rbfail : bool;          (* environment: the next DBAPI rollback() is performed but reports an error *)
  s_db : db;                (* the database behind the DBAPI connection *)
  s_out : list (cmd * bool);(* commands sent to the DBAPI connection during the current call, with
                               the database's verdict (true = accepted) *)
  s_warns : nat             (* util.warn calls during the current call *)
}.

Definition init (d : db) : st := mkS [] None None None 0%N false false 0%N false d [] 0.

(* ---- field updates ---- *)
Definition set_txns l s := mkS l (c_root s) (c_nested s) (c_ctx s) (c_seq s) (c_closed s) (c_in_begin s) (c_beginfail s) (c_rbfail s) (s_db s) (s_out s) (s_warns s).
Definition set_root o s := mkS (txns s) o (c_nested s) (c_ctx s) (c_seq s) (c_closed s) (c_in_begin s) (c_beginfail s) (c_rbfail s) (s_db s) (s_out s) (s_warns s).
Definition set_nested o s := mkS (txns s) (c_root s) o (c_ctx s) (c_seq s) (c_closed s) (c_in_begin s) (c_beginfail s) (c_rbfail s) (s_db s) (s_out s) (s_warns s).
Definition set_ctx o s := mkS (txns s) (c_root s) (c_nested s) o (c_seq s) (c_closed s) (c_in_begin s) (c_beginfail s) (c_rbfail s) (s_db s) (s_out s) (s_warns s).
Definition set_seq n s := mkS (txns s) (c_root s) (c_nested s) (c_ctx s) n (c_closed s) (c_in_begin s) (c_beginfail s) (c_rbfail s) (s_db s) (s_out s) (s_warns s).
Definition set_closed b s := mkS (txns s) (c_root s) (c_nested s) (c_ctx s) (c_seq s) b (c_in_begin s) (c_beginfail s) (c_rbfail s) (s_db s) (s_out s) (s_warns s).
Definition set_in_begin b s := mkS (txns s) (c_root s) (c_nested s) (c_ctx s) (c_seq s) (c_closed s) b (c_beginfail s) (c_rbfail s) (s_db s) (s_out s) (s_warns s).
Definition set_beginfail n s := mkS (txns s) (c_root s) (c_nested s) (c_ctx s) (c_seq s) (c_closed s) (c_in_begin s) n (c_rbfail s) (s_db s) (s_out s) (s_warns s).
Definition set_rbfail b s := mkS (txns s) (c_root s) (c_nested s) (c_ctx s) (c_seq s) (c_closed s) (c_in_begin s) (c_beginfail s) b (s_db s) (s_out s) (s_warns s).
Definition set_db d s := mkS (txns s) (c_root s) (c_nested s) (c_ctx s) (c_seq s) (c_closed s) (c_in_begin s) (c_beginfail s) (c_rbfail s) d (s_out s) (s_warns s).
Definition add_out e s := mkS (txns s) (c_root s) (c_nested s) (c_ctx s) (c_seq s) (c_closed s) (c_in_begin s) (c_beginfail s) (c_rbfail s) (s_db s) (s_out s ++ [e]) (s_warns s).
Definition add_warn s := mkS (txns s) (c_root s) (c_nested s) (c_ctx s) (c_seq s) (c_closed s) (c_in_begin s) (c_beginfail s) (c_rbfail s) (s_db s) (s_out s) (S (s_warns s)).
Definition clear_log s := mkS (txns s) (c_root s) (c_nested s) (c_ctx s) (c_seq s) (c_closed s) (c_in_begin s) (c_beginfail s) (c_rbfail s) (s_db s) [] 0.

Fixpoint upd {A} (k : nat) (f : A -> A) (l : list A) : list A :=
  match l, k with
  | [], _ => []
  | x :: r, 0 => f x :: r
  | x :: r, S k' => x :: upd k' f r
  end.
Definition upd_txn k f s := set_txns (upd k f (txns s)) s.
Definition push_txn t s := set_txns (txns s ++ [t]) s.

Definition set_active_t (b : bool) (t : txn) := mkT (t_root t) b (t_sp t) (t_prev t) (t_subject t) (t_outer t).
Definition set_ctx_t (b : bool) (o : option nat) (t : txn) := mkT (t_root t) (t_active t) (t_sp t) (t_prev t) b o.
Definition set_active k b s := upd_txn k (set_active_t b) s.

(* ---- field reads ---- *)
Definition get k s := nth_error (txns s) k.
Definition active k s := match get k s with Some t => t_active t | None => false end.
Definition is_root k s := match get k s with Some t => t_root t | None => false end.
Definition sp k s := match get k s with Some t => t_sp t | None => 0%N end.
Definition prev k s := match get k s with Some t => t_prev t | None => None end.
Definition subject k s := match get k s with Some t => t_subject t | None => false end.
Definition outer k s := match get k s with Some t => t_outer t | None => None end.
Definition opt_is (o : option nat) (k : nat) := match o with Some j => Nat.eqb j k | None => false end.
(* "x is not None and not x.is_active" *)
Definition inst_inactive (o : option nat) s := match o with Some j => negb (active j s) | None => false end.
Definition inst_active (o : option nat) s := match o with Some j => active j s | None => false end.

(* ---- the monad ---- *)
Definition M := st -> res * st.
Definition bind (m k : M) : M := fun s => match m s with (Ok, s') => k s' | r => r end.
(* try: m finally: fin *)
Definition finally (m fin : M) : M :=
  fun s => let (r, s1) := m s in match fin s1 with (Ok, s2) => (r, s2) | r2 => r2 end.
Definition warn : M := fun s => (Ok, add_warn s).

(* a command reaches the DBAPI connection *)
Definition emit (c : cmd) : M := fun s =>
  match exec_cmd (s_db s) c with
  | Some d' => (Ok, add_out (c, true) (set_db d' s))
  | None => (Raise OperationalError, add_out (c, false) s)
  end.

(* TransactionalContext._trans_ctx_check(connection) *)
Definition ctx_check : M := fun s =>
  match c_ctx s with
  | Some k => if active k s then (Ok, s) else (Raise InvalidRequestError, s)
  | None => (Ok, s)
  end.

(* Connection._begin_impl: __in_begin is set, the `begin` listeners run (the environment may have
   installed one that raises), do_begin is called, and the finally clause resets __in_begin whatever
   happened (the listener call is INSIDE the try since fix ba42825) *)
Definition begin_listener : M := fun s =>
  match c_beginfail s with
  | 0%N => (Ok, s)
  | 1%N => (Raise ListenerError, set_beginfail 0%N s)
  | _ => (Raise ListenerError, s)
  end.
Definition begin_impl : M :=
  bind (fun s => (Ok, set_in_begin true s))
       (finally (bind begin_listener (emit Begin)) (fun s => (Ok, set_in_begin false s))).

(* RootTransaction.__init__ (on a closed connection [self.connection] raises ResourceClosedError
   before anything reaches a DBAPI connection; listeners are installed on live connections only) *)
Definition new_root : M :=
  bind ctx_check (fun s =>
    if c_closed s then (Raise ResourceClosedError, s)
    else bind begin_impl
           (fun s => (Ok, set_root (Some (length (txns s)))
                            (push_txn (mkT true true 0%N None false None) s))) s).

(* Connection.begin *)
Definition begin : M := fun s =>
  match c_root s with None => new_root s | Some _ => (Raise InvalidRequestError, s) end.
(* "if self._transaction is None: self._autobegin()" with
   _autobegin = "if self._allow_autobegin and not self.__in_begin: self.begin()" *)
Definition autobegin_if_none : M := fun s =>
  match c_root s with
  | None => if c_in_begin s then (Ok, s) else begin s
  | Some _ => (Ok, s)
  end.

(* transactional prologue of Connection._execute_context *)
Definition exec_guard : M := fun s =>
  if c_closed s then (Raise ResourceClosedError, s)
  else if inst_inactive (c_root s) s || inst_inactive (c_nested s) s then (Raise PendingRollbackError, s)
  else bind ctx_check autobegin_if_none s.

(* dialect.do_savepoint / do_rollback_to_savepoint / do_release_savepoint = connection.execute(...) *)
Definition sql (c : cmd) : M := bind exec_guard (emit c).
(* connection.execute(insert one row [v] into table 0) *)
Definition ins (v : Z) : M :=
  bind exec_guard (fun s => (Ok, set_db (db_insert 0%N [v] (s_db s)) s)).

(* NestedTransaction.__init__ (with Connection._savepoint_impl: the sequence is bumped first) *)
Definition new_nested : M :=
  bind ctx_check (fun s =>
    let n := N.succ (c_seq s) in
    bind (fun s => sql (Savepoint n) (set_seq n s))
         (fun s => (Ok, set_nested (Some (length (txns s)))
                          (push_txn (mkT false true n (c_nested s) false None) s))) s).

(* Connection.begin_nested *)
Definition begin_nested : M := bind autobegin_if_none new_nested.

(* RootTransaction._deactivate_from_connection *)
Definition deact_root (k : nat) : M := fun s =>
  if active k s then (Ok, set_active k false s)
  else if opt_is (c_root s) k then (Ok, s) else warn s.

(* NestedTransaction._deactivate_from_connection(warn) *)
Definition deact_nested (k : nat) (w : bool) : M := fun s =>
  if opt_is (c_nested s) k then (Ok, set_nested (prev k s) s)
  else if w then warn s else (Ok, s).

(* NestedTransaction._cancel (recursion along _previous_nested) *)
Fixpoint cancel (fuel k : nat) : M :=
  match fuel with
  | 0 => fun s => (OutOfFuel, s)
  | S f =>
      bind (fun s => (Ok, set_active k false s))
        (bind (deact_nested k true)
           (fun s => match prev k s with Some p => cancel f p s | None => (Ok, s) end))
  end.
(* "if self.connection._nested_transaction: self.connection._nested_transaction._cancel()" *)
Definition cancel_nested : M := fun s =>
  match c_nested s with Some n => cancel (length (txns s)) n s | None => (Ok, s) end.

(* Connection._rollback_impl: DBAPI rollback only if the connection is still open.  The environment
   may make the DBAPI rollback() report an error after performing it: _handle_dbapi_exception wraps
   it into OperationalError (no second rollback: the root transaction is still active then) *)
Definition rollback_impl : M := fun s =>
  if c_closed s then (Ok, s)
  else if c_rbfail s
       then bind (emit Rollback) (fun s => (Raise OperationalError, s)) (set_rbfail false s)
       else emit Rollback s.

(* RootTransaction._close_impl(try_deactivate): since fix fff6083 the savepoint objects are cancelled
   in the finally clause, i.e. also when the rollback raised *)
Definition root_close_impl (k : nat) (try_deact : bool) : M :=
  finally
    (fun s => if active k s then rollback_impl s else (Ok, s))
    (bind cancel_nested
       (bind (fun s => if active k s || try_deact then deact_root k s else (Ok, s))
             (fun s => if opt_is (c_root s) k then (Ok, set_root None s) else (Ok, s)))).

(* RootTransaction._do_commit *)
Definition root_do_commit (k : nat) : M := fun s =>
  if active k s then
    bind (finally (emit Commit) (bind cancel_nested (deact_root k)))
         (fun s => (Ok, set_root None s)) s
  else if opt_is (c_root s) k then (Raise PendingRollbackError, s)
  else (Raise InvalidRequestError, s).

(* NestedTransaction._close_impl(True, warn_already_deactive) *)
Definition nested_close_impl (k : nat) (w : bool) : M :=
  finally
    (fun s => if active k s && inst_active (c_root s) s
              then (if c_closed s then (Ok, s) else sql (RollbackTo (sp k s)) s)
              else (Ok, s))
    (bind (fun s => (Ok, set_active k false s)) (deact_nested k w)).

(* NestedTransaction._do_commit *)
Definition nested_do_commit (k : nat) : M := fun s =>
  if active k s then
    bind (finally (sql (Release (sp k s))) (fun s => (Ok, set_active k false s)))
         (deact_nested k true) s
  else if opt_is (c_nested s) k then (Raise PendingRollbackError, s)
  else (Raise InvalidRequestError, s).

(* Transaction.commit / rollback / close *)
Definition t_commit (k : nat) : M := fun s =>
  if is_root k s then root_do_commit k s else nested_do_commit k s.
Definition t_rollback (k : nat) : M := fun s =>
  if is_root k s then root_close_impl k true s else nested_close_impl k true s.
Definition t_close (k : nat) : M := fun s =>
  if is_root k s then root_close_impl k false s else nested_close_impl k false s.

(* Connection.commit / rollback / close *)
Definition conn_commit : M := fun s => match c_root s with Some r => t_commit r s | None => (Ok, s) end.
Definition conn_rollback : M := fun s => match c_root s with Some r => t_rollback r s | None => (Ok, s) end.
Definition conn_close : M :=
  bind (fun s => match c_root s with Some r => t_close r s | None => (Ok, s) end)
       (fun s => (Ok, set_closed true s)).

(* Transaction._transaction_is_closed() = "not self._deactivated_from_connection" = the object is
   still installed on the connection; __exit__ calls close() when this is FALSE (sic) *)
Definition installed (k : nat) s :=
  if is_root k s then opt_is (c_root s) k else opt_is (c_nested s) k.

(* TransactionalContext.__enter__ *)
Definition t_enter (k : nat) : M := fun s =>
  (Ok, set_ctx (Some k) (upd_txn k (set_ctx_t true (c_ctx s)) s)).

(* TransactionalContext.__exit__(type_, ..); [exc] = "type_ is not None" *)
Definition t_exit (k : nat) (exc : bool) : M := fun s =>
  let oob := negb (subject k s) || negb (opt_is (c_ctx s) k) in
  let fin : M := fun s1 =>
    (Ok, upd_txn k (set_ctx_t false None) (if oob then s1 else set_ctx (outer k s1) s1)) in
  if negb exc && active k s then
    finally
      (fun s1 => match t_commit k s1 with
                 | (Raise x, s2) =>
                     match t_rollback k s2 with (Ok, s3) => (Raise x, s3) | r => r end
                 | r => r
                 end) fin s
  else
    finally
      (fun s1 => if negb (active k s1)
                 then (if installed k s1 then (Ok, s1) else t_close k s1)
                 else t_rollback k s1) fin s.

(* Connection.in_transaction / in_nested_transaction *)
Definition in_transaction s := inst_active (c_root s) s.
Definition in_nested_transaction s := inst_active (c_nested s) s.

(* ---- operations of a history ---- *)
Inductive op : Type :=
  | OBegin | ONested | OIns (v : Z) | OCommit | ORollback | OClose
  | TCommit (k : nat) | TRollback (k : nat) | TClose (k : nat) | TEnter (k : nat) | TExit (k : nat) (exc : bool)
  (* fault injection by the environment *)
  | FBegin (mode : N)        (* install (1: fails once, 2: fails always) / remove (0) a raising `begin` listener *)
  | FRollback (b : bool).    (* the next DBAPI rollback() reports an error *)

Definition handle_of (o : op) : option nat :=
  match o with
  | TCommit k | TRollback k | TClose k | TEnter k | TExit k _ => Some k
  | _ => None
  end.

Definition run_op (o : op) : M :=
  match o with
  | OBegin => begin
  | ONested => begin_nested
  | OIns v => ins v
  | OCommit => conn_commit
  | ORollback => conn_rollback
  | OClose => conn_close
  | TCommit k => t_commit k
  | TRollback k => t_rollback k
  | TClose k => t_close k
  | TEnter k => t_enter k
  | TExit k e => t_exit k e
  | FBegin n => fun s => (Ok, set_beginfail n s)
  | FRollback b => fun s => (Ok, set_rbfail b s)
  end.

(* an operation naming a transaction object that does not exist is skipped ([None]) *)
Definition step (o : op) (s : st) : option (res * st) :=
  match handle_of o with
  | Some k => if k <? length (txns s) then Some (run_op o (clear_log s)) else None
  | None => Some (run_op o (clear_log s))
  end.

Definition step_st (o : op) (s : st) : st :=
  match step o s with Some (_, s') => s' | None => clear_log s end.
Definition step_res (o : op) (s : st) : option res :=
  match step o s with Some (r, _) => Some r | None => None end.

(* the state after a whole history, and the list of (result, state) after each operation *)
Definition run (ops : list op) (s : st) : st := fold_left (fun s o => step_st o s) ops s.
Fixpoint trace (ops : list op) (s : st) : list (option res * st) :=
  match ops with
  | [] => []
  | o :: r => (step_res o s, step_st o s) :: trace r (step_st o s)
  end.
