(* Laws of the reference database (RefDb.v): every command branch is covered. *)
From Coq Require Import List ZArith NArith Bool.
Import ListNotations.
From SAV.engine Require Import RefDb.

Lemma drop_to_none : forall n s, drop_to n s = None <-> existsb (fun e => N.eqb (fst e) n) s = false.
Proof.
  induction s as [|[m snap] s IH]; cbn; [tauto|].
  destruct (N.eqb m n); cbn; [split; discriminate|exact IH].
Qed.

Lemma drop_to_some_cons : forall n s r, drop_to n s = Some r -> exists snap r', r = (n, snap) :: r'.
Proof.
  induction s as [|[m snap] s IH]; cbn; intros r H; [discriminate|].
  destruct (N.eqb_spec m n); [inversion H; subst; eauto|auto].
Qed.

(* ROLLBACK TO / RELEASE are rejected exactly when the savepoint stack has no such name *)
Theorem rollback_to_rejected_iff : forall d n, exec_cmd d (RollbackTo n) = None <-> has_save n d = false.
Proof.
  intros d n. unfold has_save. rewrite <- drop_to_none. cbn.
  destruct (drop_to n (saves d)) as [r|] eqn:E; [|tauto].
  destruct (drop_to_some_cons _ _ _ E) as (snap & r' & ->). split; discriminate.
Qed.
Theorem release_rejected_iff : forall d n, exec_cmd d (Release n) = None <-> has_save n d = false.
Proof.
  intros d n. unfold has_save. rewrite <- drop_to_none. cbn.
  destruct (drop_to n (saves d)) as [r|] eqn:E; [|tauto].
  destruct (drop_to_some_cons _ _ _ E) as (snap & r' & ->). split; discriminate.
Qed.

(* SAVEPOINT n ; (any work) ; ROLLBACK TO n  restores the work of the moment of the savepoint,
   keeps the savepoint and never touches the committed data *)
Theorem savepoint_rollback_to : forall d n w',
  exec_cmd (mkDb (committed d) w' ((n, work d) :: saves d)) (RollbackTo n) =
  Some (mkDb (committed d) (work d) ((n, work d) :: saves d)).
Proof. intros. cbn. rewrite N.eqb_refl. reflexivity. Qed.

(* SAVEPOINT n ; (any work) ; RELEASE n  keeps the work and removes the savepoint *)
Theorem savepoint_release : forall d n w',
  exec_cmd (mkDb (committed d) w' ((n, work d) :: saves d)) (Release n) =
  Some (mkDb (committed d) w' (saves d)).
Proof. intros. cbn. rewrite N.eqb_refl. reflexivity. Qed.

(* ROLLBACK TO / RELEASE of an outer savepoint discard the inner ones *)
Theorem outer_discards_inner : forall d n m sn sm, n <> m ->
  exec_cmd (mkDb (committed d) (work d) ((m, sm) :: (n, sn) :: saves d)) (RollbackTo n) =
    Some (mkDb (committed d) sn ((n, sn) :: saves d)) /\
  exec_cmd (mkDb (committed d) (work d) ((m, sm) :: (n, sn) :: saves d)) (Release n) =
    Some (mkDb (committed d) (work d) (saves d)).
Proof.
  intros. cbn. rewrite (proj2 (N.eqb_neq m n)) by congruence. rewrite N.eqb_refl. auto.
Qed.

Theorem commit_publishes : forall d, exec_cmd d Commit = Some (mkDb (work d) (work d) []).
Proof. reflexivity. Qed.
Theorem rollback_restores : forall d, exec_cmd d Rollback = Some (mkDb (committed d) (committed d) []).
Proof. reflexivity. Qed.
Theorem begin_is_marker : forall d, exec_cmd d Begin = Some d.
Proof. reflexivity. Qed.

(* only COMMIT changes what other connections see *)
Theorem committed_changes_only_by_commit : forall d c d', exec_cmd d c = Some d' -> c <> Commit ->
  committed d' = committed d.
Proof.
  intros d c d' H Hc. destruct c; cbn in H; try (inversion H; reflexivity); try contradiction.
  - destruct (drop_to n (saves d)) as [[|[m snap] r]|]; inversion H; reflexivity.
  - destruct (drop_to n (saves d)) as [[|e r]|]; inversion H; reflexivity.
Qed.

Theorem exec_all_app : forall cs1 cs2 d,
  exec_all d (cs1 ++ cs2) = match exec_all d cs1 with Some d' => exec_all d' cs2 | None => None end.
Proof.
  induction cs1; intros; cbn; [reflexivity|]. destruct (exec_cmd d a); [apply IHcs1|reflexivity].
Qed.

(* data statements *)
Lemma tbl_get_insert : forall t r ts, tbl_get t (tbl_insert t r ts) = tbl_get t ts ++ [r].
Proof.
  induction ts as [|[u rows] ts IH]; cbn.
  - rewrite N.eqb_refl. reflexivity.
  - destruct (N.eqb_spec u t); cbn.
    + subst. rewrite N.eqb_refl. reflexivity.
    + rewrite (proj2 (N.eqb_neq u t)) by auto. exact IH.
Qed.
Theorem insert_visible_after_commit : forall d t r d1,
  exec_cmd (db_insert t r d) Commit = Some d1 -> visible t d1 = current t d ++ [r].
Proof. intros d t r d1 H. cbn in H. inversion H; subst. unfold visible, current. cbn. apply tbl_get_insert. Qed.
Theorem delete_all_empties : forall d t, current t (db_delete_all t d) = [].
Proof.
  intros. unfold current, db_delete_all. cbn. induction (work d) as [|[u rows] ts IH]; cbn; [reflexivity|].
  destruct (N.eqb_spec u t); cbn; [exact IH|]. rewrite (proj2 (N.eqb_neq u t)) by auto. exact IH.
Qed.
