(* C26 - no leak: once every holder has dropped its reference no record stays checked out *)
From Coq Require Import List ZArith Bool Arith Lia.
Import ListNotations.
From SAV.engine Require Import PoolSeq PoolSeqFrame.
Open Scope Z_scope.

Definition FOrig (s : st) : Prop :=
  forall r f, r_fairy s r = Some f -> (f < nfairies s)%nat /\ f_orig s f = r.
Definition HeldAlive (s : st) : Prop :=
  forall f, held f s = true -> (f < nfairies s)%nat /\ f_dead s f = false.
Definition SgOk (s : st) : Prop := forall f, sg_fairy s = Some f -> (f < nfairies s)%nat.
Definition HeldAll (s : st) : Prop := forall r f, r_fairy s r = Some f -> held f s = true.
Definition Bnd (s : st) : Prop :=
  FOrig s /\ HeldAlive s /\ SgOk s /\ (taint_gc s = false -> HeldAll s).

Lemma Mono_FOrig : forall s s', FOrig s -> Mono s s' -> FOrig s'.
Proof.
  intros s s' F M r f H. destruct M. destruct (m_fairy _ _ H) as [H1|[H1 [H2 H3]]].
  - destruct (F _ _ H1). split; [lia|]. rewrite m_orig; auto.
  - split; [lia|auto].
Qed.
Lemma Mono_SgOk : forall s s', SgOk s -> Mono s s' -> SgOk s'.
Proof. intros s s' F M f H. destruct M. destruct (m_sg _ H) as [H1|H1]; [apply F in H1; lia|lia]. Qed.
Lemma Mono_taint : forall s s', Mono s s' -> taint_gc s' = false -> taint_gc s = false.
Proof.
  intros s s' M H. destruct M. destruct (taint_gc s) eqn:E; auto. rewrite m_tg in H; auto.
Qed.

Lemma held_app : forall f l x, existsb (holds f) (l ++ [x]) = existsb (holds f) l || holds f x.
Proof. intros. rewrite existsb_app. cbn. rewrite orb_false_r. reflexivity. Qed.

Lemma existsb_set_nth_none : forall f l h,
  existsb (holds f) (set_nth l h None) = true -> existsb (holds f) l = true.
Proof.
  induction l; intros h H; destruct h; cbn in *; auto.
  - rewrite H. apply orb_true_r.
  - apply orb_true_iff in H as [H|H]; [rewrite H; auto|]. rewrite (IHl _ H). apply orb_true_r.
Qed.
Lemma existsb_set_nth_other : forall f g l h, nth_error l h = Some (Some g) -> f <> g ->
  existsb (holds f) l = true -> existsb (holds f) (set_nth l h None) = true.
Proof.
  induction l; intros h Hn Hne H; destruct h; cbn in *; try discriminate.
  - inv Hn. cbn in H. destruct (Nat.eqb_spec g f); [congruence|]. auto.
  - apply orb_true_iff in H as [H|H]; [rewrite H; auto|]. rewrite (IHl _ Hn Hne H). apply orb_true_r.
Qed.
Lemma nth_error_held : forall l h f, nth_error l h = Some (Some f) -> existsb (holds f) l = true.
Proof.
  induction l; intros h f H; destruct h; cbn in *; try discriminate.
  - inv H. cbn. rewrite Nat.eqb_refl. auto.
  - rewrite (IHl _ _ H). apply orb_true_r.
Qed.

Lemma held_push : forall g f s1,
  held g (set_holders s1 (holders s1 ++ [Some f])) = held g s1 || Nat.eqb f g.
Proof. intros. unfold held. cbn [holders set_holders]. rewrite held_app. reflexivity. Qed.

Section Leak.
Variable cf : cfg.

(* a Raise out of the record layer's close path means a BaseException escaped close() *)
Lemma close_connection_raise : forall c s e s', close_connection c s = (Raise e, s') -> taint_close s' = true.
Proof.
  unfold close_connection; intros. destruct (ext_close c s) as [[|e0] s1]; [inv H|].
  destruct (is_exception e0); inv H. reflexivity.
Qed.
Lemma rec_close_raise : forall r s e s', r_dbc s r <> None -> rec_close r s = (Raise e, s') -> taint_close s' = true.
Proof.
  unfold rec_close; intros. destruct (r_dbc s r); [|congruence].
  destruct (close_connection n s) as [[|e0] s1] eqn:E; inv H0.
  change (taint_close s1 = true). eapply close_connection_raise; eauto.
Qed.
Lemma rec_invalidate_raise : forall r soft s e s', rec_invalidate cf r soft s = (Raise e, s') -> taint_close s' = true.
Proof.
  unfold rec_invalidate; intros. destruct (r_dbc s r) eqn:Ed; [|inv H].
  destruct soft; [destruct (now cf s); inv H|].
  destruct (rec_close r s) as [[|e0] s1] eqn:E; inv H. eapply rec_close_raise; eauto. congruence.
Qed.

Lemma do_return_conn_rfairy : forall r s x s', do_return_conn cf r s = (x, s') -> r_fairy s' = r_fairy s.
Proof.
  unfold do_return_conn; intros. destruct (kind cf).
  - dm H.
    + destruct (rec_close_if_open r s) as [y s1] eqn:E1. apply rec_close_if_open_rl in E1. destruct E1. inv H. auto.
    + inv H; auto.
  - apply rec_close_if_open_rl in H. destruct H; auto.
  - inv H; auto.
  - inv H; auto.
  - dm H; inv H; auto.
Qed.

(* check-in always clears the fairy_ref *)
Lemma rec_checkin_clears : forall r s x s', rec_checkin cf r true s = (x, s') -> r_fairy s' r = None.
Proof.
  unfold rec_checkin; intros r s x s' H. destruct (r_fairy s r) eqn:E.
  - apply do_return_conn_rfairy in H. rewrite H. sproj. apply upd_same.
  - inv H. exact E.
Qed.

(* the weakref callback of fairy f, run on its original record r0: the record is checked in unless a
   BaseException escaped close() inside the error handler *)
Lemma finalize_gc_clears : forall f r0 s x s',
  finalize cf None (Some r0) (Some f) false None s = (x, s') -> taint_gc s' = false -> r_fairy s' r0 <> Some f.
Proof.
  unfold finalize; intros f r0 s x s' H T.
  destruct (r_fairy s r0) as [g'|] eqn:Ef.
  2:{ cbn in H. inv H. congruence. }
  destruct (Nat.eqb_spec f g').
  2:{ cbn in H. inv H. congruence. }
  subst g'. cbn [negb] in H. cbv iota in H. unfold clear_fairy in H.
  match type of H with (let '(_, _) := ?e in _) = _ => destruct e as [y s1] eqn:E0 end.
  (* after the middle part: the record is already checked in, or its fairy_ref is untouched *)
  assert (A : (r_fairy s1 r0 = None /\ exists e, y = Raise e) \/ (r_fairy s1 = r_fairy s /\ y = Ok tt) \/
              (taint_gc s1 = true /\ exists e, y = Raise e)).
  { destruct (r_dbc s r0) as [c|]; [|inv E0; auto].
    match type of E0 with (let '(_, _) := ?e in _) = _ => destruct e as [y1 s2] eqn:E1 end.
    assert (A1 : RecLevel s s2).
    { destruct (fairy_reset cf c false s) as [z s3] eqn:Er. apply fairy_reset_rl in Er.
      destruct z; inv E1; auto. }
    destruct y1 as [|e]; [inv E0; right; left; destruct A1; auto|].
    match type of E0 with (let '(_, _) := ?e in _) = _ => destruct e as [z s3] eqn:E2 end.
    pose proof (rec_invalidate_rl _ _ _ _ _ _ E2) as R3.
    assert (Rf : r_fairy s3 = r_fairy s) by (destruct R3, A1; congruence).
    destruct z as [|e2].
    2:{ inv E0. right; right. split; [reflexivity|eauto]. }
    destruct (is_exception e) eqn:Ee; [inv E0; auto|].
    rewrite Rf, Ef in E0.
    destruct (rec_checkin cf r0 true s3) as [w s4] eqn:Ec.
    pose proof (rec_checkin_clears _ _ _ _ Ec) as B.
    left. destruct w; inv E0; eauto. }
  destruct A as [[A1 [e ->]]|[[A1 ->]|[A1 [e ->]]]].
  - inv H. congruence.
  - rewrite A1, Ef in H.
    destruct (rec_checkin cf r0 true s1) as [w s2] eqn:E1.
    pose proof (rec_checkin_clears _ _ _ _ E1) as B.
    destruct w; inv H; congruence.
  - inv H. congruence.
Qed.

Lemma gc_fairy_spec : forall f s, FOrig s -> (f < nfairies s)%nat -> f_dead s f = false ->
  let s' := gc_fairy cf f s in
  FOrig s' /\ holders s' = holders s /\ nfairies s' = nfairies s /\
  (forall g, g <> f -> f_dead s' g = f_dead s g) /\
  (forall g, sg_fairy s' = Some g -> sg_fairy s = Some g) /\
  (forall r g, r_fairy s' r = Some g -> r_fairy s r = Some g) /\
  (taint_gc s' = false -> taint_gc s = false /\ forall r, r_fairy s' r <> Some f).
Proof.
  intros f s F Hf Hd. unfold gc_fairy. rewrite Hd.
  set (s0 := set_f_dead s (upd (f_dead s) f true)).
  destruct (finalize cf None (Some (f_orig s f)) (Some f) false None s0) as [x s'] eqn:E. cbn [snd].
  pose proof (finalize_mono _ _ _ _ _ _ _ _ _ E) as M.
  pose proof (finalize_nf _ _ _ _ _ _ _ _ _ E) as (N1 & N2 & N3).
  assert (F0 : FOrig s0) by (subst s0; exact F).
  assert (Old : forall r g, r_fairy s' r = Some g -> r_fairy s r = Some g).
  { intros r g H. destruct M. destruct (m_fairy _ _ H) as [H1|[H1 _]]; [exact H1|]. rewrite N1 in H1. lia. }
  split; [eapply Mono_FOrig; eauto|].
  split; [destruct M; rewrite m_hold; reflexivity|].
  split; [rewrite N1; reflexivity|].
  split; [intros g Hg; rewrite N3; subst s0; sproj; apply upd_other; auto|].
  split.
  { intros g H. destruct M. destruct (m_sg _ H) as [H1|H1]; [exact H1|]. rewrite N1 in H1. lia. }
  split; [exact Old|].
  intros T. split; [exact (Mono_taint _ _ M T)|].
  intros r H. pose proof (Old _ _ H) as H0. destruct (F _ _ H0) as [_ Ho]. subst r.
  eapply finalize_gc_clears; eauto.
Qed.

Lemma Bnd_init : forall fl, Bnd (init cf fl).
Proof.
  intros. split; [|split; [|split]].
  - intros r f H. cbn in H. discriminate.
  - intros f H. cbn in H. discriminate.
  - intros f H. cbn in H. discriminate.
  - intros T r f H. cbn in H. discriminate.
Qed.

Lemma held_frame : forall f s s', holders s' = holders s -> held f s' = held f s.
Proof. unfold held; intros. rewrite H. reflexivity. Qed.

(* operations that only use an existing fairy: no new fairy, holders untouched *)
Lemma Bnd_same : forall s s', Bnd s -> Mono s s' -> SameNF s s' -> Bnd s'.
Proof.
  intros s s' (F & A & G & H) M (N1 & N2 & N3). pose proof M as [].
  split; [eapply Mono_FOrig; eauto|]. split; [|split; [eapply Mono_SgOk; eauto|]].
  - intros f Hf. rewrite (held_frame _ _ _ m_hold) in Hf. apply A in Hf. rewrite N1, N3. auto.
  - intros T r f Hr. rewrite (held_frame _ _ _ m_hold).
    destruct (m_fairy _ _ Hr) as [H1|[H1 _]]; [|rewrite N1 in H1; lia].
    eapply H; eauto. eapply Mono_taint; eauto.
Qed.

Lemma on_holder_Bnd : forall h s k x s', Bnd s ->
  (forall f y s1, k f = (y, s1) -> Mono s s1 /\ SameNF s s1) ->
  on_holder h s k = (x, s') -> Bnd s'.
Proof.
  unfold on_holder; intros. repeat dm H1; inv H1; auto; destruct (H0 _ _ _ E1); eapply Bnd_same; eauto.
Qed.

Lemma Bnd_pre : forall s dt, Bnd s -> Bnd (set_trace (set_clock s (clock s + dt)) []).
Proof. intros s dt B. exact B. Qed.

Theorem step_Bnd : forall o dt s x s', Bnd s -> step cf o dt s = (x, s') -> Bnd s'.
Proof.
  intros o dt s x s' B H. unfold step in H.
  set (s0 := set_trace (set_clock s (clock s + dt)) []) in *.
  assert (B0 : Bnd s0) by (apply Bnd_pre; auto). clearbody s0. clear B s.
  destruct o.
  - (* connect *)
    destruct (pool_connect cf s0) as [[f|e] s1] eqn:E;
      pose proof (pool_connect_mono _ _ _ _ E) as M; pose proof (pool_connect_new _ _ _ _ E) as N;
      cbn beta iota in N; inv H; destruct B0 as (F & A & G & Hh); pose proof M as [].
    + (* success: the fairy goes into a new holder slot *)
      pose proof (Mono_FOrig _ _ F M) as F1.
      split; [exact F1|]. split; [|split; [exact (Mono_SgOk _ _ G M)|]].
      * intros g Hg. rewrite held_push in Hg.
        change ((g < nfairies s1)%nat /\ f_dead s1 g = false).
        apply orb_true_iff in Hg as [Hg|Hg].
        -- rewrite (held_frame _ _ _ m_hold) in Hg. destruct (A g Hg) as [A1 A2]. split; [lia|].
           rewrite m_dead; auto.
        -- apply Nat.eqb_eq in Hg. subst g.
           destruct N as [((N1 & N2 & N3) & Ns & Nd)|(N1 & N2 & N3)].
           ++ rewrite N1, N3. split; [apply G; auto|auto].
           ++ split; [lia|auto].
      * intros T r g Hr. rewrite held_push. change (r_fairy s1 r = Some g) in Hr. change (taint_gc s1 = false) in T.
        destruct (m_fairy _ _ Hr) as [H1|[H1 _]].
        -- assert (T0 : taint_gc s0 = false) by (eapply Mono_taint; eauto).
           rewrite (held_frame _ _ _ m_hold). rewrite (Hh T0 _ _ H1). reflexivity.
        -- destruct N as [((N1 & N2 & N3) & Ns & Nd)|(N1 & N2 & N3)]; [lia|].
           assert (g = f) by lia. subst g. rewrite Nat.eqb_refl. apply orb_true_r.
    + (* failure: a fairy made on the way is finalised by the garbage collector *)
      pose proof (Mono_FOrig _ _ F M) as F1.
      destruct N as [(N1 & N2 & N3)|(N1 & N2)].
      * rewrite N1. rewrite (proj2 (Nat.eqb_neq _ _)) by lia.
        apply (Bnd_same s0 s1); [exact (conj F (conj A (conj G Hh)))|exact M|repeat split; auto].
      * rewrite N1, Nat.eqb_refl.
        destruct (gc_fairy_spec (nfairies s0) s1 F1 ltac:(lia) N2) as (P1 & P2 & P3 & P4 & P5 & P6 & P7).
        split; [exact P1|]. split; [|split].
        -- intros g Hg. rewrite (held_frame _ _ _ P2), (held_frame _ _ _ m_hold) in Hg.
           destruct (A g Hg) as [A1 A2]. rewrite P3. split; [lia|].
           rewrite P4 by lia. rewrite m_dead; auto.
        -- intros g Hg. apply P5 in Hg. rewrite P3. eapply Mono_SgOk; eauto.
        -- intros T r g Hr. destruct (P7 T) as [T1 P8].
           rewrite (held_frame _ _ _ P2), (held_frame _ _ _ m_hold).
           pose proof (P6 _ _ Hr) as Hr1.
           destruct (m_fairy _ _ Hr1) as [H1|[H1 _]].
           ++ eapply Hh; eauto. eapply Mono_taint; eauto.
           ++ assert (g = nfairies s0) by lia. subst g. exfalso. eapply P8; eauto.
  - eapply on_holder_Bnd; eauto. intros f y s1 Hk. cbv beta in Hk. split; [eapply fairy_close_mono|eapply fairy_close_nf]; exact Hk.
  - eapply on_holder_Bnd; eauto. intros f y s1 Hk. cbv beta in Hk. split; [eapply fairy_invalidate_mono|eapply fairy_invalidate_nf]; exact Hk.
  - eapply on_holder_Bnd; eauto. intros f y s1 Hk. cbv beta in Hk. split; [eapply fairy_detach_mono|eapply fairy_detach_nf]; exact Hk.
  - (* del: the holder slot is emptied; the fairy is collected when no other slot holds it *)
    destruct (nth_error (holders s0) h) as [[f|]|] eqn:En; try (inv H; exact B0).
    inv H. destruct B0 as (F & A & G & Hh).
    set (s1 := set_holders s0 (set_nth (holders s0) h None)) in *.
    assert (Hsub : forall g, held g s1 = true -> held g s0 = true).
    { intros g. subst s1. unfold held. sproj. apply existsb_set_nth_none. }
    assert (Hoth : forall g, g <> f -> held g s0 = true -> held g s1 = true).
    { intros g Hg. subst s1. unfold held. sproj. eapply existsb_set_nth_other; eauto. }
    destruct (held f s1) eqn:Eh.
    + split; [exact F|]. split; [|split; [exact G|]].
      * intros g Hg. apply Hsub in Hg. apply A in Hg. exact Hg.
      * intros T r g Hr. destruct (Nat.eq_dec g f); [subst; auto|].
        apply Hoth; auto. apply (Hh T r g Hr).
    + assert (Hf : held f s0 = true) by (unfold held; eapply nth_error_held; eauto).
      destruct (A f Hf) as [A1 A2].
      assert (F1 : FOrig s1) by exact F.
      destruct (gc_fairy_spec f s1 F1 A1 A2) as (P1 & P2 & P3 & P4 & P5 & P6 & P7).
      split; [exact P1|]. split; [|split].
      * intros g Hg. rewrite (held_frame _ _ _ P2) in Hg.
        assert (g <> f) by (intro; subst; congruence).
        apply Hsub in Hg. destruct (A g Hg). rewrite P3, P4 by auto. auto.
      * intros g Hg. apply P5 in Hg. rewrite P3. apply G; auto.
      * intros T r g Hr. destruct (P7 T) as [T1 P8]. rewrite (held_frame _ _ _ P2).
        assert (g <> f) by (intro; subst; eapply P8; eauto).
        apply Hoth; auto. eapply Hh; eauto.
  - inv H. exact B0.
  - eapply on_holder_Bnd; eauto. intros f y s1 Hk. cbv beta in Hk. split; [eapply pool_invalidate_mono|eapply pool_invalidate_nf]; exact Hk.
Qed.

Theorem run_Bnd : forall ops s, Bnd s -> Bnd (run cf ops s).
Proof.
  induction ops as [|[o dt] r IH]; intros s B; cbn [run]; auto.
  destruct (step cf o dt s) as [x s1] eqn:E. cbn [snd]. apply IH. eapply step_Bnd; eauto.
Qed.

Lemma count_upto_zero : forall p n, (forall k, (k < n)%nat -> p k = false) -> count_upto p n = O.
Proof. induction n; intros H; cbn; auto. rewrite (H n) by lia. rewrite IHn; auto. Qed.

Definition all_released (s : st) : Prop := forall h, In h (holders s) -> h = None.

Lemma all_released_not_held : forall s f, all_released s -> held f s = false.
Proof.
  unfold all_released, held; intros s f H. induction (holders s) as [|a l IH]; cbn; auto.
  rewrite (H a) by (left; auto). cbn. apply IH. intros; apply H; right; auto.
Qed.

(* no_leak: for every configuration (all five pools), history and fault script: unless a
   BaseException escaped close() inside the error handler of _finalize_fairy running as weakref callback
   (ghost taint_gc), once every holder has dropped its reference no record is checked out *)
Theorem no_leak : forall fl ops,
  let s := run cf ops (init cf fl) in
  taint_gc s = false -> all_released s -> inuse_count s = O.
Proof.
  intros fl ops s T R. destruct (run_Bnd ops _ (Bnd_init fl)) as (F & A & G & H). fold s in F, A, G, H.
  unfold inuse_count. apply count_upto_zero. intros k _. unfold in_use.
  destruct (r_fairy s k) as [f|] eqn:E; auto.
  pose proof (H T _ _ E) as Hh. rewrite all_released_not_held in Hh; auto; discriminate.
Qed.

End Leak.
