(* C23, unguarded results (every history, misuse included):
   - every reachable state is well formed and the recursion fuel of [_cancel] always suffices,
   - an operation on an inactive transaction object sends nothing to the database and leaves the
     database untouched; commit() on it raises. *)
From Coq Require Import List ZArith NArith Bool Arith Lia.
Import ListNotations.
From SAV.engine Require Import RefDb Txn TxnBase.

Definition WF (s : st) : Prop :=
  (forall k j, prev k s = Some j -> j < k) /\
  (forall n, c_nested s = Some n -> n < length (txns s)).

(* [m] keeps states well formed and never runs out of fuel *)
Definition good (m : M) : Prop := forall s, WF s -> WF (snd (m s)) /\ fst (m s) <> OutOfFuel.

Lemma good_bind : forall m k, good m -> good k -> good (bind m k).
Proof.
  intros m k Hm Hk s W. unfold bind. destruct (Hm s W) as [W1 F1].
  destruct (m s) as [[| e |] s1]; cbn in *; [apply Hk, W1|split; [exact W1|discriminate]|congruence].
Qed.
Lemma good_finally : forall m k, good m -> good k -> good (finally m k).
Proof.
  intros m k Hm Hk s W. unfold finally. destruct (Hm s W) as [W1 F1].
  destruct (m s) as [r s1]; cbn in *. destruct (Hk s1 W1) as [W2 F2].
  destruct (k s1) as [[| e |] s2]; cbn in *; auto.
Qed.
Lemma good_pure : forall (f : st -> st) r, r <> OutOfFuel -> (forall s, WF s -> WF (f s)) -> good (fun s => (r, f s)).
Proof. intros f r Hr H s W. cbn. auto. Qed.
Lemma good_ok : good (fun s => (Ok, s)).
Proof. apply (good_pure (fun s => s)); [discriminate|auto]. Qed.

Ltac wf_triv := intros s [W1 W2]; split; intros; autorewrite with st in *; cbn in *; eauto.

Lemma WF_set_root : forall o s, WF s -> WF (set_root o s). Proof. intro o. wf_triv. Qed.
Lemma WF_set_ctx : forall o s, WF s -> WF (set_ctx o s). Proof. intro o. wf_triv. Qed.
Lemma WF_set_seq : forall o s, WF s -> WF (set_seq o s). Proof. intro o. wf_triv. Qed.
Lemma WF_set_closed : forall o s, WF s -> WF (set_closed o s). Proof. intro o. wf_triv. Qed.
Lemma WF_set_db : forall o s, WF s -> WF (set_db o s). Proof. intro o. wf_triv. Qed.
Lemma WF_set_in_begin : forall o s, WF s -> WF (set_in_begin o s). Proof. intro o. wf_triv. Qed.
Lemma WF_set_beginfail : forall o s, WF s -> WF (set_beginfail o s). Proof. intro o. wf_triv. Qed.
Lemma WF_set_rbfail : forall o s, WF s -> WF (set_rbfail o s). Proof. intro o. wf_triv. Qed.
Lemma WF_add_out : forall o s, WF s -> WF (add_out o s). Proof. intro o. wf_triv. Qed.
Lemma WF_add_warn : forall s, WF s -> WF (add_warn s). Proof. wf_triv. Qed.
Lemma WF_clear_log : forall s, WF s -> WF (clear_log s). Proof. wf_triv. Qed.
Lemma WF_set_active : forall k b s, WF s -> WF (set_active k b s).
Proof. intros k b. wf_triv. Qed.
Lemma WF_set_ctx_t : forall k b o s, WF s -> WF (upd_txn k (set_ctx_t b o) s).
Proof. intros k b o. wf_triv. Qed.
Lemma WF_set_nested_prev : forall k s, WF s -> WF (set_nested (prev k s) s).
Proof.
  intros k s [W1 W2]. split; intros; autorewrite with st in *; cbn in *; eauto.
  specialize (W1 _ _ H). apply prev_lt in H. lia.
Qed.
Lemma WF_set_nested_none : forall s, WF s -> WF (set_nested None s).
Proof. wf_triv. discriminate. Qed.
Lemma WF_push : forall t s, WF s -> (forall j, t_prev t = Some j -> j < length (txns s)) ->
  WF (set_nested (if t_root t then c_nested s else Some (length (txns s))) (push_txn t s)).
Proof.
  intros t s [W1 W2] Ht. split; intros; autorewrite with st in *; cbn in *.
  - destruct (Nat.eqb_spec k (length (txns s))); subst; eauto.
  - destruct (t_root t); [apply W2 in H|inversion H]; lia.
Qed.

Lemma good_warn : good warn.
Proof. apply good_pure; [discriminate|apply WF_add_warn]. Qed.

Lemma good_emit : forall c, good (emit c).
Proof.
  intros c s W. unfold emit. destruct (exec_cmd (s_db s) c); cbn; split; try discriminate.
  - apply WF_add_out, WF_set_db, W.
  - apply WF_add_out, W.
Qed.

Lemma good_ctx_check : good ctx_check.
Proof. intros s W. unfold ctx_check. destruct (c_ctx s); [destruct (active n s)|]; cbn; split; auto; discriminate. Qed.

Lemma good_begin_listener : good begin_listener.
Proof.
  intros s W. unfold begin_listener. destruct (c_beginfail s) as [|[q|q|]]; cbn; split; auto;
    try discriminate; try (apply WF_set_beginfail, W).
Qed.
Lemma good_begin_impl : good begin_impl.
Proof.
  apply good_bind; [apply good_pure; [discriminate|apply WF_set_in_begin]|].
  apply good_finally; [apply good_bind; auto using good_begin_listener, good_emit|].
  apply good_pure; [discriminate|apply WF_set_in_begin].
Qed.
Lemma good_new_root : good new_root.
Proof.
  apply good_bind; [apply good_ctx_check|]. intros s W. destruct (c_closed s).
  - cbn. split; [auto|discriminate].
  - apply good_bind; [apply good_begin_impl| |exact W]. apply good_pure; [discriminate|].
    intros s1 W1. apply WF_set_root.
    apply (WF_push (mkT true true 0%N None false None) s1 W1). discriminate.
Qed.

Lemma good_begin : good begin.
Proof. intros s W. unfold begin. destruct (c_root s); [cbn; split; [auto|discriminate]|apply good_new_root, W]. Qed.
Lemma good_autobegin : good autobegin_if_none.
Proof.
  intros s W. unfold autobegin_if_none. destruct (c_root s); [apply good_ok, W|].
  destruct (c_in_begin s); [apply good_ok, W|apply good_begin, W].
Qed.

Lemma good_exec_guard : good exec_guard.
Proof.
  intros s W. unfold exec_guard. destruct (c_closed s); [cbn; split; [auto|discriminate]|].
  destruct (_ || _); [cbn; split; [auto|discriminate]|].
  apply good_bind; auto using good_ctx_check, good_autobegin.
Qed.
Lemma good_sql : forall c, good (sql c).
Proof. intros. apply good_bind; auto using good_exec_guard, good_emit. Qed.
Lemma good_ins : forall v, good (ins v).
Proof. intros. apply good_bind; [apply good_exec_guard|]. apply good_pure; [discriminate|]. intros. apply WF_set_db. auto. Qed.

Lemma good_new_nested : good new_nested.
Proof.
  apply good_bind; [apply good_ctx_check|]. intros s W.
  apply good_bind; [| |exact W].
  - intros s1 W1. apply good_sql. apply WF_set_seq, W1.
  - apply good_pure; [discriminate|]. intros s1 W1.
    apply (WF_push (mkT false true (N.succ (c_seq s)) (c_nested s1) false None) s1 W1).
    cbn. apply W1.
Qed.
Lemma good_begin_nested : good begin_nested.
Proof. apply good_bind; auto using good_autobegin, good_new_nested. Qed.

Lemma good_deact_root : forall k, good (deact_root k).
Proof.
  intros k s W. unfold deact_root. destruct (active k s).
  - cbn. split; [apply WF_set_active, W|discriminate].
  - destruct (opt_is _ _); [apply good_ok, W|apply good_warn, W].
Qed.
Lemma good_deact_nested : forall k w, good (deact_nested k w).
Proof.
  intros k w s W. unfold deact_nested. destruct (opt_is _ _).
  - cbn. split; [apply WF_set_nested_prev, W|discriminate].
  - destruct w; [apply good_warn, W|apply good_ok, W].
Qed.

Lemma prev_deact_nested : forall j k w s, prev j (snd (deact_nested k w s)) = prev j s.
Proof. intros. unfold deact_nested, warn. destruct (opt_is _ _); [|destruct w]; reflexivity. Qed.

Lemma cancel_unfold : forall f k s,
  cancel (S f) k s =
  match deact_nested k true (set_active k false s) with
  | (Ok, s2) => match prev k s2 with Some p => cancel f p s2 | None => (Ok, s2) end
  | r => r
  end.
Proof. reflexivity. Qed.

Lemma good_cancel : forall fuel k s, WF s -> k < fuel ->
  WF (snd (cancel fuel k s)) /\ fst (cancel fuel k s) <> OutOfFuel.
Proof.
  induction fuel; intros k s W Hk; [lia|].
  rewrite cancel_unfold.
  assert (W1 : WF (set_active k false s)) by (apply WF_set_active, W).
  destruct (good_deact_nested k true _ W1) as [W2 F2].
  pose proof (prev_deact_nested k k true (set_active k false s)) as P.
  destruct (deact_nested k true (set_active k false s)) as [[| e |] s2]; cbn [fst snd] in *; auto; try congruence.
  destruct (prev k s2) as [p|] eqn:E.
  - apply IHfuel; auto. rewrite prev_set_active in P.
    assert (E' : prev k s = Some p) by congruence.
    destruct W as [W _]. apply W in E'. lia.
  - cbn. split; [auto|discriminate].
Qed.
Lemma good_cancel_nested : good cancel_nested.
Proof.
  intros s W. unfold cancel_nested. destruct (c_nested s) eqn:E; [|apply good_ok, W].
  apply good_cancel; auto. apply W, E.
Qed.

Lemma good_rollback_impl : good rollback_impl.
Proof.
  intros s W. unfold rollback_impl. destruct (c_closed s); [apply good_ok, W|].
  destruct (c_rbfail s); [|apply good_emit, W].
  apply good_bind; [apply good_emit| |apply WF_set_rbfail, W].
  intros s1 W1. cbn. split; [auto|discriminate].
Qed.

Lemma good_if : forall (b : st -> bool) m1 m2, good m1 -> good m2 -> good (fun s => if b s then m1 s else m2 s).
Proof. intros b m1 m2 H1 H2 s W. destruct (b s); auto. Qed.

Lemma good_root_close_impl : forall k t, good (root_close_impl k t).
Proof.
  intros. apply good_finally.
  - apply (good_if (fun s => active k s)); auto using good_rollback_impl, good_ok.
  - apply good_bind; [apply good_cancel_nested|]. apply good_bind.
    + apply (good_if (fun s => active k s || t)); auto using good_deact_root, good_ok.
    + apply (good_if (fun s => opt_is (c_root s) k) (fun s => (Ok, set_root None s))); [|apply good_ok].
      apply good_pure; [discriminate|apply WF_set_root].
Qed.

Lemma good_root_do_commit : forall k, good (root_do_commit k).
Proof.
  intros k s W. unfold root_do_commit. destruct (active k s).
  - apply good_bind; [| |exact W].
    + apply good_finally; [apply good_emit|]. apply good_bind; auto using good_cancel_nested, good_deact_root.
    + apply good_pure; [discriminate|apply WF_set_root].
  - destruct (opt_is _ _); cbn; split; auto; discriminate.
Qed.

Lemma good_set_inactive : forall k, good (fun s => (Ok, set_active k false s)).
Proof. intros. apply good_pure; [discriminate|apply WF_set_active]. Qed.

Lemma good_nested_close_impl : forall k w, good (nested_close_impl k w).
Proof.
  intros. apply good_finally.
  - intros s W. destruct (_ && _); [|apply good_ok, W].
    destruct (c_closed s); [apply good_ok, W|apply good_sql, W].
  - apply good_bind; auto using good_set_inactive, good_deact_nested.
Qed.

Lemma good_nested_do_commit : forall k, good (nested_do_commit k).
Proof.
  intros k s W. unfold nested_do_commit. destruct (active k s).
  - apply good_bind; [| |exact W].
    + apply good_finally; auto using good_sql, good_set_inactive.
    + apply good_deact_nested.
  - destruct (opt_is _ _); cbn; split; auto; discriminate.
Qed.

Lemma good_t_commit : forall k, good (t_commit k).
Proof. intros k s W. unfold t_commit. destruct (is_root k s); [apply good_root_do_commit|apply good_nested_do_commit]; exact W. Qed.
Lemma good_t_rollback : forall k, good (t_rollback k).
Proof. intros k s W. unfold t_rollback. destruct (is_root k s); [apply good_root_close_impl|apply good_nested_close_impl]; exact W. Qed.
Lemma good_t_close : forall k, good (t_close k).
Proof. intros k s W. unfold t_close. destruct (is_root k s); [apply good_root_close_impl|apply good_nested_close_impl]; exact W. Qed.

Lemma good_t_enter : forall k, good (t_enter k).
Proof. intros k. apply good_pure; [discriminate|]. intros. apply WF_set_ctx, WF_set_ctx_t. auto. Qed.

Lemma good_t_exit : forall k e, good (t_exit k e).
Proof.
  intros k e s W. unfold t_exit.
  set (fin := fun s1 : st => (Ok, upd_txn k (set_ctx_t false None)
     (if negb (subject k s) || negb (opt_is (c_ctx s) k) then s1 else set_ctx (outer k s1) s1))).
  assert (Gf : good fin).
  { apply good_pure; [discriminate|]. intros s1 W1. apply WF_set_ctx_t. destruct (_ || _); [auto|apply WF_set_ctx, W1]. }
  destruct (_ && _).
  - apply good_finally; [|exact Gf|exact W]. intros s1 W1.
    destruct (good_t_commit k s1 W1) as [W2 F2].
    destruct (t_commit k s1) as [[| x |] s2]; cbn in *; auto; try congruence.
    destruct (good_t_rollback k s2 W2) as [W3 F3].
    destruct (t_rollback k s2) as [[| y |] s3]; cbn in *; split; auto; discriminate.
  - apply good_finally; [|exact Gf|exact W]. intros s1 W1.
    destruct (negb (active k s1)); [|apply good_t_rollback, W1].
    destruct (installed k s1); [apply good_ok, W1|apply good_t_close, W1].
Qed.

Lemma good_run_op : forall o, good (run_op o).
Proof.
  destruct o; cbn [run_op]; auto using good_begin, good_begin_nested, good_ins, good_t_commit,
    good_t_rollback, good_t_close, good_t_enter, good_t_exit.
  - intros s W. unfold conn_commit. destruct (c_root s); [apply good_t_commit|apply good_ok]; exact W.
  - intros s W. unfold conn_rollback. destruct (c_root s); [apply good_t_rollback|apply good_ok]; exact W.
  - apply good_bind.
    + intros s W. destruct (c_root s); [apply good_t_close|apply good_ok]; exact W.
    + apply good_pure; [discriminate|apply WF_set_closed].
  - apply good_pure; [discriminate|apply WF_set_beginfail].
  - apply good_pure; [discriminate|apply WF_set_rbfail].
Qed.

Lemma WF_init : forall d, WF (init d).
Proof. intros d. split; intros; cbn in *; try discriminate. unfold prev, get in H. cbn in H. destruct k; discriminate. Qed.

Lemma step_good : forall o s, WF s -> WF (step_st o s) /\ step_res o s <> Some OutOfFuel.
Proof.
  intros o s W. unfold step_st, step_res, step.
  pose proof (good_run_op o (clear_log s) (WF_clear_log s W)) as [W1 F1].
  destruct (handle_of o); [destruct (_ <? _)|]; cbn;
    try (destruct (run_op o (clear_log s)) as [r s1]; cbn in *; split; [auto|congruence]).
Qed.

Theorem fuel_sufficient : forall ops s, WF s ->
  Forall (fun rs => fst rs <> Some OutOfFuel) (trace ops s).
Proof.
  induction ops; intros s W; cbn; constructor.
  - apply step_good, W.
  - apply IHops, step_good, W.
Qed.

(* ---- operations on an inactive transaction object send nothing to the database ---- *)
Definition quiet (m : M) : Prop := forall s, s_out (snd (m s)) = s_out s /\ s_db (snd (m s)) = s_db s.

Lemma quiet_bind : forall m k, quiet m -> quiet k -> quiet (bind m k).
Proof.
  intros m k Hm Hk s. unfold bind. destruct (Hm s) as [A B]. destruct (m s) as [[| e |] s1]; cbn in *; auto.
  destruct (Hk s1) as [C D]. split; congruence.
Qed.
Lemma quiet_finally : forall m k, quiet m -> quiet k -> quiet (finally m k).
Proof.
  intros m k Hm Hk s. unfold finally. destruct (Hm s) as [A B]. destruct (m s) as [r s1]; cbn in *.
  destruct (Hk s1) as [C D]. destruct (k s1) as [[| e |] s2]; cbn in *; split; congruence.
Qed.
Lemma quiet_pure : forall (f : st -> st) r, (forall s, s_out (f s) = s_out s /\ s_db (f s) = s_db s) -> quiet (fun s => (r, f s)).
Proof. intros f r H s. apply H. Qed.
Lemma quiet_ok : quiet (fun s => (Ok, s)). Proof. intro s. auto. Qed.
Lemma quiet_if : forall (b : st -> bool) m1 m2, quiet m1 -> quiet m2 -> quiet (fun s => if b s then m1 s else m2 s).
Proof. intros b m1 m2 H1 H2 s. destruct (b s); auto. Qed.
Lemma quiet_warn : quiet warn. Proof. intro s. auto. Qed.
Lemma quiet_deact_root : forall k, quiet (deact_root k).
Proof. intros k s. unfold deact_root, warn. destruct (active k s); [|destruct (opt_is _ _)]; auto. Qed.
Lemma quiet_deact_nested : forall k w, quiet (deact_nested k w).
Proof. intros k w s. unfold deact_nested, warn. destruct (opt_is _ _); [|destruct w]; auto. Qed.
Lemma quiet_cancel : forall fuel k, quiet (cancel fuel k).
Proof.
  induction fuel; intros k; [intro s; auto|]. cbn [cancel].
  apply quiet_bind; [apply quiet_pure; auto|]. apply quiet_bind; [apply quiet_deact_nested|].
  intro s. destruct (prev k s); [apply IHfuel|auto].
Qed.
Lemma quiet_cancel_nested : quiet cancel_nested.
Proof. intro s. unfold cancel_nested. destruct (c_nested s); [apply quiet_cancel|auto]. Qed.

Definition root_close_fin (k : nat) (t : bool) : M :=
  bind (fun s => if active k s || t then deact_root k s else (Ok, s))
       (fun s => if opt_is (c_root s) k then (Ok, set_root None s) else (Ok, s)).

Lemma root_close_impl_inactive : forall k t s, active k s = false ->
  root_close_impl k t s = bind cancel_nested (root_close_fin k t) s.
Proof.
  intros. unfold root_close_impl, root_close_fin, finally. rewrite H.
  destruct (bind cancel_nested _ s) as [[| e |] s2]; reflexivity.
Qed.

Lemma quiet_root_close_fin : forall k t, quiet (root_close_fin k t).
Proof.
  intros. apply quiet_bind.
  - apply (quiet_if (fun s => active k s || t)); auto using quiet_deact_root, quiet_ok.
  - apply (quiet_if (fun s => opt_is (c_root s) k) (fun s => (Ok, set_root None s))); [|apply quiet_ok].
    apply quiet_pure; auto.
Qed.

Lemma quiet_root_close_impl_inactive : forall k t s, active k s = false ->
  s_out (snd (root_close_impl k t s)) = s_out s /\ s_db (snd (root_close_impl k t s)) = s_db s.
Proof.
  intros k t s H. rewrite root_close_impl_inactive by exact H.
  apply quiet_bind; auto using quiet_cancel_nested, quiet_root_close_fin.
Qed.

Lemma quiet_nested_close_impl_inactive : forall k w s, active k s = false ->
  s_out (snd (nested_close_impl k w s)) = s_out s /\ s_db (snd (nested_close_impl k w s)) = s_db s.
Proof.
  intros k w s H.
  assert (E : nested_close_impl k w s =
              finally (fun s => (Ok, s)) (bind (fun s => (Ok, set_active k false s)) (deact_nested k w)) s).
  { unfold nested_close_impl, finally. rewrite H. reflexivity. }
  rewrite E. apply quiet_finally; [apply quiet_ok|].
  apply quiet_bind; [apply quiet_pure; auto|apply quiet_deact_nested].
Qed.

Lemma quiet_t_close_inactive : forall k s, active k s = false ->
  s_out (snd (t_close k s)) = s_out s /\ s_db (snd (t_close k s)) = s_db s.
Proof.
  intros. unfold t_close. destruct (is_root k s);
    [apply quiet_root_close_impl_inactive|apply quiet_nested_close_impl_inactive]; auto.
Qed.
Lemma quiet_t_rollback_inactive : forall k s, active k s = false ->
  s_out (snd (t_rollback k s)) = s_out s /\ s_db (snd (t_rollback k s)) = s_db s.
Proof.
  intros. unfold t_rollback. destruct (is_root k s);
    [apply quiet_root_close_impl_inactive|apply quiet_nested_close_impl_inactive]; auto.
Qed.
Lemma t_commit_inactive : forall k s, active k s = false ->
  exists e, t_commit k s = (Raise e, s).
Proof.
  intros. unfold t_commit, root_do_commit, nested_do_commit. rewrite H.
  destruct (is_root k s); destruct (opt_is _ _); eauto.
Qed.

(* an operation on a transaction object that is no longer active: nothing reaches the database,
   the database is unchanged, and commit() raises without changing anything *)
Theorem inactive_sends_nothing : forall o k s, handle_of o = Some k -> active k s = false ->
  (forall j, o <> TEnter j) ->
  s_out (step_st o s) = [] /\ s_db (step_st o s) = s_db s /\
  (o = TCommit k -> exists e, step o s = Some (Raise e, clear_log s) \/ step o s = None).
Proof.
  intros o k s Hh Ha Hne. unfold step_st, step. rewrite Hh.
  destruct (k <? length (txns s)); [|cbn; split; [auto|split; [auto|intros; exists OperationalError; auto]]].
  assert (Ha' : active k (clear_log s) = false) by (rewrite active_clear_log; exact Ha).
  destruct o; cbn in Hh; inversion Hh; subst; cbn [run_op].
  - destruct (t_commit_inactive k _ Ha') as [e ->]. cbn. split; [auto|split; [auto|]]. intros _. exists e. auto.
  - pose proof (quiet_t_rollback_inactive k _ Ha') as [A B].
    destruct (t_rollback k (clear_log s)); cbn in *. split; [auto|split; [auto|discriminate]].
  - pose proof (quiet_t_close_inactive k _ Ha') as [A B].
    destruct (t_close k (clear_log s)); cbn in *. split; [auto|split; [auto|discriminate]].
  - exfalso. eapply Hne. reflexivity.
  - assert (Q : s_out (snd (t_exit k exc (clear_log s))) = [] /\ s_db (snd (t_exit k exc (clear_log s))) = s_db s).
    { unfold t_exit. rewrite Ha', andb_false_r. cbn [negb].
      match goal with |- context [finally ?m ?f] => assert (Qm : quiet f) end.
      { apply quiet_pure. intro s1. destruct (_ || _); auto. }
      unfold finally.
      assert (Qb : s_out (snd ((if installed k (clear_log s) then (Ok, clear_log s) else t_close k (clear_log s)))) = []
                   /\ s_db (snd ((if installed k (clear_log s) then (Ok, clear_log s) else t_close k (clear_log s)))) = s_db s).
      { destruct (installed k (clear_log s)); [auto|]. apply (quiet_t_close_inactive k _ Ha'). }
      destruct (if installed k (clear_log s) then _ else _) as [r s1]. cbn [snd] in Qb.
      rewrite Ha'. cbn [negb snd]. destruct Qb. destruct (_ || _); cbn; split; assumption. }
    destruct (t_exit k exc (clear_log s)); cbn in *. destruct Q. split; [auto|split; [auto|discriminate]].
Qed.

Lemma ended_commit_raises : forall k s, k < length (txns s) -> active k s = false ->
  exists e, step (TCommit k) s = Some (Raise e, clear_log s).
Proof.
  intros k s Hk Ha. unfold step. cbn [handle_of]. rewrite (proj2 (Nat.ltb_lt _ _) Hk). cbn [run_op].
  destruct (t_commit_inactive k (clear_log s)) as [e ->]; [rewrite active_clear_log; auto|eauto].
Qed.

Lemma inactive_quiet : forall o k s, handle_of o = Some k -> active k s = false ->
  (forall j, o <> TEnter j) ->
  s_out (step_st o s) = [] /\ s_db (step_st o s) = s_db s.
Proof. intros o k s H1 H2 H3. destruct (inactive_sends_nothing o k s H1 H2 H3) as (A & B & _). auto. Qed.

(* ---- the autobegin invariant: __in_begin is False whenever no _begin_impl frame is active, i.e.
   after every operation of every history (raising `begin` listeners and failing rollbacks included);
   so _autobegin is never disabled ---- *)
Definition NB (s : st) : Prop := c_in_begin s = false.
Definition nb (m : M) : Prop := forall s, NB s -> NB (snd (m s)).

Lemma nb_bind : forall m k, nb m -> nb k -> nb (bind m k).
Proof. intros m k Hm Hk s H. unfold bind. specialize (Hm s H). destruct (m s) as [[| e |] s1]; cbn in *; auto. Qed.
Lemma nb_finally : forall m k, nb m -> nb k -> nb (finally m k).
Proof.
  intros m k Hm Hk s H. unfold finally. specialize (Hm s H). destruct (m s) as [r s1]; cbn in *.
  specialize (Hk s1 Hm). destruct (k s1) as [[| e |] s2]; cbn in *; auto.
Qed.
Lemma nb_pure : forall (f : st -> st) r, (forall s, c_in_begin (f s) = c_in_begin s) -> nb (fun s => (r, f s)).
Proof. intros f r H s Hs. unfold NB in *. cbn. rewrite H. auto. Qed.
Lemma nb_ok : nb (fun s => (Ok, s)). Proof. intros s H. auto. Qed.
Lemma nb_if : forall (b : st -> bool) m1 m2, nb m1 -> nb m2 -> nb (fun s => if b s then m1 s else m2 s).
Proof. intros b m1 m2 H1 H2 s H. destruct (b s); auto. Qed.
Lemma nb_raise : forall e, nb (fun s => (Raise e, s)). Proof. intros e s H. auto. Qed.

Lemma nb_emit : forall c, nb (emit c).
Proof. intros c s H. unfold emit. destruct (exec_cmd (s_db s) c); exact H. Qed.
Lemma nb_warn : nb warn. Proof. intros s H. exact H. Qed.
Lemma nb_ctx_check : nb ctx_check.
Proof. intros s H. unfold ctx_check. destruct (c_ctx s); [destruct (active n s)|]; exact H. Qed.

(* _begin_impl restores the flag on every exit path - this is where fix ba42825 matters *)
Lemma begin_impl_resets : forall s, c_in_begin (snd (begin_impl s)) = false.
Proof.
  intros s. unfold begin_impl, bind, finally, begin_listener, emit. cbn [exec_cmd].
  destruct (c_beginfail (set_in_begin true s)) as [|[q|q|]]; reflexivity.
Qed.
Lemma nb_new_root : nb new_root.
Proof.
  apply nb_bind; [apply nb_ctx_check|]. intros s H. destruct (c_closed s); [exact H|].
  unfold bind. pose proof (begin_impl_resets s) as B. destruct (begin_impl s) as [[| e |] s1]; cbn in *; auto.
Qed.
Lemma nb_begin : nb begin.
Proof. intros s H. unfold begin. destruct (c_root s); [exact H|apply nb_new_root, H]. Qed.
Lemma nb_autobegin : nb autobegin_if_none.
Proof.
  intros s H. unfold autobegin_if_none. destruct (c_root s); [exact H|].
  destruct (c_in_begin s); [exact H|apply nb_begin, H].
Qed.
Lemma nb_exec_guard : nb exec_guard.
Proof.
  intros s H. unfold exec_guard. destruct (c_closed s); [exact H|]. destruct (_ || _); [exact H|].
  apply nb_bind; auto using nb_ctx_check, nb_autobegin.
Qed.
Lemma nb_sql : forall c, nb (sql c). Proof. intros. apply nb_bind; auto using nb_exec_guard, nb_emit. Qed.
Lemma nb_ins : forall v, nb (ins v).
Proof. intros. apply nb_bind; [apply nb_exec_guard|]. apply nb_pure. reflexivity. Qed.
Lemma nb_new_nested : nb new_nested.
Proof.
  apply nb_bind; [apply nb_ctx_check|]. intros s H. apply nb_bind; [| |exact H].
  - intros s1 H1. apply nb_sql. exact H1.
  - apply nb_pure. reflexivity.
Qed.
Lemma nb_begin_nested : nb begin_nested.
Proof. apply nb_bind; auto using nb_autobegin, nb_new_nested. Qed.
Lemma nb_deact_root : forall k, nb (deact_root k).
Proof. intros k s H. unfold deact_root, warn. destruct (active k s); [|destruct (opt_is _ _)]; exact H. Qed.
Lemma nb_deact_nested : forall k w, nb (deact_nested k w).
Proof. intros k w s H. unfold deact_nested, warn. destruct (opt_is _ _); [|destruct w]; exact H. Qed.
Lemma nb_cancel : forall fuel k, nb (cancel fuel k).
Proof.
  induction fuel; intros k; [apply (nb_pure (fun s => s)); reflexivity|]. cbn [cancel].
  apply nb_bind; [apply nb_pure; reflexivity|]. apply nb_bind; [apply nb_deact_nested|].
  intros s H. destruct (prev k s); [apply IHfuel, H|exact H].
Qed.
Lemma nb_cancel_nested : nb cancel_nested.
Proof. intros s H. unfold cancel_nested. destruct (c_nested s); [apply nb_cancel, H|exact H]. Qed.
Lemma nb_rollback_impl : nb rollback_impl.
Proof.
  intros s H. unfold rollback_impl. destruct (c_closed s); [exact H|]. destruct (c_rbfail s); [|apply nb_emit, H].
  apply nb_bind; [apply nb_emit|apply nb_raise|exact H].
Qed.
Lemma nb_root_close_impl : forall k t, nb (root_close_impl k t).
Proof.
  intros. apply nb_finally.
  - apply (nb_if (fun s => active k s)); auto using nb_rollback_impl, nb_ok.
  - apply nb_bind; [apply nb_cancel_nested|]. apply nb_bind.
    + apply (nb_if (fun s => active k s || t)); auto using nb_deact_root, nb_ok.
    + apply (nb_if (fun s => opt_is (c_root s) k) (fun s => (Ok, set_root None s))); [|apply nb_ok].
      apply nb_pure. reflexivity.
Qed.
Lemma nb_root_do_commit : forall k, nb (root_do_commit k).
Proof.
  intros k s H. unfold root_do_commit. destruct (active k s).
  - apply nb_bind; [| |exact H].
    + apply nb_finally; [apply nb_emit|]. apply nb_bind; auto using nb_cancel_nested, nb_deact_root.
    + apply nb_pure. reflexivity.
  - destruct (opt_is _ _); exact H.
Qed.
Lemma nb_set_inactive : forall k, nb (fun s => (Ok, set_active k false s)).
Proof. intros. apply nb_pure. reflexivity. Qed.
Lemma nb_nested_close_impl : forall k w, nb (nested_close_impl k w).
Proof.
  intros. apply nb_finally.
  - intros s H. destruct (_ && _); [|exact H]. destruct (c_closed s); [exact H|apply nb_sql, H].
  - apply nb_bind; auto using nb_set_inactive, nb_deact_nested.
Qed.
Lemma nb_nested_do_commit : forall k, nb (nested_do_commit k).
Proof.
  intros k s H. unfold nested_do_commit. destruct (active k s).
  - apply nb_bind; [| |exact H].
    + apply nb_finally; auto using nb_sql, nb_set_inactive.
    + apply nb_deact_nested.
  - destruct (opt_is _ _); exact H.
Qed.
Lemma nb_t_commit : forall k, nb (t_commit k).
Proof. intros k s H. unfold t_commit. destruct (is_root k s); [apply nb_root_do_commit|apply nb_nested_do_commit]; exact H. Qed.
Lemma nb_t_rollback : forall k, nb (t_rollback k).
Proof. intros k s H. unfold t_rollback. destruct (is_root k s); [apply nb_root_close_impl|apply nb_nested_close_impl]; exact H. Qed.
Lemma nb_t_close : forall k, nb (t_close k).
Proof. intros k s H. unfold t_close. destruct (is_root k s); [apply nb_root_close_impl|apply nb_nested_close_impl]; exact H. Qed.
Lemma nb_t_exit : forall k e, nb (t_exit k e).
Proof.
  intros k e s H. unfold t_exit.
  set (fin := fun s1 : st => (Ok, upd_txn k (set_ctx_t false None)
     (if negb (subject k s) || negb (opt_is (c_ctx s) k) then s1 else set_ctx (outer k s1) s1))).
  assert (Gf : nb fin).
  { intros s1 H1. unfold NB in *. cbn. destruct (_ || _); exact H1. }
  destruct (_ && _).
  - apply nb_finally; [|exact Gf|exact H]. intros s1 H1.
    pose proof (nb_t_commit k s1 H1) as H2.
    destruct (t_commit k s1) as [[| x |] s2]; cbn in *; auto.
    pose proof (nb_t_rollback k s2 H2) as H3.
    destruct (t_rollback k s2) as [[| y |] s3]; cbn in *; auto.
  - apply nb_finally; [|exact Gf|exact H]. intros s1 H1.
    destruct (negb (active k s1)); [|apply nb_t_rollback, H1].
    destruct (installed k s1); [exact H1|apply nb_t_close, H1].
Qed.
Lemma nb_run_op : forall o, nb (run_op o).
Proof.
  destruct o; cbn [run_op]; auto using nb_begin, nb_begin_nested, nb_ins, nb_t_commit, nb_t_rollback,
    nb_t_close, nb_t_exit.
  - intros s H. unfold conn_commit. destruct (c_root s); [apply nb_t_commit|]; exact H.
  - intros s H. unfold conn_rollback. destruct (c_root s); [apply nb_t_rollback|]; exact H.
  - apply nb_bind.
    + intros s H. destruct (c_root s); [apply nb_t_close|]; exact H.
    + apply nb_pure. reflexivity.
  - apply nb_pure. reflexivity.
  - apply nb_pure. reflexivity.
  - apply nb_pure. reflexivity.
Qed.

Lemma step_nb : forall o s, NB s -> NB (step_st o s).
Proof.
  intros o s H. unfold step_st, step.
  pose proof (nb_run_op o (clear_log s) H) as H1.
  destruct (handle_of o); [destruct (_ <? _)|]; try exact H;
    destruct (run_op o (clear_log s)); exact H1.
Qed.

Theorem in_begin_reset : forall ops s, NB s -> Forall (fun rs => c_in_begin (snd rs) = false) (trace ops s).
Proof.
  induction ops; intros s H; cbn; constructor.
  - apply step_nb, H.
  - apply IHops, step_nb, H.
Qed.

(* consequence: in every reachable state a statement on an open connection without a transaction
   autobegins (it is never silently executed outside a Transaction) *)
Lemma autobegin_runs : forall s, NB s -> c_root s = None -> autobegin_if_none s = begin s.
Proof. intros s H Hr. unfold autobegin_if_none. rewrite Hr, H. reflexivity. Qed.

(* a statement that executes does so inside an active root transaction (never "outside" one) *)
Lemma exec_guard_in_transaction : forall s s', NB s -> exec_guard s = (Ok, s') -> in_transaction s' = true.
Proof.
  intros s s' H E. unfold exec_guard in E. destruct (c_closed s); [discriminate|].
  destruct (inst_inactive (c_root s) s || inst_inactive (c_nested s) s) eqn:P; [discriminate|].
  apply orb_false_elim in P. destruct P as [P _].
  unfold bind, ctx_check in E.
  assert (E' : autobegin_if_none s = (Ok, s')).
  { destruct (c_ctx s); [destruct (active n s)|]; try discriminate; exact E. }
  clear E. unfold autobegin_if_none in E'. unfold in_transaction.
  destruct (c_root s) as [r|] eqn:Hr.
  - inversion E'; subst. rewrite Hr. cbn in *. apply negb_false_iff in P. exact P.
  - rewrite H in E'. unfold begin in E'. rewrite Hr in E'. unfold new_root, bind in E'.
    destruct (ctx_check s) as [[| e |] s1]; try discriminate.
    destruct (c_closed s1); [discriminate|].
    destruct (begin_impl s1) as [[| e |] s2]; try discriminate.
    inversion E'; subst. autorewrite with st. cbn [inst_active]. autorewrite with st.
    rewrite Nat.eqb_refl. reflexivity.
Qed.

Theorem statement_in_transaction : forall ops d v s',
  step (OIns v) (run ops (init d)) = Some (Ok, s') -> in_transaction s' = true.
Proof.
  intros ops d v s' E. unfold step in E. cbn [handle_of run_op] in E. inversion E as [E1]. clear E.
  assert (H : NB (clear_log (run ops (init d)))).
  { unfold NB. autorewrite with st.
    assert (G : forall l s, NB s -> NB (run l s)).
    { induction l; intros; cbn; auto. apply IHl, step_nb. auto. }
    apply G. reflexivity. }
  unfold ins, bind in E1. destruct (exec_guard _) as [[| e |] s1] eqn:EG; try discriminate.
  inversion E1; subst. pose proof (exec_guard_in_transaction _ _ H EG) as T.
  unfold in_transaction in *. autorewrite with st. unfold inst_active in *.
  destruct (c_root s1); [|discriminate]. autorewrite with st. exact T.
Qed.
