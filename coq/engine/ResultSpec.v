(* C10 - the specification side: a Result is a plain list of the rows not yet delivered, plus the
   seen-sets of unique().  No buffers, no chunked re-fetching, no memoised getters.
   (definitions only) *)
From Coq Require Import List ZArith Bool Arith.
Import ListNotations.
From SAV.engine Require Import ResultModel.

(* a view as the caller configured it *)
Record sview := { skind : vkind; scols : list (nat * nat); sufs : option ustate }.
Record sstate := {
  rem : list row;            (* rows not yet delivered, in order *)
  sclosed : bool;            (* result.closed *)
  syp : option nat;          (* yield_per *)
  shp : heap;                (* the seen-sets *)
  sroot : sview; sfview : option sview }.

Definition scur (s : sstate) : sview := match sfview s with Some v => v | None => sroot s end.
Definition set_scur (s : sstate) (v : sview) : sstate :=
  match sfview s with
  | Some _ => {| rem := rem s; sclosed := sclosed s; syp := syp s; shp := shp s; sroot := sroot s; sfview := Some v |}
  | None => {| rem := rem s; sclosed := sclosed s; syp := syp s; shp := shp s; sroot := v; sfview := None |}
  end.

(* [take st c rem n seen]: read rows in order until [n] rows whose key is new have been found (or the list
   ends): (those rows projected, seen', rows not read).  [st = None]: no de-duplication. *)
Fixpoint take (st : option strat) (c : list (nat * nat)) (rem : list row) (n : nat) (seen : list row)
  : list row * list row * list row :=
  match rem with
  | [] => ([], seen, [])
  | raw :: t =>
      match n with
      | 0 => ([], seen, rem)
      | S n' =>
          let p := project c raw in
          match st with
          | None => let '(d, s, r) := take st c t n' seen in (p :: d, s, r)
          | Some k =>
              if mem (key_of k p) seen then take st c t n seen
              else let '(d, s, r) := take st c t n' (key_of k p :: seen) in (p :: d, s, r)
          end
      end
  end.

(* the same on (remaining rows, seen-sets): (delivered, rows not read, seen-sets) *)
Definition adeliver (u : option ustate) (c : list (nat * nat)) (n : nat) (rm : list row) (h : heap)
  : list row * list row * heap :=
  match u with
  | None => let '(d, _, r) := take None c rm n [] in (d, r, h)
  | Some u =>
      let '(d, seen, r) := take (Some (snd u)) c rm n (hget h (fst u)) in (d, r, hset h (fst u) seen)
  end.
(* deliver up to [n] rows through view [v] *)
Definition deliver (v : sview) (n : nat) (s : sstate) : list row * sstate :=
  let '(d, r, h) := adeliver (sufs v) (scols v) n (rem s) (shp s) in
  (d, {| rem := r; sclosed := sclosed s; syp := syp s; shp := h; sroot := sroot s; sfview := sfview s |}).
(* the first two rows the view would deliver (state untouched) *)
Definition peek2 (v : sview) (s : sstate) : list row :=
  fst (fst (adeliver (sufs v) (scols v) 2 (rem s) (shp s))).

Fixpoint sparts (k : nat) (v : sview) (n : nat) (s : sstate) (acc : list (list row))
  : list (list row) * bool * sstate :=
  match k with
  | 0 => (acc, false, s)
  | S k' =>
      let '(d, s1) := deliver v n s in
      match d with
      | [] => (acc, true, s1)
      | _ => sparts k' v n s1 (acc ++ [d])
      end
  end.

(* fetchmany()/partitions() without a size use yield_per (anything else is outside the property) *)
Definition size_of (n : option nat) (ypv : option nat) : nat :=
  match n with Some n => n | None => match ypv with Some y => y | None => 0 end end.

Definition closed_err (s : sstate) : sstate * outcome := (s, OErr ResourceClosed).
Definition close_spec (s : sstate) : sstate :=
  {| rem := []; sclosed := true; syp := syp s; shp := shp s; sroot := sroot s; sfview := sfview s |}.

Definition sstep (s : sstate) (o : op) : sstate * outcome :=
  let v := scur s in
  let pst := post (skind v) (scols v) in
  match o with
  | FetchOne =>
      match skind v with
      | VScalar => (s, OErr AttributeErr)
      | _ => if sclosed s then closed_err s else
             let '(d, s1) := deliver v 1 s in
             (s1, match d with p :: _ => OItem (pst p) | [] => ONoRow end)
      end
  | Next =>
      if sclosed s then closed_err s else
      let '(d, s1) := deliver v 1 s in
      (s1, match d with p :: _ => OItem (pst p) | [] => OStop end)
  | IterFor k =>
      match k with
      | 0 => (s, OIter [] false)
      | _ => if sclosed s then closed_err s else
             let '(d, s1) := deliver v k s in
             (s1, OIter (map pst d) (length d <? k))
      end
  | FetchMany n =>
      if sclosed s then closed_err s else
      let '(d, s1) := deliver v (size_of n (syp s)) s in (s1, OItems (map pst d))
  | Partitions n k =>
      match k with
      | 0 => (s, OParts [] false)
      | _ => if sclosed s then closed_err s else
             let '(ps, stopped, s1) := sparts k v (size_of n (syp s)) s [] in
             (s1, OParts (map (map pst) ps) stopped)
      end
  | All =>
      if sclosed s then closed_err s else
      let '(d, s1) := deliver v (length (rem s)) s in (s1, OItems (map pst d))
  | OnlyOne w =>
      let '(second, none, scalar) := oo_flags w in
      match skind v, scalar with
      | VScalar, true | VMapping, true => (s, OErr AttributeErr)
      | _, _ =>
          if sclosed s then closed_err s else
          (* the result is closed and the remaining rows are discarded, whatever the outcome *)
          (close_spec s,
           match peek2 v s with
           | [] => if none then OErr NoResultFound else ONoRow
           | p :: more =>
               match more, second with
               | _ :: _, true => OErr MultipleResultsFound
               | _, _ => OItem (if scalar then IScalar (first_col p) else pst p)
               end
           end)
      end
  | ToRoot => ({| rem := rem s; sclosed := sclosed s; syp := syp s; shp := shp s; sroot := sroot s; sfview := None |}, OUnit)
  | Scalars i =>
      match reduce_cols (scols (sroot s)) [i] with
      | Some c => ({| rem := rem s; sclosed := sclosed s; syp := syp s; shp := shp s; sroot := sroot s;
                      sfview := Some {| skind := VScalar; scols := c; sufs := sufs (sroot s) |} |}, OUnit)
      | None => (s, OErr IndexErr)
      end
  | Mappings =>
      ({| rem := rem s; sclosed := sclosed s; syp := syp s; shp := shp s; sroot := sroot s;
          sfview := Some {| skind := VMapping; scols := scols (sroot s); sufs := sufs (sroot s) |} |}, OUnit)
  | Columns idx =>
      match skind v with
      | VScalar => (s, OErr AttributeErr)
      | _ => match reduce_cols (scols v) idx with
             | Some c => (set_scur s {| skind := skind v; scols := c; sufs := sufs v |}, OUnit)
             | None => (s, OErr IndexErr)
             end
      end
  | Unique st =>
      (* a fresh, empty seen-set *)
      (set_scur {| rem := rem s; sclosed := sclosed s; syp := syp s; shp := shp s ++ [[]];
                   sroot := sroot s; sfview := sfview s |}
                {| skind := skind v; scols := scols v; sufs := Some (length (shp s), st) |}, OUnit)
  | YieldPer n =>
      ({| rem := rem s; sclosed := sclosed s; syp := Some n; shp := shp s; sroot := sroot s; sfview := sfview s |}, OUnit)
  | Close => (close_spec s, OUnit)
  | Freeze =>
      if sclosed s then closed_err s else
      (* the frozen copy holds what the result itself would still deliver; thawing gives a fresh result *)
      let '(d, s1) := deliver (sroot s) (length (rem s)) s in
      ({| rem := d; sclosed := false; syp := None; shp := shp s1;
          sroot := {| skind := VRoot; scols := relabel (scols (sroot s)); sufs := None |}; sfview := None |}, OUnit)
  end.

Definition init_spec (w : nat) (rows : list row) : sstate :=
  {| rem := rows; sclosed := false; syp := None; shp := [];
     sroot := {| skind := VRoot; scols := identity_cols w; sufs := None |}; sfview := None |}.

Fixpoint srun (s : sstate) (ops : list op) : list obs :=
  match ops with
  | [] => []
  | o :: t => let '(s1, out) := sstep s o in (out, sclosed s1) :: srun s1 t
  end.
Definition run_spec (w : nat) (rows : list row) (ops : list op) : list obs := srun (init_spec w rows) ops.

(* everything a run delivered, in order (as rows; only meaningful for row views) *)
Definition rows_of_item (i : item) : list row := match i with IRow r => [r] | _ => [] end.
Definition delivered_by (o : outcome) : list row :=
  match o with
  | OItem i => rows_of_item i
  | OItems l | OIter l _ => flat_map rows_of_item l
  | OParts l _ => flat_map (flat_map rows_of_item) l
  | _ => []
  end.
Definition delivered (l : list obs) : list row := flat_map (fun o => delivered_by (fst o)) l.

(* =====================================================================================
   The region in which the implementation is claimed to refine the list model.  [op_ok] is evaluated on
   the state of the (model of the) implementation just before the call.  It excludes
   (D1) _only_one_row (first/one/one_or_none/scalar...) on a uniqued view whose seen-set is not empty,
   (D2) _only_one_row on a CursorResult that is already soft-closed (exhausted) but not closed,
   and, as a matter of domain, sizes below 1 and size-less fetchmany()/partitions() without yield_per.
   (A third region, stale memoised getters after ScalarResult/MappingResult.unique(), is gone since these
   methods are @_generative; the memoisation is still modelled and proved harmless.) *)
Definition size_ok (n : option nat) (ypv : option nat) : bool :=
  match n with
  | Some n => 1 <=? n
  | None => match ypv with Some y => 1 <=? y | None => false end
  end.
Definition seen_empty (h : heap) (v : view) : bool :=
  match ufs v with
  | Some u => match hget h (fst u) with [] => true | _ => false end
  | None => true
  end.
Definition op_ok (i : istate) (o : op) : bool :=
  let v := cur_view i in
  match o with
  | FetchMany n => size_ok n (yp i)
  | Partitions n k => (k =? 0) || size_ok n (yp i)
  | OnlyOne w =>
      let '(_, _, scalar) := oo_flags w in
      match kind v, scalar with
      | VScalar, true | VMapping, true => true
      | _, _ => hardc (fs i) ||
                (seen_empty (hp i) v                             (* D1 *)
                 && negb (softc (fs i)))                         (* D2 *)
      end
  | _ => true
  end.
Fixpoint guard_from (i : istate) (ops : list op) : bool :=
  match ops with
  | [] => true
  | o :: t => op_ok i o && guard_from (fst (istep i o)) t
  end.
Definition guard (st : strategy) (w : nat) (rows : list row) (ops : list op) : bool :=
  guard_from (init_state st w rows) ops.
