(* C10 - the fetch layer (three cursor strategies, _NO_CURSOR_DQL, IteratorResult) refines a plain list
   of remaining rows: [remaining f] *)
From Coq Require Import List ZArith Bool Arith Lia.
Import ListNotations.
From SAV.engine Require Import ResultModel.

(* a hard-closed result holds no rows *)
Definition fwf (f : fstate) : Prop := hardc f = true -> src f = SNone \/ src f = SIter [].

Lemma firstn_nil_inv {A} (n : nat) (l : list A) : 1 <= n -> firstn n l = [] -> l = [].
Proof. intros Hn H. destruct l; [reflexivity|]. destruct n; [lia|]. simpl in H. discriminate. Qed.

Lemma firstn_min_len {A} (n : nat) (l : list A) : firstn (Nat.min n (length l)) l = firstn n l.
Proof.
  destruct (Nat.le_ge_cases n (length l)).
  - rewrite Nat.min_l by lia. reflexivity.
  - rewrite Nat.min_r by lia. rewrite firstn_all. rewrite firstn_all2 by lia. reflexivity.
Qed.
Lemma skipn_min_len {A} (n : nat) (l : list A) : skipn (Nat.min n (length l)) l = skipn n l.
Proof.
  destruct (Nat.le_ge_cases n (length l)).
  - rewrite Nat.min_l by lia. reflexivity.
  - rewrite Nat.min_r by lia. rewrite skipn_all. rewrite skipn_all2 by lia. reflexivity.
Qed.

Lemma remaining_set_src f s : remaining (set_src f s) = remaining_src s.
Proof. reflexivity. Qed.
Lemma hardc_set_src f s : hardc (set_src f s) = hardc f.
Proof. reflexivity. Qed.

(* ---- closing ---- *)
Lemma soft_close_remaining hard f : remaining f = [] -> remaining (soft_close hard f) = [].
Proof.
  unfold soft_close, remaining. intros H.
  destruct (src f) eqn:E; cbn [remaining_src] in *;
    try (destruct ((negb hard && softc f) || (hard && hardc f)); [rewrite E; exact H|reflexivity]); reflexivity.
Qed.
Lemma soft_close_hard f : fwf f ->
  remaining (soft_close true f) = [] /\ hardc (soft_close true f) = true /\ fwf (soft_close true f).
Proof.
  intros W. unfold soft_close.
  destruct (src f) eqn:E; cbn [negb andb orb];
    try (destruct (hardc f) eqn:Hc;
         [ destruct (W Hc) as [W1|W1]; rewrite E in W1; discriminate
         | unfold remaining, fwf; cbn [src hardc remaining_src orb]; repeat split; auto ]).
  - (* SNone *) destruct (hardc f) eqn:Hc.
    + unfold remaining. rewrite E. repeat split; auto.
    + unfold remaining, fwf; cbn [src hardc remaining_src orb]; repeat split; auto.
  - (* SIter *) unfold remaining, fwf; cbn [src hardc remaining_src orb]. repeat split; auto.
Qed.
(* a soft close of an open result (hard = false) *)
Lemma soft_close_soft_hardc f : hardc (soft_close false f) = hardc f.
Proof.
  unfold soft_close. destruct (src f); cbn [negb andb orb];
    try (destruct (softc f || false); reflexivity); reflexivity.
Qed.
Lemma fwf_open f : hardc f = false -> fwf f.
Proof. unfold fwf. intros H H'. rewrite H in H'. discriminate. Qed.
Lemma soft_close_soft f : hardc f = false -> remaining f = [] ->
  remaining (soft_close false f) = [] /\ hardc (soft_close false f) = false /\ fwf (soft_close false f).
Proof.
  intros Hc Hr. split; [apply soft_close_remaining; exact Hr|].
  assert (H : hardc (soft_close false f) = false) by (rewrite soft_close_soft_hardc; exact Hc).
  split; [exact H|apply fwf_open; exact H].
Qed.

(* ---- a closed result raises ---- *)
Lemma fetchone_closed hard f : fwf f -> hardc f = true -> fetchone_impl hard f = (f, Raise ResourceClosed).
Proof.
  intros W Hc. unfold fetchone_impl. destruct (W Hc) as [E|E]; rewrite E; rewrite Hc; reflexivity.
Qed.
Lemma fetchmany_closed n f : fwf f -> hardc f = true -> fetchmany_impl n f = (f, Raise ResourceClosed).
Proof.
  intros W Hc. unfold fetchmany_impl. destruct (W Hc) as [E|E]; rewrite E; rewrite Hc; reflexivity.
Qed.
Lemma fetchall_closed f : fwf f -> hardc f = true -> fetchall_impl f = (f, Raise ResourceClosed).
Proof.
  intros W Hc. unfold fetchall_impl. destruct (W Hc) as [E|E]; rewrite E; rewrite Hc; reflexivity.
Qed.

(* soft_close hard on an open result whose strategy is still a live one *)
Lemma soft_close_live hard f : hardc f = false -> softc f = false -> remaining f = [] ->
  remaining (soft_close hard f) = [] /\ hardc (soft_close hard f) = hard /\ fwf (soft_close hard f).
Proof.
  intros Hc Hs Hr. destruct hard.
  - destruct (soft_close_hard f (fwf_open f Hc)) as [A [B C]]. auto.
  - destruct (soft_close_soft f Hc Hr) as [A [B C]]. auto.
Qed.

(* ---- fetchone ---- *)
Lemma buffer_rows_spec c bs g m :
  let '(b1, c1, _) := buffer_rows c bs g m in b1 ++ c1 = c /\ (b1 = [] -> c = []).
Proof.
  unfold buffer_rows. destruct (bs <? 1) eqn:E.
  - destruct c; cbn; split; auto; try (rewrite app_nil_r; reflexivity); intros; discriminate.
  - apply Nat.ltb_ge in E. unfold cur_fetchmany.
    destruct (firstn bs c) as [|r l] eqn:F.
    + pose proof (firstn_nil_inv _ _ E F) as Hc. subst c. rewrite skipn_nil. split; auto.
    + rewrite <- F. rewrite firstn_skipn. split; auto. rewrite F. intros; discriminate.
Qed.

Lemma fetchone_open hard f : hardc f = false ->
  match remaining f with
  | [] => exists f', fetchone_impl hard f = (f', Ok None) /\ remaining f' = [] /\ fwf f' /\
                     hardc f' = (hard && negb (softc f))
  | r :: t => exists f', fetchone_impl hard f = (f', Ok (Some r)) /\ remaining f' = t /\
                         hardc f' = false /\ softc f' = false
  end.
Proof.
  intros Hc. unfold fetchone_impl, remaining. destruct (src f) eqn:E; cbn [remaining_src].
  - (* direct *) destruct cur as [|r t].
    + assert (Hs : softc f = false) by (unfold softc; rewrite E; reflexivity).
      assert (Hr : remaining f = []) by (unfold remaining; rewrite E; reflexivity).
      destruct (soft_close_live hard f Hc Hs Hr) as [A [B C]].
      eexists; split; [reflexivity|]. rewrite Hs, andb_true_r. auto.
    + eexists; split; [reflexivity|]. repeat split; auto.
  - (* buffered *) destruct buf as [|r b'].
    + pose proof (buffer_rows_spec cur bufsize growth maxbuf) as HB.
      destruct (buffer_rows cur bufsize growth maxbuf) as [[b1 c1] bs1].
      destruct HB as [HB1 HB2]. destruct b1 as [|r b''].
      * specialize (HB2 eq_refl). cbn [app] in HB1. subst c1. subst cur. cbn [app].
        set (f0 := set_src f (SBuffered [] [] bs1 growth maxbuf)).
        assert (Hc0 : hardc f0 = false) by exact Hc.
        assert (Hs0 : softc f0 = false) by reflexivity.
        assert (Hr0 : remaining f0 = []) by reflexivity.
        destruct (soft_close_live hard f0 Hc0 Hs0 Hr0) as [A [B C]].
        eexists; split; [reflexivity|].
        assert (Hs : softc f = false) by (unfold softc; rewrite E; reflexivity).
        rewrite Hs, andb_true_r. auto.
      * cbn [app] in *. rewrite <- HB1. cbn [app]. eexists; split; [reflexivity|]. repeat split; auto.
    + cbn [app]. eexists; split; [reflexivity|]. repeat split; auto.
  - (* full *) destruct buf as [|r b'].
    + assert (Hs : softc f = false) by (unfold softc; rewrite E; reflexivity).
      assert (Hr : remaining f = []) by (unfold remaining; rewrite E; reflexivity).
      destruct (soft_close_live hard f Hc Hs Hr) as [A [B C]].
      eexists; split; [reflexivity|]. rewrite Hs, andb_true_r. auto.
    + eexists; split; [reflexivity|]. repeat split; auto.
  - (* no cursor *) rewrite Hc. exists f. split; [reflexivity|].
    assert (Hs : softc f = true) by (unfold softc; rewrite E; reflexivity).
    rewrite Hs, andb_false_r. unfold remaining. rewrite E. repeat split; auto. apply fwf_open; exact Hc.
  - (* iterator *) rewrite Hc. destruct it as [|r t].
    + assert (Hs : softc f = false) by (unfold softc; rewrite E; reflexivity).
      assert (Hr : remaining f = []) by (unfold remaining; rewrite E; reflexivity).
      destruct (soft_close_live hard f Hc Hs Hr) as [A [B C]].
      eexists; split; [reflexivity|]. rewrite Hs, andb_true_r. auto.
    + eexists; split; [reflexivity|]. repeat split; auto.
Qed.

(* ---- fetchmany(n), n >= 1 ---- *)
Lemma fetchmany_open n f : hardc f = false -> 1 <= n ->
  exists f', fetchmany_impl (Some n) f = (f', Ok (firstn n (remaining f))) /\
             remaining f' = skipn n (remaining f) /\ hardc f' = false.
Proof.
  intros Hc Hn. unfold fetchmany_impl, remaining. destruct (src f) eqn:E; cbn [remaining_src].
  - (* direct *) unfold cur_fetchmany.
    destruct (firstn n cur) as [|r l] eqn:F.
    + pose proof (firstn_nil_inv _ _ Hn F) as H0. subst cur. rewrite skipn_nil.
      set (f0 := set_src f (SDirect [])).
      destruct (soft_close_soft f0 Hc eq_refl) as [A [B C]].
      eexists; split; [reflexivity|]. auto.
    + eexists; split; [reflexivity|]. split; reflexivity || exact Hc.
  - (* buffered *)
    destruct (length buf <? n) eqn:L.
    + apply Nat.ltb_lt in L. unfold cur_fetchmany.
      destruct (firstn (n - length buf) cur) as [|r l] eqn:F.
      * assert (H0 : cur = []) by (apply (firstn_nil_inv (n - length buf)); [lia|exact F]).
        subst cur. rewrite skipn_nil, app_nil_r.
        rewrite Nat.min_r by lia. rewrite firstn_all, skipn_all.
        rewrite (firstn_all2 buf) by lia. rewrite (skipn_all2 buf) by lia.
        set (f0 := set_src f (SBuffered [] [] bufsize growth maxbuf)).
        destruct (soft_close_soft f0 Hc eq_refl) as [A [B C]].
        eexists; split; [reflexivity|]. auto.
      * rewrite <- F.
        assert (Hl : length (buf ++ firstn (n - length buf) cur) <= n)
          by (rewrite app_length, firstn_length; lia).
        rewrite Nat.min_r by exact Hl. rewrite firstn_all, skipn_all.
        rewrite (firstn_app n buf cur), (skipn_app n buf cur).
        rewrite (firstn_all2 buf) by lia. rewrite (skipn_all2 buf) by lia. cbn [app].
        eexists; split; [reflexivity|]. cbn [remaining_src app]. repeat split; auto.
    + apply Nat.ltb_ge in L. rewrite Nat.min_l by exact L.
      rewrite (firstn_app n buf cur), (skipn_app n buf cur).
      assert (Hz : n - length buf = 0) by lia. rewrite Hz. cbn [firstn skipn]. rewrite app_nil_r.
      eexists; split; [reflexivity|]. cbn [remaining_src]. repeat split; auto.
  - (* full *) rewrite firstn_min_len, skipn_min_len.
    destruct (firstn n buf) as [|r l] eqn:F.
    + pose proof (firstn_nil_inv _ _ Hn F) as H0. subst buf. rewrite skipn_nil.
      set (f0 := set_src f (SFull [])).
      destruct (soft_close_soft f0 Hc eq_refl) as [A [B C]].
      eexists; split; [reflexivity|]. auto.
    + eexists; split; [reflexivity|]. split; reflexivity || exact Hc.
  - (* no cursor *) rewrite Hc. exists f. rewrite firstn_nil, skipn_nil. unfold remaining_src. rewrite E. auto.
  - (* iterator *) rewrite Hc. eexists; split; [reflexivity|]. split; reflexivity || exact Hc.
Qed.

(* ---- fetchall ---- *)
Lemma fetchall_open f : hardc f = false ->
  exists f', fetchall_impl f = (f', Ok (remaining f)) /\ remaining f' = [] /\ hardc f' = false.
Proof.
  intros Hc. unfold fetchall_impl, remaining. destruct (src f) eqn:E; cbn [remaining_src].
  - set (f0 := set_src f (SDirect [])). destruct (soft_close_soft f0 Hc eq_refl) as [A [B C]].
    eexists; split; [reflexivity|]. auto.
  - set (f0 := set_src f (SBuffered [] [] bufsize growth maxbuf)).
    destruct (soft_close_soft f0 Hc eq_refl) as [A [B C]]. eexists; split; [reflexivity|]. auto.
  - set (f0 := set_src f (SFull [])). destruct (soft_close_soft f0 Hc eq_refl) as [A [B C]].
    eexists; split; [reflexivity|]. auto.
  - rewrite Hc. exists f. unfold remaining_src. rewrite E. auto.
  - rewrite Hc. unfold soft_close. rewrite E. eexists; split; [reflexivity|]. cbn. rewrite Hc. auto.
Qed.

(* ---- yield_per ---- *)
Lemma yield_per_remaining n f : remaining (yield_per_impl n f) = remaining f /\ hardc (yield_per_impl n f) = hardc f.
Proof. unfold yield_per_impl, remaining. destruct (src f) eqn:E; cbn; rewrite ?E; auto. Qed.
Lemma yield_per_fwf n f : fwf f -> fwf (yield_per_impl n f).
Proof.
  unfold fwf, yield_per_impl. intros W. destruct (src f) eqn:E; cbn [hardc src set_src]; intros Hc;
    destruct (W Hc) as [H|H]; try discriminate; try (rewrite E; auto; fail); auto.
Qed.

Lemma init_remaining st rows : remaining_src (init_src st rows) = rows.
Proof. destruct st; cbn [init_src remaining_src]; auto. apply firstn_skipn. Qed.
