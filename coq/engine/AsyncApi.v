(* C29 - the asyncio API (greenlet_spawn around every facade method, shielded __aexit__) performs the
   same blocking run as the sync API, for every block of the modelled alphabet *)
From Coq Require Import List ZArith Bool Arith Lia.
Import ListNotations.
From SAV.engine Require Import Async AsyncConn.
Open Scope Z_scope.

Notation sq := (seqv io_step (R := res)).

(* ---- "returns Ok without any await" ---- *)
Definition rok (p : ptree) : Prop := exists v s, p = Ret (Ok v, s).

Lemma rok_bind (p : ptree) f : rok (bind p f) -> exists r, p = Ret r /\ rok (f r).
Proof.
  destruct p as [r | i k | inner k]; cbn; intros (v & s & H); try discriminate.
  exists r. split; auto. exists v, s. auto.
Qed.
Lemma rok_mbind m f s : rok (mbind m f s) -> exists v s1, m s = Ret (Ok v, s1) /\ rok (f v s1).
Proof.
  unfold mbind. intros H. apply rok_bind in H. destruct H as ([o s1] & E & R). cbn in R.
  destruct o as [v|e].
  - exists v, s1. auto.
  - destruct R as (v & s2 & R). discriminate.
Qed.
Lemma rok_mseq m n s : rok (mseq m n s) -> exists v s1, m s = Ret (Ok v, s1) /\ rok (n s1).
Proof. unfold mseq. intros H. apply rok_mbind in H. exact H. Qed.
Lemma rok_mtry m h s : rok (mtry m h s) -> rok (m s) \/ exists e s1, m s = Ret (Raise e, s1) /\ rok (h e s1).
Proof.
  unfold mtry. intros H. apply rok_bind in H. destruct H as ([o s1] & E & R). cbn in R.
  destruct o as [v|e].
  - left. exists v, s1. auto.
  - right. exists e, s1. auto.
Qed.
Lemma rok_mfinally m fin s : rok (mfinally m fin s) -> rok (m s).
Proof.
  unfold mfinally. intros H. apply rok_bind in H. destruct H as ([o s1] & E & R). cbn in R.
  apply rok_bind in R. destruct R as ([o2 s2] & E2 & R2). cbn in R2.
  destruct o2 as [v2|e2]; destruct R2 as (v & s3 & R2); inversion R2; subst.
  exists v, s1. auto.
Qed.
Lemma not_rok_await i s : ~ rok (await_ i s).
Proof. intros (v & s' & H). discriminate. Qed.
Lemma not_rok_raise e s : ~ rok (mraise e s).
Proof. intros (v & s' & H). discriminate. Qed.

Section Api.
  Variable cf : cfg.

  (* _handle_dbapi_exception always raises *)
  Lemma not_rok_handle ab e cur s : ~ rok (handle_gen cf ab e cur s).
  Proof.
    unfold handle_gen, mget. intros H. apply rok_mfinally in H. apply rok_mseq in H.
    destruct H as (v & s1 & _ & H). exact (not_rok_raise _ _ H).
  Qed.

  Lemma not_rok_new_cursor s : ~ rok (new_cursor cf s).
  Proof.
    unfold new_cursor. intros H. apply rok_mtry in H. destruct H as [H | (e & s1 & _ & H)].
    - apply rok_mseq in H. destruct H as (v0 & s1 & _ & H). apply rok_mbind in H.
      destruct H as (v & s2 & _ & H). destruct v; try exact (not_rok_raise _ _ H).
      apply rok_mseq in H. destruct H as (v1 & s3 & E & _). exact (not_rok_await _ _ (ex_intro _ v1 (ex_intro _ s3 E))).
    - destruct e; try exact (not_rok_raise _ _ H); unfold handle_dbapi_exception in H; exact (not_rok_handle _ _ _ _ H).
  Qed.

  (* Connection.execute on the async adapter never returns without having awaited *)
  Lemma not_rok_conn_execute st s : ~ rok (conn_execute cf st s).
  Proof.
    unfold conn_execute, execute_context. intros H. apply rok_mbind in H.
    destruct H as (v & s1 & E & _). exact (not_rok_new_cursor s (ex_intro _ v (ex_intro _ s1 E))).
  Qed.

  (* ---- sync-equivalence of the two APIs ---- *)
  Lemma sq_mbind (m m' : M) f f' s :
    (forall s, sq (m s) (m' s)) -> (forall v s, sq (f v s) (f' v s)) -> sq (mbind m f s) (mbind m' f' s).
  Proof.
    intros A B. unfold mbind. apply seqv_bind; auto. intros [o s1]. cbn. destruct o; auto. apply seqv_refl.
  Qed.
  Lemma sq_mseq (m m' n n' : M) s :
    (forall s, sq (m s) (m' s)) -> (forall s, sq (n s) (n' s)) -> sq (mseq m n s) (mseq m' n' s).
  Proof. intros A B. unfold mseq. apply sq_mbind; auto. Qed.
  Lemma sq_mtry (m m' : M) h h' s :
    (forall s, sq (m s) (m' s)) -> (forall e s, sq (h e s) (h' e s)) -> sq (mtry m h s) (mtry m' h' s).
  Proof.
    intros A B. unfold mtry. apply seqv_bind; auto. intros [o s1]. cbn. destruct o; auto. apply seqv_refl.
  Qed.
  Lemma sq_mfinally (m m' fin fin' : M) s :
    (forall s, sq (m s) (m' s)) -> (forall s, sq (fin s) (fin' s)) -> sq (mfinally m fin s) (mfinally m' fin' s).
  Proof.
    intros A B. unfold mfinally. apply seqv_bind; auto. intros [o s1]. cbn.
    apply seqv_bind; auto. intros r2. apply seqv_refl.
  Qed.

  Lemma sq_acall_false (m : M) s : sq (acall async_api false m s) (acall sync_api false m s).
  Proof. unfold acall. cbn. apply peq_seqv. apply spawn_transparent. Qed.

  Lemma sq_acall_execute st s :
    sq (acall async_api true (conn_execute cf st) s) (acall sync_api true (conn_execute cf st) s).
  Proof.
    unfold acall. cbn. apply peq_seqv. apply spawn_transparent_fix.
    intros [o s1] E. destruct o as [v|e]; [|reflexivity].
    exfalso. apply (not_rok_conn_execute st s). exists v, s1. exact E.
  Qed.

  Lemma sq_op_body o s : sq (op_body cf async_api o s) (op_body cf sync_api o s).
  Proof.
    destruct o; cbn [op_body]; try apply sq_acall_false; try apply sq_acall_execute.
    apply sq_mbind; [intros; apply sq_acall_execute|]. intros; apply seqv_refl.
  Qed.

  Lemma sq_run_ops ops : forall s, sq (run_ops cf async_api ops s) (run_ops cf sync_api ops s).
  Proof.
    induction ops as [|o rest IH]; intros s; cbn [run_ops].
    - apply seqv_refl.
    - apply sq_mseq; [|exact IH]. intros s1. apply sq_mtry; [|intros; apply seqv_refl].
      intros s2. apply sq_mbind; [intros; apply sq_op_body|intros; apply seqv_refl].
  Qed.

  Lemma sq_aexit s : sq (aexit cf async_api s) (aexit cf sync_api s).
  Proof.
    unfold aexit. cbn [shielded async_api sync_api]. apply seqv_shield.
    - apply sq_acall_false.
    - intros r. apply seqv_refl.
  Qed.

  Lemma sq_block sty ops s : sq (block cf async_api sty ops s) (block cf sync_api sty ops s).
  Proof.
    destruct sty; cbn [block].
    - apply sq_mseq; [intros; apply sq_acall_false|]. intros s1.
      apply sq_mfinally; [intros; apply sq_run_ops|intros; apply sq_aexit].
    - apply sq_mseq; [intros; apply sq_acall_false|]. intros s1.
      apply sq_mfinally; [intros; apply sq_run_ops|intros; apply sq_acall_false].
    - apply sq_mseq; [intros; apply sq_acall_false|intros; apply sq_run_ops].
  Qed.

  (* C29, first half, at the level of the API: without cancellation the event loop running the
     AsyncEngine/AsyncConnection program yields the same outcome, python state (results included),
     database and DBAPI calls in the same order as the Engine/Connection program *)
  Theorem api_transparent sty ops s w :
    let '(r, w', _, t) := run_loop io_step io_cancel_step io_suspends ECancelled (block cf async_api sty ops s) w [] in
    run_sync io_step (block cf sync_api sty ops s) w = (r, w', flat_map ev_io t) /\ Forall ev_uncancelled t.
  Proof.
    pose proof (run_loop_quiet _ _ _ _ _ io_step io_cancel_step io_suspends ECancelled
                  (block cf async_api sty ops s) w [] (Forall_nil _)) as H.
    destruct (run_loop io_step io_cancel_step io_suspends ECancelled (block cf async_api sty ops s) w []) as [[[r w'] cs'] t].
    destruct H as (H1 & _ & H3). split; auto. rewrite <- (sq_block sty ops s w). exact H1.
  Qed.
End Api.
