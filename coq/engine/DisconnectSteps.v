(* C27 - proofs, part 2: the operations; single-step theorems. *)
From Coq Require Import List Arith Bool Lia.
Import ListNotations.
From SAV.engine Require Import Disconnect DisconnectProofs.

Definition autobegin (s : st) : st :=
  match s_txn s with TNone => set_txn s TActive (s_nested s) | _ => s end.
Definition inactive_check (s : st) : bool :=
  match s_txn s with TInactive => true | _ => false end || head_inactive (s_nested s).

Section S.
  Variable faults : nat -> fault.
  Variable lst : list lbeh.
  Notation exec_path := (exec_path faults lst).
  Notation step := (step faults lst).

  Lemma exec_after_ensure : forall s s1, ensure faults lst s = (s1, None) ->
    exists cid st0, s_cur s1 = Some (cid, st0) /\
      exec_path s = if inactive_check s1 then (s1, RPending)
                    else call_or_handle faults lst K_EXEC cid (autobegin s1).
  Proof.
    intros s s1 He. destruct (ensure_frame _ _ _ _ _ He) as (_ & _ & C & _). destruct (C eq_refl) as [[cid st0] Hc].
    exists cid, st0. split; [exact Hc|]. unfold Disconnect.exec_path. rewrite He. fold (inactive_check s1).
    destruct (inactive_check s1); [reflexivity|]. fold (autobegin s1).
    assert (Hc2 : s_cur (autobegin s1) = Some (cid, st0)).
    { unfold autobegin. destruct (s_txn s1); exact Hc. }
    rewrite Hc2. reflexivity.
  Qed.

  Lemma exec_live : forall s cid st0, s_cur s = Some (cid, st0) ->
    exec_path s = if inactive_check s then (s, RPending)
                  else call_or_handle faults lst K_EXEC cid (autobegin s).
  Proof.
    intros s cid st0 Hc.
    destruct (exec_after_ensure s s (ensure_live faults lst s ltac:(congruence))) as (cid' & st' & E & ->).
    rewrite Hc in E. injection E as <- <-. reflexivity.
  Qed.

  Lemma exec_blocked : forall s, blocked s -> exec_path s = (s, RPending).
  Proof. intros s Hb. unfold Disconnect.exec_path. rewrite (ensure_blocked faults lst s Hb). reflexivity. Qed.

  Lemma autobegin_fields : forall s, s_cur (autobegin s) = s_cur s /\ s_nested (autobegin s) = s_nested s /\
    s_n (autobegin s) = s_n s /\ s_log (autobegin s) = s_log s /\ s_idle (autobegin s) = s_idle s /\
    s_invt (autobegin s) = s_invt s /\ s_nconn (autobegin s) = s_nconn s /\ s_clock (autobegin s) = s_clock s /\
    (s_txn (autobegin s) = s_txn s \/ (s_txn s = TNone /\ s_txn (autobegin s) = TActive)) /\
    (inactive_check s = false -> s_txn (autobegin s) = TActive).
  Proof.
    intros s. unfold autobegin, inactive_check. destruct (s_txn s) eqn:E; cbn; repeat split; auto; try discriminate.
  Qed.

  (* general facts about the execute path *)
  Lemma exec_path_gen : forall s s' c, exec_path s = (s', c) ->
    s_nested s' = s_nested s /\
    (is_disc c = true -> s_cur s' = None) /\
    (c = ROk -> (exists x, s_cur s' = Some x) /\ s_txn s' = TActive) /\
    (s_txn s' = s_txn s \/ (s_txn s = TNone /\ s_txn s' = TActive)) /\
    c <> RInvalidReq /\
    (is_disc c = false -> s_invt s' = s_invt s).
  Proof.
    intros s s' c H. destruct (ensure faults lst s) as [s1 e] eqn:He.
    destruct (ensure_frame _ _ _ _ _ He) as (A & B & C & D & E).
    destruct e as [c0|].
    - unfold Disconnect.exec_path in H. rewrite He in H. injection H as <- <-.
      destruct (D c0 eq_refl) as (D1 & D2 & D3).
      refine (conj B (conj _ (conj _ (conj (or_introl A) (conj _ _))))); auto.
      + intros ->. destruct D3 as [X|X]; [destruct X|discriminate].
      + intros ->. destruct D3 as [X|X]; [destruct X|discriminate].
    - destruct (exec_after_ensure s s1 He) as (cid & st0 & Hc & Heq). rewrite Heq in H.
      destruct (inactive_check s1) eqn:Ei.
      + injection H as <- <-. refine (conj B (conj _ (conj _ (conj (or_introl A) (conj _ _))))); auto; discriminate.
      + destruct (autobegin_fields s1) as (F1 & F2 & F3 & F4 & F5 & F6 & F7 & F8 & F9 & F10).
        specialize (F10 Ei).
        assert (Hc2 : s_cur (autobegin s1) = Some (cid, st0)) by congruence.
        assert (Htx : s_txn (autobegin s1) = s_txn s \/ (s_txn s = TNone /\ s_txn (autobegin s1) = TActive)).
        { destruct F9 as [F9|[F9 F9']]; [left|right]; split || idtac; congruence. }
        destruct (coh_spec faults lst _ _ _ _ _ _ Hc2 H) as [(-> & -> & _)|[(El & Ed & -> & _)|(El & Ed & -> & _)]]; cbn.
        * refine (conj _ (conj _ (conj _ (conj Htx (conj _ _))))); try discriminate; try congruence.
          intros _. split; [eauto|exact F10].
        * refine (conj _ (conj _ (conj _ (conj Htx (conj _ _))))); try congruence.
          -- intros ->. destruct El.
          -- intros ->. destruct El.
        * refine (conj _ (conj _ (conj _ (conj Htx (conj _ _))))); try congruence.
          -- intros ->. destruct El.
          -- intros ->. destruct El.
  Qed.

  (* ---- T1: a disconnect-classified error leaves the Connection invalidated ---- *)
  Lemma coh_disc_cur : forall k cid st0 s s' c, s_cur s = Some (cid, st0) ->
    call_or_handle faults lst k cid s = (s', c) -> is_disc c = true -> s_cur s' = None.
  Proof.
    intros k cid st0 s s' c Hc H Hd.
    destruct (coh_spec faults lst _ _ _ _ _ _ Hc H) as [(-> & _)|[(_ & E & _)|(_ & _ & -> & _)]];
      try discriminate; try congruence. reflexivity.
  Qed.

  Lemma pass_code_cases : forall c, pass_code lst c = c \/ exists d, pass_code lst c = RCustom d.
  Proof.
    intros c. unfold pass_code. destruct (run_chain lst false true false) as [[d ip] [|]]; eauto.
  Qed.

  Theorem invalidated_after_disconnect : forall o s s' c,
    step o s = (s', c) -> is_disc c = true -> invalidated s' = true.
  Proof.
    intros o s s' c H Hd. unfold invalidated.
    assert (G : s_cur s' = None); [|rewrite G; reflexivity].
    destruct o; cbn [Disconnect.step] in H.
    - destruct (exec_path_gen _ _ _ H) as (_ & D & _). auto.
    - unfold begin_op in H. destruct (s_txn s); try (injection H as _ <-; discriminate).
      destruct (ensure faults lst s) as [s1 e] eqn:He. destruct (ensure_frame _ _ _ _ _ He) as (_ & _ & _ & D & _).
      destruct e as [c0|]; [|injection H as _ <-; discriminate]. injection H as <- <-. apply (D c0 eq_refl).
    - unfold commit_op in H. destruct (s_txn s); try (injection H as _ <-; discriminate).
      destruct (s_cur s) as [[cid st0]|] eqn:Hc; [|injection H as <- _; exact Hc].
      destruct (call_or_handle faults lst K_COMMIT cid s) as [s1 c1] eqn:Hcoh.
      assert (X : s' = set_txn s1 TNone [] /\ c = ROk \/ s' = set_txn s1 TInactive [] /\ c = c1)
        by (destruct c1; injection H as <- <-; auto).
      destruct X as [[_ ->]|[-> ->]]; [discriminate|]. cbn. eapply coh_disc_cur; eauto.
    - unfold rollback_op in H. destruct (s_txn s); try (injection H as _ <-; discriminate).
      destruct (s_cur s) as [[cid st0]|] eqn:Hc; [|injection H as _ <-; discriminate].
      destruct (call_or_handle faults lst K_ROLLBACK cid s) as [s1 c1] eqn:Hcoh.
      assert (X : s' = set_txn s1 TNone [] /\ c = ROk \/ s' = set_txn s1 TNone [] /\ c = c1)
        by (destruct c1; injection H as <- <-; auto).
      destruct X as [[_ ->]|[-> ->]]; [discriminate|]. cbn. eapply coh_disc_cur; eauto.
    - unfold savepoint_op in H.
      destruct (match s_txn s with TNone => begin_op faults lst s | _ => (s, ROk) end) as [s1 c1] eqn:Hb.
      assert (Y : c1 = ROk \/ (s' = s1 /\ c = c1 /\ c1 <> ROk)).
      { destruct c1; [left; reflexivity|right..]; injection H as <- <-; repeat split; discriminate. }
      destruct Y as [->|(-> & -> & Hn)].
      + destruct (exec_path s1) as [s2 c2] eqn:He. destruct (exec_path_gen _ _ _ He) as (_ & D & _).
        destruct c2; injection H as <- <-; try discriminate; cbn; auto.
      + destruct (s_txn s) eqn:Et; [|injection Hb as _ <-; congruence|injection Hb as _ <-; congruence].
        unfold begin_op in Hb. rewrite Et in Hb.
        destruct (ensure faults lst s) as [s2 e] eqn:He. destruct (ensure_frame _ _ _ _ _ He) as (_ & _ & _ & D & _).
        destruct e as [c0|]; [|injection Hb as _ <-; congruence]. injection Hb as <- <-. apply (D c0 eq_refl).
    - unfold rollback_sp_op in H. destruct (s_nested s) as [|a rest]; [injection H as _ <-; discriminate|].
      destruct (a && match s_txn s with TActive => true | _ => false end && match s_cur s with Some _ => true | None => false end);
        [|injection H as _ <-; discriminate].
      destruct (exec_path s) as [s1 c1] eqn:He. destruct (exec_path_gen _ _ _ He) as (_ & D & _).
      injection H as <- <-. cbn. auto.
    - unfold release_sp_op in H. destruct (s_nested s) as [|[|] rest]; try (injection H as _ <-; discriminate).
      destruct (exec_path s) as [s1 c1] eqn:He. destruct (exec_path_gen _ _ _ He) as (_ & D & _).
      destruct c1; injection H as <- <-; try discriminate; cbn; auto.
  Qed.

  (* ---- T3: blocked until rollback ---- *)
  Definition raising_op (o : op) : Prop := o = OExec \/ o = OBegin \/ o = OCommit \/ o = OSavepoint.

  Lemma blocked_step : forall o s s' c, blocked s -> o <> ORollback -> step o s = (s', c) ->
    blocked s' /\ s_log s' = s_log s /\ s_n s' = s_n s /\ s_idle s' = s_idle s /\
    (raising_op o -> c = RPending \/ c = RInvalidReq \/ exists d, c = RCustom d) /\
    (o = OReleaseSp -> s_nested s <> [] -> c = RPending).
  Proof.
    intros o s s' c Hb Ho H. pose proof Hb as [Hc Ht]. unfold raising_op.
    destruct o; cbn [Disconnect.step] in H; try congruence.
    - rewrite (exec_blocked s Hb) in H. injection H as <- <-.
      repeat split; auto; try discriminate.
    - unfold begin_op in H. destruct (s_txn s) eqn:Et; [congruence| |]; injection H as <- <-;
        (repeat split; auto; try discriminate; try congruence).
    - unfold commit_op in H. destruct (s_txn s) eqn:Et; [congruence| |].
      + rewrite Hc in H. injection H as <- <-.
        refine (conj _ (conj _ (conj _ (conj _ (conj _ _))))); auto; try discriminate.
        * split; [exact Hc|discriminate].
        * intros _. destruct (pass_code_cases RPending) as [->|[d ->]]; eauto.
      + injection H as <- <-. repeat split; auto; try discriminate; congruence.
    - unfold savepoint_op in H. destruct (s_txn s) eqn:Et; [congruence| |];
        rewrite (exec_blocked s Hb) in H; injection H as <- <-;
        (repeat split; auto; try discriminate; try congruence).
    - unfold rollback_sp_op in H. destruct (s_nested s) as [|a rest].
      + injection H as <- <-. repeat split; auto; try discriminate; try (intros [|[|[|]]]; discriminate).
      + rewrite Hc in H. rewrite !andb_false_r in H. injection H as <- <-.
        repeat split; auto; try discriminate; try (intros [|[|[|]]]; discriminate).
    - unfold release_sp_op in H. destruct (s_nested s) as [|[|] rest].
      + injection H as <- <-. repeat split; auto; try discriminate; try congruence; try (intros [|[|[|]]]; discriminate).
      + rewrite (exec_blocked s Hb) in H. injection H as <- <-.
        repeat split; auto; try discriminate; try (intros [|[|[|]]]; discriminate).
      + injection H as <- <-. repeat split; auto; try discriminate; try (intros [|[|[|]]]; discriminate).
  Qed.

  Lemma blocked_final : forall h s, blocked s -> ~ In ORollback h ->
    blocked (final faults lst h s) /\ s_log (final faults lst h s) = s_log s /\ s_n (final faults lst h s) = s_n s.
  Proof.
    induction h as [|o h IH]; intros s Hb Hn; [auto|].
    cbn [final]. destruct (step o s) as [s1 c] eqn:Hs. cbn [fst].
    destruct (blocked_step o s s1 c Hb (fun E => Hn (or_introl E)) Hs) as (B1 & L1 & N1 & _).
    destruct (IH s1 B1 (fun X => Hn (or_intror X))) as (B2 & L2 & N2). split; [exact B2|split; congruence].
  Qed.

  Theorem blocked_until_rollback : forall s h1 o s2 c, blocked s -> ~ In ORollback h1 -> o <> ORollback ->
    step o (final faults lst h1 s) = (s2, c) ->
    s_log s2 = s_log s /\ s_n s2 = s_n s /\ blocked s2 /\
    (raising_op o -> c = RPending \/ c = RInvalidReq \/ exists d, c = RCustom d) /\
    (o = OReleaseSp -> s_nested (final faults lst h1 s) <> [] -> c = RPending).
  Proof.
    intros s h1 o s2 c Hb Hn Ho Hs. destruct (blocked_final h1 s Hb Hn) as (B1 & L1 & N1).
    destruct (blocked_step o _ s2 c B1 Ho Hs) as (B2 & L2 & N2 & _ & R1 & R2).
    split; [congruence|]. split; [congruence|]. split; [exact B2|]. split; [exact R1|exact R2].
  Qed.

  (* a disconnect that hits while a transaction is in progress leaves the connection blocked *)
  Theorem disconnect_in_transaction_blocks : forall o s s' c,
    step o s = (s', c) -> is_disc c = true -> in_txn s' = true -> blocked s'.
  Proof.
    intros o s s' c H Hd Ht. split.
    - pose proof (invalidated_after_disconnect o s s' c H Hd) as Hi. unfold invalidated in Hi.
      destruct (s_cur s'); [discriminate|reflexivity].
    - unfold in_txn in Ht. destruct (s_txn s'); [discriminate|discriminate|discriminate].
  Qed.

  Lemma coh_txn : forall k cid s s' c, call_or_handle faults lst k cid s = (s', c) ->
    s_txn s' = s_txn s /\ s_nested s' = s_nested s.
  Proof.
    intros k cid s s' c H. unfold call_or_handle, dbcall in H.
    destruct (faults (S (s_n s))).
    - injection H as <- _. auto.
    - destruct (handle_spec _ _ _ _ _ H) as (_ & [[_ ->]|[(_ & _ & ->)|(_ & cid' & st' & _ & ->)]]); auto.
    - destruct (handle_spec _ _ _ _ _ H) as (_ & [[_ ->]|[(_ & _ & ->)|(_ & cid' & st' & _ & ->)]]); auto.
  Qed.

  (* the transaction in progress at the failure is still there afterwards (any operation but rollback) *)
  Theorem transaction_survives_failure : forall o s s' c,
    in_txn s = true -> o <> ORollback -> step o s = (s', c) -> c <> ROk -> in_txn s' = true.
  Proof.
    intros o s s' c Ht Ho H Hc. unfold in_txn in *.
    assert (X : forall s1 s2 c2, exec_path s1 = (s2, c2) -> s_txn s1 <> TNone -> s_txn s2 <> TNone).
    { intros s1 s2 c2 He Hn. destruct (exec_path_gen _ _ _ He) as (_ & _ & _ & [E|[E _]] & _); congruence. }
    destruct o; cbn [Disconnect.step] in H; try congruence.
    - assert (s_txn s' <> TNone) by (eapply X; eauto; destruct (s_txn s); congruence).
      destruct (s_txn s'); congruence.
    - unfold begin_op in H. destruct (s_txn s) eqn:Et; [discriminate| |]; injection H as <- _; rewrite Et; reflexivity.
    - unfold commit_op in H. destruct (s_txn s) eqn:Et; [discriminate| |].
      + destruct (s_cur s) as [[cid st0]|].
        * destruct (call_or_handle faults lst K_COMMIT cid s) as [s1 c1]. destruct c1; injection H as <- <-; cbn; congruence.
        * injection H as <- _. reflexivity.
      + injection H as <- _. rewrite Et. reflexivity.
    - unfold savepoint_op in H. destruct (s_txn s) eqn:Et; [discriminate| |];
        (destruct (exec_path s) as [s2 c2] eqn:He;
         assert (s_txn s2 <> TNone) by (eapply X; eauto; congruence);
         destruct c2; injection H as <- _; cbn; destruct (s_txn s2); congruence).
    - unfold rollback_sp_op in H. destruct (s_nested s) as [|a rest]; [injection H as <- _; destruct (s_txn s); congruence|].
      destruct (a && _ && _).
      + destruct (exec_path s) as [s2 c2] eqn:He.
        assert (s_txn s2 <> TNone) by (eapply X; eauto; destruct (s_txn s); congruence).
        injection H as <- _. cbn. destruct (s_txn s2); congruence.
      + injection H as <- _. cbn. destruct (s_txn s); congruence.
    - unfold release_sp_op in H. destruct (s_nested s) as [|[|] rest]; try (injection H as <- _; destruct (s_txn s); congruence).
      destruct (exec_path s) as [s2 c2] eqn:He.
      assert (s_txn s2 <> TNone) by (eapply X; eauto; destruct (s_txn s); congruence).
      destruct c2; injection H as <- _; cbn; destruct (s_txn s2); congruence.
  Qed.

  (* ---- T4: rollback() clears the pending state without touching the DBAPI; the next execute reconnects ---- *)
  Theorem rollback_unblocks : forall s, blocked s ->
    step ORollback s = (set_txn s TNone [], ROk).
  Proof.
    intros s [Hc Ht]. cbn [Disconnect.step]. unfold rollback_op. rewrite Hc.
    destruct (s_txn s); [congruence|reflexivity|reflexivity].
  Qed.

  Theorem reconnects_when_unblocked : forall s,
    s_cur s = None -> s_txn s = TNone -> head_inactive (s_nested s) = false ->
    faults (S (s_n s)) = FOk -> faults (S (S (s_n s))) = FOk ->
    exists s', step OExec s = (s', ROk) /\ invalidated s' = false /\ in_txn s' = true.
  Proof.
    intros s Hc Ht Hh F1 F2. cbn [Disconnect.step].
    destruct (checkout faults s) as [s1 f] eqn:Eco.
    destruct (checkout_frame _ _ _ _ Hc Eco) as (A & B & C & D & E & F & G).
    specialize (F F1). subst f.
    assert (He : ensure faults lst s = (s1, None)).
    { unfold ensure. rewrite Hc, Ht, Eco. reflexivity. }
    destruct (exec_after_ensure s s1 He) as (cid & st0 & Hc1 & Heq).
    assert (Hi : inactive_check s1 = false).
    { unfold inactive_check. rewrite A, B, Ht, Hh. reflexivity. }
    rewrite Hi in Heq.
    destruct (autobegin_fields s1) as (F1' & F2' & F3' & _ & _ & _ & _ & _ & _ & F10).
    destruct (call_or_handle faults lst K_EXEC cid (autobegin s1)) as [s2 c] eqn:Hcoh.
    assert (Hc2 : s_cur (autobegin s1) = Some (cid, st0)) by congruence.
    assert (Fok : faults (S (s_n (autobegin s1))) = FOk).
    { rewrite F3'. destruct G as [-> | ->]; assumption. }
    destruct (coh_spec faults lst _ _ _ _ _ _ Hc2 Hcoh) as [(-> & -> & _)|[(_ & _ & _ & X)|(_ & _ & _ & X)]]; try congruence.
    exists (called K_EXEC cid (autobegin s1)). rewrite Heq. split; [reflexivity|].
    unfold invalidated, in_txn. cbn. rewrite Hc2, (F10 Hi). auto.
  Qed.

  (* no transaction in progress => no current savepoint: holds initially, kept by every operation *)
  Definition no_orphan_savepoint (s : st) : Prop := s_txn s = TNone -> s_nested s = [].

  Lemma exec_keeps_txn : forall s1 s2 c2, exec_path s1 = (s2, c2) -> s_txn s1 <> TNone -> s_txn s2 <> TNone.
  Proof. intros s1 s2 c2 He Hn. destruct (exec_path_gen _ _ _ He) as (_ & _ & _ & [E|[E _]] & _); congruence. Qed.

  Lemma exec_orphan : forall s s' c, no_orphan_savepoint s -> exec_path s = (s', c) -> no_orphan_savepoint s'.
  Proof.
    intros s s' c HN H Ht. destruct (exec_path_gen _ _ _ H) as (En & _ & _ & [E|[_ E]] & _); [|congruence].
    rewrite En. apply HN. congruence.
  Qed.

  Lemma begin_orphan : forall s s' c, no_orphan_savepoint s -> begin_op faults lst s = (s', c) -> no_orphan_savepoint s'.
  Proof.
    intros s s' c HN H. unfold begin_op in H. destruct (s_txn s) eqn:Et; try (injection H as <- _; exact HN).
    destruct (ensure faults lst s) as [s1 e] eqn:He. destruct (ensure_frame _ _ _ _ _ He) as (A & B & _).
    destruct e; injection H as <- _; intros X; cbn in X; [|discriminate]. rewrite B. apply HN. exact Et.
  Qed.

  Theorem step_orphan : forall o s s' c, no_orphan_savepoint s -> step o s = (s', c) -> no_orphan_savepoint s'.
  Proof.
    intros o s s' c HN H. destruct o; cbn [Disconnect.step] in H.
    - eapply exec_orphan; eauto.
    - eapply begin_orphan; eauto.
    - unfold commit_op in H. destruct (s_txn s) eqn:Et; try (injection H as <- _; exact HN).
      destruct (s_cur s) as [[cid st0]|]; [|injection H as <- _; intros X; reflexivity].
      destruct (call_or_handle faults lst K_COMMIT cid s) as [s1 c1]. destruct c1; injection H as <- _; intros X; reflexivity.
    - unfold rollback_op in H. destruct (s_txn s) eqn:Et; try (injection H as <- _; try exact HN; intros X; reflexivity).
      destruct (s_cur s) as [[cid st0]|]; [|injection H as <- _; intros X; reflexivity].
      destruct (call_or_handle faults lst K_ROLLBACK cid s) as [s1 c1]. destruct c1; injection H as <- _; intros X; reflexivity.
    - unfold savepoint_op in H.
      destruct (match s_txn s with TNone => begin_op faults lst s | _ => (s, ROk) end) as [s1 c1] eqn:Hb.
      assert (HN1 : no_orphan_savepoint s1).
      { destruct (s_txn s); [eapply begin_orphan; eauto|injection Hb as <- _; exact HN|injection Hb as <- _; exact HN]. }
      destruct c1; try (injection H as <- _; exact HN1).
      destruct (exec_path s1) as [s2 c2] eqn:He. pose proof (exec_orphan _ _ _ HN1 He) as HN2.
      destruct (exec_path_gen _ _ _ He) as (_ & _ & Ok & _).
      destruct c2; injection H as <- _; try exact HN2.
      intros X. cbn in X. destruct (Ok eq_refl) as [_ Y]. congruence.
    - unfold rollback_sp_op in H. destruct (s_nested s) as [|a rest] eqn:En; [injection H as <- _; exact HN|].
      assert (Ht : s_txn s <> TNone) by (intros X; specialize (HN X); congruence).
      destruct (a && _ && _).
      + destruct (exec_path s) as [s1 c1] eqn:He. injection H as <- _. intros X. cbn in X.
        exfalso. exact (exec_keeps_txn _ _ _ He Ht X).
      + injection H as <- _. intros X. cbn in X. congruence.
    - unfold release_sp_op in H. destruct (s_nested s) as [|[|] rest] eqn:En; try (injection H as <- _; exact HN).
      assert (Ht : s_txn s <> TNone) by (intros X; specialize (HN X); congruence).
      destruct (exec_path s) as [s1 c1] eqn:He.
      destruct c1; injection H as <- _; intros X; cbn in X; exfalso; exact (exec_keeps_txn _ _ _ He Ht X).
  Qed.

  Lemma final_orphan : forall h s, no_orphan_savepoint s -> no_orphan_savepoint (final faults lst h s).
  Proof.
    induction h as [|o h IH]; intros s HN; [exact HN|]. cbn [final].
    destruct (step o s) as [s1 c] eqn:Hs. cbn [fst]. apply IH. eapply step_orphan; eauto.
  Qed.

  (* unguarded, for every reachable state: invalidated, no transaction in progress, the database back *)
  Theorem reconnects_when_no_transaction : forall w h s, s = final faults lst h (init w) ->
    s_cur s = None -> s_txn s = TNone ->
    faults (S (s_n s)) = FOk -> faults (S (S (s_n s))) = FOk ->
    exists s', step OExec s = (s', ROk) /\ invalidated s' = false /\ in_txn s' = true.
  Proof.
    intros w h s -> Hc Ht F1 F2. apply reconnects_when_unblocked; auto.
    rewrite (final_orphan h (init w) (fun _ => eq_refl) Ht). reflexivity.
  Qed.

  Theorem reconnects_after_rollback : forall s, blocked s ->
    faults (S (s_n s)) = FOk -> faults (S (S (s_n s))) = FOk ->
    exists s', step OExec (fst (step ORollback s)) = (s', ROk) /\ invalidated s' = false /\
               s_log (fst (step ORollback s)) = s_log s.
  Proof.
    intros s Hb F1 F2. rewrite (rollback_unblocks s Hb). cbn [fst].
    destruct Hb as [Hc Ht].
    destruct (reconnects_when_unblocked (set_txn s TNone [])) as (s' & H1 & H2 & _); auto.
    exists s'. auto.
  Qed.

  (* ---- T5: errors not classified as disconnects leave the pool untouched ---- *)
  Definition same_pool (s s' : st) : Prop :=
    s_idle s' = s_idle s /\ s_invt s' = s_invt s /\ s_cur s' = s_cur s /\ s_nconn s' = s_nconn s /\
    s_clock s' = s_clock s.

  Lemma coh_same_pool : forall k cid st0 s s' c, s_cur s = Some (cid, st0) ->
    call_or_handle faults lst k cid s = (s', c) -> is_disc c = false -> same_pool s s'.
  Proof.
    intros k cid st0 s s' c Hc H Hn.
    destruct (coh_spec faults lst _ _ _ _ _ _ Hc H) as [(_ & -> & _)|[(_ & _ & -> & _)|(_ & E & _)]]; [| |congruence];
      unfold same_pool; cbn; auto.
  Qed.

  Lemma exec_live_same_pool : forall s s' c, s_cur s <> None -> exec_path s = (s', c) -> is_disc c = false -> same_pool s s'.
  Proof.
    intros s s' c Hc H Hn. destruct (s_cur s) as [[cid st0]|] eqn:E; [|congruence].
    rewrite (exec_live s cid st0 E) in H. destruct (inactive_check s).
    - injection H as <- _. unfold same_pool. auto.
    - destruct (autobegin_fields s) as (F1 & _ & _ & _ & F5 & F6 & F7 & F8 & _).
      assert (Hc2 : s_cur (autobegin s) = Some (cid, st0)) by congruence.
      destruct (coh_same_pool _ _ _ _ _ _ Hc2 H Hn) as (P1 & P2 & P3 & P4 & P5).
      unfold same_pool. repeat split; congruence.
  Qed.

  Theorem non_disconnect_leaves_pool_untouched : forall o s s' c,
    s_cur s <> None -> step o s = (s', c) -> is_disc c = false -> same_pool s s'.
  Proof.
    intros o s s' c Hc H Hn.
    assert (Refl : same_pool s s) by (unfold same_pool; auto).
    destruct o; cbn [Disconnect.step] in H.
    - eapply exec_live_same_pool; eauto.
    - unfold begin_op in H. destruct (s_txn s); [|injection H as <- _; exact Refl|injection H as <- _; exact Refl].
      rewrite (ensure_live faults lst s Hc) in H. injection H as <- _. exact Refl.
    - unfold commit_op in H. destruct (s_txn s); try (injection H as <- _; exact Refl).
      destruct (s_cur s) as [[cid st0]|] eqn:E; [|congruence].
      destruct (call_or_handle faults lst K_COMMIT cid s) as [s1 c1] eqn:Hcoh.
      assert (is_disc c1 = false) by (destruct c1; injection H as _ <-; (reflexivity || exact Hn)).
      pose proof (coh_same_pool _ _ _ _ _ _ E Hcoh H0) as P.
      destruct c1; injection H as <- _; exact P.
    - unfold rollback_op in H. destruct (s_txn s); try (injection H as <- _; exact Refl).
      destruct (s_cur s) as [[cid st0]|] eqn:E; [|congruence].
      destruct (call_or_handle faults lst K_ROLLBACK cid s) as [s1 c1] eqn:Hcoh.
      assert (is_disc c1 = false) by (destruct c1; injection H as _ <-; (reflexivity || exact Hn)).
      pose proof (coh_same_pool _ _ _ _ _ _ E Hcoh H0) as P.
      destruct c1; injection H as <- _; exact P.
    - unfold savepoint_op in H.
      assert (Hb : exists s1, (match s_txn s with TNone => begin_op faults lst s | _ => (s, ROk) end) = (s1, ROk) /\
                       same_pool s s1 /\ s_cur s1 <> None).
      { destruct (s_txn s) eqn:Et; [|exists s; auto|exists s; auto].
        unfold begin_op. rewrite Et, (ensure_live faults lst s Hc). eexists. split; [reflexivity|]. split; [exact Refl|exact Hc]. }
      destruct Hb as (s1 & Hb1 & P1 & Hc1). rewrite Hb1 in H.
      destruct (exec_path s1) as [s2 c2] eqn:He.
      assert (is_disc c2 = false) by (destruct c2; injection H as _ <-; (reflexivity || exact Hn)).
      pose proof (exec_live_same_pool _ _ _ Hc1 He H0) as P2.
      assert (P : same_pool s s2) by (unfold same_pool in *; intuition congruence).
      destruct c2; injection H as <- _; exact P.
    - unfold rollback_sp_op in H. destruct (s_nested s) as [|a rest]; [injection H as <- _; exact Refl|].
      destruct (a && _ && _); [|injection H as <- _; exact Refl].
      destruct (exec_path s) as [s1 c1] eqn:He. injection H as <- <-.
      exact (exec_live_same_pool _ _ _ Hc He Hn).
    - unfold release_sp_op in H. destruct (s_nested s) as [|[|] rest]; try (injection H as <- _; exact Refl).
      destruct (exec_path s) as [s1 c1] eqn:He.
      assert (is_disc c1 = false) by (destruct c1; injection H as _ <-; (reflexivity || exact Hn)).
      pose proof (exec_live_same_pool _ _ _ Hc He H0) as P.
      destruct c1; injection H as <- _; exact P.
  Qed.
End S.
