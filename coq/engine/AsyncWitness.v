(* C29 - what the single-cancellation theorems do NOT cover: a second cancellation delivered while
   terminate() waits on its shielded graceful close.  terminate() then force-closes while the graceful
   close is still running; on aiosqlite the two race (Connection.stop() is queued twice, the shielded
   task never finishes, a rollback issued meanwhile fails with "Connection closed").  The model flags
   such a run as outside its domain ([oom]). *)
From Coq Require Import List ZArith Bool Arith Lia.
Import ListNotations.
From SAV.engine Require Import Async AsyncConn AsyncExec AsyncWorld AsyncSafe.
Open Scope Z_scope.

Definition cf2 : cfg := mkcfg 2 0.
Definition w_ops : list op := [OpIns 1; OpSel].
(* eleven uneventful suspensions (connect, 3 x on-connect, cursor, BEGIN: cursor/execute/close, INSERT:
   execute/close, the cursor of the SELECT), then: cancelled in the SELECT, cancelled in terminate() *)
Definition w_cs : list cdec := repeat N 11 ++ [C true; C true].

Lemma double_cancel_outside_model :
  ncancel w_cs = 2%nat /\
  let '(r, w', _, _) := rl (block cf2 async_api SCtx w_ops (init_pst cf2)) init_world w_cs in
  fst r = Raise ECancelled /\ oom (snd r) = true.
Proof. split; [reflexivity|]. vm_compute. split; reflexivity. Qed.

(* ... while with one cancellation the same program ends safe, whatever the position (instance of block_safe) *)
Lemma cf2_ok : Done cf2 (init_pst cf2) init_world /\ 1 <= psize cf2.
Proof. split; [apply init_done|]; vm_compute; discriminate. Qed.
