(* C29 - what the single-cancellation theorem does NOT cover: a second cancellation, delivered while
   terminate() waits on its shielded graceful close, leaves a closed DBAPI connection in the pool *)
From Coq Require Import List ZArith Bool Arith Lia.
Import ListNotations.
From SAV.engine Require Import Async AsyncConn AsyncExec AsyncWorld AsyncSafe.
Open Scope Z_scope.

Definition dead_pooled (s : pst) (w : world) : Prop :=
  exists r c, In r (q s) /\ r_conn r = Some c /\ d_open (getc w c) = false.

Lemma dead_pooled_not_done cf s w : dead_pooled s w -> ~ Done cf s w.
Proof.
  intros (r & c & Hr & Hc & Ho) D. destruct D as [_ _ _ Dq _ _ _ _].
  unfold qok in Dq. rewrite Forall_forall in Dq. destruct (Dq r Hr) as [_ B]. rewrite Hc in B.
  destruct B as [_ B]. congruence.
Qed.

Definition cf2 : cfg := mkcfg 2 0.
Definition w_ops : list op := [OpIns 1; OpSel].
(* ten uneventful suspensions (connect, 3 x on-connect, cursor, BEGIN: cursor/execute/close, INSERT:
   execute/close), the cursor of the SELECT, then: cancelled in the SELECT, cancelled in terminate() *)
Definition w_cs : list cdec := repeat N 11 ++ [C true; C true].

Lemma double_cancel_witness :
  ncancel w_cs = 2%nat /\
  let '(r, w', _, _) := rl (block cf2 async_api SCtx w_ops (init_pst cf2)) init_world w_cs in
  fst r = Raise ECancelled /\ dead_pooled (snd r) w'.
Proof.
  split; [reflexivity|]. vm_compute. split; [reflexivity|].
  exists (mkrec (Some 0%nat) false), 0%nat. cbn. auto.
Qed.
