(* executable entry point for the correspondence check of C27 *)
From Coq Require Import List Arith ZArith Bool.
Import ListNotations.
From SAV.base Require Import Tree.
From SAV.engine Require Import Disconnect.

Definition d_op (t : tree) : option op :=
  match t with
  | I 0 => Some OExec | I 1 => Some OBegin | I 2 => Some OCommit | I 3 => Some ORollback
  | I 4 => Some OSavepoint | I 5 => Some ORollbackSp | I 6 => Some OReleaseSp
  | _ => None
  end%Z.

Definition d_fault (t : tree) : option (nat * fault) :=
  match t with
  | L [k; I 1] => match as_nat k with Some k => Some (k, FErr) | None => None end
  | L [k; I 2] => match as_nat k with Some k => Some (k, FDisc) | None => None end
  | _ => None
  end%Z.

Fixpoint fault_at (l : list (nat * fault)) (n : nat) : fault :=
  match l with
  | [] => FOk
  | (k, f) :: r => if Nat.eqb k n then f else fault_at r n
  end.

Definition d_ob (t : tree) : option (option bool) :=
  match t with I 0 => Some None | I 1 => Some (Some true) | I 2 => Some (Some false) | _ => None end%Z.
Definition d_lbeh (t : tree) : option lbeh :=
  match t with
  | L [d; p; o] =>
      match d_ob d, d_ob p, as_nat o with
      | Some d, Some p, Some o => Some (mkl d p o)
      | _, _, _ => None
      end
  | _ => None
  end.

Definition code_z (c : code) : Z :=
  match c with ROk => 0 | RErr => 1 | RDisc => 2 | RPending => 3 | RInvalidReq => 5 | RCustom _ => 6 end%Z.

Fixpoint e_run (s : st) (l : list (code * st)) : list tree :=
  match l with
  | [] => []
  | (c, s') :: r =>
      L [I (code_z c); of_bool (invalidated s');
         I (match s_txn s' with TNone => 0 | TActive => 1 | TInactive => 2 end)%Z;
         I (match s_nested s' with [] => 0 | true :: _ => 1 | false :: _ => 2 end)%Z;
         of_list (fun kc => L [of_nat (fst kc); of_nat (snd kc)]) (calls_since s s')] :: e_run s' r
  end.

(* listeners: L [is_disconnect; invalidate_pool; ending] with 0 untouched / 1 True / 2 False and ending 0 return None,
   1 return an exception, 2 raise
   input  L [history; faults; listeners; idle]   output: per operation L [code; invalidated; transaction state; current savepoint (0 none, 1 active, 2 inactive); DBAPI calls] *)
Definition run_case (t : tree) : tree :=
  match t with
  | L [h; fs; l; w] =>
      match as_list_of d_op h, as_list_of d_fault fs, as_list_of d_lbeh l, as_nat w with
      | Some h, Some fs, Some l, Some w => L (e_run (init w) (run (fault_at fs) l h (init w)))
      | _, _, _, _ => bad_input
      end
  | _ => bad_input
  end.
