(* executable entry point for the correspondence check of C26 *)
From Coq Require Import List ZArith Bool Arith.
Import ListNotations.
From SAV.base Require Import Tree.
From SAV.engine Require Import PoolSeq.
Open Scope Z_scope.

Definition dec_kind (z : Z) : option pkind :=
  if z =? 0 then Some KQueue else if z =? 1 then Some KNull else if z =? 2 then Some KStatic
  else if z =? 3 then Some KSingleton else if z =? 4 then Some KAssertion else None.
Definition dec_reset (z : Z) : option rstyle :=
  if z =? 0 then Some RRollback else if z =? 1 then Some RCommit else if z =? 2 then Some RNone else None.

Definition dec_cfg (t : tree) : option cfg :=
  match t with
  | L [I k; I ps; I mo; I lf; I rc; I pp; I li; I rs; I tk] =>
      match dec_kind k, dec_reset rs with
      | Some k', Some rs' =>
          Some (mkcfg k' ps mo (negb (lf =? 0)) rc (negb (pp =? 0)) (negb (li =? 0)) rs' (negb (tk =? 0)))
      | _, _ => None
      end
  | _ => None
  end.

Definition dec_op (t : tree) : option (op * Z) :=
  match t with
  | L [I o; I a; I dt] =>
      if (a <? 0) || (dt <? 0) then None else
      let h := Z.to_nat a in
      if o =? 0 then Some (OConnect, dt) else if o =? 1 then Some (OClose h, dt)
      else if o =? 2 then Some (OInvalidate h false, dt) else if o =? 3 then Some (OInvalidate h true, dt)
      else if o =? 4 then Some (ODetach h, dt) else if o =? 5 then Some (ODel h, dt)
      else if o =? 6 then Some (OTick, dt) else if o =? 7 then Some (OPoolInvalidate h, dt)
      else None
  | _ => None
  end.

Definition exn_code (e : exn) : Z :=
  match e with
  | ExcE => 1 | BaseE => 2 | TimeoutE => 3 | InvReqE => 4 | AssertE => 5 | DiscE => 6 | InvPoolE => 6
  | SkipE => 9 | InternalE => 98 | FuelE => 99
  end.

Definition enc_extra (cf : cfg) (s : st) : tree :=
  match kind cf with
  | KQueue => L [I (checkedout cf s); I (checkedin s); I (overflow_report cf s)]
  | KAssertion => L [I (if as_out s then 1 else 0)]
  | _ => L []
  end.

(* observation of one operation: result code, connection obtained, new fairy?, external calls made
   (kind * 1000 + connection + 1 each), records in use, the pool's own counters *)
Definition obs_step (cf : cfg) (nf0 : nat) (x : res Z) (s : st) : tree :=
  let '(code, got) := match x with Ok g => (0, g) | Raise e => (exn_code e, -1) end in
  let is_new := match x with Ok g => if (0 <=? g) || (g =? -2) then negb (Nat.eqb (nfairies s) nf0) else false | _ => false end in
  L [I code; I got; of_bool is_new; L (map (fun kc => I (fst kc * 1000 + snd kc + 1)) (trace s)); I (Z.of_nat (inuse_count s));
     enc_extra cf s].

Fixpoint run_obs (cf : cfg) (ops : list (op * Z)) (s : st) (acc : list tree) : list tree * st :=
  match ops with
  | [] => (rev acc, s)
  | (o, dt) :: r => let (x, s1) := step cf o dt s in run_obs cf r s1 (obs_step cf (nfairies s) x s1 :: acc)
  end.

(* records the pool keeps (idle or not) *)
Definition stored (cf : cfg) (s : st) : list nat :=
  match kind cf with
  | KQueue => q s
  | KNull => []
  | KStatic => match static s with Some r => [r] | None => [] end
  | KSingleton => match sg_rec s with Some r => [r] | None => [] end
  | KAssertion => match as_conn s with Some r => [r] | None => [] end
  end.
Definition has_dbc (o : option nat) (c : nat) : bool := match o with Some d => Nat.eqb d c | None => false end.
Definition conn_idle (cf : cfg) (s : st) (c : nat) : bool :=
  existsb (fun r => negb (in_use s r) && has_dbc (r_dbc s r) c) (stored cf s).
Definition conn_held (s : st) (c : nat) : bool :=
  existsb (fun h => match h with Some f => has_dbc (f_dbc s f) c | None => false end) (holders s).
Definition conns_where (p : nat -> bool) (s : st) : tree :=
  L (map (fun c => I (Z.of_nat c)) (filter p (seq 0 (nconns s)))).

(* input  L [cfg; L ops; L faults]
   output L [L per-op observations; L close-call counts per DBAPI connection; idle; held; detached] *)
Definition run_case (t : tree) : tree :=
  match t with
  | L [tc; L tops; tf] =>
      match dec_cfg tc, all_some (map dec_op tops), as_list_of as_Z tf with
      | Some cf, Some ops, Some fl =>
          let (out, s) := run_obs cf ops (init cf fl) [] in
          L [L out; L (map (fun c => I (c_nclose s c)) (seq 0 (nconns s)));
             conns_where (conn_idle cf s) s; conns_where (conn_held s) s; conns_where (c_det s) s]
      | _, _, _ => bad_input
      end
  | _ => bad_input
  end.
